import TruthModel.Model.Ids
/-
C20 — a name used in a script compiles to the id its target has in the output file.
Theorems about `Model/Ids.lean`, for all inputs of the model.
-/
namespace TruthModel.C20
open TruthModel TruthModel.Ids

/-! ## sprites: compile-time constant = id stored by the writer -/

theorem ofNat_succ (k : Nat) : Int32.ofNat (k + 1) = Int32.ofNat k + 1 := by
  rw [Int32.ofNat_add]; rfl

theorem eval_seqExpr (env : Name → Option Int32) (e : IdExpr) (k : Nat) (b : Int32)
    (h : e.eval env = some b) : (seqExpr e k).eval env = some (b + Int32.ofNat k) := by
  simp [seqExpr, IdExpr.eval, h]

/-- invariant of the two numbering loops: iterator state `(base, k)` of the compile-time pass and
counter `next` of the writer describe the same number. -/
theorem gather_eq_write (env : Name → Option Int32) :
    ∀ (sprites : List SpriteDef) (base : IdExpr) (k : Nat) (b : Int32) (next : UInt32) (ids : List (Option UInt32)),
      base.eval env = some b → (b + Int32.ofNat k).toUInt32 = next → explicitIds env sprites = some ids →
      (gatherSprites base k sprites).map (fun p => (p.2.eval env).map Int32.toUInt32)
        = (writeSprites next ids).map some := by
  intro sprites
  induction sprites with
  | nil =>
    intro base k b next ids _ _ hx
    simp [explicitIds] at hx; subst hx; simp [gatherSprites, writeSprites]
  | cons s rest ih =>
    intro base k b next ids hb hn hx
    simp only [explicitIds] at hx
    cases hid : s.id with
    | none =>
      simp only [explicitId, hid] at hx
      cases hr : explicitIds env rest with
      | none => simp [hr] at hx
      | some r =>
        simp [hr] at hx; subst hx
        have hstep : (b + Int32.ofNat (k + 1)).toUInt32 = next + 1 := by
          rw [ofNat_succ, ← Int32.add_assoc, Int32.toUInt32_add, hn]; rfl
        have := ih base (k + 1) b (next + 1) r hb hstep hr
        simp [gatherSprites, hid, writeSprites, eval_seqExpr env base k b hb, hn, this]
    | some e =>
      simp only [explicitId, hid] at hx
      cases he : e.eval env with
      | none => simp [he] at hx
      | some v =>
        cases hr : explicitIds env rest with
        | none => simp [he, hr] at hx
        | some r =>
          simp [he, hr] at hx; subst hx
          have hstep : (v + Int32.ofNat 1).toUInt32 = v.toUInt32 + 1 := by
            rw [Int32.toUInt32_add]; rfl
          have := ih e 1 v (v.toUInt32 + 1) r he hstep hr
          have h0 : (seqExpr e 0).eval env = some v := by
            have := eval_seqExpr env e 0 v he
            simpa using this
          simp [gatherSprites, hid, writeSprites, h0, this]

theorem explicitIds_flatten (env : Name → Option Int32) :
    ∀ (entries : List (List SpriteDef)) (idss : List (List (Option UInt32))),
      explicitIdsEntries env entries = some idss → explicitIds env entries.flatten = some idss.flatten := by
  intro entries
  induction entries with
  | nil => intro idss h; simp [explicitIdsEntries] at h; subst h; simp [explicitIds]
  | cons e rest ih =>
    intro idss h
    simp only [explicitIdsEntries] at h
    cases he : explicitIds env e with
    | none => simp [he] at h
    | some a =>
      cases hr : explicitIdsEntries env rest with
      | none => simp [he, hr] at h
      | some r =>
        simp [he, hr] at h; subst h
        have hr' := ih r hr
        simp only [List.flatten_cons]
        exact explicitIds_append env e rest.flatten a r.flatten he hr'
where
  explicitIds_append (env : Name → Option Int32) : ∀ (x y : List SpriteDef) (a b : List (Option UInt32)),
      explicitIds env x = some a → explicitIds env y = some b → explicitIds env (x ++ y) = some (a ++ b) := by
    intro x
    induction x with
    | nil => intro y a b ha hb; simp [explicitIds] at ha; subst ha; simpa using hb
    | cons s xs ih =>
      intro y a b ha hb
      simp only [explicitIds] at ha
      cases hs : explicitId env s with
      | none => simp [hs] at ha
      | some v =>
        cases hx : explicitIds env xs with
        | none => simp [hs, hx] at ha
        | some r =>
          simp [hs, hx] at ha; subst ha
          simp [explicitIds, hs, ih y r b hx hb]

theorem writeSprites_append (next : UInt32) (a b : List (Option UInt32)) :
    writeSprites next (a ++ b) = writeSprites next a ++ writeSprites (nextAfter next a) b := by
  induction a generalizing next with
  | nil => simp [writeSprites, nextAfter]
  | cons x xs ih => simp [writeSprites, nextAfter, ih]

/-- the counter persisting across entries is the same as numbering the concatenation -/
theorem writeEntries_flatten (next : UInt32) (idss : List (List (Option UInt32))) :
    (writeEntries next idss).flatten = writeSprites next idss.flatten := by
  induction idss generalizing next with
  | nil => simp [writeEntries, writeSprites]
  | cons e rest ih => simp [writeEntries, writeSprites_append, ih]

/-- **C20, sprites.** For every list of entries and every value assignment of the names used in
`id:` expressions: the compile-time constant of each sprite (what `ins_N(spriteName)` is compiled
to) is the id the writer stores for that sprite, for any mix of explicit (also decreasing,
duplicate, wrapping) and implicit ids, across entries. -/
theorem sprite_const_eq_written (env : Name → Option Int32) (entries : List (List SpriteDef))
    (written : List (List UInt32)) (h : writtenIds env entries = some written) :
    (constIds env entries).map (fun v => v.map Int32.toUInt32) = written.flatten.map some := by
  simp only [writtenIds] at h
  cases hx : explicitIdsEntries env entries with
  | none => simp [hx] at h
  | some idss =>
    simp [hx] at h; subst h
    rw [writeEntries_flatten]
    have := gather_eq_write env entries.flatten (.lit 0) 0 0 0 idss.flatten (by simp [IdExpr.eval]) (by decide)
      (explicitIds_flatten env entries idss hx)
    simp only [constIds, spriteExprs, List.map_map]
    exact this

/-- explicit ids are stored as given, implicit ids continue from the previous sprite (spec of the writer) -/
theorem writeSprites_spec (next : UInt32) (ids : List (Option UInt32)) (i : Nat) (hi : i < ids.length) :
    (writeSprites next ids)[i]? =
      some (match ids[i] with
        | some v => v
        | none => match i with
          | 0 => next
          | j + 1 => ((writeSprites next ids)[j]?.getD 0) + 1) := by
  induction ids generalizing next i with
  | nil => simp at hi
  | cons x xs ih =>
    cases i with
    | zero => cases x <;> simp [writeSprites]
    | succ j =>
      have hj : j < xs.length := by simpa using hi
      simp only [writeSprites, List.getElem?_cons_succ, List.getElem_cons_succ]
      rw [ih (x.getD next + 1) j hj]
      cases hxs : xs[j] with
      | some v => simp
      | none =>
        cases j with
        | zero => simp
        | succ m => simp

/-- reader then writer: `strip_unnecessary_sprite_ids` loses nothing -/
theorem strip_then_write (next : UInt32) (ids : List UInt32) :
    writeSprites next (stripIds next ids) = ids := by
  induction ids generalizing next with
  | nil => simp [stripIds, writeSprites]
  | cons a rest ih =>
    by_cases h : a = next
    · subst h; simp [stripIds, writeSprites, ih]
    · simp [stripIds, writeSprites, h, ih]

example : writtenIds (fun _ => none)
    [[⟨"a", none⟩, ⟨"b", some (.add (.lit 3) (.lit 4))⟩, ⟨"c", none⟩, ⟨"d", some (.lit (-1))⟩], [⟨"e", none⟩, ⟨"f", some (.lit 7)⟩]]
    = some [[0, 7, 8, 4294967295], [0, 7]] := by decide

/-! ## positions of names -/

theorem indexOf?_some {n : Name} {l : List Name} {i : Nat} (h : indexOf? n l = some i) : l[i]? = some n := by
  induction l generalizing i with
  | nil => simp [indexOf?] at h
  | cons x xs ih =>
    simp only [indexOf?] at h
    by_cases hx : x = n
    · simp [hx] at h; subst h; simp [hx]
    · simp [hx] at h
      obtain ⟨j, hj, rfl⟩ := h
      simpa using ih hj

theorem indexOf?_none {n : Name} {l : List Name} (h : indexOf? n l = none) : n ∉ l := by
  induction l with
  | nil => simp
  | cons x xs ih =>
    simp only [indexOf?] at h
    by_cases hx : x = n
    · simp [hx] at h
    · simp [hx] at h
      simp only [List.mem_cons, not_or]
      exact ⟨fun e => hx e.symm, ih h⟩

theorem indexOf?_of_mem {n : Name} {l : List Name} (h : n ∈ l) : ∃ i, indexOf? n l = some i := by
  cases hi : indexOf? n l with
  | none => exact absurd h (indexOf?_none hi)
  | some i => exact ⟨i, rfl⟩

/-- in a list without repetitions the constant of a name is *the* position of the name -/
theorem indexOf?_of_get {l : List Name} (hnd : l.Nodup) {i : Nat} {n : Name} (h : l[i]? = some n) :
    indexOf? n l = some i := by
  induction l generalizing i with
  | nil => simp at h
  | cons x xs ih =>
    rw [List.nodup_cons] at hnd
    cases i with
    | zero => simp at h; simp [indexOf?, h]
    | succ j =>
      simp at h
      have hmem : n ∈ xs := List.mem_of_getElem? h
      have hx : x ≠ n := fun e => hnd.1 (e ▸ hmem)
      simp [indexOf?, hx, ih hnd.2 h]

theorem hasDup_false {l : List Name} (h : hasDup l = false) : l.Nodup := by
  induction l with
  | nil => simp
  | cons x xs ih =>
    simp only [hasDup, Bool.or_eq_false_iff] at h
    rw [List.nodup_cons]
    refine ⟨?_, ih h.2⟩
    intro hm
    have : xs.contains x = true := List.contains_iff_mem.mpr hm
    rw [this] at h
    exact absurd h.1 (by simp)

/-! ## ANM scripts -/

theorem gatherScriptIds_ok : ∀ (l : List (Name × Option Int32)) (next : Int32) (seen : List Name) (ids : List (Name × Int32)),
    gatherScriptIds next seen l = .ok ids →
      ids.map (·.1) = l.map (·.1) ∧ (l.map (·.1)).Nodup ∧ ∀ x ∈ l.map (·.1), x ∉ seen := by
  intro l
  induction l with
  | nil => intro next seen ids h; simp [gatherScriptIds] at h; subst h; simp
  | cons p rest ih =>
    intro next seen ids h
    obtain ⟨n, num⟩ := p
    simp only [gatherScriptIds] at h
    split at h
    · simp at h
    · split at h
      · simp at h
      · rename_i hmax hseen
        cases hr : gatherScriptIds (num.getD next + 1) (n :: seen) rest with
        | err c => simp [hr] at h
        | panic c => simp [hr] at h
        | ok r =>
          simp [hr] at h; subst h
          obtain ⟨h1, h2, h3⟩ := ih _ _ _ hr
          have hns : n ∉ seen := by
            intro hm; exact hseen (List.contains_iff_mem.mpr hm)
          refine ⟨by simp [h1], ?_, ?_⟩
          · simp only [List.map_cons, List.nodup_cons]
            refine ⟨?_, h2⟩
            intro hm
            have := h3 n hm
            simp at this
          · intro x hx
            simp only [List.map_cons, List.mem_cons] at hx
            rcases hx with rfl | hx
            · exact hns
            · have := h3 x hx
              simp only [List.mem_cons, not_or] at this
              exact this.2

/-- the number stored in the script table: explicit, else previous + 1 (spec of `gather_script_ids`) -/
theorem gatherScriptIds_numbers : ∀ (l : List (Name × Option Int32)) (next : Int32) (seen : List Name) (ids : List (Name × Int32)),
    gatherScriptIds next seen l = .ok ids → ∀ i (hi : i < l.length),
      (ids.map (·.2))[i]? = some (match l[i].2 with
        | some v => v
        | none => match i with
          | 0 => next
          | j + 1 => ((ids.map (·.2))[j]?.getD 0) + 1) := by
  intro l
  induction l with
  | nil => intro next seen ids _ i hi; simp at hi
  | cons p rest ih =>
    intro next seen ids h i hi
    obtain ⟨n, num⟩ := p
    simp only [gatherScriptIds] at h
    split at h
    · simp at h
    · split at h
      · simp at h
      · cases hr : gatherScriptIds (num.getD next + 1) (n :: seen) rest with
        | err c => simp [hr] at h
        | panic c => simp [hr] at h
        | ok r =>
          simp [hr] at h; subst h
          cases i with
          | zero => cases num <;> simp
          | succ j =>
            have hj : j < rest.length := by simpa using hi
            have := ih _ _ _ hr j hj
            simp only [List.map_cons, List.getElem?_cons_succ, List.getElem_cons_succ]
            rw [this]
            cases hnum : rest[j].2 with
            | some v => simp
            | none =>
              cases j with
              | zero => simp
              | succ m => simp

/-- the last representable script number has no successor: it is an error, not a crash -/
theorem gatherScriptIds_max_is_error (n : Name) (next : Int32) (seen : List Name) (rest : List (Name × Option Int32)) :
    gatherScriptIds next seen ((n, some Int32.maxValue) :: rest) = .err eScriptTooLarge := by
  simp [gatherScriptIds]

/-- `gather_script_ids` never panics -/
theorem gatherScriptIds_no_panic : ∀ (l : List (Name × Option Int32)) (next : Int32) (seen : List Name),
    (gatherScriptIds next seen l).isPanic = false := by
  intro l
  induction l with
  | nil => intro next seen; simp [gatherScriptIds, Outcome.isPanic]
  | cons p rest ih =>
    intro next seen
    obtain ⟨n, num⟩ := p
    simp only [gatherScriptIds]
    split
    · simp [Outcome.isPanic]
    · split
      · simp [Outcome.isPanic]
      · have := ih (num.getD next + 1) (n :: seen)
        cases hr : gatherScriptIds (num.getD next + 1) (n :: seen) rest with
        | ok r => simp [Outcome.isPanic]
        | err c => simp [Outcome.isPanic]
        | panic c => simp [hr, Outcome.isPanic] at this

theorem groupScripts_flatten : ∀ (items : List AnmItem) (cur : Option (List (Name × Int32))) (ids : List (Name × Int32))
    (gs : List (List (Name × Int32))), groupScripts cur items ids = some gs →
      gs.flatten.map (·.1) = (cur.getD []).map (·.1) ++ (anmScripts items).map (·.1) := by
  intro items
  induction items with
  | nil =>
    intro cur ids gs h
    cases cur <;> simp [groupScripts] at h <;> subst h <;> simp [anmScripts]
  | cons it rest ih =>
    intro cur ids gs h
    cases it with
    | entry sp =>
      simp only [groupScripts] at h
      cases hr : groupScripts (some []) rest ids with
      | none => simp [hr] at h
      | some gs' =>
        have := ih _ _ _ hr
        cases cur with
        | none => simp [hr] at h; subst h; simpa [anmScripts] using this
        | some g => simp [hr] at h; subst h; simp [anmScripts] at this ⊢; exact this
    | script n num refs =>
      cases cur with
      | none => simp [groupScripts] at h
      | some g =>
        simp only [groupScripts] at h
        have := ih _ _ _ h
        simp [anmScripts] at this ⊢
        exact this
    | const n e =>
      simp only [groupScripts] at h
      have := ih _ _ _ h
      simpa [anmScripts] using this

/-! ## ANM files: what a successful compile guarantees -/

theorem compileAnm_ok {items : List AnmItem} {out : AnmOut} (h : compileAnm items = .ok out) :
    ∃ scriptIds, gatherScriptIds 0 [] (anmScripts items) = .ok scriptIds ∧
      firstErr (anmResolutions (anmScope items) items) = none ∧
      anmStable items = true ∧ equalityCheck [] (anmTables items).sprites = true ∧
      groupScripts none items scriptIds = some out.scripts ∧
      writtenIds ((anmTables items).env (anmScriptNames items)) (anmEntries items) = some out.sprites ∧
      out.refs = (anmRefs items).map (fun rs => rs.map (refValue (anmScope items) (anmTables items) (anmScriptNames items))) := by
  unfold compileAnm at h
  simp only at h
  split at h
  · simp at h
  · split at h
    · simp at h
    · simp at h
    · rename_i scriptIds hs
      split at h
      · simp at h
      · rename_i hf
        split at h
        · simp at h
        · rename_i hst
          split at h
          · simp at h
          · rename_i heq
            split at h
            · simp at h
            · rename_i groups hg
              split at h
              · simp at h
              · split at h
                · simp at h
                · rename_i written hw
                  simp at h
                  subst h
                  refine ⟨scriptIds, hs, hf, ?_, ?_, hg, hw, rfl⟩
                  · simpa using hst
                  · simpa using heq

theorem refValue_of_resolve (sc : Scope) (t : Tables) (scripts : List Name) (r : Ref) (tg : Target)
    (h : sc.resolveRef r = .ok tg) : refValue sc t scripts r = targetValue t scripts tg := by
  simp [refValue, h]

/-- **C20, ANM scripts.** In a file that compiles, the script table of the output (entries in
order, scripts in table order) lists the scripts in source order, names are unique, and a reference
that resolves to script `n` is compiled to *the* position `i` of `n` in that table. -/
theorem script_ref_is_position {items : List AnmItem} {out : AnmOut} (h : compileAnm items = .ok out) :
    out.scripts.flatten.map (·.1) = anmScriptNames items ∧ (anmScriptNames items).Nodup ∧
    (∀ (i : Nat) (n : Name), (out.scripts.flatten.map (·.1))[i]? = some n →
      targetValue (anmTables items) (anmScriptNames items) (.script n) = Int32.ofNat i) ∧
    out.refs = (anmRefs items).map (fun rs => rs.map (refValue (anmScope items) (anmTables items) (anmScriptNames items))) := by
  obtain ⟨ids, hs, _, _, _, hg, _, hr⟩ := compileAnm_ok h
  obtain ⟨_, hnd, _⟩ := gatherScriptIds_ok _ _ _ _ hs
  have hflat := groupScripts_flatten items none ids out.scripts hg
  simp at hflat
  have hnames : out.scripts.flatten.map (·.1) = anmScriptNames items := by
    simpa [anmScriptNames] using hflat
  refine ⟨hnames, hnd, ?_, hr⟩
  intro i n hi
  rw [hnames] at hi
  have : indexOf? n (anmScriptNames items) = some i := indexOf?_of_get hnd hi
  simp [targetValue, this]

/-! ### sprites: references, duplicate names -/

theorem gatherSprites_names : ∀ (l : List SpriteDef) (base : IdExpr) (k : Nat),
    (gatherSprites base k l).map (·.1) = l.map (·.name) := by
  intro l
  induction l with
  | nil => intro base k; simp [gatherSprites]
  | cons s rest ih =>
    intro base k
    cases hid : s.id <;> simp [gatherSprites, hid, ih]

theorem lookupLast_mem {α} {n : Name} : ∀ {l : List (Name × α)} {v : α}, lookupLast n l = some v → (n, v) ∈ l := by
  intro l
  induction l with
  | nil => intro v h; simp [lookupLast] at h
  | cons p rest ih =>
    intro v h
    obtain ⟨m, w⟩ := p
    simp only [lookupLast] at h
    cases hr : lookupLast n rest with
    | some x => simp [hr] at h; subst h; exact List.mem_cons_of_mem _ (ih hr)
    | none =>
      simp [hr] at h
      obtain ⟨hm, hv⟩ := h
      subst hm; subst hv; simp

theorem lookupLast_none {α} {n : Name} : ∀ {l : List (Name × α)}, lookupLast n l = none → ∀ v, (n, v) ∉ l := by
  intro l
  induction l with
  | nil => intro _ v; simp
  | cons p rest ih =>
    intro h v
    obtain ⟨m, w⟩ := p
    simp only [lookupLast] at h
    cases hr : lookupLast n rest with
    | some x => simp [hr] at h
    | none =>
      simp [hr] at h
      simp only [List.mem_cons, not_or, Prod.mk.injEq, not_and]
      exact ⟨fun e => absurd e.symm h, ih hr v⟩

/-- every two definitions of one name have the same value -/
def Consistent (l : List (Name × Option Int32)) : Prop := ∀ a ∈ l, ∀ b ∈ l, a.1 = b.1 → a.2 = b.2

/-- the deferred equality check compares each redefinition only with the definition it replaces;
by transitivity that makes all definitions of a name agree. -/
theorem equalityCheck_consistent : ∀ (l seen : List (Name × Option Int32)),
    Consistent seen → equalityCheck seen l = true → Consistent (seen ++ l) := by
  intro l
  induction l with
  | nil => intro seen hc _; simpa using hc
  | cons p rest ih =>
    intro seen hc h
    obtain ⟨n, v⟩ := p
    simp only [equalityCheck, Bool.and_eq_true] at h
    have hc' : Consistent (seen ++ [(n, v)]) := by
      intro a ha b hb hab
      obtain ⟨an, av⟩ := a
      obtain ⟨bn, bv⟩ := b
      simp only at hab
      subst hab
      simp only [List.mem_append, List.mem_singleton, Prod.mk.injEq] at ha hb
      rcases ha with ha | ha <;> rcases hb with hb | hb
      · exact hc _ ha _ hb rfl
      · obtain ⟨rfl, rfl⟩ := hb
        cases hl : lookupLast an seen with
        | none => exact absurd ha (lookupLast_none hl av)
        | some w =>
          have hw := h.1
          simp [hl] at hw
          have := hc _ ha _ (lookupLast_mem hl) rfl
          simp at this; simp [this, hw]
      · obtain ⟨rfl, rfl⟩ := ha
        cases hl : lookupLast an seen with
        | none => exact absurd hb (lookupLast_none hl bv)
        | some w =>
          have hw := h.1
          simp [hl] at hw
          have := hc _ (lookupLast_mem hl) _ hb rfl
          simp at this; simp [← this, hw]
      · obtain ⟨_, rfl⟩ := ha
        obtain ⟨_, rfl⟩ := hb
        rfl
    have := ih (seen ++ [(n, v)]) hc' h.2
    simpa using this

theorem anmStable_sprites {items : List AnmItem} (h : anmStable items = true) :
    (anmTables items).sprites = (anmSpriteExprs items).map
      (fun p => (p.1, p.2.eval ((anmTables items).env (anmScriptNames items)))) := by
  simp only [anmStable, Bool.and_eq_true, decide_eq_true_eq] at h
  have := congrArg Tables.sprites h.2
  simp only [evalRound] at this
  exact this.symm

/-- facts about slot `i` of the sprite list of a file that compiles -/
theorem sprite_slot {items : List AnmItem} {out : AnmOut} (h : compileAnm items = .ok out) (i : Nat) (n : Name)
    (hi : ((anmEntries items).flatten.map (·.name))[i]? = some n) :
    ∃ v : Int32, (n, some v) ∈ (anmTables items).sprites ∧ (anmTables items).sprites[i]? = some (n, some v) ∧
      out.sprites.flatten[i]? = some v.toUInt32 := by
  obtain ⟨ids, _, _, hst, _, _, hw, _⟩ := compileAnm_ok h
  have hs := anmStable_sprites hst
  have hc := sprite_const_eq_written _ _ _ hw
  have hnames : (anmSpriteExprs items).map (·.1) = (anmEntries items).flatten.map (·.name) := by
    simp [anmSpriteExprs, spriteExprs, gatherSprites_names]
  -- the i-th definition
  have hlen : i < (anmSpriteExprs items).length := by
    have : i < ((anmEntries items).flatten.map (·.name)).length := by
      rcases Nat.lt_or_ge i ((anmEntries items).flatten.map (·.name)).length with h | h
      · exact h
      · rw [List.getElem?_eq_none h] at hi; simp at hi
    rw [← hnames] at this; simpa using this
  have hname : (anmSpriteExprs items)[i].1 = n := by
    have : ((anmSpriteExprs items).map (·.1))[i]? = some n := by rw [hnames]; exact hi
    simpa [List.getElem?_eq_getElem hlen] using this
  -- its value as UInt32 is the written id
  have hci := congrArg (fun l => l[i]?) hc
  simp only [List.getElem?_map, constIds] at hci
  have hexp : spriteExprs (anmEntries items) = anmSpriteExprs items := rfl
  rw [hexp, List.getElem?_eq_getElem hlen] at hci
  simp only [Option.map_some] at hci
  cases hv : (anmSpriteExprs items)[i].2.eval ((anmTables items).env (anmScriptNames items)) with
  | none =>
    rw [hv] at hci
    cases hw' : out.sprites.flatten[i]? <;> simp [hw'] at hci
  | some v =>
    rw [hv] at hci
    have hslot : (anmTables items).sprites[i]? = some (n, some v) := by
      rw [hs, List.getElem?_map, List.getElem?_eq_getElem hlen]
      simp [hname, hv]
    refine ⟨v, List.mem_of_getElem? hslot, hslot, ?_⟩
    cases hw' : out.sprites.flatten[i]? with
    | none => simp [hw'] at hci
    | some u => simp [hw'] at hci; rw [hci]

/-- **C20, duplicate names.** If a file compiles, all sprites with one name are written with one
id; contrapositive: a name with two different values is an error (`ambiguous value`). -/
theorem dup_name_two_values_is_error {items : List AnmItem} {out : AnmOut} (h : compileAnm items = .ok out)
    (i j : Nat) (n : Name)
    (hi : ((anmEntries items).flatten.map (·.name))[i]? = some n)
    (hj : ((anmEntries items).flatten.map (·.name))[j]? = some n) :
    out.sprites.flatten[i]? = out.sprites.flatten[j]? := by
  obtain ⟨vi, hmi, _, hwi⟩ := sprite_slot h i n hi
  obtain ⟨vj, hmj, _, hwj⟩ := sprite_slot h j n hj
  obtain ⟨_, _, _, _, heq, _, _, _⟩ := compileAnm_ok h
  have hc := equalityCheck_consistent _ [] (by intro a ha; simp at ha) heq
  simp only [List.nil_append] at hc
  have := hc _ hmi _ hmj rfl
  simp at this
  rw [hwi, hwj, this]

/-- **C20, sprite references end to end.** In a file that compiles, a reference that resolves to
sprite `n` is compiled to the id stored for *every* sprite named `n` in the output. -/
theorem sprite_ref_eq_written {items : List AnmItem} {out : AnmOut} (h : compileAnm items = .ok out)
    (i : Nat) (n : Name) (hi : ((anmEntries items).flatten.map (·.name))[i]? = some n) :
    out.sprites.flatten[i]? =
      some (targetValue (anmTables items) (anmScriptNames items) (.sprite n)).toUInt32 := by
  obtain ⟨v, hm, _, hw⟩ := sprite_slot h i n hi
  obtain ⟨_, _, _, _, heq, _, _, _⟩ := compileAnm_ok h
  have hc := equalityCheck_consistent _ [] (by intro a ha; simp at ha) heq
  simp only [List.nil_append] at hc
  cases hl : lookupLast n (anmTables items).sprites with
  | none => exact absurd hm (lookupLast_none hl _)
  | some w =>
    have := hc _ (lookupLast_mem hl) _ hm rfl
    simp at this
    simp [targetValue, hl, this, hw]

/-! ### unknown names -/

theorem firstErr_none : ∀ {l : List (Outcome Target)}, firstErr l = none → ∀ x ∈ l, ∃ t, x = .ok t := by
  intro l
  induction l with
  | nil => intro _ x hx; simp at hx
  | cons y ys ih =>
    intro h x hx
    cases y with
    | ok t =>
      simp only [firstErr] at h
      simp only [List.mem_cons] at hx
      rcases hx with rfl | hx
      · exact ⟨t, rfl⟩
      · exact ih h x hx
    | err c => simp [firstErr] at h
    | panic c => simp [firstErr] at h

theorem resolve_ok_defined (sc : Scope) (ctx : Option RefKind) (n : Name) (t : Target)
    (h : sc.resolve ctx n = .ok t) : n ∈ sc.consts ∨ n ∈ sc.sprites ∨ n ∈ sc.scripts := by
  by_cases hc : n ∈ sc.consts
  · exact Or.inl hc
  by_cases hs : n ∈ sc.sprites
  · exact Or.inr (Or.inl hs)
  by_cases hk : n ∈ sc.scripts
  · exact Or.inr (Or.inr hk)
  exfalso
  unfold Scope.resolve at h
  simp [hc, hs, hk] at h

theorem resolveRef_ok_defined (sc : Scope) (r : Ref) (t : Target)
    (h : sc.resolveRef r = .ok t) : r.name ∈ sc.consts ∨ r.name ∈ sc.sprites ∨ r.name ∈ sc.scripts := by
  unfold Scope.resolveRef at h
  by_cases hq : r.qual = true
  · simp only [hq, if_true] at h
    unfold Scope.resolveQual at h
    cases hk : r.kind with
    | sprite =>
      by_cases hs : r.name ∈ sc.sprites
      · exact Or.inr (Or.inl hs)
      · simp [hk, hs] at h
    | script =>
      by_cases hs : r.name ∈ sc.scripts
      · exact Or.inr (Or.inr hs)
      · simp [hk, hs] at h
  · simp only [hq] at h
    exact resolve_ok_defined sc _ _ t h

theorem refs_in_resolutions (sc : Scope) : ∀ (items : List AnmItem) (rs : List Ref), rs ∈ anmRefs items →
    ∀ r ∈ rs, sc.resolveRef r ∈ anmResolutions sc items := by
  intro items
  induction items with
  | nil => intro rs h; simp [anmRefs] at h
  | cons it rest ih =>
    intro rs h r hr
    cases it with
    | entry sp =>
      simp only [anmRefs] at h
      simp only [anmResolutions, List.mem_append]
      exact Or.inr (ih rs h r hr)
    | script n num refs =>
      simp only [anmRefs, List.mem_cons] at h
      simp only [anmResolutions, List.mem_append, List.mem_map]
      rcases h with rfl | h
      · exact Or.inl ⟨r, hr, rfl⟩
      · exact Or.inr (ih rs h r hr)
    | const n e =>
      simp only [anmRefs] at h
      simp only [anmResolutions, List.mem_append]
      exact Or.inr (ih rs h r hr)

/-- **C20, unknown names (ANM).** If a file compiles, every name used as an instruction argument
is defined in the file as a const, a sprite or a script: a reference to a name that does not exist
is an error. -/
theorem unknown_name_is_error {items : List AnmItem} {out : AnmOut} (h : compileAnm items = .ok out)
    (rs : List Ref) (hrs : rs ∈ anmRefs items) (r : Ref) (hr : r ∈ rs) :
    r.name ∈ (anmConsts items).map (·.1) ∨ r.name ∈ (anmEntries items).flatten.map (·.name) ∨ r.name ∈ anmScriptNames items := by
  obtain ⟨_, _, hf, _, _, _, _, _⟩ := compileAnm_ok h
  obtain ⟨t, ht⟩ := firstErr_none hf _ (refs_in_resolutions _ items rs hrs r hr)
  have := resolveRef_ok_defined _ r t ht
  simpa [anmScope, anmSpriteExprs, spriteExprs, gatherSprites_names] using this

/-! ## old ECL -/

theorem gatherSubIds_ok : ∀ (l seen subs : List Name), gatherSubIds seen l = .ok subs →
    subs = l ∧ l.Nodup ∧ ∀ x ∈ l, x ∉ seen := by
  intro l
  induction l with
  | nil => intro seen subs h; simp [gatherSubIds] at h; subst h; simp
  | cons n rest ih =>
    intro seen subs h
    simp only [gatherSubIds] at h
    split at h
    · simp at h
    · rename_i hseen
      cases hr : gatherSubIds (n :: seen) rest with
      | err c => simp [hr] at h
      | panic c => simp [hr] at h
      | ok r =>
        simp [hr] at h; subst h
        obtain ⟨h1, h2, h3⟩ := ih _ _ hr
        have hns : n ∉ seen := fun hm => hseen (List.contains_iff_mem.mpr hm)
        refine ⟨by rw [h1], ?_, ?_⟩
        · rw [List.nodup_cons]
          refine ⟨fun hm => ?_, h2⟩
          have := h3 n hm
          simp at this
        · intro x hx
          simp only [List.mem_cons] at hx
          rcases hx with rfl | hx
          · exact hns
          · have := h3 x hx
            simp only [List.mem_cons, not_or] at this
            exact this.2

theorem compileEcl_ok {m : Option Nat} {items : List EclItem} {out : EclOut} (h : compileEcl m items = .ok out) :
    out.subs = eclSubs items ∧ (eclSubs items).Nodup ∧
    (∀ rs ∈ eclRefs items, ∀ n ∈ rs, n ∈ out.subs) ∧
    timelineIndices (eclNumbers items) = .ok out.timelines ∧
    (∀ k, m = some k → out.timelines.length ≤ k) ∧
    out.refs = (eclRefs items).map (fun rs => rs.map (fun n => (indexOf? n out.subs).getD 0)) := by
  unfold compileEcl at h
  split at h
  · simp at h
  · simp at h
  · rename_i subs hs
    obtain ⟨h1, h2, _⟩ := gatherSubIds_ok _ _ _ hs
    split at h
    · simp at h
    · rename_i hun
      split at h
      · simp at h
      · simp at h
      · rename_i tls ht
        split at h
        · simp at h
        · rename_i hmax
          simp at h; subst h
          refine ⟨h1, h2, ?_, ht, ?_, rfl⟩
          · intro rs hrs n hn
            simp only [Bool.not_eq_true, List.any_eq_false, Bool.not_eq_true'] at hun
            have := hun rs hrs n hn
            simpa [List.contains_iff_mem] using this
          · intro k hk
            subst hk
            simpa [tooMany] using hmax

/-- **C20, old ECL subs.** In a file that compiles the sub table lists the subs in source order,
names are unique, every referenced name is a sub, and the value written for a reference to sub `n`
is *the* position of `n` in the sub table. -/
theorem sub_ref_is_position {m : Option Nat} {items : List EclItem} {out : EclOut} (h : compileEcl m items = .ok out) :
    out.subs = eclSubs items ∧ out.subs.Nodup ∧
    out.refs = (eclRefs items).map (fun rs => rs.map (fun n => (indexOf? n out.subs).getD 0)) ∧
    ∀ rs ∈ eclRefs items, ∀ n ∈ rs, ∃ i, out.subs[i]? = some n ∧ (indexOf? n out.subs).getD 0 = i ∧
      ∀ j, out.subs[j]? = some n → j = i := by
  obtain ⟨h1, h2, h3, _, _, h5⟩ := compileEcl_ok h
  rw [← h1] at h2
  refine ⟨h1, h2, h5, ?_⟩
  intro rs hrs n hn
  obtain ⟨i, hi⟩ := indexOf?_of_mem (h3 rs hrs n hn)
  refine ⟨i, indexOf?_some hi, by simp [hi], ?_⟩
  intro j hj
  have := indexOf?_of_get h2 hj
  rw [hi] at this
  exact (Option.some.inj this).symm

/-! ### timelines -/

def nonesBefore : List (Option Int32) → Nat → Nat
  | [], _ => 0
  | _, 0 => 0
  | none :: rest, j + 1 => 1 + nonesBefore rest j
  | some _ :: rest, j + 1 => nonesBefore rest j

theorem timelineLoop_spec : ∀ (l : List (Option Int32)) (next : Nat), (timelineLoop next l).2 = false →
    (timelineLoop next l).1.length = l.length ∧
    (∀ (j : Nat) (v : Int32), l[j]? = some (some v) → ¬ v < 0 ∧ (timelineLoop next l).1[j]? = some v.toInt.toNat) ∧
    (∀ (j : Nat), l[j]? = some none → (timelineLoop next l).1[j]? = some (next + nonesBefore l j)) := by
  intro l
  induction l with
  | nil => intro next _; simp [timelineLoop]
  | cons x rest ih =>
    intro next h
    cases x with
    | none =>
      simp only [timelineLoop] at h ⊢
      obtain ⟨h1, h2, h3⟩ := ih (next + 1) h
      refine ⟨by simp [h1], ?_, ?_⟩
      · intro j v hj
        cases j with
        | zero => simp at hj
        | succ j => simpa using h2 j v (by simpa using hj)
      · intro j hj
        cases j with
        | zero => simp [nonesBefore]
        | succ j =>
          have := h3 j (by simpa using hj)
          simp only [List.getElem?_cons_succ, this, nonesBefore]
          congr 1; omega
    | some v =>
      simp only [timelineLoop] at h ⊢
      by_cases hv : v < 0
      · simp [hv] at h
      · simp only [hv, if_false] at h ⊢
        obtain ⟨h1, h2, h3⟩ := ih next h
        refine ⟨by simp [h1], ?_, ?_⟩
        · intro j w hj
          cases j with
          | zero => simp at hj; subst hj; exact ⟨hv, by simp⟩
          | succ j => simpa using h2 j w (by simpa using hj)
        · intro j hj
          cases j with
          | zero => simp at hj
          | succ j =>
            have := h3 j (by simpa using hj)
            simpa [nonesBefore] using this

theorem le_listMax : ∀ {l : List Nat} {x : Nat}, x ∈ l → x ≤ listMax l := by
  intro l
  induction l with
  | nil => intro x h; simp at h
  | cons y ys ih =>
    intro x h
    simp only [List.mem_cons] at h
    simp only [listMax]
    rcases h with rfl | h
    · exact Nat.le_max_left _ _
    · exact Nat.le_trans (ih h) (Nat.le_max_right _ _)

theorem countOf_pos_of_mem : ∀ {l : List Nat} {x : Nat}, x ∈ l → 0 < countOf x l := by
  intro l
  induction l with
  | nil => intro x h; simp at h
  | cons y ys ih =>
    intro x h
    simp only [List.mem_cons] at h
    simp only [countOf]
    rcases h with rfl | h
    · simp; omega
    · have := ih h; omega

theorem nodup_of_countOf : ∀ {l : List Nat}, (∀ x ∈ l, countOf x l < 2) → l.Nodup := by
  intro l
  induction l with
  | nil => intro _; simp
  | cons y ys ih =>
    intro h
    rw [List.nodup_cons]
    constructor
    · intro hm
      have h1 := h y (by simp)
      have h2 := countOf_pos_of_mem hm
      simp [countOf] at h1
      omega
    · apply ih
      intro x hx
      have := h x (List.mem_cons_of_mem _ hx)
      simp only [countOf] at this
      omega

/-- **C20, timelines.** If the timeline indices are accepted: every timeline has an index, an
explicit number is honoured, the timelines without number get 0, 1, 2, .. in source order, and
the indices are exactly `0 .. n-1` (each once): the table has no hole and no slot is filled twice. -/
theorem timeline_indices_ok (numbers : List (Option Int32)) (idx : List Nat)
    (h : timelineIndices numbers = .ok idx) :
    idx.length = numbers.length ∧
    (∀ (j : Nat) (v : Int32), numbers[j]? = some (some v) → ¬ v < 0 ∧ idx[j]? = some v.toInt.toNat) ∧
    (∀ (j : Nat), numbers[j]? = some none → idx[j]? = some (nonesBefore numbers j)) ∧
    idx.Perm (List.range idx.length) := by
  unfold timelineIndices at h
  simp only at h
  split at h
  · simp at h
  · rename_i hneg
    split at h
    · simp at h
    · rename_i hmiss
      split at h
      · simp at h
      · rename_i hdup
        simp only [Outcome.ok.injEq] at h
        have hneg' : (timelineLoop 0 numbers).2 = false := by simpa using hneg
        obtain ⟨h1, h2, h3⟩ := timelineLoop_spec numbers 0 hneg'
        rw [h] at h1 h2 h3 hmiss hdup
        refine ⟨h1, h2, ?_, ?_⟩
        · intro j hj; simpa using h3 j hj
        · -- no hole, no duplicate
          by_cases hemp : idx = []
          · subst hemp; simp
          · have hex : expectedCount idx = listMax idx + 1 := by
              cases idx with
              | nil => exact absurd rfl hemp
              | cons a as => simp [expectedCount]
            have hcover : ∀ i, i < listMax idx + 1 → i ∈ idx := by
              intro i hi
              have hm : missingIdx idx = [] := by simpa using hmiss
              have : i ∉ missingIdx idx := by rw [hm]; simp
              simp only [missingIdx, hex, List.mem_filter, List.mem_range, not_and, Bool.not_eq_true'] at this
              have := this hi
              simpa [List.contains_iff_mem] using this
            have hnd : idx.Nodup := by
              apply nodup_of_countOf
              intro x hx
              simp only [hasDupIdx, hex, Bool.not_eq_true, List.any_eq_false, List.mem_range, decide_eq_true_eq] at hdup
              have := hdup x (Nat.lt_succ_of_le (le_listMax hx))
              omega
            have hperm : idx.Perm (List.range (listMax idx + 1)) := by
              rw [List.perm_ext_iff_of_nodup hnd List.nodup_range]
              intro a
              simp only [List.mem_range]
              exact ⟨fun ha => Nat.lt_succ_of_le (le_listMax ha), hcover a⟩
            have hlen : idx.length = listMax idx + 1 := by simpa using hperm.length_eq
            rw [hlen]; exact hperm

example : timelineIndices [some 2, none, some 0] = .ok [2, 0, 0] → False := by decide
example : timelineIndices [some 2, none, some 1] = .ok [2, 0, 1] := by decide

/-! ## MSG -/

theorem msgScriptOffsets_names : ∀ (scripts : List (Name × List Nat)) (pos : Nat),
    (msgScriptOffsets pos scripts).map (·.1) = scripts.map (·.1) := by
  intro scripts
  induction scripts with
  | nil => intro pos; simp [msgScriptOffsets]
  | cons s rest ih => intro pos; obtain ⟨n, b⟩ := s; simp [msgScriptOffsets, ih]

/-- a script starts where the table and the scripts before it end -/
theorem msgScriptOffsets_spec : ∀ (scripts : List (Name × List Nat)) (pos k : Nat) (s : Name × List Nat),
    scripts[k]? = some s →
    (msgScriptOffsets pos scripts)[k]? = some (s.1, pos + ((scripts.take k).map (fun s => msgScriptSize s.2)).sum) := by
  intro scripts
  induction scripts with
  | nil => intro pos k s h; simp at h
  | cons x rest ih =>
    intro pos k s h
    obtain ⟨n, b⟩ := x
    cases k with
    | zero => simp at h; subst h; simp [msgScriptOffsets]
    | succ k =>
      have := ih (pos + msgScriptSize b) k s (by simpa using h)
      simp only [msgScriptOffsets, List.getElem?_cons_succ, this, List.take_succ_cons, List.map_cons, List.sum_cons]
      congr 2; omega

theorem msgSlots_ok : ∀ (entries : List MsgEntry) (offsets : List (Name × Nat)) (slots : List (Nat × Nat)),
    msgSlots offsets entries = .ok slots →
    slots.length = entries.length ∧ ∀ (i : Nat) (e : MsgEntry), entries[i]? = some e →
      ∃ off, slots[i]? = some (off, e.flags) ∧
        (match e.script with
         | none => off = 0
         | some n => lookupLast n offsets = some off) := by
  intro entries
  induction entries with
  | nil => intro offsets slots h; simp [msgSlots] at h; subst h; simp
  | cons e rest ih =>
    intro offsets slots h
    simp only [msgSlots] at h
    split at h
    · simp at h
    · rename_i off hoff
      cases hr : msgSlots offsets rest with
      | err c => simp [hr] at h
      | panic c => simp [hr] at h
      | ok r =>
        simp [hr] at h; subst h
        obtain ⟨h1, h2⟩ := ih _ _ hr
        refine ⟨by simp [h1], ?_⟩
        intro i e' hi
        cases i with
        | zero =>
          simp at hi; subst hi
          refine ⟨off, by simp, ?_⟩
          cases hs : e.script with
          | none => simp [hs] at hoff ⊢; exact hoff.symm
          | some n => simp [hs] at hoff ⊢; exact hoff
        | succ i => simpa using h2 i e' (by simpa using hi)

theorem compileMsg_ok {f : MsgFile} {out : MsgOut} (h : compileMsg f = .ok out) :
    (f.scripts.map (·.1)).Nodup ∧ out.scripts = msgScriptOffsets (msgTableSize f) f.scripts ∧
    ∃ slots, msgSlots out.scripts (densify f) = .ok slots ∧
      out.table = slots.map (fun s => (s.1, if f.hasFlags then s.2 else 0)) := by
  unfold compileMsg at h
  split at h
  · simp at h
  · split at h
    · simp at h
    · rename_i hd
      simp only at h
      split at h
      · rename_i slots hs
        simp at h; subst h
        exact ⟨hasDup_false (by simpa using hd), rfl, slots, hs, rfl⟩
      · simp at h
      · simp at h

theorem densify_get (f : MsgFile) (i : Nat) (hi : i < f.len) :
    (densify f)[i]? = some ((lookupNat i f.table).getD (f.default.getD { script := none, flags := 0 })) := by
  simp [densify, hi]

/-- **C20, MSG.** In a file that compiles: the table has `table_len` slots (or one more than the
largest key); slot `i` holds the entry written for key `i`, else the default, else zero; a slot
that names script `n` holds the byte offset at which `n` (the `k`-th script of the source, `k`
unique) was written, i.e. table size plus the sizes of the scripts before it. -/
theorem msg_entry_offset {f : MsgFile} {out : MsgOut} (h : compileMsg f = .ok out) :
    out.table.length = f.len ∧ (f.scripts.map (·.1)).Nodup ∧
    ∀ i, i < f.len →
      let e := (lookupNat i f.table).getD (f.default.getD { script := none, flags := 0 })
      ∃ off, out.table[i]? = some (off, if f.hasFlags then e.flags else 0) ∧
        (match e.script with
         | none => off = 0
         | some n => ∃ k s, f.scripts[k]? = some s ∧ s.1 = n ∧ out.scripts[k]? = some (n, off) ∧
             off = msgTableSize f + ((f.scripts.take k).map (fun s => msgScriptSize s.2)).sum ∧
             ∀ j s', f.scripts[j]? = some s' → s'.1 = n → j = k) := by
  obtain ⟨hnd, hsc, slots, hs, ht⟩ := compileMsg_ok h
  obtain ⟨hl, hslot⟩ := msgSlots_ok _ _ _ hs
  have hdl : (densify f).length = f.len := by simp [densify]
  refine ⟨by rw [ht]; simp [hl, hdl], hnd, ?_⟩
  intro i hi e
  obtain ⟨off, ho, hm⟩ := hslot i e (densify_get f i hi)
  refine ⟨off, by rw [ht]; simp [ho], ?_⟩
  cases hscr : e.script with
  | none => simp [hscr] at hm ⊢; exact hm
  | some n =>
    simp only [hscr] at hm ⊢
    have hmem := lookupLast_mem hm
    obtain ⟨k, hk⟩ := List.mem_iff_getElem?.mp hmem
    have hname : ((out.scripts).map (·.1))[k]? = some n := by simp [hk]
    rw [hsc, msgScriptOffsets_names] at hname
    simp only [List.getElem?_map, Option.map_eq_some_iff] at hname
    obtain ⟨s, hsk, hsn⟩ := hname
    have hspec := msgScriptOffsets_spec f.scripts (msgTableSize f) k s hsk
    rw [← hsc, hk] at hspec
    simp only [Option.some.injEq, Prod.mk.injEq] at hspec
    refine ⟨k, s, hsk, hsn, hk, hspec.2, ?_⟩
    intro j s' hj hn'
    have h1 : (f.scripts.map (·.1))[j]? = some n := by simp [hj, hn']
    have h2 : (f.scripts.map (·.1))[k]? = some n := by simp [hsk, hsn]
    have := indexOf?_of_get hnd h1
    rw [indexOf?_of_get hnd h2] at this
    exact (Option.some.inj this).symm

/-- a table entry naming a script that does not exist is an error -/
theorem msg_unknown_is_error {f : MsgFile} {out : MsgOut} (h : compileMsg f = .ok out) (i : Nat) (hi : i < f.len)
    (n : Name) (hn : ((lookupNat i f.table).getD (f.default.getD { script := none, flags := 0 })).script = some n) :
    n ∈ f.scripts.map (·.1) := by
  obtain ⟨_, _, hall⟩ := msg_entry_offset h
  obtain ⟨off, _, hm⟩ := hall i hi
  simp only [hn] at hm
  obtain ⟨k, s, hk, hs, _⟩ := hm
  exact List.mem_map.mpr ⟨s, List.mem_of_getElem? hk, hs⟩

/-! ## STD -/

theorem stdInstances_ok : ∀ (insts objs : List Name) (out : List Nat), stdInstances objs insts = .ok out →
    out.length = insts.length ∧ ∀ (k : Nat) (n : Name), insts[k]? = some n → ∃ i : Nat, indexOf? n objs = some i ∧ out[k]? = some (i % 65536) := by
  intro insts
  induction insts with
  | nil => intro objs out h; simp [stdInstances] at h; subst h; simp
  | cons x rest ih =>
    intro objs out h
    simp only [stdInstances] at h
    cases hi : indexOf? x objs with
    | none => simp [hi] at h
    | some i =>
      cases hr : stdInstances objs rest with
      | err c => simp [hi, hr] at h
      | panic c => simp [hi, hr] at h
      | ok r =>
        simp [hi, hr] at h; subst h
        obtain ⟨h1, h2⟩ := ih _ _ hr
        refine ⟨by simp [h1], ?_⟩
        intro k n hk
        cases k with
        | zero => simp at hk; subst hk; exact ⟨i, hi, by simp⟩
        | succ k => simpa using h2 k n (by simpa using hk)

/-- **C20, STD.** In every file the writer accepts, object names are unique, every instance names
an object, and the index written for an instance (a 16-bit field) *is* the position of the named
object, which is below the end-of-list marker 0xffff. -/
theorem std_instance_index {objs insts : List Name} {q : Nat} {out : List Nat} (h : compileStd objs insts q = .ok out) :
    objs.Nodup ∧ objs.length ≤ 65535 ∧ out.length = insts.length ∧
    ∀ (k : Nat) (n : Name), insts[k]? = some n → ∃ i : Nat, objs[i]? = some n ∧ (∀ j : Nat, objs[j]? = some n → j = i) ∧
      out[k]? = some i ∧ i < 65535 := by
  unfold compileStd at h
  split at h
  · simp at h
  · rename_i hd
    split at h
    · simp at h
    · rename_i hbig
      have hlen : objs.length ≤ 65535 := by
        simp only [Bool.or_eq_true, decide_eq_true_eq, not_or, Nat.not_lt] at hbig
        exact hbig.1
      have hnd := hasDup_false (by simpa using hd)
      obtain ⟨h1, h2⟩ := stdInstances_ok _ _ _ h
      refine ⟨hnd, hlen, h1, ?_⟩
      intro k n hk
      obtain ⟨i, hi, ho⟩ := h2 k n hk
      have hget := indexOf?_some hi
      have hilt : i < objs.length := by
        rcases Nat.lt_or_ge i objs.length with h | h
        · exact h
        · rw [List.getElem?_eq_none h] at hget; simp at hget
      refine ⟨i, hget, ?_, ?_, by omega⟩
      · intro j hj
        have := indexOf?_of_get hnd hj
        rw [hi] at this
        exact (Option.some.inj this).symm
      · rw [ho, Nat.mod_eq_of_lt (by omega)]

/-- more objects (or quads) than the 16-bit fields can describe are rejected -/
theorem std_too_many_is_error (objs insts : List Name) (q : Nat) (h : objs.length > 65535 ∨ q > 65535) :
    ∀ out, compileStd objs insts q ≠ .ok out := by
  intro out hc
  unfold compileStd at hc
  split at hc
  · simp at hc
  · split at hc
    · simp at hc
    · rename_i hbig
      simp only [Bool.or_eq_true, decide_eq_true_eq, not_or, Nat.not_lt] at hbig
      omega

example : compileStd ["a", "b", "c"] ["c", "a", "c"] = .ok [2, 0, 2] := by decide
example : compileStd ["a", "b"] ["z"] = .err eUnknown := by decide


/-! ## the hypotheses are satisfiable: concrete files -/

/-- two entries, implicit / constant-expression / name-referencing ids, the name `c` twice with one
value, references before the definition -/
def exAnm : List AnmItem := [
  .entry [⟨"a", none⟩, ⟨"b", some (.add (.lit 3) (.lit 4))⟩, ⟨"c", none⟩],
  .script "s0" none [⟨.sprite, false, "c"⟩, ⟨.script, false, "s1"⟩],
  .entry [⟨"c", some (.add (.name "b") (.lit 1))⟩],
  .script "s1" (some 5) [⟨.sprite, false, "b"⟩]]

example : compileAnm exAnm =
    .ok { sprites := [[0, 7, 8], [8]], scripts := [[("s0", 0)], [("s1", 5)]], refs := [[8, 1], [7]] } := by decide

/-- the same name with two values -/
example : compileAnm [.entry [⟨"a", some (.lit 1)⟩], .entry [⟨"a", none⟩], .script "s" none []] = .err eAmbValue := by decide
/-- unknown name -/
example : compileAnm [.entry [⟨"a", none⟩], .script "s" none [⟨.sprite, false, "zz"⟩]] = .err eUnknown := by decide
/-- the last representable script number -/
example : compileAnm [.entry [⟨"a", none⟩], .script "s" (some 2147483647) []] = .err eScriptTooLarge := by decide
/-- cycle through an implicit id -/
example : compileAnm [.entry [⟨"a", some (.name "b")⟩, ⟨"b", none⟩], .script "s" none []] = .err eCycle := by decide

example : compileEcl (some 15) [.timeline "t1" (some 1) ["B"], .sub "A" ["B", "A"], .timeline "t0" none [], .sub "B" []] =
    .ok { subs := ["A", "B"], timelines := [1, 0], refs := [[1], [1, 0], [], []] } := by decide
example : compileEcl (some 1) [.timeline "t1" none [], .timeline "t0" none [], .sub "B" []] = .err eTlTooMany := by decide
example : compileEcl none [.sub "A" ["C"]] = .err eUnknown := by decide

example : compileMsg { table := [(0, ⟨some "b", 0⟩), (3, ⟨some "a", 3⟩), (5, ⟨none, 0⟩)], default := some ⟨some "b", 1⟩,
                        tableLen := some 8, scripts := [("a", [4, 4]), ("b", [4]), ("c", [])], hasFlags := false } =
    .ok { table := [(56, 0), (56, 0), (56, 0), (36, 0), (56, 0), (0, 0), (56, 0), (56, 0)],
          scripts := [("a", 36), ("b", 56), ("c", 68)] } := by decide
example : compileMsg { table := [(0, ⟨some "zz", 0⟩)], default := none, tableLen := none, scripts := [("a", [])], hasFlags := true } =
    .err eUnknown := by decide

end TruthModel.C20
