import TruthModel.Props.C18Msg
import TruthModel.Props.C03Files
/-
C18, MSG script table, tied to the writer model of C03 (`Files.writeScripts` / `msgEntryOffset`): the two
facts `msg_export_indices` assumes about script offsets (non-zero, distinct) are properties of the
script loop of `write_msg`, so the statement holds for the offsets the writer really computes.
-/
namespace TruthModel.C18
open TruthModel TruthModel.InstrIO TruthModel.Files TruthModel.MsgTable TruthModel.C03

/-- the script loop records the scripts in order, each at or after `pos`, at strictly increasing offsets
(no MSG script is empty: each ends with its 4-byte end marker) -/
theorem writeScripts_msg_offsets : ∀ (scripts : List (Nat × List Instr)) (pos : Nat) (sb : Bytes) (offs : List (Nat × Nat)),
    writeScripts .msg pos scripts = .ok (sb, offs) →
    offs.map (·.1) = scripts.map (·.1) ∧ (∀ p ∈ offs, pos ≤ p.2) ∧ offs.Pairwise (fun a b => a.2 < b.2) := by
  intro scripts
  induction scripts with
  | nil => intro pos sb offs h; rw [writeScripts] at h; cases h; simp
  | cons s scripts ih =>
    intro pos sb offs h
    obtain ⟨name, is⟩ := s
    rw [writeScripts] at h
    repeat' split at h
    all_goals first | (cases h; done) | skip
    rename_i b hb _ bs' offs' hrec
    cases h
    obtain ⟨hnames, hge, hpw⟩ := ih _ _ _ hrec
    have hlen := writeInstrs_msg_length hb
    refine ⟨by simp [hnames], ?_, ?_⟩
    · intro p hp
      rcases List.mem_cons.mp hp with rfl | hp
      · exact Nat.le_refl _
      · have := hge p hp; omega
    · refine List.pairwise_cons.mpr ⟨?_, hpw⟩
      intro p hp
      have := hge p hp
      show pos < p.2
      omega

theorem lookupNat_ge {offs : List (Nat × Nat)} {pos k o : Nat} (hge : ∀ p ∈ offs, pos ≤ p.2)
    (h : lookupNat k offs = some o) : pos ≤ o := by
  induction offs with
  | nil => simp [lookupNat] at h
  | cons kv rest ih =>
    obtain ⟨k', v⟩ := kv
    rw [lookupNat] at h
    split at h
    · cases h; exact hge (k', o) (List.mem_cons_self ..)
    · exact ih (fun p hp => hge p (List.mem_cons_of_mem _ hp)) h

theorem lookupNat_mem_snd {offs : List (Nat × Nat)} {k o : Nat} (h : lookupNat k offs = some o) : ∃ p ∈ offs, p.2 = o := by
  induction offs with
  | nil => simp [lookupNat] at h
  | cons kv rest ih =>
    obtain ⟨k', v⟩ := kv
    rw [lookupNat] at h
    split at h
    · cases h; exact ⟨(k', o), List.mem_cons_self .., rfl⟩
    · obtain ⟨p, hp, hpo⟩ := ih h; exact ⟨p, List.mem_cons_of_mem _ hp, hpo⟩

/-- different names are never given one offset -/
theorem lookupNat_offsets_inj {offs : List (Nat × Nat)} (hpw : offs.Pairwise (fun a b => a.2 < b.2)) {a b o : Nat}
    (ha : lookupNat a offs = some o) (hb : lookupNat b offs = some o) : a = b := by
  induction offs with
  | nil => simp [lookupNat] at ha
  | cons kv rest ih =>
    obtain ⟨k, v⟩ := kv
    obtain ⟨hhead, hrest⟩ := List.pairwise_cons.mp hpw
    rw [lookupNat] at ha hb
    by_cases hak : a = k
    · by_cases hbk : b = k
      · rw [hak, hbk]
      · rw [if_pos hak] at ha; rw [if_neg hbk] at hb
        cases ha
        obtain ⟨p, hp, hpo⟩ := lookupNat_mem_snd hb
        have := hhead p hp
        simp only at this
        omega
    · rw [if_neg hak] at ha
      by_cases hbk : b = k
      · rw [if_pos hbk] at hb
        cases hb
        obtain ⟨p, hp, hpo⟩ := lookupNat_mem_snd ha
        have := hhead p hp
        simp only at this
        omega
      · rw [if_neg hbk] at hb
        exact ih hrest ha hb

/-- the table entry the writer sees for a dense entry of the compiler -/
def fileEntry (e : MsgTable.Entry) : Files.MsgEntry := ⟨e.script, e.flags.toUInt32⟩

/-- **C18 for MSG, against the writer.**  Whatever offsets the script loop of `write_msg` computes (file header of
any positive size), the indices the debug info lists for script `n` are exactly the positions of the table where
the writer puts the offset of `n`. -/
theorem msg_export_indices_written (s : Sparse) (scripts : List (Nat × List Instr)) (pos : Nat) (hpos : 0 < pos)
    (sb : Bytes) (offs : List (Nat × Nat)) (hw : writeScripts .msg pos scripts = .ok (sb, offs))
    (n o : Nat) (hn : lookupNat n offs = some o) (i : Nat) :
    i ∈ indicesOf s.densify n ↔
      ∃ h : i < s.densify.length, msgEntryOffset offs (fileEntry (s.densify[i])) = .ok o := by
  obtain ⟨_, hge, hpw⟩ := writeScripts_msg_offsets scripts pos sb offs hw
  rw [mem_indicesOf]
  constructor
  · rintro ⟨h, hs⟩
    refine ⟨h, ?_⟩
    simp only [msgEntryOffset, fileEntry, hs, hn]
  · rintro ⟨h, he⟩
    refine ⟨h, ?_⟩
    cases hsc : (s.densify[i]).script with
    | none =>
      simp only [msgEntryOffset, fileEntry, hsc] at he
      have : o = 0 := by cases he; rfl
      have := lookupNat_ge hge hn
      omega
    | some m =>
      simp only [msgEntryOffset, fileEntry, hsc] at he
      cases hm : lookupNat m offs with
      | none => rw [hm] at he; cases he
      | some o' =>
        rw [hm] at he
        have : o' = o := by cases he; rfl
        rw [this] at hm
        rw [lookupNat_offsets_inj hpw hm hn]

/-- the header of a MSG file is never empty, so `msg_export_indices_written` applies to `writeMsg` -/
theorem msgHeaderLen_pos (hasFlags : Bool) (m : MsgFile) : 0 < msgHeaderLen hasFlags m := by
  unfold msgHeaderLen; omega

/-- non-vacuity: two scripts (each just its end marker) after a 12-byte header get the offsets 12 and 16, and a
table `[0 -> s0, default -> s1]` of length 3 lists script 1 at the entries 1 and 2 -/
example : ∃ sb offs, writeScripts .msg 12 [(0, []), (1, [])] = .ok (sb, offs) ∧ lookupNat 1 offs = some 16 ∧ lookupNat 0 offs = some 12 :=
  ⟨_, _, rfl, rfl, rfl⟩
example : indicesOf (Sparse.densify ⟨some 3, [(0, ⟨some 0, 0⟩)], ⟨some 1, 0⟩⟩) 1 = [1, 2] := by decide

end TruthModel.C18
