import TruthModel.Model.Basic
/-
C10 — names resolve by lexical scope.

Executable model of `resolve_names::Visitor` + `RibStacks` (src/resolve/mod.rs), of the language
painting done by `assign_languages` (src/passes/resolution.rs), of the global ribs built from
mapfiles (`Defs::initial_ribs`, src/context/defs.rs) and of the `Resolutions` table, together with
an independent declarative scoping specification (`resolveSpec`).  Core Lean only.

Representation
* An identifier occurrence carries an occurrence id (the `ResId` of the real code).  Declarations
  resolve to themselves (`record_self_resolution`), so a definition (`DefId`) made by the program
  is named by the occurrence id of its declaring identifier: `Def.decl id`.
* Statements that merely walk their children (`loop`, `while`, `times`, `if/else if/else`, return,
  assignment, ...) have no resolver-specific code (`ast::walk_stmt`); they are sequences of
  expression visits and block visits and are spliced as such (see `Stmt.loop` etc. below).
* Expressions are trees (`Expr`): the resolver handles a call specially (the callee name is resolved
  first, its signature then decides which arguments are visited at all and which enum each of them
  is expected to be, `visit_call_args_with_signature_info`); every other node only walks its children.
  An argument beyond the callee's parameter count is never visited (`match_params_to_args` zips):
  its identifiers get no definition and no diagnostic, which the model records as `Event.skipped`.
* A rib stack is a `List Rib` with the innermost rib first.  `leave_rib` is represented by lexical
  scoping of the functional visitor (every `enter_new_rib` of the Rust visitor is paired with a
  `leave_rib` of the same literal kind in the same method, with no early exit in between).
-/
namespace TruthModel.Scope

abbrev Name := String
abbrev Lang := String

inductive Ns where
  | vars | funcs
deriving DecidableEq, Repr, Inhabited

/-- `Rib::noun` of the two `holds_locals` rib kinds -/
inductive LocalKind where
  | local | param
deriving DecidableEq, Repr

/-- `RibKind::LocalBarrier { of_what }` -/
inductive ItemKind where
  | function | const
deriving DecidableEq, Repr

inductive FuncQual where
  | plain | inline | const
deriving DecidableEq, Repr

/-- A definition (`DefId`). -/
inductive Def where
  /-- local / parameter / const item / function item declared at occurrence `id` -/
  | decl (id : Nat)
  | regAlias (lang : Lang) (reg : Int)
  | insAlias (lang : Lang) (opcode : Int)
  | enumConst (enum : Name) (name : Name)
  | builtin (name : Name)
  /-- `enum_const_dummy_def_id`: what every entry of the enum-const rib points to -/
  | enumDummy
deriving DecidableEq, Repr

inductive ErrClass where
  /-- "unknown variable/function/register ..." -/
  | unknown
  /-- "cannot use {local|parameter} from outside {function|const}" -/
  | crossBarrier (lk : LocalKind) (ik : ItemKind)
  /-- "ambiguous enum const" -/
  | ambiguousEnum
  /-- "no such enum" (qualified enum const) -/
  | noSuchEnum
  /-- "no enum const E.x" (qualified enum const) -/
  | noEnumConst
deriving DecidableEq, Repr

/-- `Rib::noun` as used by redefinition errors -/
inductive Noun where
  | local | param | const | func
deriving DecidableEq, Repr

/-- What the resolver does, in order. -/
inductive Event where
  /-- `record_self_resolution` for the declaring identifier `id` -/
  | selfRes (id : Nat)
  /-- "redefinition of <noun>" reported at declaring identifier `id` -/
  | redef (id : Nat) (noun : Noun)
  /-- `record_resolution(ident, def)` for the use `id` -/
  | res (id : Nat) (d : Def)
  /-- diagnostic at use `id`, nothing recorded -/
  | err (id : Nat) (e : ErrClass)
  /-- an `assert!`/`expect`/`panic!` of the real code would fire -/
  | panic (site : String)
  /-- the identifier `id` is never looked at (no `record_resolution`, no diagnostic): it sits in a
  call argument beyond the callee's parameter count, or it is a parameter name of a function
  declaration without body -/
  | skipped (id : Nat)
deriving DecidableEq, Repr

/-- use of a name in an expression -/
structure Use where
  id : Nat
  ns : Ns
  name : Name
  /-- enum expected by the parameter this use is an argument of (`ty_color_stack.last()`) -/
  color : Option Name := none
  /-- `Enum.name` syntax (`Expr::EnumConst`): the enum; such a use bypasses the rib stack -/
  enumQual : Option Name := none
deriving DecidableEq, Repr

/-- an expression as the resolver walks it (`visit_expr`) -/
inductive Expr where
  /-- a variable, or `Enum.name` -/
  | use (u : Use)
  /-- any node that only walks its children in order (operators, ternaries, casts, ...) -/
  | group (es : List Expr)
  /-- `name(args)`: `u` is the callee name (namespace `funcs`) -/
  | call (u : Use) (args : List Expr)
  /-- `ins_N(args)` -/
  | raw (opcode : Int) (args : List Expr)
deriving Repr

/-- `name = init` in a declaration or const item -/
structure DeclVar where
  id : Nat
  name : Name
  init : List Expr
deriving Repr

inductive Stmt where
  /-- any statement that only evaluates expressions, in visit order -/
  | expr (es : List Expr)
  /-- `int a = e, b = f;` -/
  | decl (vars : List DeclVar)
  | block (b : List Stmt)
  /-- `T name(params) { body }` -/
  | func (id : Nat) (name : Name) (qual : FuncQual) (params : List (Nat × Name)) (body : List Stmt)
  /-- `const T a = e, b = f;` -/
  | const (vars : List DeclVar)
  | script (body : List Stmt)
  /-- `T name(params);`: a declaration without body.  The name is an item like any function; the
  parameter names declare nothing (`visit_item` does not look at them) -/
  | funcDecl (id : Nat) (name : Name) (qual : FuncQual) (params : List (Nat × Name))
deriving Repr

/-! Compound statements as `ast::walk_stmt` walks them. -/
def Stmt.loop (b : List Stmt) : List Stmt := [.block b]
/-- `while (c) { b }` walks the block, then the condition; `do { b } while (c)` the other way -/
def Stmt.while (doWhile : Bool) (c : List Expr) (b : List Stmt) : List Stmt :=
  if doWhile then [.expr c, .block b] else [.block b, .expr c]
def Stmt.times (es : List Expr) (b : List Stmt) : List Stmt := [.expr es, .block b]
/-- `times(x = n) { b }`: the clobbered variable `x` is an ordinary use, visited before the count -/
def Stmt.timesClobber (x : Use) (es : List Expr) (b : List Stmt) : List Stmt := [.expr (.use x :: es), .block b]
def Stmt.condChain (branches : List (List Expr × List Stmt)) (els : Option (List Stmt)) : List Stmt :=
  branches.flatMap (fun br => [Stmt.expr br.1, Stmt.block br.2]) ++
    (match els with | some b => [Stmt.block b] | none => [])

/-- Everything name resolution sees besides the script: mapfiles and builtin definitions. -/
structure Globals where
  /-- one mapfile rib per language, outermost first (`EnumMap<LanguageKey, Rib>` order) -/
  langs : List Lang
  /-- `!gvar_names` entries in definition order -/
  regAliases : List (Lang × Name × Int)
  /-- `!ins_names` entries in definition order -/
  insAliases : List (Lang × Name × Int)
  /-- declared enums (`!enum(name=...)` sections and the builtin ones) -/
  enums : List Name
  /-- `(enum, const)` pairs in definition order (`!enum(name=...)` sections, `bool`) -/
  enumConsts : List (Name × Name)
  /-- `NAN`, `INF`, `PI` -/
  builtins : List Name
  /-- language of non-`const` functions (`AssignLanguagesOptions::funcs`) -/
  funcsLang : Lang
  /-- language of `script`s (`AssignLanguagesOptions::scripts`) -/
  scriptsLang : Lang
  /-- `!ins_signatures`: `(language, opcode, enum expected by each parameter)`; an instruction
  that is not listed has no signature (`InsMissingSigError`) -/
  insSigs : List (Lang × Int × List (Option Name)) := []
  /-- signatures of the user functions of the program (number of parameters), keyed by the
  occurrence id of the declaring identifier: `define_user_func` stores them in `ctx.defs` when the
  item is added to scope.  The table is global in the real code too, and an entry is looked up only
  after the callee name resolved to that function, so filling it up front is equivalent;
  `resolveRibs` / `resolveSpec` fill it from the program (`Globals.withProgram`). -/
  funcSigs : List (Nat × Nat) := []
deriving Repr

/-- a signature as far as name resolution looks at it: the `ty_color` of each parameter -/
abbrev Sig := List (Option Name)

def Globals.insSig (g : Globals) (l : Lang) (op : Int) : Option Sig :=
  (g.insSigs.find? fun s => s.1 == l && s.2.1 == op).map (·.2.2)

/-! ## Ribs (`resolve::rib`) -/

inductive RibKind where
  | locals | params
  | barrier (ik : ItemKind)
  | items
  | mapfile (lang : Lang)
  | enumConsts | builtinConsts | dummyRoot
deriving DecidableEq, Repr

/-- `defs: HashMap<Ident, RibEntry>` as an association list, newest entry first: `insert`
overwrites, i.e. a lookup finds the newest entry. -/
structure Rib where
  kind : RibKind
  defs : List (Name × Def)
deriving Repr

def Rib.new (k : RibKind) : Rib := ⟨k, []⟩
def Rib.get (r : Rib) (n : Name) : Option Def := r.defs.lookup n
/-- `Rib::insert`: returns the old definition if this is a redefinition (and overwrites it). -/
def Rib.insert (r : Rib) (n : Name) (d : Def) : Rib × Option Def := (⟨r.kind, (n, d) :: r.defs⟩, r.get n)

def RibKind.localBarrierCause : RibKind → Option ItemKind
  | .barrier ik => some ik
  | _ => none

/-- `holds_locals` together with the rib's noun -/
def RibKind.holdsLocals : RibKind → Option LocalKind
  | .locals => some .local
  | .params => some .param
  | _ => none

/-- `Rib::noun` for the kinds that can see a redefinition -/
def ribNoun : RibKind → Ns → Option Noun
  | .locals, _ => some .local
  | .params, _ => some .param
  | .items, .vars => some .const
  | .items, .funcs => some .func
  | _, _ => none

/-- `RibStacks::resolve` for one namespace: walk the ribs innermost-first.
`crossed` is `crossed_local_border`. -/
def resolve (aliasLang : Option Lang) (name : Name) : Option ItemKind → List Rib → Except ErrClass Def
  | _, [] => .error .unknown
  | crossed, rib :: rest =>
    let crossed := match crossed with
      | some c => some c
      | none => rib.kind.localBarrierCause
    match rib.get name with
    | none => resolve aliasLang name crossed rest
    | some d =>
      match rib.kind.holdsLocals, crossed with
      | some lk, some ik => .error (.crossBarrier lk ik)
      | _, _ =>
        match rib.kind with
        | .mapfile l => if aliasLang = some l then .ok d else resolve aliasLang name crossed rest
        | _ => .ok d

structure Stacks where
  vars : List Rib
  funcs : List Rib
deriving Repr

/-- a rib filled by successive `insert`s -/
def mkRib (k : RibKind) (entries : List (Name × Def)) : Rib :=
  entries.foldl (fun r e => (r.insert e.1 e.2).1) (Rib.new k)

def Globals.regRib (g : Globals) (l : Lang) : Rib :=
  mkRib (.mapfile l) ((g.regAliases.filter (fun a => a.1 == l)).map fun a => (a.2.1, Def.regAlias l a.2.2))
def Globals.insRib (g : Globals) (l : Lang) : Rib :=
  mkRib (.mapfile l) ((g.insAliases.filter (fun a => a.1 == l)).map fun a => (a.2.1, Def.insAlias l a.2.2))
def Globals.enumRib (g : Globals) : Rib :=
  mkRib .enumConsts (g.enumConsts.map fun p => (p.2, Def.enumDummy))
def Globals.builtinRib (g : Globals) : Rib :=
  mkRib .builtinConsts (g.builtins.map fun n => (n, Def.builtin n))

/-- `Defs::initial_ribs` pushed on top of `DummyRoot` (`RibStacks::from_iter`), `Vars` namespace:
register aliases per language, builtin consts, enum consts (innermost). -/
def Globals.initialVars (g : Globals) : List Rib :=
  g.enumRib :: g.builtinRib :: (g.langs.reverse.map g.regRib ++ [Rib.new .dummyRoot])
def Globals.initialFuncs (g : Globals) : List Rib :=
  g.langs.reverse.map g.insRib ++ [Rib.new .dummyRoot]

/-- `Defs::initial_ribs`: the `Vec` as it is returned, bottom of the stacks first: the instruction
alias rib of every language, the register alias rib of every language, the builtin consts, the
enum consts. -/
def Globals.initialRibsVec (g : Globals) : List (Ns × Rib) :=
  g.langs.map (fun l => (Ns.funcs, g.insRib l)) ++ g.langs.map (fun l => (Ns.vars, g.regRib l)) ++
    [(Ns.vars, g.builtinRib), (Ns.vars, g.enumRib)]

/-- `RibStacks::from_iter`: every rib is pushed on the stack of its namespace, on top of `DummyRoot` -/
def pushRib (st : Stacks) (r : Ns × Rib) : Stacks :=
  match r.1 with
  | .vars => { st with vars := r.2 :: st.vars }
  | .funcs => { st with funcs := r.2 :: st.funcs }

def ribStacksFromIter (v : List (Ns × Rib)) : Stacks :=
  v.foldl pushRib ⟨[Rib.new .dummyRoot], [Rib.new .dummyRoot]⟩

/-! ## Unqualified enum consts (`resolve_unqualified_enum_const`) -/

def Globals.enumHas (g : Globals) (e n : Name) : Bool := g.enumConsts.any fun p => p.1 == e && p.2 == n
/-- the distinct enums that define `n` (`unique_enums`) -/
def Globals.enumOwners (g : Globals) (n : Name) : List Name :=
  ((g.enumConsts.filter fun p => p.2 == n).map (·.1)).eraseDups

def resolveUnqualifiedEnumConst (g : Globals) (u : Use) : Event :=
  match (match u.color with
         | some e => if g.enumHas e u.name then some e else none
         | none => none) with
  | some e => .res u.id (.enumConst e u.name)
  | none =>
    match g.enumOwners u.name with
    | [] => .panic "not an enum const"
    | [e] => .res u.id (.enumConst e u.name)
    | _ => .err u.id .ambiguousEnum

/-- `resolve_qualified_enum_const`: `Enum.name` never looks at the rib stack, so that consts
cannot shadow it -/
def resolveQualifiedEnumConst (g : Globals) (u : Use) (e : Name) : Event :=
  if g.enums.contains e then
    if g.enumHas e u.name then .res u.id (.enumConst e u.name) else .err u.id .noEnumConst
  else .err u.id .noSuchEnum

/-- `visit_var` after `rib_stacks.resolve` -/
def finishVar (g : Globals) (u : Use) : Except ErrClass Def → Event
  | .error e => .err u.id e
  | .ok .enumDummy => resolveUnqualifiedEnumConst g u
  | .ok d => .res u.id d

/-- `visit_callable_name_` after `rib_stacks.resolve` -/
def finishFunc (u : Use) : Except ErrClass Def → Event
  | .error e => .err u.id e
  | .ok d => .res u.id d

/-! ## The visitor -/

/-- `visit_var` / `visit_callable_name` -/
def visitUseScoped (g : Globals) (lang : Option Lang) (st : Stacks) (u : Use) : Event :=
  match u.ns with
  | .vars => finishVar g u (resolve lang u.name none st.vars)
  | .funcs => finishFunc u (resolve lang u.name none st.funcs)

/-- `visit_expr` on an identifier: the `Expr::EnumConst` arm or the scoped lookup -/
def visitUse (g : Globals) (lang : Option Lang) (st : Stacks) (u : Use) : Event :=
  match u.enumQual with
  | some e => resolveQualifiedEnumConst g u e
  | none => visitUseScoped g lang st u

/-! ## Walking an expression (`visit_expr`, `visit_call_`, `visit_call_args_with_signature_info`) -/

/-- `func_signature_from_ast` once the callee resolved to `d`: a user function has the signature
it was declared with (its parameters carry no enum), an instruction alias the signature of its
instruction if there is one -/
def Globals.sigOfDef (g : Globals) : Def → Option Sig
  | .decl id => (g.funcSigs.lookup id).map fun n => List.replicate n none
  | .insAlias l op => g.insSig l op
  | _ => none

/-- the signature after visiting the callee name: none if resolving the name failed -/
def Globals.sigOfEvent (g : Globals) : Event → Option Sig
  | .res _ d => g.sigOfDef d
  | _ => none

mutual
/-- the identifiers of an expression that is never visited -/
def skipExpr : Expr → List Event
  | .use u => [.skipped u.id]
  | .group es => skipExprs es
  | .call u args => .skipped u.id :: skipExprs args
  | .raw _ args => skipExprs args
def skipExprs : List Expr → List Event
  | [] => []
  | e :: es => skipExpr e ++ skipExprs es
end

mutual
/-- `visit_expr` while `ty_color_stack.last() = c`.  `look` is what `visit_var` /
`visit_callable_name_` do with one identifier at the current program point; it is the only thing
that differs between the rib-stack resolver and the scoping specification. -/
def walkExpr (g : Globals) (lang : Option Lang) (look : Use → Event) (c : Option Name) : Expr → List Event
  | .use u => [look { u with color := c }]
  | .group es => walkExprs g lang look c es
  | .call u args =>
    look { u with color := c } :: walkArgs g lang look c (g.sigOfEvent (look { u with color := c })) args
  | .raw op args =>
    walkArgs g lang look c (match lang with | some l => g.insSig l op | none => none) args
def walkExprs (g : Globals) (lang : Option Lang) (look : Use → Event) (c : Option Name) : List Expr → List Event
  | [] => []
  | e :: es => walkExpr g lang look c e ++ walkExprs g lang look c es
/-- `visit_call_args_with_signature_info`: without a signature every argument is visited and the
expected enum stays what it was; with one, argument `i` is visited with the enum of parameter `i`
and the arguments beyond the last parameter are not visited at all -/
def walkArgs (g : Globals) (lang : Option Lang) (look : Use → Event) (c : Option Name) :
    Option Sig → List Expr → List Event
  | _, [] => []
  | none, e :: es => walkExpr g lang look c e ++ walkArgs g lang look c none es
  | some [], e :: es => skipExpr e ++ walkArgs g lang look c (some []) es
  | some (pc :: ps), e :: es => walkExpr g lang look pc e ++ walkArgs g lang look c (some ps) es
end

/-- `add_to_rib_with_redefinition_check` (after `define_*` made `Def.decl id`) -/
def addToRib (stack : List Rib) (expected : RibKind) (ns : Ns) (id : Nat) (name : Name) : List Rib × List Event :=
  match stack with
  | [] => ([], [.panic "no ribs?"])
  | rib :: rest =>
    if rib.kind ≠ expected then (stack, [.panic "top_rib: unexpected rib kind"])
    else
      let r := rib.insert name (.decl id)
      (r.1 :: rest,
        match r.2 with
        | none => []
        | some _ =>
          match ribNoun rib.kind ns with
          | some noun => [.redef id noun]
          | none => [.panic "noun called on marker rib"])

def addConstVars (st : Stacks) : List DeclVar → Stacks × List Event
  | [] => (st, [])
  | v :: vs =>
    let r := addToRib st.vars .items .vars v.id v.name
    let r2 := addConstVars { st with vars := r.1 } vs
    (r2.1, .selfRes v.id :: r.2 ++ r2.2)

/-- `add_item_to_scope` -/
def addItemToScope (st : Stacks) : Stmt → Stacks × List Event
  | .func id name _ _ _ =>
    let r := addToRib st.funcs .items .funcs id name
    ({ st with funcs := r.1 }, .selfRes id :: r.2)
  | .funcDecl id name _ _ =>
    let r := addToRib st.funcs .items .funcs id name
    ({ st with funcs := r.1 }, .selfRes id :: r.2)
  | .const vars => addConstVars st vars
  | _ => (st, [])

/-- `block_items(block).for_each(|item| self.add_item_to_scope(item))` -/
def addItems (st : Stacks) : List Stmt → Stacks × List Event
  | [] => (st, [])
  | s :: ss =>
    let r := addItemToScope st s
    let r2 := addItems r.1 ss
    (r2.1, r.2 ++ r2.2)

def addParams (st : Stacks) : List (Nat × Name) → Stacks × List Event
  | [] => (st, [])
  | p :: ps =>
    let r := addToRib st.vars .params .vars p.1 p.2
    let r2 := addParams { st with vars := r.1 } ps
    (r2.1, .selfRes p.1 :: r.2 ++ r2.2)

/-- `StmtKind::Declaration`: initialiser first, then the variable enters the `Locals` rib -/
def visitDeclVars (g : Globals) (lang : Option Lang) (st : Stacks) : List DeclVar → Stacks × List Event
  | [] => (st, [])
  | v :: vs =>
    let ev1 := walkExprs g lang (visitUse g lang st) none v.init
    let r := addToRib st.vars .locals .vars v.id v.name
    let r2 := visitDeclVars g lang { st with vars := r.1 } vs
    (r2.1, ev1 ++ .selfRes v.id :: r.2 ++ r2.2)

/-- language painted by `AssignLanguagesVisitor::visit_item` on a function body -/
def funcLang (g : Globals) : FuncQual → Option Lang
  | .const => none
  | _ => some g.funcsLang

/-- `visit_block` up to the statements: the two `Items` ribs with the block's items pre-declared
(`add_item_to_scope`), then the `Locals` rib; returns the stacks the statements are visited in and
the events of the pre-declaration -/
def enterBlock (st : Stacks) (b : List Stmt) : Stacks × List Event :=
  let st1 : Stacks := { vars := Rib.new .items :: st.vars, funcs := Rib.new .items :: st.funcs }
  let r := addItems st1 b
  ({ r.1 with vars := Rib.new .locals :: r.1.vars }, r.2)

mutual
/-- `visit_stmt`; returns the rib stacks afterwards (only the top `Locals` rib can have grown).
Blocks are visited by `visit_block` = `enterBlock` followed by the statements. -/
def visitStmt (g : Globals) (lang : Option Lang) (st : Stacks) : Stmt → Stacks × List Event
  | .expr es => (st, walkExprs g lang (visitUse g lang st) none es)
  | .decl vars => visitDeclVars g lang st vars
  | .block b => (st, (enterBlock st b).2 ++ visitStmts g lang (enterBlock st b).1 b)
  | .func _ _ qual params body =>
    let st1 : Stacks := { st with vars := Rib.new .params :: Rib.new (.barrier .function) :: st.vars }
    let r := addParams st1 params
    (st, r.2 ++ ((enterBlock r.1 body).2 ++ visitStmts g (funcLang g qual) (enterBlock r.1 body).1 body))
  | .const vars =>
    let st1 : Stacks := { st with vars := Rib.new (.barrier .const) :: st.vars }
    (st, vars.flatMap fun v => walkExprs g none (visitUse g none st1) none v.init)
  | .script body =>
    (st, (enterBlock st body).2 ++ visitStmts g (some g.scriptsLang) (enterBlock st body).1 body)
  | .funcDecl _ _ _ params => (st, params.map fun p => Event.skipped p.1)
def visitStmts (g : Globals) (lang : Option Lang) (st : Stacks) : List Stmt → List Event
  | [] => []
  | s :: ss => (visitStmt g lang st s).2 ++ visitStmts g lang (visitStmt g lang st s).1 ss
end

/-- `visit_block` -/
def visitBlock (g : Globals) (lang : Option Lang) (st : Stacks) (b : List Stmt) : List Event :=
  (enterBlock st b).2 ++ visitStmts g lang (enterBlock st b).1 b

def Globals.initialStacks (g : Globals) : Stacks := ⟨g.initialVars, g.initialFuncs⟩

mutual
/-- `(occurrence id of the name, number of parameters)` of every function item of the program -/
def stmtFuncSigs : Stmt → List (Nat × Nat)
  | .func id _ _ params body => (id, params.length) :: stmtsFuncSigs body
  | .funcDecl id _ _ params => [(id, params.length)]
  | .block b => stmtsFuncSigs b
  | .script b => stmtsFuncSigs b
  | .expr _ => []
  | .decl _ => []
  | .const _ => []
def stmtsFuncSigs : List Stmt → List (Nat × Nat)
  | [] => []
  | s :: ss => stmtFuncSigs s ++ stmtsFuncSigs ss
end

/-- the globals together with what `ctx.defs` knows about the functions of the program -/
def Globals.withProgram (g : Globals) (items : List Stmt) : Globals := { g with funcSigs := stmtsFuncSigs items }

/-- `visit_file` with the given table of function signatures -/
def resolveRibsWith (g : Globals) (items : List Stmt) : List Event :=
  let st0 : Stacks := { vars := Rib.new .items :: g.initialVars, funcs := Rib.new .items :: g.initialFuncs }
  let r := addItems st0 items
  r.2 ++ visitStmts g (some g.funcsLang) r.1 items

/-- `visit_file` on a script file (its items). -/
def resolveRibs (g : Globals) (items : List Stmt) : List Event :=
  resolveRibsWith (g.withProgram items) items

/-- `resolve_names` called directly on a block (as the unit tests do) -/
def resolveRibsBlock (g : Globals) (b : List Stmt) : List Event :=
  visitBlock (g.withProgram b) (some g.funcsLang) (g.withProgram b).initialStacks b

/-! ## `Resolutions` -/

/-- `Resolutions::map` as an association list `ResId ↦ DefId` -/
abbrev Table := List (Nat × Def)

/-- `_record_resolution` with its "ident resolved multiple times" assertion -/
def record (t : Table) (id : Nat) (d : Def) (isSelf : Bool) : Outcome Table :=
  match t.lookup id with
  | none => .ok ((id, d) :: t)
  | some old => if old = d ∧ isSelf then .ok ((id, d) :: t) else .panic "(bug!) ident resolved multiple times"

def applyEvents (t : Table) : List Event → Outcome Table
  | [] => .ok t
  | .selfRes id :: es =>
    match record t id (.decl id) true with
    | .ok t' => applyEvents t' es
    | .err c => .err c
    | .panic s => .panic s
  | .res id d :: es =>
    match record t id d false with
    | .ok t' => applyEvents t' es
    | .err c => .err c
    | .panic s => .panic s
  | .panic s :: _ => .panic s
  | _ :: es => applyEvents t es

/-! ## Declarative specification

The scope at a program point is an environment: for every name the innermost visible
declaration, if any.  Entering a block overrides it by the block's items (visible in the whole
block); a local declaration overrides it from that point on; entering a function or const item
hides every local and parameter (a hidden local still shadows whatever is further out, and using
it is an error); names without a visible declaration fall through to the global definitions:
enum consts, then builtin consts, then register aliases of the language of the use.  Functions
live in their own namespace, which has no locals and therefore no hiding, and fall through to the
instruction aliases of the language of the use. -/

inductive VEntry where
  | loc (k : LocalKind) (d : Def)
  | item (d : Def)
  /-- a local or parameter behind a function/const boundary -/
  | blocked (k : LocalKind) (ik : ItemKind)
deriving DecidableEq, Repr

structure Env where
  vars : Name → Option VEntry
  funcs : Name → Option Def

def hideEntry (ik : ItemKind) : VEntry → VEntry
  | .loc k _ => .blocked k ik
  | .blocked k _ => .blocked k ik
  | .item d => .item d

def Env.hide (ik : ItemKind) (env : Env) : Env :=
  { env with vars := fun n => (env.vars n).map (hideEntry ik) }

def update {α} (f : Name → Option α) (n : Name) (v : α) : Name → Option α :=
  fun m => if m = n then some v else f m

/-- the last definition of `n` among the aliases of language `l` -/
def lastAlias : List (Lang × Name × Int) → Lang → Name → Option Int
  | [], _, _ => none
  | a :: rest, l, n =>
    match lastAlias rest l n with
    | some r => some r
    | none => if a.1 = l ∧ a.2.1 = n then some a.2.2 else none

/-- global definitions visible to a variable use of language `lang` -/
def Globals.globalVar (g : Globals) (lang : Option Lang) (n : Name) : Except ErrClass Def :=
  if g.enumConsts.any (fun p => p.2 == n) then .ok .enumDummy
  else if g.builtins.contains n then .ok (.builtin n)
  else match lang with
    | none => .error .unknown
    | some l =>
      if g.langs.contains l then
        match lastAlias g.regAliases l n with
        | some r => .ok (.regAlias l r)
        | none => .error .unknown
      else .error .unknown

def Globals.globalFunc (g : Globals) (lang : Option Lang) (n : Name) : Except ErrClass Def :=
  match lang with
  | none => .error .unknown
  | some l =>
    if g.langs.contains l then
      match lastAlias g.insAliases l n with
      | some r => .ok (.insAlias l r)
      | none => .error .unknown
    else .error .unknown

def lookupVar (g : Globals) (lang : Option Lang) (env : Env) (n : Name) : Except ErrClass Def :=
  match env.vars n with
  | some (.loc _ d) => .ok d
  | some (.item d) => .ok d
  | some (.blocked k ik) => .error (.crossBarrier k ik)
  | none => g.globalVar lang n

def lookupFunc (g : Globals) (lang : Option Lang) (env : Env) (n : Name) : Except ErrClass Def :=
  match env.funcs n with
  | some d => .ok d
  | none => g.globalFunc lang n

def specUseScoped (g : Globals) (lang : Option Lang) (env : Env) (u : Use) : Event :=
  match u.ns with
  | .vars => finishVar g u (lookupVar g lang env u.name)
  | .funcs => finishFunc u (lookupFunc g lang env u.name)

/-- `Enum.name` is not subject to scoping at all -/
def specUse (g : Globals) (lang : Option Lang) (env : Env) (u : Use) : Event :=
  match u.enumQual with
  | some e => resolveQualifiedEnumConst g u e
  | none => specUseScoped g lang env u

/-- item declarations of a block, in order: `(namespace, occurrence id, name)` -/
def itemDecls : List Stmt → List (Ns × Nat × Name)
  | [] => []
  | .func id name _ _ _ :: r => (.funcs, id, name) :: itemDecls r
  | .funcDecl id name _ _ :: r => (.funcs, id, name) :: itemDecls r
  | .const vars :: r => vars.map (fun v => (Ns.vars, v.id, v.name)) ++ itemDecls r
  | _ :: r => itemDecls r

def itemNoun : Ns → Noun
  | .vars => .const
  | .funcs => .func

/-- every declaration is announced; one whose name was already declared in the same rib is an error -/
def declEvents (noun : Ns → Noun) (seen : Ns → Name → Bool) : List (Ns × Nat × Name) → List Event
  | [] => []
  | (ns, id, n) :: r =>
    .selfRes id :: (if seen ns n then [.redef id (noun ns)] else []) ++
      declEvents noun (fun ns' n' => (ns' = ns ∧ n' = n) || seen ns' n') r

/-- the last declaration of `n` in namespace `ns` -/
def lastDecl : List (Ns × Nat × Name) → Ns → Name → Option Nat
  | [], _, _ => none
  | d :: rest, ns, n =>
    match lastDecl rest ns n with
    | some id => some id
    | none => if d.1 = ns ∧ d.2.2 = n then some d.2.1 else none

/-- items are in scope in their whole block -/
def Env.withItems (env : Env) (ds : List (Ns × Nat × Name)) : Env :=
  { vars := fun n => match lastDecl ds .vars n with
      | some id => some (.item (.decl id))
      | none => env.vars n,
    funcs := fun n => match lastDecl ds .funcs n with
      | some id => some (.decl id)
      | none => env.funcs n }

/-- sequential local declarations (`k = local`) or parameters (`k = param`) without initialisers -/
def specParams (env : Env) (here : Name → Bool) : List (Nat × Name) → Env × List Event
  | [] => (env, [])
  | p :: ps =>
    let r := specParams { env with vars := update env.vars p.2 (.loc .param (.decl p.1)) }
      (fun n => n = p.2 || here n) ps
    (r.1, .selfRes p.1 :: (if here p.2 then [.redef p.1 .param] else []) ++ r.2)

/-- a local is in scope from the end of its declarator to the end of the block -/
def specDeclVars (g : Globals) (lang : Option Lang) (env : Env) (here : Name → Bool) :
    List DeclVar → (Env × (Name → Bool)) × List Event
  | [] => ((env, here), [])
  | v :: vs =>
    let r := specDeclVars g lang { env with vars := update env.vars v.name (.loc .local (.decl v.id)) }
      (fun n => n = v.name || here n) vs
    (r.1, walkExprs g lang (specUse g lang env) none v.init ++
      .selfRes v.id :: (if here v.name then [.redef v.id .local] else []) ++ r.2)

mutual
/-- `here`: the locals declared so far in the current block.  A block announces its items
(`declEvents`) and is then walked in the environment extended by them (`specBlock` below). -/
def specStmt (g : Globals) (lang : Option Lang) (env : Env) (here : Name → Bool) :
    Stmt → (Env × (Name → Bool)) × List Event
  | .expr es => ((env, here), walkExprs g lang (specUse g lang env) none es)
  | .decl vars => specDeclVars g lang env here vars
  | .block b =>
    ((env, here), declEvents itemNoun (fun _ _ => false) (itemDecls b) ++
      specStmts g lang (env.withItems (itemDecls b)) (fun _ => false) b)
  | .func _ _ qual params body =>
    let r := specParams (env.hide .function) (fun _ => false) params
    ((env, here), r.2 ++ (declEvents itemNoun (fun _ _ => false) (itemDecls body) ++
      specStmts g (funcLang g qual) (r.1.withItems (itemDecls body)) (fun _ => false) body))
  | .const vars =>
    ((env, here), vars.flatMap fun v => walkExprs g none (specUse g none (env.hide .const)) none v.init)
  | .script body =>
    ((env, here), declEvents itemNoun (fun _ _ => false) (itemDecls body) ++
      specStmts g (some g.scriptsLang) (env.withItems (itemDecls body)) (fun _ => false) body)
  | .funcDecl _ _ _ params => ((env, here), params.map fun p => Event.skipped p.1)
def specStmts (g : Globals) (lang : Option Lang) (env : Env) (here : Name → Bool) : List Stmt → List Event
  | [] => []
  | s :: ss =>
    (specStmt g lang env here s).2 ++
      specStmts g lang (specStmt g lang env here s).1.1 (specStmt g lang env here s).1.2 ss
end

def specBlock (g : Globals) (lang : Option Lang) (env : Env) (b : List Stmt) : List Event :=
  declEvents itemNoun (fun _ _ => false) (itemDecls b) ++
    specStmts g lang (env.withItems (itemDecls b)) (fun _ => false) b

def Env.empty : Env := ⟨fun _ => none, fun _ => none⟩

def resolveSpecWith (g : Globals) (items : List Stmt) : List Event :=
  declEvents itemNoun (fun _ _ => false) (itemDecls items) ++
    specStmts g (some g.funcsLang) (Env.empty.withItems (itemDecls items)) (fun _ => false) items

def resolveSpec (g : Globals) (items : List Stmt) : List Event :=
  resolveSpecWith (g.withProgram items) items

def resolveSpecBlock (g : Globals) (b : List Stmt) : List Event :=
  specBlock (g.withProgram b) (some g.funcsLang) Env.empty b

/-! ## Consistent renaming

`renameFile ρ items` renames every declaration `x` to `ρ x` together with every use that is bound
to a declaration of the program (or blocked by one: a use of a hidden local), and leaves the uses
that refer to global definitions or to nothing alone.  Which uses are bound is decided by the
scoping specification. -/

def renUseScoped (ρ : Name → Name) (env : Env) (u : Use) : Use :=
  match u.ns with
  | .vars => if (env.vars u.name).isSome then { u with name := ρ u.name } else u
  | .funcs => if (env.funcs u.name).isSome then { u with name := ρ u.name } else u

/-- a qualified enum const is never bound to a declaration of the program -/
def renUse (ρ : Name → Name) (env : Env) (u : Use) : Use :=
  match u.enumQual with
  | some _ => u
  | none => renUseScoped ρ env u

mutual
/-- every identifier of an expression is renamed, also in arguments that are never visited -/
def renExpr (ρ : Name → Name) (env : Env) : Expr → Expr
  | .use u => .use (renUse ρ env u)
  | .group es => .group (renExprs ρ env es)
  | .call u args => .call (renUse ρ env u) (renExprs ρ env args)
  | .raw op args => .raw op (renExprs ρ env args)
def renExprs (ρ : Name → Name) (env : Env) : List Expr → List Expr
  | [] => []
  | e :: es => renExpr ρ env e :: renExprs ρ env es
end

/-- the environment after local declarations -/
def declEnv (env : Env) : List DeclVar → Env
  | [] => env
  | v :: vs => declEnv { env with vars := update env.vars v.name (.loc .local (.decl v.id)) } vs

/-- the environment of a function body: the parameters -/
def paramEnv (env : Env) : List (Nat × Name) → Env
  | [] => env
  | p :: ps => paramEnv { env with vars := update env.vars p.2 (.loc .param (.decl p.1)) } ps

def envAfter (env : Env) : Stmt → Env
  | .decl vars => declEnv env vars
  | _ => env

def renDeclVars (ρ : Name → Name) (env : Env) : List DeclVar → List DeclVar
  | [] => []
  | v :: vs =>
    { v with name := ρ v.name, init := renExprs ρ env v.init } ::
      renDeclVars ρ { env with vars := update env.vars v.name (.loc .local (.decl v.id)) } vs

def renConstVars (ρ : Name → Name) (env : Env) (vars : List DeclVar) : List DeclVar :=
  vars.map fun v => { v with name := ρ v.name, init := renExprs ρ env v.init }

mutual
def renStmt (ρ : Name → Name) (env : Env) : Stmt → Stmt
  | .expr es => .expr (renExprs ρ env es)
  | .decl vars => .decl (renDeclVars ρ env vars)
  | .block b => .block (renStmts ρ (env.withItems (itemDecls b)) b)
  | .func id name qual params body =>
    .func id (ρ name) qual (params.map fun p => (p.1, ρ p.2))
      (renStmts ρ ((paramEnv (env.hide .function) params).withItems (itemDecls body)) body)
  | .const vars => .const (renConstVars ρ (env.hide .const) vars)
  | .script b => .script (renStmts ρ (env.withItems (itemDecls b)) b)
  | .funcDecl id name qual params => .funcDecl id (ρ name) qual params
def renStmts (ρ : Name → Name) (env : Env) : List Stmt → List Stmt
  | [] => []
  | s :: ss => renStmt ρ env s :: renStmts ρ (envAfter env s) ss
end

def renameFile (ρ : Name → Name) (items : List Stmt) : List Stmt :=
  renStmts ρ (Env.empty.withItems (itemDecls items)) items

def renameBlock (ρ : Name → Name) (b : List Stmt) : List Stmt :=
  renStmts ρ (Env.empty.withItems (itemDecls b)) b

mutual
/-- the names used in an expression -/
def exprNames : Expr → List Name
  | .use u => [u.name]
  | .group es => exprsNames es
  | .call u args => u.name :: exprsNames args
  | .raw _ args => exprsNames args
def exprsNames : List Expr → List Name
  | [] => []
  | e :: es => exprNames e ++ exprsNames es
end

def usesNames (es : List Expr) : List Name := exprsNames es

mutual
/-- every name that occurs in a statement (declared or used) -/
def stmtNames : Stmt → List Name
  | .expr es => usesNames es
  | .decl vars => vars.flatMap fun v => v.name :: usesNames v.init
  | .block b => stmtsNames b
  | .func _ name _ params body => name :: (params.map (·.2) ++ stmtsNames body)
  | .const vars => vars.flatMap fun v => v.name :: usesNames v.init
  | .script b => stmtsNames b
  | .funcDecl _ name _ _ => [name]
def stmtsNames : List Stmt → List Name
  | [] => []
  | s :: ss => stmtNames s ++ stmtsNames ss
end

mutual
/-- every name declared somewhere in a statement -/
def stmtDeclNames : Stmt → List Name
  | .expr _ => []
  | .decl vars => vars.map (·.name)
  | .block b => stmtsDeclNames b
  | .func _ name _ params body => name :: (params.map (·.2) ++ stmtsDeclNames body)
  | .const vars => vars.map (·.name)
  | .script b => stmtsDeclNames b
  | .funcDecl _ name _ _ => [name]
def stmtsDeclNames : List Stmt → List Name
  | [] => []
  | s :: ss => stmtDeclNames s ++ stmtsDeclNames ss
end

end TruthModel.Scope
