import TruthModel.Model.Abi
import TruthModel.Model.InstrIO
/-
Model of the tail of `lower_sub_ast_to_instrs` (`src/llir/lower.rs`), the part that produces the
offsets of the debug-info document (property C18):

* `substitute_dummy_args`                                   -> `dummyArg`, `substituteDummy`
* `gather_label_info` (the dummy encoding pass: running offset, `stmt_offsets`, the label
  table, `debug_info::ScriptOffsetInfo { instrs, labels, end_offset }`)      -> `gatherLabelInfo`
* `encode_labels` (`offsetof` / `timeof` -> integers, `hooks.encode_label`)  -> `encodeLabels`
* the second, real encoding pass (`encode_args(..).expect("we encoded this successfully
  before!")`)                                                                -> `secondPass`
* the three in sequence                                                      -> `lowerTail`

The stream is the `LowerStmt` stream after `elaborate_diff_switches` (no difficulty switch is
left; an instruction replicated per difficulty is simply several instructions here).  The
argument codec itself is `TruthModel.Abi.encodeArgs` (property C12); instruction headers are
those of `TruthModel.InstrIO` (property C03).  The signature (`Abi`) the Rust code looks up by
opcode in both passes is attached to the instruction.

`assign_registers` runs before these passes in the real pipeline and replaces every
`LowerArg::Local` by a register (`Regs.assign`, property C05); `resolveLocals` is that
replacement for a given assignment.  `substitute_dummy_args` nevertheless has an arm for
`Local`, which is modelled (and shown to be wrong for float storage: `Props/C18.lean`).
Core Lean only.
-/
namespace TruthModel.Offsets
open TruthModel TruthModel.Abi

/-- `LowerArg` without `DiffSwitch` -/
inductive LArg where
  /-- `Raw(SimpleArg)` -/
  | raw (a : Arg)
  /-- `Label(ident)`: `offsetof(label)` -/
  | label (name : String)
  /-- `TimeOf(ident)` -/
  | timeOf (name : String)
  /-- `Local { def_id, storage_ty }`; `floatStorage` = the register number is written as a float -/
  | loc (d : Nat) (floatStorage : Bool)
deriving DecidableEq, Repr, Inhabited

/-- `LowerArgs` -/
inductive LArgs where
  /-- `Known(args)`, with the signature `defs.ins_abi(language, opcode)` finds for the opcode -/
  | known (abi : Abi) (args : List LArg)
  /-- `Unknown(blob)`: the user wrote `@blob=` -/
  | unknown (blob : Bytes)
deriving DecidableEq, Repr, Inhabited

/-- `LowerInstr` (the `@mask`/`@arg0`/`@pop`/`@nargs` overrides do not influence sizes) -/
structure LInstr where
  time : Int
  opcode : Nat
  difficulty : Nat := 255
  args : LArgs
deriving DecidableEq, Repr, Inhabited

/-- `LowerStmt` -/
inductive LStmt where
  | instr (i : LInstr)
  | label (time : Int) (name : String)
  | regAlloc (d : Nat)
  | regFree (d : Nat)
deriving DecidableEq, Repr, Inhabited

/-- `RawInstr` -/
structure RawInstr where
  time : Int
  opcode : Nat
  mask : Nat
  blob : Bytes
  difficulty : Nat
  extra : Option Int
deriving DecidableEq, Repr, Inhabited

def RawInstr.toIO (r : RawInstr) : InstrIO.Instr :=
  { time := r.time, opcode := r.opcode, mask := r.mask, blob := r.blob, difficulty := r.difficulty, extra := r.extra }

/-- `InstrFormat::instr_size` = `instr_header_size() + args_blob.len()` -/
def instrSize (hdr : Nat) (r : RawInstr) : Nat := hdr + r.blob.length

/-! ### `encode_args` on a `LowerInstr` -/

/-- `LowerArg::expect_raw` -/
def expectRaw : LArg → Outcome Arg
  | .raw a => .ok a
  | _ => .panic "unexpected unresolved argument (bug!)"

def expectRawAll : List LArg → Outcome (List Arg)
  | [] => .ok []
  | a :: as =>
    match expectRaw a with
    | .ok x =>
      match expectRawAll as with
      | .ok xs => .ok (x :: xs)
      | .err c => .err c
      | .panic p => .panic p
    | .err c => .err c
    | .panic p => .panic p

/-- `encode_args(state, hooks, instr, ..)`: the `RawInstr` and the furigana state afterwards -/
def encodeInstr (hasRegs : Bool) (st : EncState) (i : LInstr) : Outcome (RawInstr × EncState) :=
  match i.args with
  | .unknown blob => .ok (⟨i.time, i.opcode, 0, blob, i.difficulty, none⟩, st)
  | .known abi args =>
    match expectRawAll args with
    | .ok xs =>
      match encodeArgs hasRegs st abi xs with
      | .ok (raw, _, st1) => .ok (⟨i.time, i.opcode, raw.mask, raw.blob, i.difficulty, raw.arg0⟩, st1)
      | .err c => .err c
      | .panic p => .panic p
    | .err c => .err c
    | .panic p => .panic p

/-! ### `substitute_dummy_args` -/

/-- labels and `timeof` become the immediate 0, a local becomes register 0 *as an integer* -/
def dummyArg : LArg → LArg
  | .raw a => .raw a
  | .label _ => .raw (.int 0 false)
  | .timeOf _ => .raw (.int 0 false)
  | .loc _ _ => .raw (.int 0 true)

def substituteDummy (i : LInstr) : LInstr :=
  match i.args with
  | .unknown blob => { i with args := .unknown blob }
  | .known abi args => { i with args := .known abi (args.map dummyArg) }

/-! ### `gather_label_info` -/

/-- `debug_info::Label` / `RawLabelInfo` (one table: the `IndexMap` is iterated in insertion order) -/
structure LabelInfo where
  name : String
  offset : Nat
  time : Int
deriving DecidableEq, Repr, Inhabited

/-- `LabelInfoverse` + `debug_info::ScriptOffsetInfo` -/
structure Gather where
  /-- `stmt_offsets`: one entry per statement -/
  stmtOffsets : List Nat
  /-- debug info `instrs[].offset` -/
  instrs : List Nat
  /-- debug info `labels` -/
  labels : List LabelInfo
  /-- debug info `end-offset` -/
  endOffset : Nat
deriving DecidableEq, Repr, Inhabited

def dupLabel : String := "duplicate label"

/-- the loop of `gather_label_info`; `off` = running offset, `st` = `encoding_state`, `seen` = keys
of the label map.  The first failing statement decides the outcome (`collect_with_recovery`
goes on to report later errors too, the first diagnostic is that of the first failing statement). -/
def gatherAux (hdr : Nat) (hasRegs : Bool) : Nat → EncState → List String → List LStmt → Outcome Gather
  | off, _, _, [] => .ok ⟨[], [], [], off⟩
  | off, st, seen, .instr i :: rest =>
    match encodeInstr hasRegs st (substituteDummy i) with
    | .ok (raw, st1) =>
      match gatherAux hdr hasRegs (off + instrSize hdr raw) st1 seen rest with
      | .ok g => .ok { g with stmtOffsets := off :: g.stmtOffsets, instrs := off :: g.instrs }
      | .err c => .err c
      | .panic p => .panic p
    | .err c => .err c
    | .panic p => .panic p
  | off, st, seen, .label t n :: rest =>
    if seen.contains n then .err dupLabel else
    match gatherAux hdr hasRegs off st (n :: seen) rest with
    | .ok g => .ok { g with stmtOffsets := off :: g.stmtOffsets, labels := ⟨n, off, t⟩ :: g.labels }
    | .err c => .err c
    | .panic p => .panic p
  | off, st, seen, _ :: rest =>
    match gatherAux hdr hasRegs off st seen rest with
    | .ok g => .ok { g with stmtOffsets := off :: g.stmtOffsets }
    | .err c => .err c
    | .panic p => .panic p

/-- `gather_label_info(hooks, 0, code, ..)` -/
def gatherLabelInfo (hdr : Nat) (hasRegs : Bool) (code : List LStmt) : Outcome Gather :=
  gatherAux hdr hasRegs 0 none [] code

/-! ### `encode_labels` -/

/-- `LanguageHooks::encode_label` of the formats: the default (ANM, MSG, StB+ STD: offset from the
start of the script), old ECL (relative to the jumping instruction), EoSD-PoFV STD (instruction
index; every instruction is 20 bytes) -/
inductive LabelMode where
  | absolute | relative | index20
deriving DecidableEq, Repr, Inhabited

/-- `hooks.encode_label(cur_offset, dest_offset) as i32` -/
def encodeLabel : LabelMode → Nat → Nat → Outcome Int
  | .absolute, _, dest => .ok (toSigned 4 (dest % 4294967296))
  | .relative, cur, dest => .ok (toSigned 4 (wrapTo 4 ((dest : Int) - (cur : Int))))
  | .index20, _, dest => .ok (toSigned 4 (dest / 20 % 4294967296))

def lookupLabel (labels : List LabelInfo) (n : String) : Option LabelInfo := labels.find? (·.name == n)

def undefLabel : String := "undefined label"

def encodeLabelArg (mode : LabelMode) (labels : List LabelInfo) (cur : Nat) : LArg → Outcome LArg
  | .label n =>
    match lookupLabel labels n with
    | some info =>
      match encodeLabel mode cur info.offset with
      | .ok v => .ok (.raw (.int v false))
      | .err c => .err c
      | .panic p => .panic p
    | none => .err undefLabel
  | .timeOf n =>
    match lookupLabel labels n with
    | some info => .ok (.raw (.int info.time false))
    | none => .err undefLabel
  | a => .ok a

def encodeLabelArgs (mode : LabelMode) (labels : List LabelInfo) (cur : Nat) : List LArg → Outcome (List LArg)
  | [] => .ok []
  | a :: as =>
    match encodeLabelArg mode labels cur a with
    | .ok a' =>
      match encodeLabelArgs mode labels cur as with
      | .ok as' => .ok (a' :: as')
      | .err c => .err c
      | .panic p => .panic p
    | .err c => .err c
    | .panic p => .panic p

def encodeLabelsStmt (mode : LabelMode) (labels : List LabelInfo) (cur : Nat) : LStmt → Outcome LStmt
  | .instr i =>
    match i.args with
    | .known abi args =>
      match encodeLabelArgs mode labels cur args with
      | .ok args' => .ok (.instr { i with args := .known abi args' })
      | .err c => .err c
      | .panic p => .panic p
    | .unknown _ => .ok (.instr i)
  | s => .ok s

/-- the loop of `encode_labels` over `code` zipped with `stmt_offsets`
(`assert_eq!(code.len(), stmt_offsets.len())`).  `collect_with_recovery` visits the remaining
statements after an error (the result is still an error), so an assertion failing later still
panics. -/
def encodeLabelsAux (mode : LabelMode) (labels : List LabelInfo) : List Nat → List LStmt → Outcome (List LStmt)
  | [], [] => .ok []
  | cur :: offs, s :: rest =>
    match encodeLabelsStmt mode labels cur s with
    | .ok s' =>
      match encodeLabelsAux mode labels offs rest with
      | .ok rest' => .ok (s' :: rest')
      | .err c => .err c
      | .panic p => .panic p
    | .err c =>
      match encodeLabelsAux mode labels offs rest with
      | .panic p => .panic p
      | _ => .err c
    | .panic p => .panic p
  | _, _ => .panic "assertion failed: code.len() == stmt_offsets.len()"

def encodeLabels (mode : LabelMode) (g : Gather) (code : List LStmt) : Outcome (List LStmt) :=
  encodeLabelsAux mode g.labels g.stmtOffsets code

/-! ### the second (real) encoding pass -/

/-- `out.into_iter().filter_map(..)` with one `ArgEncodingState`; an error of `encode_args` (the real
label offset or time does not fit the parameter the dummy fitted) is reported, and
`collect_with_recovery` visits the remaining instructions (the result is still that first error) -/
def secondPass (hasRegs : Bool) : EncState → List LStmt → Outcome (List RawInstr)
  | _, [] => .ok []
  | st, .instr i :: rest =>
    match encodeInstr hasRegs st i with
    | .ok (raw, st1) =>
      match secondPass hasRegs st1 rest with
      | .ok raws => .ok (raw :: raws)
      | .err c => .err c
      | .panic p => .panic p
    | .err c =>
      match secondPass hasRegs st rest with
      | .panic p => .panic p
      | _ => .err c
    | .panic p => .panic p
  | st, _ :: rest => secondPass hasRegs st rest

structure Lowered where
  instrs : List RawInstr
  /-- the debug info of the script (`ScriptOffsetInfo`) and `stmt_offsets` -/
  info : Gather
deriving DecidableEq, Repr, Inhabited

/-- `gather_label_info`, `encode_labels`, second pass: what `lower_sub_ast_to_instrs` does after
`assign_registers` and `elaborate_diff_switches` -/
def lowerTail (hdr : Nat) (hasRegs : Bool) (mode : LabelMode) (code : List LStmt) : Outcome Lowered :=
  match gatherLabelInfo hdr hasRegs code with
  | .ok g =>
    match encodeLabels mode g code with
    | .ok code' =>
      match secondPass hasRegs none code' with
      | .ok raws => .ok ⟨raws, g⟩
      | .err c => .err c
      | .panic p => .panic p
    | .err c => .err c
    | .panic p => .panic p
  | .err c => .err c
  | .panic p => .panic p

/-! ### locals (`assign_registers` has replaced them before the passes above run) -/

/-- `SimpleArg::from_reg(reg, storage_ty)`; `f32Bits` is `reg as f32` (a parameter like every
float operation) -/
def fromReg (f32Bits : Int → UInt32) (r : Int) (floatStorage : Bool) : Arg :=
  if floatStorage then .float (f32Bits r) true else .int r true

def resolveArg (f32Bits : Int → UInt32) (regOf : Nat → Int) : LArg → LArg
  | .loc d fs => .raw (fromReg f32Bits (regOf d) fs)
  | a => a

def resolveStmt (f32Bits : Int → UInt32) (regOf : Nat → Int) : LStmt → LStmt
  | .instr i =>
    match i.args with
    | .known abi args => .instr { i with args := .known abi (args.map (resolveArg f32Bits regOf)) }
    | .unknown _ => .instr i
  | s => s

def resolveLocals (f32Bits : Int → UInt32) (regOf : Nat → Int) (code : List LStmt) : List LStmt :=
  code.map (resolveStmt f32Bits regOf)

/-! ### the header layouts of the real formats -/

/-- prefix sums: offsets of consecutive items of the given sizes, starting at `off` -/
def offsetsFrom : Nat → List Nat → List Nat
  | _, [] => []
  | off, s :: ss => off :: offsetsFrom (off + s) ss

/-- `LanguageHooks::encode_label` per instruction format -/
def labelModeOf : InstrIO.Fmt → LabelMode
  | .ecl06 | .ecl07 => .relative
  | .std06 => .index20
  | _ => .absolute

end TruthModel.Offsets
