import TruthModel.Model.Basic
/-
C08 — model of the literal layer of the pretty printer (`src/fmt.rs`), of the token level of the
lexer (`src/parse/lexer.rs`, logos: longest match, fixed tokens win ties) and of the literal
rules of the parser (`src/parse/lalrparser.lalrpop` LitIntUnsigned / LitIntSigned / LitString,
`src/parse/lalrparser_util.rs` parse_u32_literal / parse_string_literal).

Text is `List Char` everywhere (the driver converts).  Core Lean only.
-/
namespace TruthModel.Fmt

/-! ## integer formats (`ast::IntFormat`, `ast::IntRadix`) -/

inductive Radix where
  | dec | hex | bin | bool
deriving DecidableEq, Repr, Inhabited

structure IntFormat where
  signed : Bool
  radix : Radix
deriving DecidableEq, Repr, Inhabited

/-! ## digits -/

/-- `char::from_digit(d, 16)`: lower case, as `{:x}` / `{:b}` / `{}` print. -/
def digitChar : Nat → Char
  | 0 => '0' | 1 => '1' | 2 => '2' | 3 => '3' | 4 => '4' | 5 => '5' | 6 => '6' | 7 => '7'
  | 8 => '8' | 9 => '9' | 10 => 'a' | 11 => 'b' | 12 => 'c' | 13 => 'd' | 14 => 'e' | 15 => 'f'
  | _ => '?'

/-- Digits of `n` in base `b`, most significant first, at least one digit, no leading zeros
(what `Display` / `LowerHex` / `Binary` of an unsigned integer print).  The first argument is
fuel for the structural recursion; `natDigits` supplies `n`, which always suffices for `b ≥ 2`
(`natDigitsAux_fuel`). -/
def natDigitsAux (b : Nat) : Nat → Nat → List Char
  | 0, n => [digitChar n]
  | fuel + 1, n => if n < b then [digitChar n] else natDigitsAux b fuel (n / b) ++ [digitChar (n % b)]

def natDigits (b n : Nat) : List Char := natDigitsAux b n n

/-- `v as u32` -/
def uval (v : Int32) : Nat := v.toUInt32.toNat

/-- `Display for i32`: sign, then the magnitude computed as `(!(v as u32)).wrapping_add(1)`,
i.e. `v.wrapping_neg() as u32`. -/
def printI32 (v : Int32) : List Char :=
  if v.toInt < 0 then '-' :: natDigits 10 (uval (-v)) else natDigits 10 (uval v)

/-- `fmt.rs` `SignedRadix`: `-` followed by the radix form of `wrapping_neg` (which `LowerHex` /
`Binary` of an `i32` print as its `u32` pattern, with the `#` prefix still in effect). -/
def signedRadix (pre : List Char) (b : Nat) (v : Int32) : List Char :=
  if v.toInt < 0 then '-' :: (pre ++ natDigits b (uval (-v))) else pre ++ natDigits b (uval v)

/-- `impl Format for ast::Expr`, arm `LitInt` (fmt.rs 914-943), arm by arm. -/
def printInt (f : IntFormat) (v : Int32) : List Char :=
  match f.radix, f.signed with
  | .dec, true => printI32 v
  | .dec, false => natDigits 10 (uval v)
  | .hex, false => '0' :: 'x' :: natDigits 16 (uval v)
  | .hex, true => signedRadix ['0', 'x'] 16 v
  | .bin, false => '0' :: 'b' :: natDigits 2 (uval v)
  | .bin, true => signedRadix ['0', 'b'] 2 v
  | .bool, s =>
    if v = 0 then ['f', 'a', 'l', 's', 'e']
    else if v = 1 then ['t', 'r', 'u', 'e']
    else if s then printI32 v
    else '0' :: 'x' :: natDigits 16 (uval v)

/-! ## strings (`impl Format for ast::LitString`, fmt.rs 1024-1039) -/

def escapeChar (c : Char) : List Char :=
  if c = '\x00' then ['\\', '0']
  else if c = '"' then ['\\', '"']
  else if c = '\\' then ['\\', '\\']
  else if c = '\n' then ['\\', 'n']
  else if c = '\r' then ['\\', 'r']
  else [c]

def escapeBody (s : List Char) : List Char := s.flatMap escapeChar

def escapeString (s : List Char) : List Char := '"' :: (escapeBody s ++ ['"'])

/-- the escape table of `parse_string_literal` -/
def unescapeChar (c : Char) : Option Char :=
  if c = '0' then some '\x00'
  else if c = '"' then some '"'
  else if c = '\\' then some '\\'
  else if c = 'n' then some '\n'
  else if c = 'r' then some '\r'
  else none

/-- the loop of `parse_string_literal` over the characters between the quotes -/
def unescapeLoop : List Char → Bool → List Char → Outcome (List Char)
  | [], esc, out => if esc then .panic "lalrparser_util.rs assertion failed: !escape" else .ok out
  | c :: cs, true, out =>
    match unescapeChar c with
    | some x => unescapeLoop cs false (out ++ [x])
    | none => .err "invalid escape character"
  | c :: cs, false, out =>
    if c = '\\' then unescapeLoop cs true out else unescapeLoop cs false (out ++ [c])

/-- `parse_string_literal`: asserts the surrounding quotes (a token of the lexer always has
them), then unescapes `string[1..len-1]`. -/
def parseStringLiteral (s : List Char) : Outcome (List Char) :=
  if s.length < 2 then .panic "lalrparser_util.rs slice/assert on a string token shorter than 2"
  else if s.head? ≠ some '"' ∨ s.getLast? ≠ some '"' then .panic "lalrparser_util.rs assertion `left == right` failed"
  else unescapeLoop s.tail.dropLast false []

def unescapeString (s : List Char) : Outcome (List Char) := parseStringLiteral s

/-! ## integer literal parsing (`parse_u32_literal`, `u32::from_str_radix`) -/

/-- `char::to_digit(36)` -/
def digitVal (c : Char) : Option Nat :=
  if '0' ≤ c ∧ c ≤ '9' then some (c.toNat - 48)
  else if 'a' ≤ c ∧ c ≤ 'z' then some (c.toNat - 87)
  else if 'A' ≤ c ∧ c ≤ 'Z' then some (c.toNat - 55)
  else none

/-- digit loop of `from_str_radix`; the accumulator is unbounded here, the overflow check
(`checked_mul` / `checked_add` fail iff the final value exceeds `u32::MAX`, the accumulator being
monotone) is applied by the caller. -/
def parseDigitsFrom (b : Nat) (acc : Nat) : List Char → Option Nat
  | [] => some acc
  | c :: cs =>
    match digitVal c with
    | some d => if d < b then parseDigitsFrom b (acc * b + d) cs else none
    | none => none

/-- `u32::from_str_radix` (`none` = `ParseIntError`): empty input, a lone sign, an invalid digit
and overflow are errors; one leading `+` is accepted, `-` is not (unsigned type). -/
def stripPlus : List Char → List Char
  | '+' :: r => r
  | s => s

def fromStrRadixU32 (b : Nat) (s : List Char) : Option UInt32 :=
  if s = [] then none
  else if s = ['+'] ∨ s = ['-'] then none
  else
    match parseDigitsFrom b 0 (stripPlus s) with
    | some n => if n < 4294967296 then some (UInt32.ofNat n) else none
    | none => none

/-- `parse_u32_literal`: prefix `0x`/`0X` -> radix 16, `0b`/`0B` -> radix 2, else decimal. -/
def parseU32Literal (s : List Char) : Option UInt32 :=
  match s with
  | '0' :: 'x' :: r => fromStrRadixU32 16 r
  | '0' :: 'X' :: r => fromStrRadixU32 16 r
  | '0' :: 'b' :: r => fromStrRadixU32 2 r
  | '0' :: 'B' :: r => fromStrRadixU32 2 r
  | _ => fromStrRadixU32 10 s

/-! ## token level of the lexer -/

def isDigit (c : Char) : Bool := ['0', '1', '2', '3', '4', '5', '6', '7', '8', '9'].contains c
def isBin (c : Char) : Bool := c == '0' || c == '1'
def isHex (c : Char) : Bool :=
  isDigit c || ['a', 'b', 'c', 'd', 'e', 'f', 'A', 'B', 'C', 'D', 'E', 'F'].contains c
def isIdentStart (c : Char) : Bool := ('a' ≤ c && c ≤ 'z') || ('A' ≤ c && c ≤ 'Z') || c == '_'
def isIdentCont (c : Char) : Bool := isIdentStart c || isDigit c
/-- the character class of `DifficultyStr`: `![-*ENHLWXYZO4567]+` -/
def isDiffChar (c : Char) : Bool :=
  ['-', '*', 'E', 'N', 'H', 'L', 'W', 'X', 'Y', 'Z', 'O', '4', '5', '6', '7'].contains c
/-- `\s` of the whitespace rule, restricted to ASCII -/
def isWs (c : Char) : Bool := c == ' ' || c == '\t' || c == '\n' || c == '\r' || c == '\x0b' || c == '\x0c'

inductive Tok where
  | punct (s : List Char)
  /-- identifier, keyword or `ins_...`: the three rules always match the same length, the class
  is a function of the text -/
  | word (s : List Char)
  | int (s : List Char)
  | float (s : List Char)
  /-- string literal including its quotes -/
  | str (s : List Char)
  | difficulty (s : List Char)
deriving DecidableEq, Repr, Inhabited

/-- length of the longest prefix whose characters satisfy `p` -/
def spanLen (p : Char → Bool) : List Char → Nat
  | [] => 0
  | c :: cs => if p c then spanLen p cs + 1 else 0

/-- `[0-9]+|0[xX][0-9a-fA-F]+|0[bB][0-1]+` -/
def intLen (s : List Char) : Nat :=
  let d := spanLen isDigit s
  let alt := match s with
    | '0' :: c :: r =>
      if c = 'x' ∨ c = 'X' then (if spanLen isHex r = 0 then 0 else spanLen isHex r + 2)
      else if c = 'b' ∨ c = 'B' then (if spanLen isBin r = 0 then 0 else spanLen isBin r + 2)
      else 0
    | _ => 0
  max d alt

/-- `[0-9]+(\.([0-9]*f|[0-9]+)|f)` -/
def floatLen (s : List Char) : Nat :=
  let d := spanLen isDigit s
  if d = 0 then 0 else
  match s.drop d with
  | 'f' :: _ => d + 1
  | '.' :: r =>
    let m := spanLen isDigit r
    let withF := match r.drop m with
      | 'f' :: _ => d + 1 + m + 1
      | _ => 0
    let noF := if m = 0 then 0 else d + 1 + m
    max withF noF
  | _ => 0

/-- `[a-zA-Z_][a-zA-Z0-9_]*` (also covers keywords and `ins_[a-zA-Z0-9_]*`) -/
def wordLen : List Char → Nat
  | [] => 0
  | c :: cs => if isIdentStart c then spanLen isIdentCont cs + 1 else 0

/-- `![-*ENHLWXYZO4567]+` -/
def diffLen : List Char → Nat
  | '!' :: r => if spanLen isDiffChar r = 0 then 0 else spanLen isDiffChar r + 1
  | _ => 0

/-- characters after the opening quote up to and including the closing quote of
`"([^\\"]|\\.)*"` (`.` does not match a line feed); the flag says that the previous character was
an unescaped backslash; `none` = no match -/
def strBodyLen : List Char → Bool → Option Nat
  | [], _ => none
  | c :: r, true => if c = '\n' then none else (strBodyLen r false).map (· + 1)
  | c :: r, false =>
    if c = '"' then some 1
    else if c = '\\' then (strBodyLen r true).map (· + 1)
    else (strBodyLen r false).map (· + 1)

def strLen : List Char → Nat
  | '"' :: r => match strBodyLen r false with
    | some n => n + 1
    | none => 0
  | _ => 0

/-- the fixed tokens that are not words -/
def punctTable : List (List Char) :=
  [",", "?", ":", ";", "[", "]", "{", "}", "(", ")", "@", "...", ".", "=", "+", "-", "*", "/",
   "%", "^", "|", "&", "~", "+=", "-=", "*=", "/=", "%=", "^=", "|=", "&=", "==", "!=", "<", "<=",
   ">", ">=", "<<", ">>", ">>>", "<<=", ">>=", ">>>=", "!", "||", "&&", "--", "++", "$", "#"].map String.toList

def isPunctStart (c : Char) : Bool :=
  [',', '?', ':', ';', '[', ']', '{', '}', '(', ')', '@', '.', '=', '+', '-', '*', '/', '%', '^',
   '|', '&', '~', '!', '<', '>', '$', '#'].contains c

/-- length of the longest fixed token that is a prefix -/
def punctLen (s : List Char) : Nat :=
  match s with
  | [] => 0
  | c :: _ =>
    if isPunctStart c then
      punctTable.foldl (fun best t => if t.isPrefixOf s && best < t.length then t.length else best) 0
    else 0

inductive LexStep where
  | tok (t : Tok) (len : Nat)
  /-- start of a comment (`//`, `/*`): the comment rules are not modelled -/
  | comment
  | invalid
deriving Repr

/-- One token at the head of `s` (no leading whitespace): the longest match over all rules;
at equal length a fixed token wins over a regex (logos priorities).  Two different regex rules
never match the same length here except the word rules, which are one class. -/
def lexOne (s : List Char) : LexStep :=
  match s with
  | '/' :: '/' :: _ => .comment
  | '/' :: '*' :: _ => .comment
  | _ =>
    let p := punctLen s
    let i := intLen s
    let f := floatLen s
    let w := wordLen s
    let d := diffLen s
    let q := strLen s
    let best := max p (max i (max f (max w (max d q))))
    if best = 0 then .invalid
    else if p = best then .tok (.punct (s.take best)) best
    else if f = best then .tok (.float (s.take best)) best
    else if i = best then .tok (.int (s.take best)) best
    else if w = best then .tok (.word (s.take best)) best
    else if d = best then .tok (.difficulty (s.take best)) best
    else .tok (.str (s.take best)) best

def dropWs : List Char → List Char
  | [] => []
  | c :: cs => if isWs c then dropWs cs else c :: cs

inductive LexEnd where
  | eof | invalid | comment | fuel
deriving DecidableEq, Repr

/-- the token stream up to the end of input / the first invalid token -/
def lexAll : Nat → List Char → List Tok × LexEnd
  | 0, _ => ([], .fuel)
  | fuel + 1, s =>
    match dropWs s with
    | [] => ([], .eof)
    | c :: cs =>
      match lexOne (c :: cs) with
      | .invalid => ([], .invalid)
      | .comment => ([], .comment)
      | .tok t n =>
        let r := lexAll fuel ((c :: cs).drop n)
        (t :: r.1, r.2)

def lex (s : List Char) : List Tok × LexEnd := lexAll (s.length + 1) s

/-! ## the literal rules of the grammar on token level -/

inductive LitVal where
  | int (v : Int32)
  /-- "bad integer literal" diagnostic -/
  | badInt
  /-- not an integer literal (possibly signed) / not accepted -/
  | other
deriving DecidableEq, Repr

/-- `LitIntUnsigned`: `parse_u32_literal(text)` then `as i32` -/
def litIntUnsigned (s : List Char) : Option Int32 := (parseU32Literal s).map (·.toInt32)

/-- An expression consisting of one integer literal, optionally under one unary minus.
`LitIntSigned` folds the sign with `i32::wrapping_neg`; in expression position the parser builds
`UnOp(-, LitInt)`, which constant folding evaluates with the same wrapping negation (C11).
`true` / `false` are the built-in constants `1` / `0` (`context/defs.rs` add_builtin_consts). -/
def evalLitTokens : List Tok → LitVal
  | [.int s] => match litIntUnsigned s with
    | some v => .int v
    | none => .badInt
  | [.punct ['-'], .int s] => match litIntUnsigned s with
    | some v => .int (-v)
    | none => .badInt
  -- `~lit` / `!lit` are not integer literals, but the literal is still read
  | [.punct ['~'], .int s] => if (litIntUnsigned s).isNone then .badInt else .other
  | [.punct ['!'], .int s] => if (litIntUnsigned s).isNone then .badInt else .other
  | [.word w] =>
    if w = ['t', 'r', 'u', 'e'] then .int 1
    else if w = ['f', 'a', 'l', 's', 'e'] then .int 0
    else .other
  | _ => .other

def evalLiteral (s : List Char) : LitVal :=
  match lex s with
  | (toks, .eof) => evalLitTokens toks
  | _ => .other

/-! ## layout: `Formatter::fmt_comma_separated` / `try_inline` / `backtrack_inline_if_long` / `next_line`
(fmt.rs 206-238, 269-293, 349-401)

A document is a tree of atoms and comma-separated bracketed lists (call arguments, meta arrays and
objects, parameter lists).  Output is a list of pieces so that "what the parser sees" (tokens and
separating commas) and "what the layout adds" (spaces, line breaks, indentation, the trailing
comma of the block style) are told apart by construction; `Piece.chars` gives the exact text. -/

mutual
inductive Doc where
  | atom (s : List Char)
  | list (op cl : List Char) (items : Docs)
inductive Docs where
  | nil
  | cons (d : Doc) (ds : Docs)
end

instance : Inhabited Doc := ⟨.atom []⟩
instance : Inhabited Docs := ⟨.nil⟩

inductive Piece where
  | tok (s : List Char)
  /-- a comma between two items -/
  | comma
  /-- the comma after the last item in block style -/
  | tcomma
  | space
  | nl
  /-- indentation at the start of a line -/
  | pad (n : Nat)
deriving DecidableEq, Repr

def Piece.chars : Piece → List Char
  | .tok s => s
  | .comma => [',']
  | .tcomma => [',']
  | .space => [' ']
  | .nl => ['\n']
  | .pad n => List.replicate n ' '

/-- formatter state: everything written so far, the length of `line_buffer`, the indent level, and
whether the current line is still only its indentation (which `next_line` pre-fills and
`indent`/`dedent` resize) -/
structure LSt where
  out : List Piece
  col : Nat
  indent : Nat
  fresh : Bool
deriving Repr

def LSt.init : LSt := { out := [], col := 0, indent := 0, fresh := true }

/-- `append_to_line` -/
def LSt.write (st : LSt) (p : Piece) : LSt :=
  if st.fresh then { st with out := st.out ++ [.pad st.indent, p], col := st.indent + p.chars.length, fresh := false }
  else { st with out := st.out ++ [p], col := st.col + p.chars.length }

/-- `next_line` outside inline mode (every line of a `Doc` has content, so the blank-line
special cases do not arise) -/
def LSt.newline (st : LSt) : LSt := { st with out := st.out ++ [.nl], fresh := true }

mutual
/-- inline mode (`inline_depth > 0`): `none` = `LineBreakRequired` -/
def inl (tw : Nat) : Doc → LSt → Option LSt
  | .atom s, st => some (st.write (.tok s))
  | .list op cl items, st =>
    match inlItems tw items true (st.write (.tok op)) with
    | none => none
    | some st1 =>
      let st2 := st1.write (.tok cl)
      if st2.col > tw then none else some st2
def inlItems (tw : Nat) : Docs → Bool → LSt → Option LSt
  | .nil, _, st => some st
  | .cons d ds, first, st =>
    let st0 := if first then st else (st.write .comma).write .space
    match inl tw d st0 with
    | none => none
    | some st1 => if st1.col > tw then none else inlItems tw ds false st1
end

def Docs.isNil : Docs → Bool
  | .nil => true
  | .cons _ _ => false

mutual
/-- outside inline mode: the outermost `try_inline` of a list first tries the inline layout and, if
that asks for a line break, truncates the line back and writes the block layout -/
def blk (tw : Nat) : Doc → LSt → LSt
  | .atom s, st => st.write (.tok s)
  | .list op cl items, st =>
    match inl tw (.list op cl items) st with
    | some st' => st'
    | none =>
      let st1 := (st.write (.tok op)).newline
      let st2 := blkItems tw items { st1 with indent := st1.indent + 4 }
      ({ st2 with indent := st2.indent - 4 }).write (.tok cl)
def blkItems (tw : Nat) : Docs → LSt → LSt
  | .nil, st => st
  | .cons d ds, st =>
    let st1 := blk tw d st
    blkItems tw ds ((st1.write (if ds.isNil then .tcomma else .comma)).newline)
end

/-- `stringify_with(doc, Config::new().max_columns(w))`: `target_width = w - 1` -/
def renderPieces (w : Nat) (d : Doc) : List Piece := (blk (w - 1) d LSt.init).out

def render (w : Nat) (d : Doc) : List Char := (renderPieces w d).flatMap Piece.chars

/-- what the parser sees of the output: tokens and the commas between items -/
def ess (ps : List Piece) : List Piece :=
  ps.filter fun p => match p with
    | .tok _ => true
    | .comma => true
    | _ => false

mutual
/-- the token sequence a document denotes -/
def Doc.toks : Doc → List Piece
  | .atom s => [.tok s]
  | .list op cl items => .tok op :: (items.toks true ++ [.tok cl])
def Docs.toks : Docs → Bool → List Piece
  | .nil, _ => []
  | .cons d ds, first => (if first then d.toks else .comma :: d.toks) ++ ds.toks false
end

/-! ## unary operators in front of an operand (fmt.rs 900-902: `out.fmt((op, x))`) -/

/-- the formatter writes the operator directly followed by the operand text -/
def printUnary (op : Char) (operand : List Char) : List Char := op :: operand

end TruthModel.Fmt
