import TruthModel.Model.Abi
/-
Model of intrinsic argument placement (property C12, "intrinsic_placement").

Mirrors, arm by arm:
* `IntrinsicInstrAbiParts::from_abi` and the helpers of `IntrinsicAbiHelper`
  (`find_and_remove_padding`, `find_and_remove_jump`, `find_and_remove_sub_id`, `remove_out_arg`,
  `remove_plain_arg`, `remove_first_where`)                                  (src/llir/intrinsic.rs)
* `Expr::binop_ty_from_arg_ty`, `Expr::unop_ty_from_arg_ty`                   (src/passes/type_check.rs)
* `IntrinsicBuilder::into_vec`, `populate_time_args`                          (src/llir/lower/intrinsic.rs)
* the position reads of `raise_intrinsic_parts`                               (src/llir/raise/early.rs)
* how the argument list `into_vec` returns (one value per NON-padding parameter, which is what
  `encode_args` consumes) relates to the list `decode_args_with_abi` returns (one value per
  parameter, padding included): `expand`.

The values that travel (labels, times, registers, immediates) are an abstract type `α`: placement
only moves them.  Core Lean only.
-/
namespace TruthModel.AbiParts
open TruthModel TruthModel.Abi

/-- an encoding together with the one presentation field placement looks at -/
structure PEnc where
  enc : Enc
  /-- `ty_color == Some(TypeColor::Enum("EclSub"))` (letter `E`, or `enum="EclSub"` on any integer) -/
  eclSub : Bool
deriving DecidableEq, Repr, Inhabited

abbrev PAbi := List PEnc

/-- `ScalarType` as far as `read_type_attr` lets an intrinsic name it -/
inductive STy where
  | int | float
deriving DecidableEq, Repr, Inhabited

/-- `BinOpKind::class` -/
inductive BinCls where
  | arithmetic | comparison | bitwise | logical | shift
deriving DecidableEq, Repr, Inhabited

/-- `_binop_ty` -/
def binopOutTy : BinCls → STy → STy
  | .arithmetic, ty => ty
  | .comparison, _ => .int
  | .bitwise, _ => .int
  | .logical, _ => .int
  | .shift, _ => .int

/-- the arms of `_unop_ty`: `-` | `! ~ $ int` | `sin cos tan asin acos atan sqrt % float` -/
inductive UnCls where
  | neg | intResult | floatResult
deriving DecidableEq, Repr, Inhabited

def unopOutTy : UnCls → STy → STy
  | .neg, ty => ty
  | .intResult, _ => .int
  | .floatResult, _ => .float

/-- `IntrinsicInstrKind`; operators are kept as far as placement depends on them (their class) -/
inductive Kind where
  | jmp
  | interruptLabel
  | assignOp (ty : STy)
  | binOp (cls : BinCls) (ty : STy)
  | unOp (cls : UnCls) (ty : STy)
  | countJmp
  | condJmp (ty : STy)
  | condJmp2A (ty : STy)
  | condJmp2B
  | callEosd
  | callReg
deriving DecidableEq, Repr, Inhabited

/-- `abi_parts::OutputArgMode` -/
inductive OutMode where
  | floatAsInt | natural
deriving DecidableEq, Repr, Inhabited

/-- `abi_parts::JumpArgOrder` -/
inductive JumpOrder where
  | timeLoc | locTime | loc
deriving DecidableEq, Repr, Inhabited

/-- `IntrinsicInstrAbiParts` -/
structure Parts where
  numInstrArgs : Nat
  plainArgs : List Nat
  outputs : List (Nat × OutMode)
  jump : Option (Nat × JumpOrder)
  subId : Option Nat
deriving DecidableEq, Repr, Inhabited

/-- `Vec<(usize, &ArgEncoding)>`: `abi.arg_encodings().enumerate()` -/
abbrev Slots := List (Nat × PEnc)

def enumFrom : Nat → PAbi → Slots
  | _, [] => []
  | k, e :: es => (k, e) :: enumFrom (k + 1) es

/-- `find_and_remove_padding` -/
def removePadding (l : Slots) : Slots := l.filter fun x => !x.2.enc.isPadding

/-- `remove_first_where` -/
def removeFirstWhere (p : Nat × PEnc → Bool) : Slots → Option ((Nat × PEnc) × Slots)
  | [] => none
  | x :: xs =>
    if p x then some (x, xs) else
    match removeFirstWhere p xs with
    | some (y, ys) => some (y, x :: ys)
    | none => none

def isOffset (x : Nat × PEnc) : Bool := x.2.enc == .jumpOffset
def isTime (x : Nat × PEnc) : Bool := x.2.enc == .jumpTime

/-- the predicate of `find_and_remove_sub_id`: `Integer { ty_color: Some(Enum("EclSub")), arg0: false, .. }` -/
def isSubId (x : Nat × PEnc) : Bool :=
  match x.2.enc with
  | .int _ _ false _ => x.2.eclSub
  | _ => false

def errMissingOffset : String := "missing jump offset"
def errNotConsecutive : String := "offset and time args must be consecutive"
def errMissingSubId : String := "missing sub id"
def errNotEnough : String := "not enough arguments"
def errOutputEncoding : String := "output arg has unexpected encoding"
def errInputEncoding : String := "ABI input arg has unexpected encoding"
/-- `unexpected {} arg at index {}` (the index is 1-based) -/
def errUnexpected (index : Nat) : String := "unexpected arg at index " ++ toString (index + 1)

/-- `find_and_remove_jump`: both removals happen before the checks -/
def findRemoveJump (l : Slots) : Outcome ((Nat × JumpOrder) × Slots) :=
  let r1 := removeFirstWhere isOffset l
  let l1 := match r1 with | some (_, r) => r | none => l
  let r2 := removeFirstWhere isTime l1
  let l2 := match r2 with | some (_, r) => r | none => l1
  match r1 with
  | none => .err errMissingOffset
  | some (o, _) =>
    match r2 with
    | some (t, _) =>
      if t.1 == o.1 + 1 then .ok ((o.1, .locTime), l2)
      else if t.1 + 1 == o.1 then .ok ((t.1, .timeLoc), l2)
      else .err errNotConsecutive
    | none => .ok ((o.1, .loc), l2)

/-- `find_and_remove_sub_id` -/
def findRemoveSubId (l : Slots) : Outcome (Nat × Slots) :=
  match removeFirstWhere isSubId l with
  | some (x, r) => .ok (x.1, r)
  | none => .err errMissingSubId

/-- the `(ty_in_ast, encoding)` match of `remove_out_arg` -/
def outMode : STy → Enc → Option OutMode
  | .int, .int .. => some .natural
  | .float, .float _ => some .natural
  | .float, .int .. => some .floatAsInt
  | _, _ => none

/-- `remove_out_arg` -/
def removeOutArg (ty : STy) : Slots → Outcome ((Nat × OutMode) × Slots)
  | [] => .err errNotEnough
  | x :: r =>
    match outMode ty x.2.enc with
    | some m => .ok ((x.1, m), r)
    | none => .err errOutputEncoding

/-- the `(ty_in_ast, encoding)` match of `remove_plain_arg` -/
def plainOk : STy → Enc → Bool
  | .int, .int .. => true
  | .float, .float _ => true
  | _, _ => false

/-- `remove_plain_arg` -/
def removePlainArg (ty : STy) : Slots → Outcome (Nat × Slots)
  | [] => .err errNotEnough
  | x :: r => if plainOk ty x.2.enc then .ok (x.1, r) else .err errInputEncoding

/-- one helper call of a `from_abi` arm, with the field of `out` it writes to -/
inductive Step where
  | jump
  | subId
  | out (ty : STy)
  | plain (ty : STy)
deriving DecidableEq, Repr, Inhabited

/-- the arms of the `match intrinsic.value` in `from_abi`, as the sequence of helper calls each makes -/
def Kind.steps : Kind → List Step
  | .jmp => [.jump]
  | .callEosd => [.subId, .plain .int, .plain .float]
  | .callReg => [.subId]
  | .interruptLabel => [.plain .int]
  | .assignOp ty => [.out ty, .plain ty]
  | .binOp cls ty => [.out (binopOutTy cls ty), .plain ty, .plain ty]
  | .unOp cls ty => [.out (unopOutTy cls ty), .plain ty]
  | .countJmp => [.jump, .out .int]
  | .condJmp ty => [.jump, .plain ty, .plain ty]
  | .condJmp2A ty => [.plain ty, .plain ty]
  | .condJmp2B => [.jump]

def runStep (s : Step) (p : Parts) (l : Slots) : Outcome (Parts × Slots) :=
  match s with
  | .jump =>
    match findRemoveJump l with
    | .ok (j, r) => .ok ({ p with jump := some j }, r)
    | .err c => .err c
    | .panic s => .panic s
  | .subId =>
    match findRemoveSubId l with
    | .ok (i, r) => .ok ({ p with subId := some i }, r)
    | .err c => .err c
    | .panic s => .panic s
  | .out ty =>
    match removeOutArg ty l with
    | .ok (o, r) => .ok ({ p with outputs := p.outputs ++ [o] }, r)
    | .err c => .err c
    | .panic s => .panic s
  | .plain ty =>
    match removePlainArg ty l with
    | .ok (i, r) => .ok ({ p with plainArgs := p.plainArgs ++ [i] }, r)
    | .err c => .err c
    | .panic s => .panic s

def runSteps : List Step → Parts → Slots → Outcome (Parts × Slots)
  | [], p, l => .ok (p, l)
  | s :: ss, p, l =>
    match runStep s p l with
    | .ok (p1, l1) => runSteps ss p1 l1
    | .err c => .err c
    | .panic s => .panic s

/-- `IntrinsicInstrAbiParts::from_abi` -/
def fromAbi (k : Kind) (abi : PAbi) : Outcome Parts :=
  let l0 := removePadding (enumFrom 0 abi)
  match runSteps k.steps ⟨l0.length, [], [], none, none⟩ l0 with
  | .ok (p, []) => .ok p
  | .ok (_, x :: _) => .err (errUnexpected x.1)
  | .err c => .err c
  | .panic s => .panic s

/-! ## `into_vec` -/

/-- `IntrinsicBuilder`; `jump` is the `(label_arg, time_arg)` pair `populate_time_args` derives from
the `goto` -/
structure Builder (α : Type) where
  jump : Option (α × α)
  subId : Option α
  plainArgs : List α
  outputs : List α
deriving Repr, DecidableEq

def oobSite : String := "index out of bounds"
def filledSite : String := "assertion failed: out_args[index].is_none()"
def unfilledSite : String := "arg was not filled in! (bug)"
def shapeSite : String := "assertion `left == right` failed"

/-- `assert!(out_args[index].is_none()); out_args[index] = Some(value);` -/
def setSlot {α} (out : List (Option α)) (i : Nat) (v : α) : Outcome (List (Option α)) :=
  match out[i]? with
  | none => .panic oobSite
  | some (some _) => .panic filledSite
  | some none => .ok (out.set i (some v))

def fill {α} : List (Option α) → List (Nat × α) → Outcome (List (Option α))
  | out, [] => .ok out
  | out, (i, v) :: rest =>
    match setSlot out i v with
    | .ok out1 => fill out1 rest
    | .err c => .err c
    | .panic s => .panic s

/-- `my_args` of `populate_time_args`, with the positions they go to -/
def jumpAssigns {α} (info : Nat × JumpOrder) (lt : α × α) : List (Nat × α) :=
  match info.2 with
  | .locTime => [(info.1, lt.1), (info.1 + 1, lt.2)]
  | .timeLoc => [(info.1, lt.2), (info.1 + 1, lt.1)]
  | .loc => [(info.1, lt.1)]

/-- what an output is stored as (`with_float_reg_encoded_as_int` for `FloatAsInt`) -/
def encodeOut {α} (asInt : α → α) (m : OutMode) (v : α) : α :=
  match m with
  | .floatAsInt => asInt v
  | .natural => v

/-- all the writes of `into_vec`, in the order it makes them: jump, plain args, sub id, outputs -/
def assigns {α} (asInt : α → α) (p : Parts) (b : Builder α) : List (Nat × α) :=
  (match b.jump, p.jump with
   | some lt, some info => jumpAssigns info lt
   | _, _ => [])
  ++ (b.plainArgs.zip p.plainArgs).map (fun x => (x.2, x.1))
  ++ (match b.subId, p.subId with
      | some v, some i => [(i, v)]
      | _, _ => [])
  ++ (b.outputs.zip p.outputs).map (fun x => (x.2.1, encodeOut asInt x.2.2 x.1))

/-- the four `assert_eq!` at the start of `into_vec` -/
def shapeOk {α} (p : Parts) (b : Builder α) : Bool :=
  b.jump.isSome == p.jump.isSome && b.subId.isSome == p.subId.isSome
  && b.plainArgs.length == p.plainArgs.length && b.outputs.length == p.outputs.length

/-- `jump_slots.chain(other_slots)` of `into_vec`: for every recorded position the number of slots it needs
(a jump with a time argument takes two consecutive positions) -/
def slotEnds (p : Parts) : List Nat :=
  (match p.jump with
   | some (i, .locTime) => [i + 2]
   | some (i, .timeLoc) => [i + 2]
   | some (i, .loc) => [i + 1]
   | none => [])
  ++ p.plainArgs.map (· + 1)
  ++ (match p.subId with | some i => [i + 1] | none => [])
  ++ p.outputs.map (·.1 + 1)

/-- `num_slots`: `.max().unwrap_or(0).max(num_instr_args)`.  Positions are positions in the signature, which
may have padding before a real parameter; the slots of padding parameters stay empty (since /repo 11ec667;
before, the buffer had `num_instr_args` slots and `_S` indexed out of bounds) -/
def numSlots (p : Parts) : Nat := Nat.max ((slotEnds p).foldl Nat.max 0) p.numInstrArgs

/-- `IntrinsicBuilder::into_vec`: fill the slots, drop the never-filled ones (`.into_iter().flatten()`),
`assert_eq!(out_args.len(), num_instr_args, "arg was not filled in! (bug)")` -/
def intoVec {α} (asInt : α → α) (p : Parts) (b : Builder α) : Outcome (List α) :=
  if !shapeOk p b then .panic shapeSite else
  match fill (List.replicate (numSlots p) none) (assigns asInt p b) with
  | .ok out =>
    let vs := out.filterMap id
    if vs.length != p.numInstrArgs then .panic unfilledSite else .ok vs
  | .err c => .err c
  | .panic s => .panic s

/-! ## the raise side -/

/-- the argument list as `decode_args_with_abi` returns it: one value per parameter, `pad` at
padding parameters, the values `encode_args` consumed at the others -/
def expand {α} (pad : α) : PAbi → List α → List α
  | [], _ => []
  | e :: es, vs =>
    if e.enc.isPadding then pad :: expand pad es vs else
    match vs with
    | [] => []
    | v :: r => v :: expand pad es r

/-- what `raise_intrinsic_parts` reads: `(offset_arg, time_arg)`, the sub id, the outputs (as stored; the
storage mode of each is `parts.outputs[k].1`), the plain arguments -/
structure Raised (α : Type) where
  jump : Option (α × Option α)
  subId : Option α
  outputs : List α
  plainArgs : List α
deriving Repr, DecidableEq

def readAt {α} (args : List α) (i : Nat) : Outcome α :=
  match args[i]? with
  | some v => .ok v
  | none => .panic oobSite

def readAll {α} (args : List α) : List Nat → Outcome (List α)
  | [] => .ok []
  | i :: is =>
    match readAt args i with
    | .ok v => match readAll args is with | .ok vs => .ok (v :: vs) | .err c => .err c | .panic s => .panic s
    | .err c => .err c
    | .panic s => .panic s

def readJump {α} (args : List α) : Option (Nat × JumpOrder) → Outcome (Option (α × Option α))
  | none => .ok none
  | some (i, .timeLoc) =>
    match readAt args (i + 1), readAt args i with
    | .ok o, .ok t => .ok (some (o, some t))
    | _, _ => .panic oobSite
  | some (i, .locTime) =>
    match readAt args i, readAt args (i + 1) with
    | .ok o, .ok t => .ok (some (o, some t))
    | _, _ => .panic oobSite
  | some (i, .loc) =>
    match readAt args i with
    | .ok o => .ok (some (o, none))
    | _ => .panic oobSite

def readSub {α} (args : List α) : Option Nat → Outcome (Option α)
  | none => .ok none
  | some i =>
    match readAt args i with
    | .ok v => .ok (some v)
    | .err c => .err c
    | .panic s => .panic s

/-- the position reads of `raise_intrinsic_parts` (`args[index]`, `encodings[index]`) -/
def raiseParts {α} (p : Parts) (args : List α) : Outcome (Raised α) :=
  match readJump args p.jump with
  | .ok j =>
    match readSub args p.subId with
    | .ok s =>
      match readAll args (p.outputs.map (·.1)) with
      | .ok os =>
        match readAll args p.plainArgs with
        | .ok ps => .ok ⟨j, s, os, ps⟩
        | .err c => .err c
        | .panic s => .panic s
      | .err c => .err c
      | .panic s => .panic s
    | .err c => .err c
    | .panic s => .panic s
  | .err c => .err c
  | .panic s => .panic s

/-! ## specification vocabulary -/

/-- positions of the non-padding parameters, counting from `k` -/
def nonPadFrom : Nat → PAbi → List Nat
  | _, [] => []
  | k, e :: es => if e.enc.isPadding then nonPadFrom (k + 1) es else k :: nonPadFrom (k + 1) es

/-- every position `from_abi` hands out: jump (one or two consecutive), plain, sub id, outputs -/
def Parts.positions (p : Parts) : List Nat :=
  (match p.jump with
   | some (i, .loc) => [i]
   | some (i, _) => [i, i + 1]
   | none => [])
  ++ p.plainArgs
  ++ (match p.subId with | some i => [i] | none => [])
  ++ p.outputs.map (·.1)

end TruthModel.AbiParts
