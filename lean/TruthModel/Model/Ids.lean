import TruthModel.Model.Basic
/-
C20 — names compile to the ids their targets have in the output file.

Executable model of the numbering rules of /repo (current tree):

* ANM  `src/formats/anm/mod.rs`: `gather_script_ids`, `gather_sprite_id_exprs`,
  `sequential_int_exprs`, `strip_unnecessary_sprite_ids`, `all_sprite_ids`, grouping of scripts by
  entry in `compile`; `src/formats/anm/read_write.rs::write_entry` (sprite auto numbering);
  `src/context/defs.rs::define_enum_const` + `src/context/consts.rs::do_deferred_equality`;
  `src/resolve/mod.rs::resolve_unqualified_enum_const` / `resolve_qualified_enum_const`.
* old ECL `src/formats/ecl/ecl_06.rs`: `gather_sub_ids`, `get_and_validate_timeline_indices`,
  the `max_timelines` check of `write_olde_ecl`.
* MSG `src/formats/msg.rs`: `SparseScriptTable::densify`, `sparse_table_implicit_len`, `write_msg`.
* STD `src/formats/std.rs`: `write_instance`.

Core Lean only.  Panics of the real code are values (`Outcome.panic`).
-/
namespace TruthModel.Ids

abbrev Name := String

/-! ## error classes (shared with harness/src/props/c20.rs) -/
def eDupField := "dup-field"            -- parser: duplicate metadata field
def eDupScript := "dup-script"          -- duplicate script / redefinition of script / duplicate sub
def eUnknown := "unknown-name"          -- unknown variable / no enum const / invalid script / no object named
def eCycle := "cycle"                   -- cycle in const definition
def eAmbValue := "ambiguous-value"      -- ambiguous value for enum const (deferred equality check)
def eAmbEnum := "ambiguous-enum"        -- ambiguous enum const (name in two enums, untyped position)
def eOrphan := "orphan-script"
def eEmptyAnm := "empty-anm"
def eTlNegative := "tl-negative"
def eTlMissing := "tl-missing"
def eTlDuplicate := "tl-duplicate"
def eTlTooMany := "tl-too-many"
def eScriptTooLarge := "script-number-too-large"   -- ANM `script 2147483647 x {}`: no next number
def eStdTooMany := "std-too-many"                  -- more than 65535 objects or quads

/-! ## constant integer expressions (the fragment used for ids) -/

inductive IdExpr where
  | lit (v : Int32)
  | name (n : Name)
  | add (a b : IdExpr)
  | sub (a b : IdExpr)
  | mul (a b : IdExpr)
  | neg (a : IdExpr)
deriving Repr, Inhabited

namespace IdExpr

/-- value under an assignment of the names; `none` if a name has no value -/
def eval (env : Name → Option Int32) : IdExpr → Option Int32
  | lit v => some v
  | name n => env n
  | add a b => match a.eval env, b.eval env with
    | some x, some y => some (x + y)
    | _, _ => none
  | sub a b => match a.eval env, b.eval env with
    | some x, some y => some (x - y)
    | _, _ => none
  | mul a b => match a.eval env, b.eval env with
    | some x, some y => some (x * y)
    | _, _ => none
  | neg a => match a.eval env with
    | some x => some (-x)
    | none => none

/-- names in source order (left to right) -/
def names : IdExpr → List Name
  | lit _ => []
  | name n => [n]
  | add a b => a.names ++ b.names
  | sub a b => a.names ++ b.names
  | mul a b => a.names ++ b.names
  | neg a => a.names

end IdExpr

/-! ## ANM sprites -/

structure SpriteDef where
  name : Name
  /-- the `id:` field of the sprite, if present -/
  id : Option IdExpr
deriving Repr, Inhabited

/-- `sequential_int_exprs(e)` yields `e + 0`, `e + 1`, ...; this is its `k`-th item.
(The Rust counter is an `i32` range: it would overflow after 2^31 sprites, which no file reaches.) -/
def seqExpr (e : IdExpr) (k : Nat) : IdExpr := .add e (.lit (Int32.ofNat k))

/-- `gather_sprite_id_exprs`: `base`/`k` are the iterator `auto_sprites` (expression it was made
from and how many items were taken).  An explicit id restarts the iterator from that expression. -/
def gatherSprites : IdExpr → Nat → List SpriteDef → List (Name × IdExpr)
  | _, _, [] => []
  | base, k, s :: rest =>
    match s.id with
    | some e => (s.name, seqExpr e 0) :: gatherSprites e 1 rest
    | none => (s.name, seqExpr base k) :: gatherSprites base (k + 1) rest

/-- all entries of the file, in order; the iterator persists from one entry to the next -/
def spriteExprs (entries : List (List SpriteDef)) : List (Name × IdExpr) :=
  gatherSprites (.lit 0) 0 entries.flatten

/-- compile-time constants of the sprites under a value assignment of the names -/
def constIds (env : Name → Option Int32) (entries : List (List SpriteDef)) : List (Option Int32) :=
  (spriteExprs entries).map (fun p => p.2.eval env)

/-- `Sprite::from_meta`: the (const-simplified) `id` field read as `i32 as u32` -/
def explicitId (env : Name → Option Int32) (s : SpriteDef) : Option (Option UInt32) :=
  match s.id with
  | none => some none
  | some e => (e.eval env).map (fun v => some v.toUInt32)

/-- `write_entry`: `sprite.id.unwrap_or(*next_auto)`, `*next_auto = id.wrapping_add(1)` -/
def writeSprites (next : UInt32) : List (Option UInt32) → List UInt32
  | [] => []
  | id :: rest => let a := id.getD next; a :: writeSprites (a + 1) rest

/-- value of `next_auto_sprite_id` after an entry -/
def nextAfter (next : UInt32) : List (Option UInt32) → UInt32
  | [] => next
  | id :: rest => nextAfter (id.getD next + 1) rest

/-- `write_anm`: the counter persists across entries -/
def writeEntries (next : UInt32) : List (List (Option UInt32)) → List (List UInt32)
  | [] => []
  | e :: es => writeSprites next e :: writeEntries (nextAfter next e) es

def explicitIds (env : Name → Option Int32) : List SpriteDef → Option (List (Option UInt32))
  | [] => some []
  | s :: rest => match explicitId env s, explicitIds env rest with
    | some a, some r => some (a :: r)
    | _, _ => none

def explicitIdsEntries (env : Name → Option Int32) : List (List SpriteDef) → Option (List (List (Option UInt32)))
  | [] => some []
  | e :: rest => match explicitIds env e, explicitIdsEntries env rest with
    | some a, some r => some (a :: r)
    | _, _ => none

/-- the ids the writer stores for a file, `none` if some explicit id has no value -/
def writtenIds (env : Name → Option Int32) (entries : List (List SpriteDef)) : Option (List (List UInt32)) :=
  (explicitIdsEntries env entries).map (writeEntries 0)

/-- `all_sprite_ids` (decompiler side) is the same numbering on the flattened list -/
def allSpriteIds (entries : List (List (Option UInt32))) : List UInt32 := writeSprites 0 entries.flatten

/-- `strip_unnecessary_sprite_ids` (reader side) on the flattened list of ids read from a file -/
def stripIds (next : UInt32) : List UInt32 → List (Option UInt32)
  | [] => []
  | a :: rest => (if a = next then none else some a) :: stripIds (a + 1) rest

/-! ## ANM scripts -/

/-- `gather_script_ids`: the number stored in the script table (`number.unwrap_or(next)`,
`next = id.checked_add(1)`: `script 2147483647 x {}` is the error "script number too large",
reported before the duplicate-name check of that item), and the duplicate-name check.
The constant of a script is its position in this list. -/
def gatherScriptIds : Int32 → List Name → List (Name × Option Int32) → Outcome (List (Name × Int32))
  | _, _, [] => .ok []
  | next, seen, (n, num) :: rest =>
    let id := num.getD next
    if id = Int32.maxValue then .err eScriptTooLarge
    else if seen.contains n then .err eDupScript
    else match gatherScriptIds (id + 1) (n :: seen) rest with
      | .ok r => .ok ((n, id) :: r)
      | .err c => .err c
      | .panic s => .panic s

/-- position of a name in a list (file order) -/
def indexOf? (n : Name) : List Name → Option Nat
  | [] => none
  | x :: xs => if x = n then some 0 else (indexOf? n xs).map (· + 1)

/-! ## ANM files -/

inductive RefKind where
  | sprite  -- `n` parameter (enum AnmSprite)
  | script  -- `N` parameter (enum AnmScript)
deriving Repr, DecidableEq, Inhabited

/-- a name used as an instruction argument -/
structure Ref where
  /-- enum expected by the parameter -/
  kind : RefKind
  /-- written `AnmSprite.x` / `AnmScript.x` (the qualifier is `kind`) -/
  qual : Bool
  name : Name
deriving Repr, Inhabited

inductive AnmItem where
  | entry (sprites : List SpriteDef)
  | script (name : Name) (number : Option Int32) (refs : List Ref)
  | const (name : Name) (e : IdExpr)
deriving Repr, Inhabited

structure AnmOut where
  /-- sprite ids written, per entry -/
  sprites : List (List UInt32)
  /-- script table (name of the script placed there, number written), per entry -/
  scripts : List (List (Name × Int32))
  /-- argument values written for the references, per script in file order -/
  refs : List (List Int32)
deriving Repr, Inhabited, DecidableEq

def anmEntries : List AnmItem → List (List SpriteDef)
  | [] => []
  | .entry s :: rest => s :: anmEntries rest
  | _ :: rest => anmEntries rest

def anmScripts : List AnmItem → List (Name × Option Int32)
  | [] => []
  | .script n num _ :: rest => (n, num) :: anmScripts rest
  | _ :: rest => anmScripts rest

def anmConsts : List AnmItem → List (Name × IdExpr)
  | [] => []
  | .const n e :: rest => (n, e) :: anmConsts rest
  | _ :: rest => anmConsts rest

def anmRefs : List AnmItem → List (List Ref)
  | [] => []
  | .script _ _ r :: rest => r :: anmRefs rest
  | _ :: rest => anmRefs rest

def hasDup : List Name → Bool
  | [] => false
  | x :: xs => xs.contains x || hasDup xs

/-- what a name resolves to -/
inductive Target where
  | const (n : Name)
  | sprite (n : Name)
  | script (n : Name)
deriving Repr, DecidableEq, Inhabited

structure Scope where
  consts : List Name
  sprites : List Name
  scripts : List Name

/-- `resolve_names` for a variable: a user `const` shadows enum consts; otherwise the enum expected
by the parameter type wins, otherwise the name must belong to exactly one enum. -/
def Scope.resolve (sc : Scope) (ctx : Option RefKind) (n : Name) : Outcome Target :=
  if sc.consts.contains n then .ok (.const n)
  else
    let inSp := sc.sprites.contains n
    let inSc := sc.scripts.contains n
    match ctx, inSp, inSc with
    | some .sprite, true, _ => .ok (.sprite n)
    | some .script, _, true => .ok (.script n)
    | _, true, true => .err eAmbEnum
    | _, true, false => .ok (.sprite n)
    | _, false, true => .ok (.script n)
    | _, false, false => .err eUnknown

/-- `resolve_qualified_enum_const` -/
def Scope.resolveQual (sc : Scope) (k : RefKind) (n : Name) : Outcome Target :=
  match k with
  | .sprite => if sc.sprites.contains n then .ok (.sprite n) else .err eUnknown
  | .script => if sc.scripts.contains n then .ok (.script n) else .err eUnknown

def Scope.resolveRef (sc : Scope) (r : Ref) : Outcome Target :=
  if r.qual then sc.resolveQual r.kind r.name else sc.resolve (some r.kind) r.name

/-- first error of a list of resolutions, in source order -/
def firstErr : List (Outcome Target) → Option String
  | [] => none
  | .err c :: _ => some c
  | .panic s :: _ => some s
  | .ok _ :: rest => firstErr rest

/-- every name use of the file in source order, resolved -/
def anmResolutions (sc : Scope) : List AnmItem → List (Outcome Target)
  | [] => []
  | .entry sprites :: rest =>
    (sprites.flatMap fun s => match s.id with
      | none => []
      | some e => e.names.map (sc.resolve none)) ++ anmResolutions sc rest
  | .script _ _ refs :: rest => refs.map sc.resolveRef ++ anmResolutions sc rest
  | .const _ e :: rest => e.names.map (sc.resolve none) ++ anmResolutions sc rest

/-- last definition of a name wins (`this_enum_data.consts.insert` replaces) -/
def lookupLast {α} (n : Name) : List (Name × α) → Option α
  | [] => none
  | (m, v) :: rest => match lookupLast n rest with
    | some w => some w
    | none => if m = n then some v else none

/-- values of the definitions of a file: one slot per user const and one per sprite -/
structure Tables where
  consts : List (Name × Option Int32)
  sprites : List (Name × Option Int32)
deriving Repr, DecidableEq, Inhabited

/-- value of a name in an untyped position (a sprite `id:` or a `const` initialiser): user consts
shadow enum consts; the last definition of a sprite name is the one names resolve to; a script name
denotes its position.  (A name that is both a sprite and a script is rejected by resolution.) -/
def Tables.env (t : Tables) (scripts : List Name) : Name → Option Int32 := fun n =>
  match lookupLast n t.consts with
  | some v => v
  | none => match lookupLast n t.sprites with
    | some v => v
    | none => (indexOf? n scripts).map (fun i => Int32.ofNat i)

/-- one round: every definition evaluated under the values of the previous round -/
def evalRound (consts sprites : List (Name × IdExpr)) (scripts : List Name) (t : Tables) : Tables :=
  { consts := consts.map (fun p => (p.1, p.2.eval (t.env scripts))),
    sprites := sprites.map (fun p => (p.1, p.2.eval (t.env scripts))) }

/-- `k` rounds starting from "no definition has a value yet" -/
def evalRounds (consts sprites : List (Name × IdExpr)) (scripts : List Name) : Nat → Tables
  | 0 => { consts := consts.map (fun p => (p.1, none)), sprites := sprites.map (fun p => (p.1, none)) }
  | k + 1 => evalRound consts sprites scripts (evalRounds consts sprites scripts k)

def Tables.complete (t : Tables) : Bool :=
  t.consts.all (fun p => p.2.isSome) && t.sprites.all (fun p => p.2.isSome)

/-- deferred equality check (`define_enum_const` + `do_deferred_equality`): a redefinition of a
name within the enum must have the value of the definition it replaces. `seen` = earlier definitions. -/
def equalityCheck : List (Name × Option Int32) → List (Name × Option Int32) → Bool
  | _, [] => true
  | seen, (n, v) :: rest =>
    (match lookupLast n seen with
     | some w => w == v
     | none => true) && equalityCheck (seen ++ [(n, v)]) rest

/-- scripts grouped under the entry that precedes them (`compile`, "group scripts by entry");
`none` = a script before the first entry.  `cur` is the group being collected. -/
def groupScripts : Option (List (Name × Int32)) → List AnmItem → List (Name × Int32) → Option (List (List (Name × Int32)))
  | cur, [], _ => match cur with
    | none => some []
    | some g => some [g]
  | cur, .entry _ :: rest, ids =>
    match groupScripts (some []) rest ids with
    | none => none
    | some gs => match cur with
      | none => some gs
      | some g => some (g :: gs)
  | cur, .script n _ _ :: rest, ids =>
    match cur with
    | none => none
    | some g => groupScripts (some (g ++ [(n, (lookupLast n ids).getD 0)])) rest ids
  | cur, .const _ _ :: rest, ids => groupScripts cur rest ids

/-- value written for a resolved reference -/
def targetValue (t : Tables) (scripts : List Name) : Target → Int32
  | .const n => ((lookupLast n t.consts).bind id).getD 0
  | .sprite n => ((lookupLast n t.sprites).bind id).getD 0
  | .script n => Int32.ofNat ((indexOf? n scripts).getD 0)

def refValue (sc : Scope) (t : Tables) (scripts : List Name) (r : Ref) : Int32 :=
  match sc.resolveRef r with
  | .ok tg => targetValue t scripts tg
  | _ => 0

/-- names of the scripts in file order (`gather_script_ids` keeps the order) -/
def anmScriptNames (items : List AnmItem) : List Name := (anmScripts items).map (·.1)

def anmSpriteExprs (items : List AnmItem) : List (Name × IdExpr) := spriteExprs (anmEntries items)

def anmScope (items : List AnmItem) : Scope :=
  { consts := (anmConsts items).map (·.1), sprites := (anmSpriteExprs items).map (·.1), scripts := anmScriptNames items }

/-- `evaluate_const_vars`: enough rounds for every acyclic chain of definitions -/
def anmTables (items : List AnmItem) : Tables :=
  evalRounds (anmConsts items) (anmSpriteExprs items) (anmScriptNames items)
    ((anmConsts items).length + (anmSpriteExprs items).length)

/-- the values are a fixed point of the definitions and every definition has one -/
def anmStable (items : List AnmItem) : Bool :=
  (anmTables items).complete &&
    decide (evalRound (anmConsts items) (anmSpriteExprs items) (anmScriptNames items) (anmTables items) = anmTables items)

/-- the whole compile + write pipeline of an ANM source, as far as numbering is concerned -/
def compileAnm (items : List AnmItem) : Outcome AnmOut :=
  let entries := anmEntries items
  -- parser: duplicate keys in one `sprites: {...}` object
  if entries.any (fun e => hasDup (e.map (·.name))) then .err eDupField else
  match gatherScriptIds 0 [] (anmScripts items) with
  | .err c => .err c
  | .panic s => .panic s
  | .ok scriptIds =>
  let scripts := anmScriptNames items
  let sc := anmScope items
  -- name resolution (first error in source order)
  match firstErr (anmResolutions sc items) with
  | some c => .err c
  | none =>
  -- evaluate_const_vars: a cycle leaves a definition without value / the values unstable
  let t := anmTables items
  if !anmStable items then .err eCycle else
  -- deferred equality checks of redefined sprite names
  if !equalityCheck [] t.sprites then .err eAmbValue else
  match groupScripts none items scriptIds with
  | none => .err eOrphan
  | some groups =>
    if entries.isEmpty then .err eEmptyAnm else
    match writtenIds (t.env scripts) entries with
    | none => .err eCycle
    | some written =>
      .ok { sprites := written, scripts := groups,
            refs := (anmRefs items).map (fun rs => rs.map (refValue sc t scripts)) }

/-! ## old ECL (EoSD .. StB): subs and timelines -/

inductive EclItem where
  | sub (name : Name) (refs : List Name)
  | timeline (name : Name) (number : Option Int32) (refs : List Name)
deriving Repr, Inhabited

structure EclOut where
  /-- sub table in file order -/
  subs : List Name
  /-- for every timeline of the source, in source order, its slot in the timeline table -/
  timelines : List Nat
  /-- values written for the references, per item in source order -/
  refs : List (List Nat)
deriving Repr, Inhabited, DecidableEq

def eclSubs : List EclItem → List Name
  | [] => []
  | .sub n _ :: rest => n :: eclSubs rest
  | _ :: rest => eclSubs rest

def eclNumbers : List EclItem → List (Option Int32)
  | [] => []
  | .timeline _ num _ :: rest => num :: eclNumbers rest
  | _ :: rest => eclNumbers rest

def eclRefs : List EclItem → List (List Name)
  | [] => []
  | .sub _ r :: rest => r :: eclRefs rest
  | .timeline _ _ r :: rest => r :: eclRefs rest

/-- `gather_sub_ids`: duplicate sub names are an error; the constant of a sub is its position -/
def gatherSubIds : List Name → List Name → Outcome (List Name)
  | _, [] => .ok []
  | seen, n :: rest =>
    if seen.contains n then .err eDupScript
    else match gatherSubIds (n :: seen) rest with
      | .ok r => .ok (n :: r)
      | e => e

/-- the loop of `get_and_validate_timeline_indices`: indices in source order (negative explicit
numbers are reported and skipped), and whether a negative number was seen.
`next` counts the timelines without a number. -/
def timelineLoop : Nat → List (Option Int32) → List Nat × Bool
  | _, [] => ([], false)
  | next, none :: rest => let r := timelineLoop (next + 1) rest; (next :: r.1, r.2)
  | next, some v :: rest =>
    if v < 0 then ((timelineLoop next rest).1, true)
    else let r := timelineLoop next rest; (v.toInt.toNat :: r.1, r.2)

def listMax : List Nat → Nat
  | [] => 0
  | x :: xs => max x (listMax xs)

def countOf (x : Nat) : List Nat → Nat
  | [] => 0
  | y :: ys => (if y = x then 1 else 0) + countOf x ys

/-- number of distinct indices the table must have: largest index + 1 -/
def expectedCount (idx : List Nat) : Nat := if idx.isEmpty then 0 else listMax idx + 1

/-- "missing timeline(s) for index ..." -/
def missingIdx (idx : List Nat) : List Nat := (List.range (expectedCount idx)).filter (fun i => !idx.contains i)

/-- "duplicate timeline for index ..." -/
def hasDupIdx (idx : List Nat) : Bool := (List.range (expectedCount idx)).any (fun i => decide (countOf i idx ≥ 2))

/-- `get_and_validate_timeline_indices` (the first error emitted decides the class) -/
def timelineIndices (numbers : List (Option Int32)) : Outcome (List Nat) :=
  let r := timelineLoop 0 numbers
  if r.2 then .err eTlNegative
  else if !(missingIdx r.1).isEmpty then .err eTlMissing
  else if hasDupIdx r.1 then .err eTlDuplicate
  else .ok r.1

def tooMany : Option Nat → Nat → Bool
  | some m, n => decide (n > m)
  | none, _ => false

/-- `maxTimelines`: EoSD 1, PCB/IN/StB 15, PoFV unbounded (`write_olde_ecl`) -/
def compileEcl (maxTimelines : Option Nat) (items : List EclItem) : Outcome EclOut :=
  match gatherSubIds [] (eclSubs items) with
  | .err c => .err c
  | .panic s => .panic s
  | .ok subs =>
    if (eclRefs items).any (fun rs => rs.any (fun n => !subs.contains n)) then .err eUnknown else
    match timelineIndices (eclNumbers items) with
    | .err c => .err c
    | .panic s => .panic s
    | .ok tls =>
      if tooMany maxTimelines tls.length then .err eTlTooMany else
      .ok { subs := subs, timelines := tls,
            refs := (eclRefs items).map (fun rs => rs.map (fun n => (indexOf? n subs).getD 0)) }

/-! ## MSG: sparse table -> dense table -> offsets -/

structure MsgEntry where
  /-- `none` = literal `0` -/
  script : Option Name
  flags : Nat
deriving Repr, Inhabited, BEq

structure MsgFile where
  /-- `table: { idx: {...}, ... }` without the `default` key, in source order -/
  table : List (Nat × MsgEntry)
  default : Option MsgEntry
  tableLen : Option Nat
  /-- scripts in source order with the argument-blob length of each instruction -/
  scripts : List (Name × List Nat)
  /-- TH09+: every table slot has a flags word -/
  hasFlags : Bool
deriving Repr, Inhabited

structure MsgOut where
  /-- (offset, flags) per slot -/
  table : List (Nat × Nat)
  /-- offset at which each script of the source starts -/
  scripts : List (Name × Nat)
deriving Repr, Inhabited, DecidableEq

def lookupNat {α} (i : Nat) : List (Nat × α) → Option α
  | [] => none
  | (k, v) :: rest => if k = i then some v else lookupNat i rest

/-- `sparse_table_implicit_len` -/
def implicitLen (table : List (Nat × MsgEntry)) : Nat :=
  if table.isEmpty then 0 else listMax (table.map (·.1)) + 1

def MsgFile.len (f : MsgFile) : Nat := f.tableLen.getD (implicitLen f.table)

/-- `densify` -/
def densify (f : MsgFile) : List MsgEntry :=
  (List.range f.len).map (fun i => (lookupNat i f.table).getD (f.default.getD { script := none, flags := 0 }))

/-- header 4 bytes per instruction + 4-byte end marker (`MsgHooks`) -/
def msgScriptSize (blobs : List Nat) : Nat := (blobs.map (· + 4)).sum + 4

/-- `write_msg`: scripts are written one after the other behind the table; returns their offsets -/
def msgScriptOffsets : Nat → List (Name × List Nat) → List (Name × Nat)
  | _, [] => []
  | pos, (n, blobs) :: rest => (n, pos) :: msgScriptOffsets (pos + msgScriptSize blobs) rest

def msgTableSize (f : MsgFile) : Nat := 4 + f.len * (if f.hasFlags then 8 else 4)

/-- table slots: the offset of the named script, looked up by name -/
def msgSlots (offsets : List (Name × Nat)) : List MsgEntry → Outcome (List (Nat × Nat))
  | [] => .ok []
  | e :: rest =>
    match (match e.script with
           | none => some 0
           | some n => lookupLast n offsets) with
    | none => .err eUnknown
    | some off => match msgSlots offsets rest with
      | .ok r => .ok ((off, e.flags) :: r)
      | x => x

def compileMsg (f : MsgFile) : Outcome MsgOut :=
  if hasDupNat (f.table.map (·.1)) then .err eDupField else
  if hasDup (f.scripts.map (·.1)) then .err eDupScript else
  let offsets := msgScriptOffsets (msgTableSize f) f.scripts
  match msgSlots offsets (densify f) with
  | .ok slots => .ok { table := slots.map (fun s => (s.1, if f.hasFlags then s.2 else 0)), scripts := offsets }
  | .err c => .err c
  | .panic s => .panic s
where
  hasDupNat : List Nat → Bool
    | [] => false
    | x :: xs => xs.contains x || hasDupNat xs

/-! ## STD: instances name objects -/

/-- `write_instance`: `objects.get_index_of(name) as u16` -/
def stdInstances (objects : List Name) : List Name → Outcome (List Nat)
  | [] => .ok []
  | n :: rest =>
    match indexOf? n objects with
    | none => .err eUnknown
    | some i => match stdInstances objects rest with
      | .ok r => .ok (i % 65536 :: r)
      | x => x

/-- parser (duplicate object names), then `write_std`: the object count and the total quad count
are 16-bit fields and object index 0xffff ends the instance list, so more than 65535 of either is
an error; then the instances. -/
def compileStd (objects instances : List Name) (numQuads : Nat := 0) : Outcome (List Nat) :=
  if hasDup objects then .err eDupField
  else if objects.length > 65535 || numQuads > 65535 then .err eStdTooMany
  else stdInstances objects instances

end TruthModel.Ids
