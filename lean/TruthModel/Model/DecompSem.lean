/-
C07: the semantics the full property `C07_full` talks about (not executed by the driver, not used by
the structural theorems): a small-step machine for flat statement lists that mirrors
`vm::AstVm::_run` on a block without nested blocks, and the lowering of a reconstructed tree back
to a flat list (what `desugar_blocks` does to `loop`, `do .. while`, cond chains and `break`).
Integer registers only; `offsetof` / `timeof` are parameters.
-/
import TruthModel.Model.Decomp
namespace TruthModel.Decomp

abbrev Leaf := Option String × Atom

structure VmState where
  regs : Nat → Int32
  time : Int
  realTime : Int
  log : List (Int × Nat × List Int32)      -- (real_time, opcode, args)

/-- parameters of the machine: which tags run on the current difficulty, label properties -/
structure VmEnv where
  tagOn : String → Bool
  labelProp : Bool → Nat → Int32            -- (is `timeof`, label)

def evalOperand (env : VmEnv) (st : VmState) : Operand → Int32 × VmState
  | .reg r => (st.regs r, st)
  | .lit v => (Int32.ofInt v, st)
  | .dec r => let v := st.regs r - 1; (v, { st with regs := fun x => if x = r then v else st.regs x })
  | .timeof l => (env.labelProp true l, st)
  | .offsetof l => (env.labelProp false l, st)

def b2i (b : Bool) : Int32 := if b then 1 else 0

def evalBin : BinOp → Int32 → Int32 → Int32
  | .eq, a, b => b2i (a == b) | .ne, a, b => b2i (a != b)
  | .lt, a, b => b2i (a < b) | .le, a, b => b2i (a ≤ b)
  | .gt, a, b => b2i (b < a) | .ge, a, b => b2i (b ≤ a)
  | .add, a, b => a + b | .sub, a, b => a - b | .band, a, b => a &&& b

def evalExpr (env : VmEnv) (st : VmState) : Expr → Int32 × VmState
  | .val a => evalOperand env st a
  | .bin op a b =>
    let (x, st) := evalOperand env st a
    let (y, st) := evalOperand env st b
    (evalBin op x y, st)

def evalArgs (env : VmEnv) : VmState → List Operand → List Int32 × VmState
  | st, [] => ([], st)
  | st, a :: as =>
    let (x, st) := evalOperand env st a
    let (xs, st) := evalArgs env st as
    (x :: xs, st)

/-- the time of every statement (`time_and_difficulty::run`): a time label has its own new time -/
def stmtTimes : List Leaf → Int → List Int
  | [], _ => []
  | (_, .absTime t) :: rest, _ => t :: stmtTimes rest t
  | (_, .relTime d) :: rest, cur => (cur + d) :: stmtTimes rest (cur + d)
  | _ :: rest, cur => cur :: stmtTimes rest cur

/-- `try_goto`: first statement that defines the label -/
def findLabel (l : Nat) : List Leaf → Nat → Option Nat
  | [], _ => none
  | (_, .label l') :: rest, i => if l = l' then some i else findLabel l rest (i + 1)
  | _ :: rest, i => findLabel l rest (i + 1)

inductive StepResult where
  | next (pc : Nat) (st : VmState)
  | stuck                                     -- jump to a missing label, `break` outside a loop

def doJump (prog : List Leaf) (times : List Int) (st : VmState) (pc : Nat) : Jump → StepResult
  | .brk => .stuck
  | .goto l t =>
    match findLabel l prog 0 with
    | none => .stuck
    | some i => .next i { st with time := t.getD (times.getD i 0) }

/-- one iteration of the `'stmt` loop of `AstVm::_run` -/
def step (env : VmEnv) (prog : List Leaf) (times : List Int) (pc : Nat) (st : VmState) : StepResult :=
  match prog[pc]? with
  | none => .stuck
  | some (tag, a) =>
    let t := times.getD pc 0
    let st := if st.time < t then { st with time := t, realTime := st.realTime + (t - st.time) } else st
    if (match tag with | some s => !env.tagOn s | none => false) then .next (pc + 1) st else
    match a with
    | .jump j => doJump prog times st pc j
    | .condJump kw c j =>
      let (v, st) := evalExpr env st c
      if (v != 0) == (kw == .if_) then doJump prog times st pc j else .next (pc + 1) st
    | .ins op args =>
      let (vs, st) := evalArgs env st args
      .next (pc + 1) { st with log := st.log ++ [(st.realTime, op, vs)] }
    | .set r e =>
      let (v, st) := evalExpr env st e
      .next (pc + 1) { st with regs := fun x => if x = r then v else st.regs x }
    | _ => .next (pc + 1) st

/-- run until the program counter falls off the end; `none` = out of fuel or stuck -/
def runFlat (env : VmEnv) (prog : List Leaf) (times : List Int) : Nat → Nat → VmState → Option VmState
  | 0, _, _ => none
  | fuel + 1, pc, st =>
    if pc ≥ prog.length then some st else
    match step env prog times pc st with
    | .stuck => none
    | .next pc' st' => runFlat env prog times fuel pc' st'

def run (env : VmEnv) (prog : List Leaf) (fuel : Nat) (st : VmState) : Option VmState :=
  runFlat env prog (stmtTimes prog 0) fuel 0 st

/-! ### lowering a tree back to labels and jumps -/

/-- state of the lowering: next fresh label -/
abbrev Fresh := Nat

mutual
/-- `brk`: the end label of the innermost enclosing loop -/
def lowerS (brk : Option Nat) : Stmt → Fresh → List Leaf × Fresh
  | .atom d (.jump .brk), n => (match brk with | some e => [(d, .jump (.goto e none))] | none => [(d, .jump .brk)], n)
  | .atom d (.condJump kw c .brk), n =>
    (match brk with | some e => [(d, .condJump kw c (.goto e none))] | none => [(d, .condJump kw c .brk)], n)
  | .atom d a, n => ([(d, a)], n)
  | .node (.loop _) b, n =>
    let (body, n') := lowerL (some (n + 1)) b (n + 2)
    ((none, .label n) :: body ++ [(none, .jump (.goto n none)), (none, .label (n + 1))], n')
  | .node (.doWhile _ c) b, n =>
    let (body, n') := lowerL (some (n + 1)) b (n + 2)
    ((none, .label n) :: body ++ [(none, .condJump .if_ c (.goto n none)), (none, .label (n + 1))], n')
  | .node .chain arms, n =>
    -- label `n` is the common end of the chain
    let (body, n') := lowerArms brk n arms (n + 1)
    (body ++ [(none, .label n)], n')
  | .node _ b, n => lowerL brk b n           -- a stray arm / else outside a chain: just its body
/-- a block -/
def lowerL (brk : Option Nat) : List Stmt → Fresh → List Leaf × Fresh
  | [], n => ([], n)
  | s :: ss, n =>
    let (a, n) := lowerS brk s n
    let (b, n) := lowerL brk ss n
    (a ++ b, n)
/-- the arms of a chain with end label `e` -/
def lowerArms (brk : Option Nat) (e : Nat) : List Stmt → Fresh → List Leaf × Fresh
  | [], n => ([], n)
  | .node (.arm kw c) b :: rest, n =>
    let (body, n1) := lowerL brk b (n + 1)
    let (more, n2) := lowerArms brk e rest n1
    -- `if (c) { b } else ...`  ==>  `unless (c) goto n; b; goto e; n: ...`; the last block falls through
    ((none, .condJump (match kw with | .if_ => .unless | .unless => .if_) c (.goto n none)) :: body ++
      (match rest with | [] => [] | _ => [(none, .jump (.goto e none))]) ++ [(none, .label n)] ++ more, n2)
  | .node _ b :: rest, n =>
    let (body, n1) := lowerL brk b n
    let (more, n2) := lowerArms brk e rest n1
    (body ++ more, n2)
  | .atom d a :: rest, n =>
    let (more, n2) := lowerArms brk e rest n
    ((d, a) :: more, n2)
end

/-- labels of the input are below `fresh`, new labels start there -/
def lower (fresh : Nat) (b : Block) : List Leaf := (lowerL none b fresh).1

def maxLabel (ss : Block) : Nat := (labelsL ss ++ refsL ss).foldl max 0

end TruthModel.Decomp
