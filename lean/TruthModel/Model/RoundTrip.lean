import TruthModel.Model.Abi
import TruthModel.Model.Time
import TruthModel.Model.Diff
import TruthModel.Model.Offsets
/-
C01 — the flat decompile path and the flat compile path of one script, composed from the models
of the argument codec (`Abi`, C12), the time labels (`Time`, C13), the difficulty labels (`Diff`,
C14) and the label-offset passes (`Offsets`, C18).

Decompile direction (`raiseFlat`), intrinsics and blocks off — mirror of
* `early_raise_instrs` (`src/llir/raise/early.rs`): `gather_instr_offsets`, `Raiser::decode_args`
  (`decode_args_with_abi` = `Abi.decLoop`, or the blob fallback for `--no-arguments` / unknown
  signatures), `gather_jump_time_args` + `extract_jump_args_by_signature`,
  `generate_offset_labels` / `generate_label_at_offset` (= `Time.labelFor`, incl. the `r` label
  and `label_startr`), `early_raise_intrinsics` with no intrinsics: `raise_raw_ins_args`
  (`raise_arg`, `raise_arg_to_literal`, `raise_arg_to_reg`, the `@arg0` rule, the padding
  warning and filter), the `Blob` arm (`@mask`, `@arg0`, `@blob`), the `End` pseudo-instruction;
* `raise_middle_to_ast` (`late.rs`): `LabelEmitter::emit_offset_and_time_labels_with`
  (= `Time.emitLabels`), `make_diff_label` (= `Diff.label`), `RIKind::Instruction` / `RIKind::Blob`;
* `Raiser::generate_warnings` (the unknown-signature warning).

Compile direction (`lowerFlat`) on a flat statement list — mirror of the pass sequence of the
format compilers (`formats/{anm,std,msg,ecl}`): `compute_diff_label_masks` (= `Diff.parse`),
`type_check::check_expr_call`, `const_simplify::validate_call_const_args`, `forbid_difficulty`,
then `lower_sub_ast_to_instrs`: `time_and_difficulty::run` (time rules, difficulty of the label),
`lower_instruction` (`PseudoArgData::from_pseudos`: the blob length rule; `classify_expr`),
`gather_label_info` / `encode_labels` / the second encoding pass (= `Offsets.lowerTail`), and the
`@mask` / `@arg0` overrides of `encode_args`.

Not modelled: `@pop` / `@nargs` (zero in every format of C01's scope), `RegisterEncodingStyle::EosdEcl`
(TH06 ECL), enum-typed parameters (printed as names), intrinsic sugar, block recovery.  Core Lean only.
-/
namespace TruthModel.RoundTrip
open TruthModel TruthModel.Abi TruthModel.Offsets

/-! ## the language -/

/-- register numbers stored as floats: `x == x.round()` then `x as i32` (`raise_arg_to_reg`), and
`reg as f32` (`SimpleArg::from_reg`).  IEEE single is a parameter, like every float operation. -/
structure FloatReg where
  toReg : UInt32 → Option Int
  ofReg : Int → UInt32

/-- what `LanguageHooks` + the mapfiles contribute -/
structure Lang where
  /-- `instr_header_size` -/
  hdr : Nat
  /-- `encode_label` / `decode_label` -/
  mode : LabelMode
  /-- `defs.ins_abi(language, opcode)` -/
  sig : Nat → Option Abi
  /-- `has_registers` -/
  hasRegs : Bool
  /-- the format compiles difficulty labels (`compute_diff_label_masks`; ECL) instead of rejecting
  them (`forbid_difficulty`; ANM, STD, MSG) -/
  diffAllowed : Bool
  /-- `ctx.diff_flag_defs` -/
  defs : Diff.Defs
  fr : FloatReg

/-- `DEFAULT_DIFFICULTY_MASK_BYTE` -/
def defaultDifficulty : Nat := 255

/-- signature the decompiler uses: none at all under `--no-arguments` (`options.arguments = false`) -/
def effSig (L : Lang) (arguments : Bool) (opcode : Nat) : Option Abi :=
  if arguments then L.sig opcode else none

/-! ## flat statements -/

inductive FArg where
  | int (v : Int)
  | float (bits : UInt32)
  | str (s : Bytes)
  /-- `$REG[r]` / `%REG[r]` -/
  | reg (r : Int) (isFloat : Bool)
  | offsetof (label : String)
  | timeof (label : String)
deriving DecidableEq, Repr, Inhabited

/-- `{"diff"}: ins_OP(@mask=.., @arg0=.., @blob=.., args)` -/
structure FCall where
  diff : Option (List Char) := none
  opcode : Nat
  mask : Option Nat := none
  arg0 : Option Int := none
  blob : Option Bytes := none
  args : List FArg := []
deriving DecidableEq, Repr, Inhabited

inductive FlatStmt where
  | label (name : String)
  | abs (t : Int32)
  | rel (d : Int32)
  | call (c : FCall)
deriving DecidableEq, Repr, Inhabited

/-! ## decompile: offsets, decoding -/

/-- `gather_instr_offsets`: `n + 1` offsets, the last one is the end of the script -/
def boundaries (hdr : Nat) (is : List RawInstr) : List Nat :=
  offsetsFrom 0 (is.map (instrSize hdr) ++ [0])

def leftoverMsg : String := "unexpected leftover bytes in ins_"
def unusedMaskMsg : String := "unused mask bits in ins_"

/-- `decode_args_with_abi` (register style `ByParamMask`): one value per encoding, the
`pseudo_arg0` left over, and the warnings (= `Abi.decodeArgs`, which drops `pseudo_arg0`) -/
def decodeInstr (abi : Abi) (i : RawInstr) : Outcome ((List Arg × Option Int) × List String) :=
  match decLoop abi i.blob i.mask i.extra with
  | .ok o =>
    let w1 := if o.rest.isEmpty then [] else [leftoverMsg]
    let w2 := if o.mask != 0 then [unusedMaskMsg] else []
    .ok ((o.args, o.arg0), o.warnings ++ w1 ++ w2)
  | .err c => .err c
  | .panic p => .panic p

/-- `EarlyRaiseInstr` -/
structure Early where
  raw : RawInstr
  offset : Nat
  /-- `EarlyRaiseArgs::Decoded` (with the signature used) or `none` = `Unknown` -/
  dec : Option (Abi × List Arg)
  /-- `pseudo_arg0` -/
  arg0 : Option Int
deriving Repr, Inhabited

/-- the blob-decoding pass; the first error ends it (`collect::<Result<_, _>>()?`) -/
def decodeAll (L : Lang) (arguments : Bool) : Nat → List RawInstr → Outcome (List Early × List String)
  | _, [] => .ok ([], [])
  | off, i :: rest =>
    match effSig L arguments i.opcode with
    | none =>
      match decodeAll L arguments (off + instrSize L.hdr i) rest with
      | .ok (es, ws) => .ok (⟨i, off, none, i.extra⟩ :: es, ws)
      | .err c => .err c
      | .panic p => .panic p
    | some abi =>
      match decodeInstr abi i with
      | .ok ((args, a0), w) =>
        match decodeAll L arguments (off + instrSize L.hdr i) rest with
        | .ok (es, ws) => .ok (⟨i, off, some (abi, args), a0⟩ :: es, w ++ ws)
        | .err c => .err c
        | .panic p => .panic p
      | .err c => .err c
      | .panic p => .panic p

/-! ## decompile: jumps and offset labels -/

/-- value of the `o` parameter (`validate` admits at most one) -/
def jumpOffsetArg : Abi → List Arg → Option Int
  | .jumpOffset :: _, .int v _ :: _ => some v
  | _ :: es, _ :: as => jumpOffsetArg es as
  | _, _ => none

/-- value of the `t` parameter -/
def jumpTimeArg : Abi → List Arg → Option Int
  | .jumpTime :: _, .int v _ :: _ => some v
  | _ :: es, _ :: as => jumpTimeArg es as
  | _, _ => none

/-- `hooks.decode_label(instr.offset, arg as u32)`; a negative result (relative jumps only) wraps to
an offset beyond every script in the Rust code, i.e. it is no boundary either way -/
def decodeLabel : LabelMode → Nat → Int → Int
  | .absolute, _, v => (wrapTo 4 v : Nat)
  | .relative, cur, v => (cur : Int) + v
  | .index20, _, v => ((wrapTo 4 v * 20 : Nat) : Int)

/-- index of the boundary at a decoded offset (`instr_offsets.binary_search`); `offs.length` if the
offset is no boundary -/
def destIdx (offs : List Nat) (d : Int) : Nat :=
  if d < 0 then offs.length else offs.idxOf d.toNat

/-- `extract_jump_args_by_signature` as the `Time` model wants it: destination index, time argument -/
def Early.jump (mode : LabelMode) (offs : List Nat) (e : Early) : Option (Nat × Option Int32) :=
  match e.dec with
  | none => none
  | some (abi, args) =>
    match jumpOffsetArg abi args with
    | none => none
    | some v => some (destIdx offs (decodeLabel mode e.offset v), (jumpTimeArg abi args).map Int32.ofInt)

def Early.toR (mode : LabelMode) (offs : List Nat) (e : Early) : Time.RInstr :=
  ⟨Int32.ofInt e.raw.time, e.jump mode offs⟩

/-- `label_{offset}`, `label_{prev_offset}r`, `label_startr` -/
def labelName (offs : List Nat) : Time.LabelName → String
  | .dest k => "label_" ++ toString (offs.getD k 0)
  | .before k => "label_" ++ toString (offs.getD k 0) ++ "r"
  | .start => "label_startr"

/-! ## decompile: arguments of one instruction -/

def nonIntFloatRegMsg : String := "non-integer float variable %REG["
def regOnStringMsg : String := "unexpected register bit on string value"
def invalidOffsetMsg : String := "invalid offset in a jump instruction"

/-- `raise_arg_to_reg`: `$REG[n]`, or `%REG[n]` for a float-stored register number -/
def raiseReg (L : Lang) : Arg → Outcome (FArg × List String)
  | .int v _ => .ok (.reg v false, [])
  | .float b _ =>
    match L.fr.toReg b with
    | some r => .ok (.reg r true, [])
    | none => .err nonIntFloatRegMsg
  | .str _ => .err regOnStringMsg

/-- the `JumpTime` arm of `raise_arg_to_literal`: `timeof(label)` iff the value is the label's time;
`lab` = name and time of the destination label of the instruction's own jump -/
def timeArg (lab : Option String × Option Int32) (v : Int) : FArg :=
  match lab with
  | (some n, some t) => if t = Int32.ofInt v then .timeof n else .int v
  | _ => .int v

/-- the `JumpOffset` arm: `offsetof(label)` -/
def offsetArg (lab : Option String × Option Int32) (v : Int) : FArg × List String :=
  match lab.1 with
  | some n => (.offsetof n, [])
  | none => (.int v, [invalidOffsetMsg])

/-- `raise_arg_to_literal`, guided by the encoding -/
def raiseLit (lab : Option String × Option Int32) : Enc → Arg → FArg × List String
  | .jumpTime, .int v _ => (timeArg lab v, [])
  | .jumpOffset, .int v _ => offsetArg lab v
  | _, .int v _ => (.int v, [])
  | _, .float b _ => (.float b, [])
  | _, .str s => (.str s, [])

/-- `raise_arg` -/
def raiseArg (L : Lang) (lab : Option String × Option Int32) (e : Enc) (a : Arg) : Outcome (FArg × List String) :=
  if a.isReg then raiseReg L a else .ok (raiseLit lab e a)

/-- all arguments of `raise_raw_ins_args`, padding dropped (a padding value never fails to raise) -/
def raiseArgs (L : Lang) (lab : Option String × Option Int32) : Abi → List Arg → Outcome (List FArg × List String)
  | e :: es, a :: as =>
    if e.isPadding then raiseArgs L lab es as else
    match raiseArg L lab e a with
    | .ok (x, w) =>
      match raiseArgs L lab es as with
      | .ok (xs, ws) => .ok (x :: xs, w ++ ws)
      | .err c => .err c
      | .panic p => .panic p
    | .err c => .err c
    | .panic p => .panic p
  | _, _ => .ok ([], [])

/-- "Show an explicit @arg0 if necessary": `None | Some(0) => None` -/
def pseudoArg0 : Option Int → Option Int
  | some 0 => none
  | x => x

def paddingMsg : String := "ignoring nonzero data found in padding"

/-- the destination label of the instruction's own jump: name and time (`dest_label`) -/
def destLabel (mode : LabelMode) (offs : List Nat) (ris : List Time.RInstr) (e : Early) : Option String × Option Int32 :=
  match e.jump mode offs with
  | none => (none, none)
  | some (k, _) =>
    match Time.labelFor ris k with
    | some l => (some (labelName offs l.name), some l.time)
    | none => (none, none)

/-- `early_raise_intrinsics` for one instruction, no intrinsics: the call without its difficulty label -/
def raiseCall (L : Lang) (offs : List Nat) (ris : List Time.RInstr) (e : Early) : Outcome (FCall × List String) :=
  match e.dec with
  | none =>
    .ok ({ opcode := e.raw.opcode, mask := if e.raw.mask != 0 then some e.raw.mask else none,
           arg0 := e.arg0, blob := some e.raw.blob }, [])
  | some (abi, args) =>
    match raiseArgs L (destLabel L.mode offs ris e) abi args with
    | .ok (xs, w) =>
      .ok ({ opcode := e.raw.opcode, arg0 := pseudoArg0 e.arg0, args := xs },
           w ++ (if nonzeroPadding abi args then [paddingMsg] else []))
    | .err c => .err c
    | .panic p => .panic p

/-- the argument-raising pass over the script (`collect_with_recovery`: the first error is reported) -/
def raiseCalls (L : Lang) (offs : List Nat) (ris : List Time.RInstr) : List Early → Outcome (List FCall × List String)
  | [] => .ok ([], [])
  | e :: rest =>
    match raiseCall L offs ris e with
    | .ok (c, w) =>
      match raiseCalls L offs ris rest with
      | .ok (cs, ws) => .ok (c :: cs, w ++ ws)
      | .err c => .err c
      | .panic p => .panic p
    | .err c => .err c
    | .panic p => .panic p

/-! ## decompile: the final pass (labels, time labels, difficulty labels) -/

/-- `make_diff_label` -/
def diffLabel (L : Lang) (difficulty : Nat) : Outcome (Option (List Char)) :=
  if difficulty = defaultDifficulty then .ok none else
  match Diff.label L.defs (BitVec.ofNat 8 difficulty) with
  | .ok s => .ok (some s)
  | .err c => .err c
  | .panic p => .panic p

def outToFlat (offs : List Nat) : Time.Out → Option FlatStmt
  | .label n => some (.label (labelName offs n))
  | .abs t => some (.abs t)
  | .rel d => some (.rel d)
  | .instr => none

/-- time of the last instruction, 0 for an empty script -/
def lastTime (rs : List Time.RInstr) : Int32 :=
  match rs.getLast? with
  | some r => r.time
  | none => 0

/-- time of the `End` pseudo-instruction: that of the end label, else of the last instruction -/
def endTime (ris : List Time.RInstr) (lab : Option Time.Label) : Int32 :=
  match lab with
  | some l => l.time
  | none => lastTime ris

/-- `raise_middle_to_ast`: instructions `k, k+1, ..` and the `End` pseudo-instruction -/
def emitFrom (L : Lang) (offs : List Nat) (ris : List Time.RInstr) : Int32 → Nat → List (RawInstr × FCall) → Outcome (List FlatStmt)
  | prev, k, [] =>
    let lab := Time.labelFor ris k
    match Time.emitLabels prev (endTime ris lab) lab with
    | .ok os => .ok (os.filterMap (outToFlat offs))
    | .err c => .err c
    | .panic p => .panic p
  | prev, k, (i, c) :: rest =>
    let t := Int32.ofInt i.time
    match Time.emitLabels prev t (Time.labelFor ris k) with
    | .ok os =>
      match diffLabel L i.difficulty with
      | .ok d =>
        match emitFrom L offs ris t (k + 1) rest with
        | .ok ss => .ok (os.filterMap (outToFlat offs) ++ .call { c with diff := d } :: ss)
        | .err e => .err e
        | .panic p => .panic p
      | .err e => .err e
      | .panic p => .panic p
    | .err e => .err e
    | .panic p => .panic p

def unknownSigMsg : String := "instructions with unknown signatures were decompiled to byte blobs"

/-- `Raiser::generate_warnings`: opcodes without a signature while arguments were asked for -/
def unknownWarn (L : Lang) (arguments : Bool) (is : List RawInstr) : List String :=
  if arguments && is.any (fun i => (L.sig i.opcode).isNone) then [unknownSigMsg] else []

/-- some jump goes to an offset that is no instruction boundary (`generate_offset_labels`:
"an instruction has a bad jump offset!") -/
def hasBadJump (ris : List Time.RInstr) : Bool :=
  ris.any fun i => match i.jump with | some (dest, _) => dest > ris.length | none => false

/-- **decompile** one script with blocks and intrinsics off: the statement list and the warnings -/
def raiseFlat (L : Lang) (arguments : Bool) (is : List RawInstr) : Outcome (List FlatStmt × List String) :=
  let offs := boundaries L.hdr is
  match decodeAll L arguments 0 is with
  | .ok (es, w1) =>
    let ris := es.map (Early.toR L.mode offs)
    if hasBadJump ris then .err Time.badOffsetMsg else
    match raiseCalls L offs ris es with
    | .ok (cs, w2) =>
      match emitFrom L offs ris 0 0 (is.zip cs) with
      | .ok ss => .ok (ss, w1 ++ w2 ++ unknownWarn L arguments is)
      | .err c => .err c
      | .panic p => .panic p
    | .err c => .err c
    | .panic p => .panic p
  | .err c => .err c
  | .panic p => .panic p

/-! ## compile: the checks before lowering -/

/-- `classify_expr` on a flat argument -/
def toLArg (L : Lang) : FArg → LArg
  | .int v => .raw (.int v false)
  | .float b => .raw (.float b false)
  | .str s => .raw (.str s)
  | .reg r false => .raw (.int r true)
  | .reg r true => .raw (.float (L.fr.ofReg r) true)
  | .offsetof l => .label l
  | .timeof l => .timeOf l

/-- type and register-ness of an argument, as the call checks see it -/
def argShape (L : Lang) (x : FArg) : Arg :=
  match dummyArg (toLArg L x) with
  | .raw a => a
  | _ => .int 0 false

def seqU {α} (x : Outcome Unit) (k : Outcome α) : Outcome α :=
  match x with
  | .ok () => k
  | .err c => .err c
  | .panic p => .panic p

/-- a per-call check over the statement list; the first diagnostic is that of the first failing call -/
def firstErr (f : FCall → Outcome Unit) : List FlatStmt → Outcome Unit
  | [] => .ok ()
  | .call c :: rest => seqU (f c) (firstErr f rest)
  | _ :: rest => firstErr f rest

/-- `compute_diff_label_masks`: the mask of a call's difficulty label -/
def diffMask (L : Lang) (c : FCall) : Outcome Nat :=
  match c.diff with
  | none => .ok defaultDifficulty
  | some s =>
    match Diff.parse L.defs s with
    | .ok m => .ok m.toNat
    | .err e => .err e
    | .panic p => .panic p

def diffCheck (L : Lang) (c : FCall) : Outcome Unit :=
  match diffMask L c with
  | .ok _ => .ok ()
  | .err e => .err e
  | .panic p => .panic p

def blobAndArgsMsg : String := "cannot supply both normal arguments and an args blob"
def noSigMsg : String := "signature not known for"
def arityMsg : String := "wrong number of arguments to"

/-- `check_expr_call` -/
def typeCheck (L : Lang) (c : FCall) : Outcome Unit :=
  match c.blob with
  | some _ => if c.args.isEmpty then .ok () else .err blobAndArgsMsg
  | none =>
    match L.sig c.opcode with
    | none => .err noSigMsg
    | some abi =>
      let params := abi.filter Enc.contributes
      if c.args.length != params.length then .err arityMsg
      else checkTypes params (c.args.map (argShape L))

/-- `validate_call_const_args` -/
def constCheck (L : Lang) (c : FCall) : Outcome Unit :=
  match c.blob with
  | some _ => .ok ()
  | none =>
    match L.sig c.opcode with
    | none => .ok ()
    | some abi => checkConst (abi.filter Enc.contributes) (c.args.map (argShape L))

def noDifficultyMsg : String := "difficulty is not supported in this format"

/-- `forbid_difficulty` -/
def forbidDiff (c : FCall) : Outcome Unit :=
  if c.diff.isSome then .err noDifficultyMsg else .ok ()

def blobLenMsg : String := "number of bytes in blob not divisible by"

/-- `parse_args_blob`: the length rule of blob literals -/
def blobCheck (c : FCall) : Outcome Unit :=
  match c.blob with
  | some b => if b.length % 4 != 0 then .err blobLenMsg else .ok ()
  | none => .ok ()

/-! ## compile: statements -> lowering-level stream -/

/-- `@mask=` and `@arg0=` of a call (`x.value as u16`, `x.value as i16`) -/
structure Ovr where
  mask : Option Nat
  arg0 : Option Int
deriving DecidableEq, Repr, Inhabited

def headIsArg0 : Abi → Bool
  | e :: _ => e.isArg0
  | [] => false

/-- `lower_instruction`.  With an explicit `@arg0` on a signature that has an `arg0` parameter the
first argument is consumed but not used ("explicit @arg0 overrides value supplied naturally"): it
is replaced by the immediate 0 here, the header field is set by `patch`. -/
def mkInstr (L : Lang) (t : Int32) (c : FCall) : LInstr :=
  let difficulty := match diffMask L c with | .ok m => m | _ => defaultDifficulty
  match c.blob with
  | some b => ⟨t.toInt, c.opcode, difficulty, .unknown b⟩
  | none =>
    let abi := (L.sig c.opcode).getD []
    let args := c.args.map (toLArg L)
    let args := if c.arg0.isSome && headIsArg0 abi then (match args with | _ :: r => .raw (.int 0 false) :: r | [] => []) else args
    ⟨t.toInt, c.opcode, difficulty, .known abi args⟩

def mkOvr (c : FCall) : Ovr :=
  ⟨c.mask.map (· % 65536), c.arg0.map fun v => toSigned 2 (wrapTo 2 v)⟩

/-- `time_and_difficulty::run` + `lower_sub_ast` on a flat list: the label rules (`N:` sets, `+N:`
adds with wrap-around), a label statement takes the running time, a call becomes an instruction -/
def build (L : Lang) : Int32 → List FlatStmt → List LStmt × List Ovr
  | _, [] => ([], [])
  | _, .abs v :: rest => build L v rest
  | t, .rel d :: rest => build L (t + d) rest
  | t, .label n :: rest =>
    let (code, ovr) := build L t rest
    (.label t.toInt n :: code, ovr)
  | t, .call c :: rest =>
    let (code, ovr) := build L t rest
    (.instr (mkInstr L t c) :: code, mkOvr c :: ovr)

/-- the `arg0` header field of the encoded instruction: the explicit `@arg0`, else what `encode_args`
took from the first argument -/
def arg0After (explicit computed : Option Int) : Option Int :=
  match explicit with
  | some v => some v
  | none => computed

/-- the `@mask` / `@arg0` overrides at the end of `encode_args`, one entry per instruction -/
def patch1 (o : Ovr) (r : RawInstr) : RawInstr :=
  { r with mask := o.mask.getD r.mask, extra := arg0After o.arg0 r.extra }

def patch : List Ovr → List RawInstr → List RawInstr
  | o :: os, r :: rs => patch1 o r :: patch os rs
  | _, rs => rs

/-- **compile** one flat statement list -/
def lowerFlat (L : Lang) (ss : List FlatStmt) : Outcome (List RawInstr) :=
  seqU (if L.diffAllowed then firstErr (diffCheck L) ss else .ok ()) <|
  seqU (firstErr (typeCheck L) ss) <|
  seqU (firstErr (constCheck L) ss) <|
  seqU (if L.diffAllowed then .ok () else firstErr forbidDiff ss) <|
  seqU (firstErr blobCheck ss) <|
  let (code, ovr) := build L 0 ss
  match lowerTail L.hdr L.hasRegs L.mode code with
  | .ok out => .ok (patch ovr out.instrs)
  | .err c => .err c
  | .panic p => .panic p

/-! ## `Canonical`: the instruction lists the round trip is claimed for -/

/-- header fields within the widths of `RawInstr` (`time: i32`, `difficulty: u8`, `param_mask: u16`,
`extra_arg: Option<i16>`), and a difficulty mask only where the format has one -/
def wfInstr (L : Lang) (i : RawInstr) : Bool :=
  i32Range i.time && decide (i.difficulty < 256) && decide (i.mask < 65536)
  && (match i.extra with | some v => fitsInt .w2 true v | none => true)
  && (decide (i.difficulty = defaultDifficulty) || L.diffAllowed)

/-- a float-stored register number survives `as i32` / `as f32` -/
def floatRegsOk (L : Lang) (args : List Arg) : Bool :=
  args.all fun a => match a with
    | .float b true => (match L.fr.toReg b with | some r => L.fr.ofReg r == b | none => false)
    | _ => true

/-- One instruction is canonical in furigana state `st` (result: the state after it):
its arguments decode without any warning (no leftover bytes, no unused mask bits, strings
terminated with nothing after the NUL), padding bytes are zero, the decoded call passes the call
checks (register bits only on register-capable parameters), and `encode_args` of the decoded
argument list reproduces blob, mask and `arg0` field.  Without a signature (`--no-arguments`,
unknown opcode): the blob is a whole number of dwords. -/
def canonInstr (L : Lang) (arguments : Bool) (st : EncState) (i : RawInstr) : Option EncState :=
  if !wfInstr L i then none else
  match effSig L arguments i.opcode with
  | none => if i.blob.length % 4 = 0 then some st else none
  | some abi =>
    match decodeInstr abi i with
    | .ok ((full, a0), []) =>
      let args := dropPadding abi full
      if nonzeroPadding abi full then none
      else if !floatRegsOk L args then none
      else match checkCall abi args with
        | .ok () =>
          match encodeArgs L.hasRegs st abi args with
          | .ok (raw, _, st') =>
            if raw.blob = i.blob ∧ raw.mask = i.mask ∧ arg0After (pseudoArg0 a0) raw.arg0 = i.extra
            then some st' else none
          | _ => none
        | _ => none
    | _ => none

/-- the whole script, threading the furigana state like the encoder does -/
def canonFrom (L : Lang) (arguments : Bool) : EncState → List RawInstr → Bool
  | _, [] => true
  | st, i :: rest =>
    match canonInstr L arguments st i with
    | some st' => canonFrom L arguments st' rest
    | none => false

/-- **Canonical**: every instruction of the script is canonical (decidable) -/
def Canonical (L : Lang) (arguments : Bool) (is : List RawInstr) : Bool := canonFrom L arguments none is

/-- every jump of the script goes to an instruction boundary of the script or to its end (decidable) -/
def JumpsOnBoundaries (L : Lang) (arguments : Bool) (is : List RawInstr) : Bool :=
  match decodeAll L arguments 0 is with
  | .ok (es, _) =>
    let offs := boundaries L.hdr is
    es.all fun e => match e.jump L.mode offs with
      | some (dest, _) => decide (dest < offs.length)
      | none => true
  | _ => false

end TruthModel.RoundTrip
