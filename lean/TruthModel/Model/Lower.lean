import TruthModel.Model.Regs
/-
Model of the expression compiler for languages without a stack (`src/llir/lower/stackless.rs`):
`classify_expr`, `define_temporary` / `compute_temporary_expr`, `lower_assign_op`,
`lower_assign_op_intrinsic`, `lower_assign_direct_binop` (with the destination-reuse optimisation
guarded by `expr_uses_var`), `lower_assign_direct_unop`, `lower_assign_diff_switch`,
`lower_instruction`, the alternatives table of `src/llir/intrinsic.rs::discover_alternatives`, and
`elaborate_diff_switches` (`src/llir/lower.rs`).

The non-structural recursion of the Rust code (`lower_assign_direct_binop` re-enters itself with a
subexpression replaced by a variable) is written as "lower operand A, then operand B, then emit the
primitive"; what is emitted is the same, which is what the correspondence check compares.
Recursion on subexpressions takes fuel (`3 * e.size + 3`: three calls per level of the expression).

Not modelled here (the driver answers `unmodelled`): conditional jumps, ternary, `times`/loops
(they need labels and offsets).  They are covered by the VM-vs-VM search.
-/
namespace TruthModel.Lower
open TruthModel TruthModel.Regs

/-! ## source language -/

inductive VarName where
  | reg (r : Reg)
  | loc (d : Def)
deriving Repr, DecidableEq, Inhabited

/-- `ast::Var` after name resolution: name, optional sigil, and the inherent type of the variable
(`ctx.var_inherent_ty`) -/
structure VarRef where
  name : VarName
  sigil : Option RTy
  inherent : RTy
deriving Repr, DecidableEq, Inhabited

/-- `ctx.var_read_ty_from_ast` -/
def VarRef.readTy (v : VarRef) : RTy := v.sigil.getD v.inherent

inductive SExpr where
  | litI (v : Int32)
  | litF (bits : UInt32)
  | var (v : VarRef)
  | unop (op : UnOp) (e : SExpr)
  | binop (op : BinOp) (a b : SExpr)
  | ternary (c l r : SExpr)
  /-- difficulty switch; an omitted case is `omitted` -/
  | switch (cases : List SExpr)
  | omitted
deriving Repr, Inhabited

inductive AssignOp where
  | set | add | sub | mul | div | rem | bor | xor | band | shl | shr | ushr
deriving Repr, DecidableEq, Inhabited

/-- `AssignOpKind::corresponding_binop` -/
def AssignOp.binop : AssignOp → Option BinOp
  | .set => none | .add => some .add | .sub => some .sub | .mul => some .mul | .div => some .div
  | .rem => some .rem | .bor => some .bor | .xor => some .xor | .band => some .band
  | .shl => some .shl | .shr => some .shr | .ushr => some .ushr

inductive SStmt where
  /-- `int x = e;` (after desugaring: `RegAlloc` + assignment) -/
  | decl (d : Def) (ty : RTy) (init : Option SExpr)
  | assign (op : AssignOp) (v : VarRef) (e : SExpr)
  | call (opcode : Nat) (args : List SExpr)
  /-- `ScopeEnd(def_id)` -/
  | scopeEnd (d : Def)
  /-- anything else (jumps, labels, loops): not modelled -/
  | other
deriving Repr, Inhabited

/-! ## static types (`Expr::compute_ty`) -/

def isComparison : BinOp → Bool
  | .eq | .ne | .lt | .le | .gt | .ge => true
  | _ => false

/-- `binop_ty_from_arg_ty` -/
def binopTy (op : BinOp) (argTy : RTy) : RTy :=
  match op with
  | .add | .sub | .mul | .div | .rem => argTy
  | _ => .int

/-- `unop_ty_from_arg_ty` -/
def unopTy (op : UnOp) (argTy : RTy) : RTy :=
  match op with
  | .neg => argTy
  | .not | .bnot => .int
  | .sin | .cos | .tan | .asin | .acos | .atan | .sqrt => .float
  | .castI | .sigI => .int
  | .castF | .sigF => .float

mutual
def SExpr.ty : SExpr → RTy
  | .litI _ => .int
  | .litF _ => .float
  | .var v => v.readTy
  | .unop op e => unopTy op e.ty
  | .binop op a _ => binopTy op a.ty
  | .ternary _ l _ => l.ty
  | .switch cs => tyOfCases cs
  | .omitted => .int
/-- the type of a switch is the type of its first case -/
def tyOfCases : List SExpr → RTy
  | [] => .int
  | c :: _ => c.ty
end

mutual
/-- `expr_uses_var`: the variable occurs in the expression (any sigil) -/
def SExpr.uses (x : VarName) : SExpr → Bool
  | .var v => v.name == x
  | .unop _ e => e.uses x
  | .binop _ a b => a.uses x || b.uses x
  | .ternary c l r => c.uses x || l.uses x || r.uses x
  | .switch cs => usesList x cs
  | _ => false
def usesList (x : VarName) : List SExpr → Bool
  | [] => false
  | c :: cs => c.uses x || usesList x cs
end

mutual
def SExpr.size : SExpr → Nat
  | .unop _ e => e.size + 1
  | .binop _ a b => a.size + b.size + 1
  | .ternary c l r => c.size + l.size + r.size + 1
  | .switch cs => sizeList cs + 1
  | _ => 1
def sizeList : List SExpr → Nat
  | [] => 0
  | c :: cs => c.size + sizeList cs
end

/-! ## lowered form -/

/-- what an emitted instruction is (the opcode is looked up in the intrinsic table at the end) -/
inductive Kind where
  | assignOp (op : AssignOp) (ty : RTy)
  | binOp (op : BinOp) (ty : RTy)
  | unOp (op : UnOp) (ty : RTy)
  | plain (opcode : Nat)
deriving Repr, DecidableEq, Inhabited

structure LInstr where
  /-- difficulty mask of the statement -/
  mask : Nat
  kind : Kind
  args : List Arg
deriving Repr, Inhabited

inductive LStmt where
  | alloc (d : Def) (ty : RTy)
  | free (d : Def)
  | instr (i : LInstr)
deriving Repr, Inhabited

/-- the set of available intrinsics: opcode of each, if the language has it -/
structure Intrinsics where
  assignOp : AssignOp → RTy → Option Nat
  binOp : BinOp → RTy → Option Nat
  unOp : UnOp → RTy → Option Nat

/-- `alternatives::UnOp` -/
inductive UnAlt where
  | intrinsic
  /-- `CONST <op> x` -/
  | viaConstBinOp (c : Value) (op : BinOp)
deriving Repr

/-- `alternatives::AssignOp` -/
inductive AssignAlt where
  | intrinsic
  | viaBinOp (op : BinOp)
deriving Repr

def minusOne : RTy → Value
  | .int => .int (-1)
  | .float => .float 0xBF800000

/-- `discover_alternatives`, unary operators: direct intrinsic preferred, else `~x = -1 - x` (int)
and `-x = -1 * x` -/
def Intrinsics.unAlt (I : Intrinsics) (op : UnOp) (ty : RTy) : Option UnAlt :=
  match I.unOp op ty with
  | some _ => some .intrinsic
  | none =>
    match op, ty with
    | .neg, ty => match I.binOp .mul ty with
      | some _ => some (.viaConstBinOp (minusOne ty) .mul)
      | none => none
    | .bnot, .int => match I.binOp .sub .int with
      | some _ => some (.viaConstBinOp (.int (-1)) .sub)
      | none => none
    | _, _ => none

/-- `discover_alternatives`, assignment operators: direct intrinsic preferred, else `a = a op b` -/
def Intrinsics.assignAlt (I : Intrinsics) (op : AssignOp) (ty : RTy) : Option AssignAlt :=
  match I.assignOp op ty with
  | some _ => some .intrinsic
  | none => match op.binop with
    | some b => match I.binOp b ty with
      | some _ => some (.viaBinOp b)
      | none => none
    | none => none

def errUnsupported : String := "feature not supported by format"
def errUnmodelled : String := "unmodelled"

/-! ## classify_expr -/

def VarRef.toArg (v : VarRef) (readTy : RTy) : Arg :=
  match v.name with
  | .reg r => .raw r readTy
  | .loc d => .loc d readTy

/-- `lower_var_to_arg` -/
def VarRef.lowered (v : VarRef) : Arg := v.toArg v.readTy

/-- `as_ty_sigil_with_auto_cast` -/
def castSigil : UnOp → Option RTy
  | .castI | .sigI => some .int
  | .castF | .sigF => some .float
  | _ => none

mutual
/-- the `Simple` arm of `classify_expr`: the expression is a single `LowerArg` -/
def SExpr.simple? : SExpr → Option Arg
  | .litI v => some (.imm (.int v))
  | .litF b => some (.imm (.float b))
  | .var v => some v.lowered
  | .switch cs => match simpleCases? cs with
    | some as => some (.switch as)
    | none => none
  | _ => none
def simpleCases? : List SExpr → Option (List Arg)
  | [] => some []
  | .omitted :: cs => match simpleCases? cs with
    | some as => some (.absent :: as)
    | none => none
  | c :: cs => match c.simple? with
    | some a => match simpleCases? cs with
      | some as => some (a :: as)
      | none => none
    | none => none
end

mutual
/-- type recorded for a simple expression (`SimpleExpr::ty`): for a switch, that of its LAST case -/
def SExpr.simpleTy : SExpr → RTy
  | .switch cs => lastCaseTy cs .int
  | e => e.ty
def lastCaseTy : List SExpr → RTy → RTy
  | [], acc => acc
  | .omitted :: cs, acc => lastCaseTy cs acc
  | c :: cs, _ => lastCaseTy cs c.simpleTy
end

/-- `TemporaryExpr` -/
structure TempExpr where
  tmpExpr : SExpr
  tmpTy : RTy
  readTy : RTy

/-- the `NeedsElaboration` arm of `classify_expr` (languages with automatic casts) -/
def SExpr.temp (e : SExpr) : TempExpr :=
  match e with
  | .unop op b => match castSigil op with
    | some s => ⟨b, b.ty, s⟩
    | none => ⟨e, e.ty, e.ty⟩
  | _ => ⟨e, e.ty, e.ty⟩

/-! ## lowering of assignments -/

/-- state of the lowering: next fresh `DefId` for a temporary -/
abbrev Gen := Nat

def tmpVar (d : Def) (ty : RTy) : VarRef := ⟨.loc d, some ty, ty⟩

/-- `lower_assign_op_intrinsic`: `a = <atom>` / `a op= <atom>` -/
def lowerAssignAtom (I : Intrinsics) (mask : Nat) (v : VarRef) (op : AssignOp) (rhs : Arg) : Outcome (List LStmt) :=
  match I.assignAlt op v.readTy with
  | none => .err errUnsupported
  | some .intrinsic => .ok [.instr ⟨mask, .assignOp op v.readTy, [v.lowered, rhs]⟩]
  | some (.viaBinOp b) => .ok [.instr ⟨mask, .binOp b v.readTy, [v.lowered, v.lowered, rhs]⟩]

/-- `lower_assign_direct_unop_intrinsic` -/
def lowerUnopAtom (I : Intrinsics) (mask : Nat) (v : VarRef) (op : UnOp) (bTy : RTy) (b : Arg) : Outcome (List LStmt) :=
  match I.unAlt op bTy with
  | none => .err errUnsupported
  | some .intrinsic => .ok [.instr ⟨mask, .unOp op bTy, [v.lowered, b]⟩]
  | some (.viaConstBinOp c bop) => .ok [.instr ⟨mask, .binOp bop bTy, [v.lowered, .imm c, b]⟩]

/-- the primitive of `lower_assign_direct_binop` -/
def lowerBinopAtom (I : Intrinsics) (mask : Nat) (v : VarRef) (op : BinOp) (aTy : RTy) (a b : Arg) : Outcome (List LStmt) :=
  match I.binOp op aTy with
  | none => .err errUnsupported
  | some _ => .ok [.instr ⟨mask, .binOp op aTy, [v.lowered, a, b]⟩]

/-- `explicit_difficulty_cases`: (bit mask of the difficulties a case covers, case) -/
def explicitCases : List SExpr → Nat → Option (Nat × SExpr) → List (Nat × SExpr)
  | [], _, none => []
  | [], _, some cur => [cur]
  | .omitted :: cs, k, none => explicitCases cs (k + 1) none
  | .omitted :: cs, k, some (m, c) => explicitCases cs (k + 1) (some (m ||| (1 <<< k), c))
  | c :: cs, k, none => explicitCases cs (k + 1) (some (1 <<< k, c))
  | c :: cs, k, some cur => cur :: explicitCases cs (k + 1) (some (1 <<< k, c))

/-- result of lowering an operand: code, the atom to read, its type (as `SimpleExpr::ty`), counter,
and the temporary to free afterwards -/
structure Operand where
  code : List LStmt
  atom : Arg
  ty : RTy
  gen : Gen
  free : Option Def

/-- does the first operand of a binary operation, *as it is after its lowering*, use the destination?
(`expr_uses_var(a, var)` in the re-entered call: `a` is then the destination itself if it was reused, a
fresh temporary, or still the simple operand) -/
def operandUses (a : SExpr) (x : VarName) (free : Option Def) : Bool :=
  match a.simple? with
  | some _ => a.uses x
  | none => match free with
    | none => true
    | some _ => false

/-- `undefine_temporary` -/
def freeOf : Option Def → List LStmt
  | some d => [.free d]
  | none => []

mutual
/-- `lower_assign_op` for `v = e` with statement mask `mask`.  Returns the code and the counter. -/
def lowerSet (I : Intrinsics) (diffBits auxBits : Nat) : Nat → Gen → Nat → VarRef → SExpr → Outcome (List LStmt × Gen)
  | 0, _, _, _, _ => .panic "out of fuel"
  | fuel + 1, g, mask, v, e =>
    match e.simple? with
    | some a => match lowerAssignAtom I mask v .set a with
      | .ok c => .ok (c, g)
      | .err x => .err x
      | .panic x => .panic x
    | none =>
      let t := e.temp
      if t.readTy ≠ t.tmpTy then
        -- `float tmp = <expr>; a = $tmp;`
        let d := g
        match lowerSet I diffBits auxBits fuel (g + 1) mask (tmpVar d t.tmpTy) t.tmpExpr with
        | .ok (c1, g1) =>
          match lowerAssignAtom I mask v .set (.loc d t.readTy) with
          | .ok c2 => .ok (.alloc d t.tmpTy :: c1 ++ c2 ++ [.free d], g1)
          | .err x => .err x
          | .panic x => .panic x
        | .err x => .err x
        | .panic x => .panic x
      else
        match t.tmpExpr with
        | .binop op a b => lowerBinop I diffBits auxBits fuel g mask v op a b
        | .unop op b => lowerUnop I diffBits auxBits fuel g mask v op b
        | .switch cs => lowerSwitch I diffBits auxBits fuel g mask v (explicitCases cs 0 none)
        | .ternary _ _ _ => .err errUnmodelled
        | _ => .err errUnsupported

/-- lowering of one operand of a binary / unary operation: simple operands are used as they are,
others are computed into the destination (`reuse`) or into a fresh temporary -/
def lowerOperand (I : Intrinsics) (diffBits auxBits : Nat) : Nat → Gen → Nat → VarRef → RTy → Bool → SExpr → Outcome Operand
  | 0, _, _, _, _, _, _ => .panic "out of fuel"
  | fuel + 1, g, mask, v, tyRhs, guard, e =>
    match e.simple? with
    | some a => .ok ⟨[], a, e.simpleTy, g, none⟩
    | none =>
      let t := e.temp
      if t.tmpTy = tyRhs ∧ t.tmpTy = t.readTy ∧ guard then
        -- we can reuse the output variable
        match lowerSet I diffBits auxBits fuel g mask v t.tmpExpr with
        | .ok (c, g1) => .ok ⟨c, v.toArg t.readTy, t.readTy, g1, none⟩
        | .err x => .err x
        | .panic x => .panic x
      else
        let d := g
        match lowerSet I diffBits auxBits fuel (g + 1) mask (tmpVar d t.tmpTy) t.tmpExpr with
        | .ok (c, g1) => .ok ⟨.alloc d t.tmpTy :: c, .loc d t.readTy, t.readTy, g1, some d⟩
        | .err x => .err x
        | .panic x => .panic x

/-- `lower_assign_direct_binop` -/
def lowerBinop (I : Intrinsics) (diffBits auxBits : Nat) : Nat → Gen → Nat → VarRef → BinOp → SExpr → SExpr → Outcome (List LStmt × Gen)
  | 0, _, _, _, _, _, _ => .panic "out of fuel"
  | fuel + 1, g, mask, v, op, a, b =>
    let tyRhs := binopTy op a.ty
    match lowerOperand I diffBits auxBits fuel g mask v tyRhs (!b.uses v.name) a with
    | .ok A =>
      -- after the first operand was computed into `v`, the second one may not reuse it
      let aUsesV := operandUses a v.name A.free
      match lowerOperand I diffBits auxBits fuel A.gen mask v tyRhs (!aUsesV) b with
      | .ok B =>
        match lowerBinopAtom I mask v op A.ty A.atom B.atom with
        | .ok c =>
          .ok (A.code ++ (B.code ++ (c ++ (freeOf B.free ++ freeOf A.free))), B.gen)
        | .err x => .err x
        | .panic x => .panic x
      | .err x => .err x
      | .panic x => .panic x
    | .err x => .err x
    | .panic x => .panic x

/-- `lower_assign_direct_unop` -/
def lowerUnop (I : Intrinsics) (diffBits auxBits : Nat) : Nat → Gen → Nat → VarRef → UnOp → SExpr → Outcome (List LStmt × Gen)
  | 0, _, _, _, _, _ => .panic "out of fuel"
  | fuel + 1, g, mask, v, op, b =>
    let tyRhs := unopTy op b.ty
    match lowerOperand I diffBits auxBits fuel g mask v tyRhs true b with
    | .ok B =>
      match lowerUnopAtom I mask v op B.ty B.atom with
      | .ok c => .ok (B.code ++ (c ++ freeOf B.free), B.gen)
      | .err x => .err x
      | .panic x => .panic x
    | .err x => .err x
    | .panic x => .panic x

/-- `lower_assign_diff_switch`: one assignment per explicit case, on the difficulties it covers -/
def lowerSwitch (I : Intrinsics) (diffBits auxBits : Nat) : Nat → Gen → Nat → VarRef → List (Nat × SExpr) → Outcome (List LStmt × Gen)
  | 0, _, _, _, _ => .panic "out of fuel"
  | _ + 1, g, _, _, [] => .ok ([], g)
  | fuel + 1, g, mask, v, (caseMask, c) :: rest =>
    let newMask := ((mask &&& diffBits) &&& caseMask) ||| (mask &&& auxBits)
    let first : Outcome (List LStmt × Gen) :=
      if newMask = 0 then .ok ([], g) else lowerSet I diffBits auxBits fuel g newMask v c
    match first with
    | .ok (c1, g1) =>
      match lowerSwitch I diffBits auxBits fuel g1 mask v rest with
      | .ok (c2, g2) => .ok (c1 ++ c2, g2)
      | .err x => .err x
      | .panic x => .panic x
    | .err x => .err x
    | .panic x => .panic x
end

/-- `lower_assign_op`: `v op e` for every assignment operator -/
def lowerAssign (I : Intrinsics) (diffBits auxBits : Nat) (g : Gen) (mask : Nat) (v : VarRef) (op : AssignOp) (e : SExpr) :
    Outcome (List LStmt × Gen) :=
  let fuel := 3 * e.size + 3
  match op with
  | .set => lowerSet I diffBits auxBits fuel g mask v e
  | _ =>
    match e.simple? with
    | some a => match lowerAssignAtom I mask v op a with
      | .ok c => .ok (c, g)
      | .err x => .err x
      | .panic x => .panic x
    | none =>
      -- `tmp = <expr>; a += tmp;` (also when the expression is a cast: the temporary has the inner type)
      let t := e.temp
      let d := g
      match lowerSet I diffBits auxBits fuel (g + 1) mask (tmpVar d t.tmpTy) t.tmpExpr with
      | .ok (c1, g1) =>
        match lowerAssignAtom I mask v op (.loc d t.readTy) with
        | .ok c2 => .ok (.alloc d t.tmpTy :: c1 ++ c2 ++ [.free d], g1)
        | .err x => .err x
        | .panic x => .panic x
      | .err x => .err x
      | .panic x => .panic x

/-- arguments of `lower_instruction`: simple ones as they are, the others through temporaries that
are freed (in reverse order) after the instruction -/
def lowerArgs (I : Intrinsics) (diffBits auxBits : Nat) (mask : Nat) : Gen → List SExpr → Outcome (List LStmt × List Arg × List Def × Gen)
  | g, [] => .ok ([], [], [], g)
  | g, e :: es =>
    match e.simple? with
    | some a => match lowerArgs I diffBits auxBits mask g es with
      | .ok (c, as, ds, g') => .ok (c, a :: as, ds, g')
      | .err x => .err x
      | .panic x => .panic x
    | none =>
      let t := e.temp
      let d := g
      match lowerSet I diffBits auxBits (3 * e.size + 3) (g + 1) mask (tmpVar d t.tmpTy) t.tmpExpr with
      | .ok (c1, g1) => match lowerArgs I diffBits auxBits mask g1 es with
        | .ok (c, as, ds, g') => .ok (.alloc d t.tmpTy :: c1 ++ c, .loc d t.readTy :: as, d :: ds, g')
        | .err x => .err x
        | .panic x => .panic x
      | .err x => .err x
      | .panic x => .panic x

/-- `lower_instruction` -/
def lowerCall (I : Intrinsics) (diffBits auxBits : Nat) (g : Gen) (mask : Nat) (opcode : Nat) (args : List SExpr) :
    Outcome (List LStmt × Gen) :=
  match lowerArgs I diffBits auxBits mask g args with
  | .ok (c, as, ds, g') => .ok (c ++ [.instr ⟨mask, .plain opcode, as⟩] ++ ds.reverse.map .free, g')
  | .err x => .err x
  | .panic x => .panic x

def lowerStmt (I : Intrinsics) (diffBits auxBits : Nat) (g : Gen) (mask : Nat) : SStmt → Outcome (List LStmt × Gen)
  | .decl d ty none => .ok ([.alloc d ty], g)
  | .decl d ty (some e) =>
    match lowerAssign I diffBits auxBits g mask ⟨.loc d, none, ty⟩ .set e with
    | .ok (c, g') => .ok (.alloc d ty :: c, g')
    | .err x => .err x
    | .panic x => .panic x
  | .assign op v e => lowerAssign I diffBits auxBits g mask v op e
  | .call opcode args => lowerCall I diffBits auxBits g mask opcode args
  | .scopeEnd d => .ok ([.free d], g)
  | .other => .err errUnmodelled

/-- `lower_sub_ast` (errors are collected with recovery in the real code; the first one wins here,
which is all the correspondence check compares) -/
def lowerBody (I : Intrinsics) (diffBits auxBits : Nat) (mask : Nat) : Gen → List SStmt → Outcome (List LStmt)
  | _, [] => .ok []
  | g, s :: rest =>
    match lowerStmt I diffBits auxBits g mask s with
    | .ok (c, g') => match lowerBody I diffBits auxBits mask g' rest with
      | .ok c' => .ok (c ++ c')
      | .err x => .err x
      | .panic x => .panic x
    | .err x => .err x
    | .panic x => .panic x

/-! ## from the lowered stream to instructions -/

def Kind.opcode (I : Intrinsics) : Kind → Option Nat
  | .assignOp op ty => I.assignOp op ty
  | .binOp op ty => I.binOp op ty
  | .unOp op ty => I.unOp op ty
  | .plain n => some n

def toRegsStmt (I : Intrinsics) : LStmt → Regs.Stmt
  | .alloc d _ => .alloc d
  | .free d => .free d
  | .instr i => .instr 0 i.mask ((i.kind.opcode I).getD 0) (some i.args)

def typeTable : List LStmt → List (Def × RTy)
  | [] => []
  | .alloc d ty :: rest => (d, ty) :: typeTable rest
  | _ :: rest => typeTable rest

def tyOfTable (t : List (Def × RTy)) (d : Def) : RTy :=
  match t with
  | [] => .int
  | (d', ty) :: rest => if d' = d then ty else tyOfTable rest d

/-! ### `elaborate_diff_switches` -/

/-- `select_diff_switch_case` on lowered arguments: case `k`, or the nearest explicit one before it -/
def selectCase : List Arg → Nat → Option Arg → Option Arg
  | [], _, acc => acc
  | a :: as, k, acc =>
    let acc' := match a with
      | .absent => acc
      | _ => some a
    match k with
    | 0 => acc'
    | k + 1 => selectCase as k acc'

/-- `select_diff_for_lower_arg` (nested switches are resolved at the same difficulty) -/
def selectArg : Nat → Nat → Arg → Arg
  | 0, _, a => a
  | fuel + 1, k, .switch cs => match selectCase cs k none with
    | some a => selectArg fuel k a
    | none => .absent
  | _ + 1, _, a => a

/-- `DiffSwitchMeta::update` for one switch: number of difficulties and explicit ones -/
def metaUpdate (cs : List Arg) (acc : Nat × List Nat) : Nat × List Nat :=
  let idx := (List.range cs.length).filter fun i => match cs[i]? with
    | some .absent => false
    | some _ => true
    | none => false
  (max acc.1 cs.length, acc.2 ++ idx.filter (fun i => !acc.2.contains i))

mutual
/-- `update_diff_switch_meta` (since fd6b777): a switch and every switch nested in its cases contribute
their explicit difficulties.  (At the pinned commit only top-level switches did, which lost the inner
cases of `((1:2:3:4):::7)`; found by the C02 search.) -/
def metaArg : Arg → Nat × List Nat → Nat × List Nat
  | .switch cs, acc => metaCases cs (metaUpdate cs acc)
  | _, acc => acc
def metaCases : List Arg → Nat × List Nat → Nat × List Nat
  | [], acc => acc
  | c :: cs, acc => metaCases cs (metaArg c acc)
end

/-- `DiffSwitchMeta` of an argument list -/
def switchMeta (args : List Arg) : Nat × List Nat := metaCases args (0, [])

def insertSorted (x : Nat) : List Nat → List Nat
  | [] => [x]
  | y :: ys => if x ≤ y then x :: y :: ys else y :: insertSorted x ys

def sortNat (xs : List Nat) : List Nat := xs.foldr insertSorted []

/-- `explicit_case_bitmasks`: (first difficulty, mask) per run of difficulties -/
def caseRuns : List Nat → Nat → List (Nat × Nat)
  | [], _ => []
  | [a], n => [(a, ((1 <<< n) - 1) - ((1 <<< a) - 1))]
  | a :: b :: rest, n => (a, ((1 <<< b) - 1) - ((1 <<< a) - 1)) :: caseRuns (b :: rest) n

def argDepth : Arg → Nat
  | .switch _ => 8
  | _ => 0

/-- one instruction per explicit difficulty case; other statements unchanged -/
def elaborateStmt (diffBits auxBits : Nat) : Regs.Stmt → List Regs.Stmt
  | .instr t m op (some args) =>
    let (n, explicit) := switchMeta args
    if n < 2 then [.instr t m op (some args)]
    else
      (caseRuns (sortNat explicit) n).filterMap fun (first, caseMask) =>
        let newDiff := (m &&& diffBits) &&& caseMask
        if newDiff = 0 then none
        else some (.instr t (newDiff ||| (m &&& auxBits)) op (some (args.map (selectArg 8 first))))
  | s => [s]

/-- the whole pipeline on one body: lower, assign registers, elaborate switches -/
def compile (I : Intrinsics) (diffBits auxBits : Nat) (mode : ExplicitMode) (h : Hooks) (firstTemp : Nat)
    (body : List SStmt) : Outcome (Regs.Result × List Regs.Stmt) :=
  match lowerBody I diffBits auxBits 255 firstTemp body with
  | .ok code =>
    let stream := code.map (toRegsStmt I)
    match assign mode h (tyOfTable (typeTable code)) [] stream with
    | .ok res => .ok (res, res.stream.flatMap (elaborateStmt diffBits auxBits))
    | .err x => .err x
    | .panic x => .panic x
  | .err x => .err x
  | .panic x => .panic x

end TruthModel.Lower
