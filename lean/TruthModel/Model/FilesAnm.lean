import TruthModel.Model.FilesEcl
/-
Container level of ANM files: `read_anm` / `write_anm` (src/formats/anm/read_write.rs), all versions.

* the entry chain (`next_offset`, the `entry_positions` loop check of `read_entry`);
* the two 64-byte entry header layouts: old (versions 0, 2, 3, 4 = TH06-TH10: 32-bit fields, colorkey,
  secondary name offset) and new (versions 7, 8 = TH11 and later: 16-bit fields, `offset_x` / `offset_y`,
  `low_res_scale`; `write_header` rejects a value that does not fit 16 bits since c69e070, `write_entry` a field the layout
  of the version has no room for and `write_texture` THTX dimensions beyond 16 bits since db48965);
* sprite offset table + sprites, script table `(id, offset)` + scripts as instruction streams
  (`InstrIO.Fmt.msg` in version 0, `.anm07` afterwards, `llir::read_instrs` with the end offset
  "smallest offset of the entry above the script's own"), path / secondary path as 16-byte-block padded
  C strings, the THTX section;
* what happens after the loop: `strip_unnecessary_sprite_ids`.

Conventions as in `Model/Files.lean`: a file being read is the whole byte string, `seek_to(p)` is
`file.drop p`, every `as` cast is the truncation it performs, every place where the Rust code can panic
is a `.panic` arm, warnings are not modelled, text is the encoded byte string and `decOk` is what
`Encoded::decode` accepts.  Values whose Rust type is `u32` are `UInt32` here (the 16-bit header layout
then has to check them); counts and offsets are `Nat`s (`usize` / `u64` in Rust).  Script ids (`i32`)
are kept as their 32-bit pattern.  Names (`IndexMap` keys) are numbers: the writer ignores them, the
reader names a sprite after its id (`sprite{id}`: a second sprite with the same id in one entry replaces
the first) and a script after its index in the whole file (`script{n}`).
-/
namespace TruthModel.Files
open TruthModel TruthModel.InstrIO

/-- `FileFormat`: the container version decides the header layout and the instruction format -/
structure AnmFmt where
  /-- `Version as u32`: 0, 2, 3, 4, 7, 8 -/
  version : Nat
deriving DecidableEq, Repr, Inhabited

/-- `Version::is_old_header` -/
def AnmFmt.oldHeader (f : AnmFmt) : Bool := decide (f.version < 7)
/-- `get_instr_format` -/
def AnmFmt.instr (f : AnmFmt) : Fmt := if f.version = 0 then .msg else .anm07

def anmV0 : AnmFmt := ⟨0⟩
def anmV2 : AnmFmt := ⟨2⟩
def anmV3 : AnmFmt := ⟨3⟩
def anmV4 : AnmFmt := ⟨4⟩
def anmV7 : AnmFmt := ⟨7⟩
def anmV8 : AnmFmt := ⟨8⟩

structure Sprite where
  id : Option UInt32
  x : UInt32
  y : UInt32
  w : UInt32
  h : UInt32
deriving DecidableEq, Repr, Inhabited

structure AnmScript where
  /-- `id: i32` as its bit pattern -/
  id : UInt32
  instrs : List Instr
deriving DecidableEq, Repr, Inhabited

/-- `TextureMetadata`: `u32` in memory, 16 bits each in the THTX section -/
structure TexMeta where
  format : UInt32
  width : UInt32
  height : UInt32
deriving DecidableEq, Repr, Inhabited

/-- `EntrySpecs` -/
structure AnmSpecs where
  rtWidth : UInt32
  rtHeight : UInt32
  rtFormat : UInt32
  colorkey : UInt32 := 0
  offsetX : UInt32 := 0
  offsetY : UInt32 := 0
  memoryPriority : UInt32 := 0
  lowResScale : Bool := false
deriving DecidableEq, Repr, Inhabited

/-- `Entry` -/
structure AnmEntry where
  specs : AnmSpecs
  path : Bytes
  path2 : Option Bytes := none
  /-- `IndexMap<Sp<Ident>, Sprite>` in insertion order -/
  sprites : List (Nat × Sprite) := []
  /-- `IndexMap<Sp<Ident>, Script>` in insertion order -/
  scripts : List (Nat × AnmScript) := []
  texMeta : Option TexMeta := none
  texData : Option Bytes := none
deriving DecidableEq, Repr, Inhabited

structure AnmFile where
  entries : List AnmEntry
deriving DecidableEq, Repr, Inhabited

/-! ### header fields: sequential little-endian reads / writes of 2- and 4-byte fields -/

def rdField (w : Nat) (bs : Bytes) : Option (Nat × Bytes) := if w = 2 then rdU16 bs else rdU32 bs
def wrField (w v : Nat) : Bytes := if w = 2 then u16 v else u32 v

/-- the reads of `read_header` in order (every one of them is unconditional) -/
def rdFields : List Nat → Bytes → Option (List Nat × Bytes)
  | [], bs => some ([], bs)
  | w :: ws, bs =>
    match rdField w bs with
    | none => none
    | some (v, r) =>
      match rdFields ws r with
      | none => none
      | some (vs, r) => some (v :: vs, r)

def wrFields : List Nat → List Nat → Bytes
  | w :: ws, v :: vs => wrField w v ++ wrFields ws vs
  | _, _ => []

/-- old layout: num_sprites, num_scripts, rt_textureslot, width, height, format, colorkey, name_offset,
unused_1, secondary_name_offset, version, memory_priority, thtx_offset, has_data (u16), unused_2 (u16),
next_offset, unused_3 -/
def anmOldWidths : List Nat := [4, 4, 4, 4, 4, 4, 4, 4, 4, 4, 4, 4, 4, 2, 2, 4, 4]
/-- new layout: version, num_sprites, num_scripts, rt_textureslot, width, height, format (u16 each),
name_offset, offset_x, offset_y (u16), memory_priority, thtx_offset, has_data, low_res_scale (u16),
next_offset, six dwords of padding -/
def anmNewWidths : List Nat := [4, 2, 2, 2, 2, 2, 2, 4, 2, 2, 4, 4, 2, 2, 4, 4, 4, 4, 4, 4, 4]

/-- `EntryHeaderData` -/
structure AnmHeader where
  version : Nat
  numSprites : Nat
  numScripts : Nat
  rtWidth : Nat
  rtHeight : Nat
  rtFormat : Nat
  nameOffset : Nat
  /-- 0 = `None` (`NonZeroU64`) -/
  secNameOffset : Nat
  colorkey : Nat
  offsetX : Nat
  offsetY : Nat
  memoryPriority : Nat
  /-- 0 = `None` -/
  thtxOffset : Nat
  hasData : Nat
  lowResScale : Nat
  nextOffset : Nat
deriving DecidableEq, Repr, Inhabited

/-- `FileFormat::read_header`; returns the input after the 64 bytes -/
def readAnmHeader (fmt : AnmFmt) (bs : Bytes) : Outcome (AnmHeader × Bytes) :=
  if fmt.oldHeader then
    match rdFields anmOldWidths bs with
    | none => .err eofErr
    | some (v, r) =>
      .ok ({ numSprites := v.getD 0 0, numScripts := v.getD 1 0, rtWidth := v.getD 3 0, rtHeight := v.getD 4 0,
             rtFormat := v.getD 5 0, colorkey := v.getD 6 0, nameOffset := v.getD 7 0, secNameOffset := v.getD 9 0,
             version := v.getD 10 0, memoryPriority := v.getD 11 0, thtxOffset := v.getD 12 0, hasData := v.getD 13 0,
             nextOffset := v.getD 15 0, offsetX := 0, offsetY := 0, lowResScale := 0 }, r)
  else
    match rdFields anmNewWidths bs with
    | none => .err eofErr
    | some (v, r) =>
      .ok ({ version := v.getD 0 0, numSprites := v.getD 1 0, numScripts := v.getD 2 0, rtWidth := v.getD 4 0,
             rtHeight := v.getD 5 0, rtFormat := v.getD 6 0, nameOffset := v.getD 7 0, offsetX := v.getD 8 0,
             offsetY := v.getD 9 0, memoryPriority := v.getD 10 0, thtxOffset := v.getD 11 0, hasData := v.getD 12 0,
             lowResScale := v.getD 13 0, nextOffset := v.getD 14 0, secNameOffset := 0, colorkey := 0 }, r)

/-- the bytes `write_header` + the later patches of `write_entry` leave in the 64 header bytes (the
16-bit fields have been checked by `anmHeaderFits`; `wrField` keeps the low bits like `as`) -/
def anmHeaderBytes (fmt : AnmFmt) (h : AnmHeader) : Bytes :=
  if fmt.oldHeader then
    wrFields anmOldWidths [h.numSprites, h.numScripts, 0, h.rtWidth, h.rtHeight, h.rtFormat, h.colorkey, h.nameOffset, 0,
      h.secNameOffset, h.version, h.memoryPriority, h.thtxOffset, h.hasData, 0, h.nextOffset, 0]
  else
    wrFields anmNewWidths [h.version, h.numSprites, h.numScripts, 0, h.rtWidth, h.rtHeight, h.rtFormat, h.nameOffset,
      h.offsetX, h.offsetY, h.memoryPriority, h.thtxOffset, h.hasData, h.lowResScale, h.nextOffset, 0, 0, 0, 0, 0, 0]

def anmTooLarge : String := "too large for this version of the ANM format"
def anmNoField : String := "cannot be stored in this version of the ANM format"
def anmImageTooLarge : String := "too large for an embedded image"

/-- the `no_field` checks at the start of `write_entry` (db48965): what the header layout of the version has no room for
must be absent / zero.  Old layout: offset_x, offset_y, low_res_scale; new layout: colorkey, path_2 (one diagnostic class). -/
def anmLayoutHolds (fmt : AnmFmt) (e : AnmEntry) : Bool :=
  if fmt.oldHeader then e.specs.offsetX == 0 && e.specs.offsetY == 0 && !e.specs.lowResScale
  else e.specs.colorkey == 0 && e.path2.isNone

/-- `fit16` of `write_texture` (db48965): img_format, img_width, img_height -/
def texMetaFits (m : TexMeta) : Bool :=
  decide (m.format.toNat < 65536) && decide (m.width.toNat < 65536) && decide (m.height.toNat < 65536)

/-- `fit16` of `write_header` (new layout only), in the order of the code: number of sprites, number of
scripts, rt_width, rt_height, rt_format, offset_x, offset_y -/
def anmHeaderFits (fmt : AnmFmt) (h : AnmHeader) : Bool :=
  fmt.oldHeader ||
    (decide (h.numSprites < 65536) && decide (h.numScripts < 65536) && decide (h.rtWidth < 65536) && decide (h.rtHeight < 65536)
      && decide (h.rtFormat < 65536) && decide (h.offsetX < 65536) && decide (h.offsetY < 65536))

/-! ### writer -/

def thtxMagic : Bytes := [0x54, 0x48, 0x54, 0x58]

/-- `write_sprite` -/
def anmSpriteBytes (id : UInt32) (s : Sprite) : Bytes :=
  u32 id.toNat ++ u32 s.x.toNat ++ u32 s.y.toNat ++ u32 s.w.toNat ++ u32 s.h.toNat

/-- the sprite loop of `write_entry`: `sprite.id.unwrap_or(next_auto)`, then `wrapping_add(1)`; the
counter survives from one entry to the next -/
def writeSprites : UInt32 → List (Nat × Sprite) → Bytes × UInt32
  | auto, [] => ([], auto)
  | auto, (_, s) :: r =>
    let id := s.id.getD auto
    let rest := writeSprites (id + 1) r
    (anmSpriteBytes id s ++ rest.1, rest.2)

/-- `write_texture` once format, width, height have passed `fit16` (`texMetaFits`); the data length `as u32` -/
def writeTexture (m : TexMeta) (d : Bytes) : Bytes :=
  thtxMagic ++ u16 0 ++ u16 m.format.toNat ++ u16 m.width.toNat ++ u16 m.height.toNat ++ u32 d.length ++ d

/-- the `(id, offset)` table -/
def anmScriptTable : List (Nat × AnmScript) → List Nat → Bytes
  | (_, s) :: ss, o :: os => u32 s.id.toNat ++ u32 o ++ anmScriptTable ss os
  | _, _ => []

/-- offset of the path from the start of the entry: header, sprite offsets, script table -/
def anmBase (e : AnmEntry) : Nat := 64 + 4 * e.sprites.length + 8 * e.scripts.length

def anmPathBytes (e : AnmEntry) : Bytes := Abi.nullPad 16 e.path
def anmPath2Bytes (e : AnmEntry) : Bytes := match e.path2 with | some p => Abi.nullPad 16 p | none => []

/-- offset of the first sprite -/
def anmSpritesStart (e : AnmEntry) : Nat := anmBase e + (anmPathBytes e).length + (anmPath2Bytes e).length

def anmSpriteOffsets (e : AnmEntry) : List Nat := offsetsFrom (anmSpritesStart e) (e.sprites.map fun _ => 20)

/-- offset of the first script -/
def anmScriptsStart (e : AnmEntry) : Nat := anmSpritesStart e + 20 * e.sprites.length

/-- the header `write_entry` ends up with: `len() as u32`, `bool as u32`, the patched offsets -/
def anmHeaderOf (fmt : AnmFmt) (e : AnmEntry) (thtx next : Nat) : AnmHeader :=
  { version := fmt.version, numSprites := e.sprites.length % 4294967296, numScripts := e.scripts.length % 4294967296,
    rtWidth := e.specs.rtWidth.toNat, rtHeight := e.specs.rtHeight.toNat, rtFormat := e.specs.rtFormat.toNat,
    colorkey := e.specs.colorkey.toNat, offsetX := e.specs.offsetX.toNat, offsetY := e.specs.offsetY.toNat,
    memoryPriority := e.specs.memoryPriority.toNat, lowResScale := if e.specs.lowResScale then 1 else 0,
    hasData := if e.texData.isSome then 1 else 0, nameOffset := anmBase e,
    secNameOffset := match e.path2 with | some _ => anmBase e + (anmPathBytes e).length | none => 0,
    thtxOffset := thtx, nextOffset := next }

/-- the texture step of `write_entry`: `texture_metadata.as_ref().expect("always Some if texture_data is")`, then
`write_texture`, which refuses a format / width / height beyond 16 bits before it writes anything -/
def writeAnmTexture (e : AnmEntry) : Outcome Bytes :=
  match e.texData with
  | none => .ok []
  | some d =>
    match e.texMeta with
    | some m => if texMetaFits m then .ok (writeTexture m d) else .err anmImageTooLarge
    | none => .panic "src/formats/anm/read_write.rs: always Some if texture_data is"

/-- `write_entry` of one entry; `last` = no entry follows (`next_offset` stays 0, otherwise `write_anm`
patches it to the length of this entry when it starts the next one).  Order of the failure points as in
the code: fields the layout has no room for, the 16-bit header fields, the scripts, `texture_metadata.expect(..)`,
the 16-bit THTX fields. -/
def writeAnmEntry (fmt : AnmFmt) (auto : UInt32) (e : AnmEntry) (last : Bool) : Outcome (Bytes × UInt32) :=
  if !anmLayoutHolds fmt e then .err anmNoField else
  if !anmHeaderFits fmt (anmHeaderOf fmt e 0 0) then .err anmTooLarge else
  let sprites := writeSprites auto e.sprites
  match writeScriptList fmt.instr (anmScriptsStart e) (e.scripts.map (·.2.instrs)) with
  | .err c => .err c
  | .panic p => .panic p
  | .ok (scriptBytes, scriptOffs) =>
  match writeAnmTexture e with
  | .err c => .err c
  | .panic p => .panic p
  | .ok tex =>
    let thtx := if e.texData.isSome then anmScriptsStart e + scriptBytes.length else 0
    let total := anmScriptsStart e + scriptBytes.length + tex.length
    .ok (anmHeaderBytes fmt (anmHeaderOf fmt e thtx (if last then 0 else total))
          ++ u32s (anmSpriteOffsets e) ++ anmScriptTable e.scripts scriptOffs
          ++ anmPathBytes e ++ anmPath2Bytes e ++ sprites.1 ++ scriptBytes ++ tex, sprites.2)

def writeAnmEntries (fmt : AnmFmt) : UInt32 → List AnmEntry → Outcome Bytes
  | _, [] => .ok []
  | auto, e :: es =>
    match writeAnmEntry fmt auto e es.isEmpty with
    | .err c => .err c
    | .panic p => .panic p
    | .ok (b, auto') =>
      match writeAnmEntries fmt auto' es with
      | .ok bs => .ok (b ++ bs)
      | .err c => .err c
      | .panic p => .panic p

/-- `write_anm` -/
def writeAnm (fmt : AnmFmt) (f : AnmFile) : Outcome Bytes := writeAnmEntries fmt 0 f.entries

/-! ### reader -/

def anmLoop : String := "loop in entries"
def anmInconsistent : String := "inconsistency between thtx_offset and has_data/name"

/-- the `(read_i32, read_u32)` loop of `read_entry` (tail recursive; the count comes from the file) -/
def rdScriptTableAux : Nat → List (Nat × Nat) → Bytes → Option (List (Nat × Nat) × Bytes)
  | 0, acc, bs => some (acc.reverse, bs)
  | n + 1, acc, bs =>
    match rdU32 bs with
    | none => none
    | some (id, r) =>
      match rdU32 r with
      | none => none
      | some (off, r) => rdScriptTableAux n ((id, off) :: acc) r

/-- `read_cstring_blockwise(16)`: 16-byte blocks until one ends in a NUL, then every trailing NUL is
stripped.  `fuel` bounds the number of blocks. -/
def readCStr16Aux : Nat → Bytes → Bytes → Outcome (Bytes × Bytes)
  | 0, _, _ => .err "fuel"
  | fuel + 1, acc, bs =>
    match rdBytes 16 bs with
    | none => .err eofErr
    | some (blk, r) =>
      if (acc ++ blk).getLast? = some 0 then .ok (Abi.stripTrailingZeros (acc ++ blk), r)
      else readCStr16Aux fuel (acc ++ blk) r

/-- the string + `decode` -/
def readAnmStr (decOk : Bytes → Bool) (bs : Bytes) : Outcome Bytes :=
  match readCStr16Aux (bs.length + 1) [] bs with
  | .err c => .err c
  | .panic p => .panic p
  | .ok (s, _) => if decOk s then .ok s else .err undecodable

/-- `read_sprite` -/
def readSprite (bs : Bytes) : Option (Sprite × Bytes) :=
  match rdFields [4, 4, 4, 4, 4] bs with
  | none => none
  | some (v, r) =>
    some ({ id := some (UInt32.ofNat (v.getD 0 0)), x := UInt32.ofNat (v.getD 1 0), y := UInt32.ofNat (v.getD 2 0),
            w := UInt32.ofNat (v.getD 3 0), h := UInt32.ofNat (v.getD 4 0) }, r)

/-- `IndexMap::insert` (through `collect`): an existing key keeps its position and gets the new value -/
def imInsert (k : Nat) (v : Sprite) : List (Nat × Sprite) → List (Nat × Sprite)
  | [] => [(k, v)]
  | (k', v') :: r => if k = k' then (k, v) :: r else (k', v') :: imInsert k v r

/-- the name of a sprite that was read: `auto_sprite_name(id)` -/
def spriteKey (s : Sprite) : Nat := (s.id.getD 0).toNat

/-- the sprite loop of `read_entry` (stops at the first error) -/
def readSpritesAux (file : Bytes) (entryPos : Nat) : List Nat → List (Nat × Sprite) → Outcome (List (Nat × Sprite))
  | [], acc => .ok acc
  | off :: offs, acc =>
    match readSprite (seek file (entryPos + off)) with
    | none => .err eofErr
    | some (s, _) => readSpritesAux file entryPos offs (imInsert (spriteKey s) s acc)

/-- `all_offsets.iter().copied().filter(|&x| x > offset).min()` -/
def minAbove (x : Nat) : List Nat → Option Nat
  | [] => none
  | y :: ys =>
    match minAbove x ys with
    | none => if x < y then some y else none
    | some m => if x < y ∧ y < m then some y else some m

/-- the script loop of `read_entry`: `idx` is `next_script_index` (a `u32`: `+= 1` overflows at
`u32::MAX`), each script is read from its offset to the smallest larger offset of the entry -/
def readAnmScriptsAux (f : Fmt) (file : Bytes) (entryPos : Nat) (allOffs : List Nat) :
    List (Nat × Nat) → Nat → List (Nat × AnmScript) → Outcome (List (Nat × AnmScript))
  | [], _, acc => .ok acc.reverse
  | (id, off) :: rest, idx, acc =>
    if idx ≥ 4294967295 then .panic "src/formats/anm/read_write.rs: attempt to add with overflow" else
    match readInstrsEnd f (minAbove off allOffs) off (seek file (entryPos + off)) with
    | .err c => .err c
    | .panic p => .panic p
    | .ok is => readAnmScriptsAux f file entryPos allOffs rest (idx + 1) ((idx, { id := UInt32.ofNat id, instrs := is }) :: acc)

/-- `read_texture` -/
def readTexture (withImages : Bool) (bs : Bytes) : Outcome (TexMeta × Option Bytes) :=
  match rdBytes 4 bs with
  | none => .err eofErr
  | some (magic, r) =>
  if magic ≠ thtxMagic then .err badMagic else
  match rdFields [2, 2, 2, 2, 4] r with
  | none => .err eofErr
  | some (v, r) =>
    let tm : TexMeta := { format := UInt32.ofNat (v.getD 1 0), width := UInt32.ofNat (v.getD 2 0), height := UInt32.ofNat (v.getD 3 0) }
    if withImages then
      match rdBytes (v.getD 4 0) r with
      | none => .err eofErr
      | some (d, _) => .ok (tm, some d)
    else .ok (tm, none)

/-- `all_offsets` of `read_entry` -/
def anmAllOffsets (h : AnmHeader) (spriteOffs : List Nat) (scriptTab : List (Nat × Nat)) : List Nat :=
  [h.nameOffset] ++ (if h.thtxOffset = 0 then [] else [h.thtxOffset]) ++ (if h.secNameOffset = 0 then [] else [h.secNameOffset])
    ++ spriteOffs ++ scriptTab.map (·.2)

/-- the secondary path of `read_entry`: present iff its offset is nonzero (`Option<NonZeroU64>`) -/
def readAnmPath2 (decOk : Bytes → Bool) (file : Bytes) (entryPos sec : Nat) : Outcome (Option Bytes) :=
  if sec = 0 then .ok none else
  match readAnmStr decOk (seek file (entryPos + sec)) with
  | .ok s => .ok (some s)
  | .err c => .err c
  | .panic p => .panic p

/-- the THTX section of `read_entry`: present iff its offset is nonzero -/
def readAnmTexture (withImages : Bool) (file : Bytes) (entryPos thtx : Nat) : Outcome (Option TexMeta × Option Bytes) :=
  if thtx = 0 then .ok (none, none) else
  match readTexture withImages (seek file (entryPos + thtx)) with
  | .ok (m, d) => .ok (some m, d)
  | .err c => .err c
  | .panic p => .panic p

/-- `read_entry` at `entryPos`; `idx` = number of scripts read so far in the file.  Returns the entry and
its `next_offset`. -/
def readAnmEntry (decOk : Bytes → Bool) (fmt : AnmFmt) (withImages : Bool) (file : Bytes) (entryPos idx : Nat) :
    Outcome (AnmEntry × Nat) :=
  match readAnmHeader fmt (seek file entryPos) with
  | .err c => .err c
  | .panic p => .panic p
  | .ok (h, r) =>
  match rdU32s h.numSprites r with
  | none => .err eofErr
  | some (spriteOffs, r) =>
  match rdScriptTableAux h.numScripts [] r with
  | none => .err eofErr
  | some (scriptTab, _) =>
  match readAnmStr decOk (seek file (entryPos + h.nameOffset)) with
  | .err c => .err c
  | .panic p => .panic p
  | .ok path =>
  match readAnmPath2 decOk file entryPos h.secNameOffset with
  | .err c => .err c
  | .panic p => .panic p
  | .ok path2 =>
  match readSpritesAux file entryPos spriteOffs [] with
  | .err c => .err c
  | .panic p => .panic p
  | .ok sprites =>
  match readAnmScriptsAux fmt.instr file entryPos (anmAllOffsets h spriteOffs scriptTab) scriptTab idx [] with
  | .err c => .err c
  | .panic p => .panic p
  | .ok scripts =>
  -- `expect_no_texture != header_data.thtx_offset.is_none()`
  if (decide (h.hasData = 0) || path.head? == some 0x40) != decide (h.thtxOffset = 0) then .err anmInconsistent else
  match readAnmTexture withImages file entryPos h.thtxOffset with
  | .err c => .err c
  | .panic p => .panic p
  | .ok (texMeta, texData) =>
    .ok ({ specs := { rtWidth := UInt32.ofNat h.rtWidth, rtHeight := UInt32.ofNat h.rtHeight, rtFormat := UInt32.ofNat h.rtFormat,
                      colorkey := UInt32.ofNat h.colorkey, offsetX := UInt32.ofNat h.offsetX, offsetY := UInt32.ofNat h.offsetY,
                      memoryPriority := UInt32.ofNat h.memoryPriority, lowResScale := decide (h.lowResScale ≠ 0) },
           path, path2, sprites, scripts, texMeta, texData }, h.nextOffset)

/-- the `loop` of `read_anm`: `seen` is `entry_positions`, `pos` the reader position, `idx`
`next_script_index`.  `fuel` bounds the number of entries; `Props/C16Anm.lean` shows that
`file.length + 1` is never exhausted and that the loop check never fires. -/
def readAnmLoop (decOk : Bytes → Bool) (fmt : AnmFmt) (withImages : Bool) (file : Bytes) :
    Nat → List Nat → Nat → Nat → List AnmEntry → Outcome (List AnmEntry)
  | 0, _, _, _, _ => .err "fuel"
  | fuel + 1, seen, pos, idx, acc =>
    if seen.contains pos then .err anmLoop else
    match readAnmEntry decOk fmt withImages file pos idx with
    | .err c => .err c
    | .panic p => .panic p
    | .ok (e, next) =>
      if next = 0 then .ok (e :: acc).reverse
      else readAnmLoop decOk fmt withImages file fuel (pos :: seen) (pos + next) (idx + e.scripts.length) (e :: acc)

/-- `strip_unnecessary_sprite_ids` on one sprite map -/
def stripSprites : UInt32 → List (Nat × Sprite) → List (Nat × Sprite) × UInt32
  | auto, [] => ([], auto)
  | auto, (n, s) :: r =>
    let actual := s.id.getD auto
    let rest := stripSprites (actual + 1) r
    ((n, if actual = auto then { s with id := none } else s) :: rest.1, rest.2)

def stripEntries : UInt32 → List AnmEntry → List AnmEntry
  | _, [] => []
  | auto, e :: es =>
    let s := stripSprites auto e.sprites
    { e with sprites := s.1 } :: stripEntries s.2 es

/-- `read_anm` -/
def readAnm (decOk : Bytes → Bool) (fmt : AnmFmt) (withImages : Bool) (file : Bytes) : Outcome AnmFile :=
  match readAnmLoop decOk fmt withImages file (file.length + 1) [] 0 0 [] with
  | .err c => .err c
  | .panic p => .panic p
  | .ok es => .ok { entries := stripEntries 0 es }

/-- what a reader materialises for a file (bytes, up to a constant per item): the allocation cost -/
def anmEntryCost (f : Fmt) (e : AnmEntry) : Nat :=
  64 + e.path.length + (match e.path2 with | some p => p.length | none => 0) + 20 * e.sprites.length
    + (e.scripts.map fun s => 8 + (s.2.instrs.map (instrSize f)).sum).sum
    + (match e.texData with | some d => d.length | none => 0)

def anmCost (fmt : AnmFmt) (f : AnmFile) : Nat := (f.entries.map (anmEntryCost fmt.instr)).sum

end TruthModel.Files
