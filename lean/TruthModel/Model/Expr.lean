import TruthModel.Model.Ops
/-
Expression language, the VM's evaluator (`AstVm::eval`, `src/vm.rs`), the folding visitor
(`const_simplify::Visitor::visit_expr`) and the const-variable evaluator
(`consts::Evaluator::_const_eval` / `_get_or_compute`).
-/
namespace TruthModel

inductive Expr where
  | litI (v : Int32)
  | litF (bits : UInt32)
  | litS (s : String)
  /-- register read `$REG[r]`, `%REG[r]`, `REG[r]`: never constant -/
  | reg (r : Nat) (sig : Option Sigil)
  /-- named variable (const or local) with optional sigil -/
  | var (name : Nat) (sig : Option Sigil)
  | unop (op : UnOp) (e : Expr)
  | binop (op : BinOp) (a b : Expr)
  | ternary (c l r : Expr)
deriving Repr, DecidableEq, Inhabited

def Value.toExpr : Value → Expr
  | .int v => .litI v
  | .float b => .litF b
  | .str s => .litS s

/-- `Expr::to_const` -/
def Expr.toConst : Expr → Option Value
  | .litI v => some (.int v)
  | .litF b => some (.float b)
  | .litS s => some (.str s)
  | _ => none

/-- Run-time environment: what a register / non-const variable read returns (already
including the effect of the sigil, which covers type-volatile registers). -/
structure Env where
  reg : Nat → Option Sigil → Value
  loc : Nat → Option Sigil → Value

/-- cached const values (`consts.values`) -/
abbrev Consts := Nat → Option Value

def sigilOfUnop : UnOp → Option Sigil
  | .sigI => some .int
  | .sigF => some .float
  | _ => none

/-- `AstVm::eval`, extended with const variables read from the const table.  `err` stands for
"the machine's behaviour is not defined" (integer division by zero). -/
def eval (F : FloatOps) (cs : Consts) (env : Env) : Expr → Outcome Value
  | .litI v => .ok (.int v)
  | .litF b => .ok (.float b)
  | .litS s => .ok (.str s)
  | .reg r sig => .ok (env.reg r sig)
  | .var n sig =>
    match cs n with
    | some v => match castBySigil F v sig with
      | some w => .ok w
      | none => .panic "cannot cast"
    | none => .ok (env.loc n sig)
  | .unop op e =>
    match eval F cs env e with
    | .ok v =>
      match sigilOfUnop op with
      | some s => match castBySigil F v (some s) with
        | some w => .ok w
        | none => .panic "vm cannot evaluate unop"
      | none => match unop F op v with
        | .ok (some w) => .ok w
        | .ok none => .panic "vm cannot evaluate unop"
        | .err c => .err c
        | .panic s => .panic s
    | .err c => .err c
    | .panic s => .panic s
  | .binop op a b =>
    match eval F cs env a with
    | .ok va => match eval F cs env b with
      | .ok vb => binop F op va vb
      | .err c => .err c
      | .panic s => .panic s
    | .err c => .err c
    | .panic s => .panic s
  | .ternary c l r =>
    match eval F cs env c with
    | .ok (.int v) => if v = 0 then eval F cs env r else eval F cs env l
    | .ok _ => .panic "type error"
    | .err c => .err c
    | .panic s => .panic s

/-- The node step of `const_simplify::Visitor::visit_expr`, children already simplified. -/
def simplifyNode (F : FloatOps) (cs : Consts) : Expr → Outcome Expr
  | .var n sig =>
    match cs n with
    | some v => match castBySigil F v sig with
      | some w => .ok w.toExpr
      | none => .panic "shoulda been type-checked"
    | none => .ok (.var n sig)
  | .unop op b =>
    match b.toConst with
    | some bv => match unop F op bv with
      | .ok (some w) => .ok w.toExpr
      | .ok none => .ok (.unop op b)
      | .err c => .err c
      | .panic s => .panic s
    | none => .ok (.unop op b)
  | .binop op a b =>
    match a.toConst, b.toConst with
    | some av, some bv => match binop F op av bv with
      | .ok w => .ok w.toExpr
      | .err c => .err c
      | .panic s => .panic s
    | _, _ => .ok (.binop op a b)
  | .ternary c l r =>
    match c.toConst with
    | some (.int v) => if v = 0 then .ok r else .ok l
    | some _ => .panic typeErrorSite
    | none => .ok (.ternary c l r)
  | e => .ok e

/-- `const_simplify::run` on one expression: post-order. -/
def simplify (F : FloatOps) (cs : Consts) : Expr → Outcome Expr
  | .unop op e =>
    match simplify F cs e with
    | .ok e' => simplifyNode F cs (.unop op e')
    | .err c => .err c
    | .panic s => .panic s
  | .binop op a b =>
    match simplify F cs a with
    | .ok a' => match simplify F cs b with
      | .ok b' => simplifyNode F cs (.binop op a' b')
      | .err c => .err c
      | .panic s => .panic s
    | .err c => .err c
    | .panic s => .panic s
  | .ternary c l r =>
    match simplify F cs c with
    | .ok c' => match simplify F cs l with
      | .ok l' => match simplify F cs r with
        | .ok r' => simplifyNode F cs (.ternary c' l' r')
        | .err c => .err c
        | .panic s => .panic s
      | .err c => .err c
      | .panic s => .panic s
    | .err c => .err c
    | .panic s => .panic s
  | e => simplifyNode F cs e

/-- `Evaluator::_const_eval` with every referenced const already cached (the cache-hit path of
`_get_or_compute`).  Registers, non-const variables and the sigil operators are
`const evaluation error`s. -/
def constEval (F : FloatOps) (cs : Consts) : Expr → Outcome Value
  | .litI v => .ok (.int v)
  | .litF b => .ok (.float b)
  | .litS s => .ok (.str s)
  | .reg _ _ => .err "const evaluation error"
  | .var n sig =>
    match cs n with
    | some v => match castBySigil F v sig with
      | some w => .ok w
      | none => .panic "shoulda been type-checked"
    | none => .err "const evaluation error"
  | .unop op e =>
    match constEval F cs e with
    | .ok v => match unop F op v with
      | .ok (some w) => .ok w
      | .ok none => .err "const evaluation error"
      | .err c => .err c
      | .panic s => .panic s
    | .err c => .err c
    | .panic s => .panic s
  | .binop op a b =>
    match constEval F cs a with
    | .ok va => match constEval F cs b with
      | .ok vb => binop F op va vb
      | .err c => .err c
      | .panic s => .panic s
    | .err c => .err c
    | .panic s => .panic s
  | .ternary c l r =>
    match constEval F cs c with
    | .ok cv => match constEval F cs l with
      | .ok lv => match constEval F cs r with
        | .ok rv => match cv with
          | .int v => if v = 0 then .ok rv else .ok lv
          | _ => .panic "uncaught type error"
        | .err c => .err c
        | .panic s => .panic s
      | .err c => .err c
      | .panic s => .panic s
    | .err c => .err c
    | .panic s => .panic s

/-! ### Const definitions: the DFS of `_get_or_compute` with its evaluation stack. -/

/-- `defs n = some e`: `const ... n = e;`.  `evalConst fuel stack n`: `_get_or_compute` without
the cache (the cache is shown not to matter in `Props/C11.lean`).  `fuel` bounds the depth of
the chain of definitions; the stack check makes the number of consts a sufficient bound. -/
def evalConstExpr (F : FloatOps) (defs : Nat → Option Expr)
    (rec : List Nat → Nat → Outcome Value) (stack : List Nat) : Expr → Outcome Value
  | .litI v => .ok (.int v)
  | .litF b => .ok (.float b)
  | .litS s => .ok (.str s)
  | .reg _ _ => .err "const evaluation error"
  | .var n sig =>
    match rec stack n with
    | .ok v => match castBySigil F v sig with
      | some w => .ok w
      | none => .panic "shoulda been type-checked"
    | .err c => .err c
    | .panic s => .panic s
  | .unop op e =>
    match evalConstExpr F defs rec stack e with
    | .ok v => match unop F op v with
      | .ok (some w) => .ok w
      | .ok none => .err "const evaluation error"
      | .err c => .err c
      | .panic s => .panic s
    | .err c => .err c
    | .panic s => .panic s
  | .binop op a b =>
    match evalConstExpr F defs rec stack a with
    | .ok va => match evalConstExpr F defs rec stack b with
      | .ok vb => binop F op va vb
      | .err c => .err c
      | .panic s => .panic s
    | .err c => .err c
    | .panic s => .panic s
  | .ternary c l r =>
    match evalConstExpr F defs rec stack c with
    | .ok cv => match evalConstExpr F defs rec stack l with
      | .ok lv => match evalConstExpr F defs rec stack r with
        | .ok rv => match cv with
          | .int v => if v = 0 then .ok rv else .ok lv
          | _ => .panic "uncaught type error"
        | .err c => .err c
        | .panic s => .panic s
      | .err c => .err c
      | .panic s => .panic s
    | .err c => .err c
    | .panic s => .panic s

def evalConst (F : FloatOps) (defs : Nat → Option Expr) : Nat → List Nat → Nat → Outcome Value
  | 0, _, _ => .err "fuel"
  | fuel + 1, stack, n =>
    if stack.contains n then .err "cycle in const definition"
    else match defs n with
      | none => .err "const evaluation error"
      | some e => evalConstExpr F defs (evalConst F defs fuel) (n :: stack) e

end TruthModel
