import TruthModel.Model.Basic
/-
C13 — time labels.

Compile direction: mirror of `TimeAndDifficultyHelper` / `Visitor` in
`src/passes/semantics/time_and_difficulty.rs` (time part): statements are visited in pre-order,
`N:` overwrites the top of the time stack, `+N:` adds with `i32::wrapping_add`, every statement
(also the label itself, also a block statement) is recorded with the time on top of the stack
*after* its own label took effect, blocks push nothing on the time stack (only `enter_root_block`
does).  A non-constant delta is a diagnostic, the visitor keeps going and the pass fails at the end.

Decompile direction: mirror of `LabelEmitter::emit_offset_and_time_labels_with`
(`src/llir/raise/late.rs`), `generate_offset_labels` / `generate_label_at_offset`
(`src/llir/raise/early.rs`) and the `End` pseudo-instruction of `early_raise_intrinsics`.
-/
namespace TruthModel.Time

/-! ## source statements -/

inductive Stmt where
  /-- `N:` -/
  | abs (t : Int32)
  /-- `+N:` with a constant delta (value after const evaluation) -/
  | rel (d : Int32)
  /-- `+e:` where `e` is not a constant expression -/
  | relBad
  /-- anything that compiles to instructions and carries no block -/
  | instr
  /-- `name:` (offset label) -/
  | label
  /-- any statement with a nested block (`{}`, `loop`, `times`, `if`, ...) -/
  | block (body : List Stmt)
deriving Repr, Inhabited

/-- what is recorded per statement (`IdMap<NodeId, TimeAndDifficulty>`, time part) -/
inductive Kind where
  | timeLabel | instr | label | block
deriving Repr, DecidableEq, Inhabited

structure VState where
  /-- `time_stack` (head = top) -/
  timeStack : List Int32
  /-- `ErrorFlag` -/
  failed : Bool
  /-- `output`, in visiting order (reversed: newest first) -/
  out : List (Kind × Int32)
  /-- a panic site reached (`expect("empty time stack?! (bug)")`) -/
  panicked : Option String
deriving Repr, Inhabited

def emptyStackMsg : String := "empty time stack?! (bug)"

/-- `visit_stmt_shallow` -/
def shallow (st : VState) : Stmt → VState
  | .abs v => match st.timeStack with
    | [] => { st with panicked := st.panicked.or (some emptyStackMsg) }
    | _ :: rest => { st with timeStack := v :: rest }
  | .rel d => match st.timeStack with
    | [] => { st with panicked := st.panicked.or (some emptyStackMsg) }
    | cur :: rest => { st with timeStack := (cur + d) :: rest }   -- wrapping_add
  | .relBad => match st.timeStack with
    | [] => { st with panicked := st.panicked.or (some emptyStackMsg) }
    | _ :: _ => { st with failed := true }
  | _ => st

def kindOf : Stmt → Kind
  | .abs _ | .rel _ | .relBad => .timeLabel
  | .instr => .instr
  | .label => .label
  | .block _ => .block

/-- `helper.time()` + `id_map_insert` -/
def record (st : VState) (k : Kind) : VState :=
  match st.timeStack with
  | [] => { st with panicked := st.panicked.or (some emptyStackMsg) }
  | t :: _ => { st with out := (k, t) :: st.out }

mutual
/-- `Visitor::visit_stmt`: enter_stmt (shallow visit), record, recurse (`walk_stmt`), exit_stmt -/
def visitStmt (st : VState) : Stmt → VState
  | .block body => visitBlock (record (shallow st (.block body)) .block) body
  | .abs v => record (shallow st (.abs v)) .timeLabel
  | .rel d => record (shallow st (.rel d)) .timeLabel
  | .relBad => record (shallow st .relBad) .timeLabel
  | .instr => record st .instr
  | .label => record st .label
/-- `visit_block` (enter_block / exit_block only touch the difficulty stack) -/
def visitBlock (st : VState) : List Stmt → VState
  | [] => st
  | s :: ss => visitBlock (visitStmt st s) ss
end

def constErr : String := "const evaluation error in time label"

/-- `time_and_difficulty::run` on a script body: `enter_root_block; enter_block; visit` -/
def run (body : List Stmt) : Outcome (List (Kind × Int32)) :=
  let st := visitBlock { timeStack := [0], failed := false, out := [], panicked := none } body
  match st.panicked with
  | some site => .panic site
  | none => if st.failed then .err constErr else .ok st.out.reverse

/-- times of the instructions of a script, in order: what ends up in `RawInstr.time` -/
def instrTimes (body : List Stmt) : Outcome (List Int32) :=
  match run body with
  | .ok rs => .ok ((rs.filter (fun r => r.1 == .instr)).map (·.2))
  | .err c => .err c
  | .panic s => .panic s

/-! ## the specification: a left fold over the statements in textual order -/

mutual
/-- pre-order flattening: a block statement is followed by its body -/
def flattenStmt : Stmt → List Stmt
  | .block body => .block [] :: flattenBlock body
  | s => [s]
def flattenBlock : List Stmt → List Stmt
  | [] => []
  | s :: ss => flattenStmt s ++ flattenBlock ss
end

/-- the label rules: `N:` sets, `+N:` adds (mod 2^32), everything else inherits -/
def step (t : Int32) : Stmt → Int32
  | .abs v => v
  | .rel d => t + d
  | _ => t

/-- time of every statement of a flat list, starting at `t` -/
def specTimes (t : Int32) : List Stmt → List (Kind × Int32)
  | [] => []
  | s :: ss => (kindOf s, step t s) :: specTimes (step t s) ss

def hasBad : List Stmt → Bool
  | [] => false
  | .relBad :: _ => true
  | _ :: ss => hasBad ss

/-! ## decompiler: label emission -/

/-- name of an offset label: `label_{offset}` names the destination instruction,
`label_{prev_offset}r` the instruction before it (indices instead of byte offsets here), and
`label_startr` is the `r` label of the start of the script, which has no previous instruction -/
inductive LabelName where
  | dest (idx : Nat)
  | before (idx : Nat)
  | start
deriving Repr, DecidableEq, Inhabited

/-- `raise::Label`: name and the time it must sit at -/
structure Label where
  name : LabelName
  time : Int32
deriving Repr, DecidableEq, Inhabited

/-- statements produced by the raiser, as far as time is concerned -/
inductive Out where
  | label (name : LabelName)
  | abs (t : Int32)
  | rel (d : Int32)
  | instr
deriving Repr, DecidableEq, Inhabited

/-- the time-label part of `emit_offset_and_time_labels_with`: the four cases -/
def emitTime (prev time : Int32) : List Out :=
  if time = prev then []
  else if prev < 0 ∧ 0 ≤ time then
    -- intermediate `0:` between negative and non-negative
    .abs 0 :: (if 0 < time then [.rel time] else [])
  else if time < prev then [.abs time]
  else [.rel (time - prev)]   -- wrapping_sub

def impossibleMsg : String := "impossible time for label"

/-- `emit_offset_and_time_labels_with` (returns the emitted statements; `prev_time := time` is
done by the caller) -/
def emitLabels (prev time : Int32) (lab : Option Label) : Outcome (List Out) :=
  match lab with
  | none => .ok (emitTime prev time)
  | some l =>
    if l.time = prev then .ok (.label l.name :: emitTime prev time)
    else if l.time = time then .ok (emitTime prev time ++ [.label l.name])
    else .panic impossibleMsg

/-- decompiling a plain time sequence (no jumps): labels then the instruction -/
def emitAllFrom (prev : Int32) : List Int32 → List Out
  | [] => []
  | t :: ts => emitTime prev t ++ .instr :: emitAllFrom t ts

def emitAll (ts : List Int32) : List Out := emitAllFrom 0 ts

/-- the label rules on emitted statements -/
def stepOut (t : Int32) : Out → Int32
  | .abs v => v
  | .rel d => t + d
  | _ => t

/-- times of the instructions in a list of emitted statements, starting at `t` -/
def timesFrom (t : Int32) : List Out → List Int32
  | [] => []
  | .instr :: os => t :: timesFrom t os
  | o :: os => timesFrom (stepOut t o) os

def times (os : List Out) : List Int32 := timesFrom 0 os

/-- times of the offset labels in a list of emitted statements -/
def labelTimesFrom (t : Int32) : List Out → List (LabelName × Int32)
  | [] => []
  | .label n :: os => (n, t) :: labelTimesFrom t os
  | o :: os => labelTimesFrom (stepOut t o) os

/-- emitted statement as source statement (what the recompile sees) -/
def Out.toStmt : Out → Stmt
  | .label _ => .label
  | .abs v => .abs v
  | .rel d => .rel d
  | .instr => .instr

/-! ## decompiler with jumps: offset labels -/

/-- a stored instruction: its time and, if it is a jump, the index of the destination
instruction (`n` = end of script) and the time argument (`none` for jumps without one) -/
structure RInstr where
  time : Int32
  jump : Option (Nat × Option Int32)
deriving Repr, Inhabited

/-- `generate_label_at_offset`; `args` = the time arguments used with this destination, already
defaulted to `next` -/
def labelAt (prevIdx : Nat) (prev : Int32) (nextIdx : Nat) (next : Int32) (args : List Int32) : Label :=
  -- BTreeSet of the args has exactly one element and it is `prev`
  if prev < next ∧ args ≠ [] ∧ args.all (· == prev) then ⟨.before prevIdx, prev⟩ else ⟨.dest nextIdx, next⟩

def timeAt (is : List RInstr) (k : Nat) : Int32 :=
  match is[k]? with
  | some i => i.time
  | none => match is.getLast? with     -- label after the last instruction
    | some i => i.time
    | none => 0

def prevTimeAt (is : List RInstr) (k : Nat) : Int32 :=
  match k with
  | 0 => 0       -- scripts implicitly start at time 0
  | k + 1 => match is[k]? with
    | some i => i.time
    | none => 0

/-- all time arguments of jumps to instruction index `k` -/
def jumpArgs (is : List RInstr) (k : Nat) : List Int32 :=
  is.filterMap fun i => match i.jump with
    | some (dest, tm) => if dest = k then some (tm.getD (timeAt is k)) else none
    | none => none

/-- the script start has no previous instruction: its `r` label (the one whose time is not the
destination's) gets a name of its own, `label_startr` -/
def renameStart (k : Nat) (destTime : Int32) (l : Label) : Label :=
  if k = 0 ∧ l.time ≠ destTime then { l with name := .start } else l

/-- `generate_offset_labels` for one offset -/
def labelFor (is : List RInstr) (k : Nat) : Option Label :=
  match jumpArgs is k with
  | [] => none
  | args => some (renameStart k (timeAt is k) (labelAt (k - 1) (prevTimeAt is k) k (timeAt is k) args))

def badOffsetMsg : String := "an instruction has a bad jump offset!"

/-- instructions `k, k+1, ...` of the script -/
def raiseFrom (is : List RInstr) (prev : Int32) (k : Nat) : List RInstr → Outcome (List Out)
  | [] =>
    -- the `End` pseudo-instruction: time of the end label, else of the last instruction, else 0
    let lab := labelFor is k
    let endTime := match lab with
      | some l => l.time
      | none => match is.getLast? with | some i => i.time | none => 0
    emitLabels prev endTime lab
  | i :: rest =>
    match emitLabels prev i.time (labelFor is k) with
    | .ok os => match raiseFrom is i.time (k + 1) rest with
      | .ok os' => .ok (os ++ .instr :: os')
      | e => e
    | e => e

/-- a script of stored instructions -> the emitted statement sequence -/
def raise (is : List RInstr) : Outcome (List Out) :=
  if is.any (fun i => match i.jump with | some (dest, _) => dest > is.length | none => false)
  then .err badOffsetMsg
  else raiseFrom is 0 0 is

end TruthModel.Time
