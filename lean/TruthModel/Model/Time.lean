import TruthModel.Model.Basic
/-
C13 — time labels.

Compile direction: mirror of `TimeAndDifficultyHelper` / `Visitor` in
`src/passes/semantics/time_and_difficulty.rs` (time part): statements are visited in pre-order,
`N:` overwrites the top of the time stack, `+N:` adds with `i32::wrapping_add`, every statement
(also the label itself, also a block statement) is recorded with the time on top of the stack
*after* its own label took effect, blocks push nothing on the time stack (only `enter_root_block`
does).  A non-constant delta is a diagnostic, the visitor keeps going and the pass fails at the end.

Decompile direction: mirror of `LabelEmitter::emit_offset_and_time_labels_with`
(`src/llir/raise/late.rs`), `generate_offset_labels` / `generate_label_at_offset`
(`src/llir/raise/early.rs`) and the `End` pseudo-instruction of `early_raise_intrinsics`.
-/
namespace TruthModel.Time

/-! ## source statements -/

inductive Stmt where
  /-- `N:` -/
  | abs (t : Int32)
  /-- `+N:` with a constant delta (value after const evaluation) -/
  | rel (d : Int32)
  /-- `+e:` where `e` is not a constant expression -/
  | relBad
  /-- anything that compiles to instructions and carries no block -/
  | instr
  /-- `name:` (offset label) -/
  | label
  /-- any statement with a nested block (`{}`, `loop`, `times`, `if`, ...) -/
  | block (body : List Stmt)
deriving Repr, Inhabited

/-- what is recorded per statement (`IdMap<NodeId, TimeAndDifficulty>`, time part) -/
inductive Kind where
  | timeLabel | instr | label | block
deriving Repr, DecidableEq, Inhabited

structure VState where
  /-- `time_stack` (head = top) -/
  timeStack : List Int32
  /-- `ErrorFlag` -/
  failed : Bool
  /-- `output`, in visiting order (reversed: newest first) -/
  out : List (Kind × Int32)
  /-- a panic site reached (`expect("empty time stack?! (bug)")`) -/
  panicked : Option String
deriving Repr, Inhabited

def emptyStackMsg : String := "empty time stack?! (bug)"

/-- `visit_stmt_shallow` -/
def shallow (st : VState) : Stmt → VState
  | .abs v => match st.timeStack with
    | [] => { st with panicked := st.panicked.or (some emptyStackMsg) }
    | _ :: rest => { st with timeStack := v :: rest }
  | .rel d => match st.timeStack with
    | [] => { st with panicked := st.panicked.or (some emptyStackMsg) }
    | cur :: rest => { st with timeStack := (cur + d) :: rest }   -- wrapping_add
  | .relBad => match st.timeStack with
    | [] => { st with panicked := st.panicked.or (some emptyStackMsg) }
    | _ :: _ => { st with failed := true }
  | _ => st

def kindOf : Stmt → Kind
  | .abs _ | .rel _ | .relBad => .timeLabel
  | .instr => .instr
  | .label => .label
  | .block _ => .block

/-- `helper.time()` + `id_map_insert` -/
def record (st : VState) (k : Kind) : VState :=
  match st.timeStack with
  | [] => { st with panicked := st.panicked.or (some emptyStackMsg) }
  | t :: _ => { st with out := (k, t) :: st.out }

mutual
/-- `Visitor::visit_stmt`: enter_stmt (shallow visit), record, recurse (`walk_stmt`), exit_stmt -/
def visitStmt (st : VState) : Stmt → VState
  | .block body => visitBlock (record (shallow st (.block body)) .block) body
  | .abs v => record (shallow st (.abs v)) .timeLabel
  | .rel d => record (shallow st (.rel d)) .timeLabel
  | .relBad => record (shallow st .relBad) .timeLabel
  | .instr => record st .instr
  | .label => record st .label
/-- `visit_block` (enter_block / exit_block only touch the difficulty stack) -/
def visitBlock (st : VState) : List Stmt → VState
  | [] => st
  | s :: ss => visitBlock (visitStmt st s) ss
end

def constErr : String := "const evaluation error in time label"

/-- `time_and_difficulty::run` on a script body: `enter_root_block; enter_block; visit` -/
def run (body : List Stmt) : Outcome (List (Kind × Int32)) :=
  let st := visitBlock { timeStack := [0], failed := false, out := [], panicked := none } body
  match st.panicked with
  | some site => .panic site
  | none => if st.failed then .err constErr else .ok st.out.reverse

/-- times of the instructions of a script, in order: what ends up in `RawInstr.time` -/
def instrTimes (body : List Stmt) : Outcome (List Int32) :=
  match run body with
  | .ok rs => .ok ((rs.filter (fun r => r.1 == .instr)).map (·.2))
  | .err c => .err c
  | .panic s => .panic s

/-! ## the specification: a left fold over the statements in textual order -/

mutual
/-- pre-order flattening: a block statement is followed by its body -/
def flattenStmt : Stmt → List Stmt
  | .block body => .block [] :: flattenBlock body
  | s => [s]
def flattenBlock : List Stmt → List Stmt
  | [] => []
  | s :: ss => flattenStmt s ++ flattenBlock ss
end

/-- the label rules: `N:` sets, `+N:` adds (mod 2^32), everything else inherits -/
def step (t : Int32) : Stmt → Int32
  | .abs v => v
  | .rel d => t + d
  | _ => t

/-- time of every statement of a flat list, starting at `t` -/
def specTimes (t : Int32) : List Stmt → List (Kind × Int32)
  | [] => []
  | s :: ss => (kindOf s, step t s) :: specTimes (step t s) ss

def hasBad : List Stmt → Bool
  | [] => false
  | .relBad :: _ => true
  | _ :: ss => hasBad ss

/-! ## decompiler: label emission -/

/-- name of an offset label: `label_{offset}` names the destination instruction,
`label_{prev_offset}r` the instruction before it (indices instead of byte offsets here), and
`label_startr` is the `r` label of the start of the script, which has no previous instruction -/
inductive LabelName where
  | dest (idx : Nat)
  | before (idx : Nat)
  | start
deriving Repr, DecidableEq, Inhabited

/-- `raise::Label`: name and the time it must sit at -/
structure Label where
  name : LabelName
  time : Int32
deriving Repr, DecidableEq, Inhabited

/-- statements produced by the raiser, as far as time is concerned -/
inductive Out where
  | label (name : LabelName)
  | abs (t : Int32)
  | rel (d : Int32)
  | instr
deriving Repr, DecidableEq, Inhabited

/-- the time-label part of `emit_offset_and_time_labels_with`: the four cases -/
def emitTime (prev time : Int32) : List Out :=
  if time = prev then []
  else if prev < 0 ∧ 0 ≤ time then
    -- intermediate `0:` between negative and non-negative
    .abs 0 :: (if 0 < time then [.rel time] else [])
  else if time < prev then [.abs time]
  else [.rel (time - prev)]   -- wrapping_sub

def impossibleMsg : String := "impossible time for label"

/-- `emit_offset_and_time_labels_with` (returns the emitted statements; `prev_time := time` is
done by the caller) -/
def emitLabels (prev time : Int32) (lab : Option Label) : Outcome (List Out) :=
  match lab with
  | none => .ok (emitTime prev time)
  | some l =>
    if l.time = prev then .ok (.label l.name :: emitTime prev time)
    else if l.time = time then .ok (emitTime prev time ++ [.label l.name])
    else .panic impossibleMsg

/-- decompiling a plain time sequence (no jumps): labels then the instruction -/
def emitAllFrom (prev : Int32) : List Int32 → List Out
  | [] => []
  | t :: ts => emitTime prev t ++ .instr :: emitAllFrom t ts

def emitAll (ts : List Int32) : List Out := emitAllFrom 0 ts

/-- the label rules on emitted statements -/
def stepOut (t : Int32) : Out → Int32
  | .abs v => v
  | .rel d => t + d
  | _ => t

/-- times of the instructions in a list of emitted statements, starting at `t` -/
def timesFrom (t : Int32) : List Out → List Int32
  | [] => []
  | .instr :: os => t :: timesFrom t os
  | o :: os => timesFrom (stepOut t o) os

def times (os : List Out) : List Int32 := timesFrom 0 os

/-- times of the offset labels in a list of emitted statements -/
def labelTimesFrom (t : Int32) : List Out → List (LabelName × Int32)
  | [] => []
  | .label n :: os => (n, t) :: labelTimesFrom t os
  | o :: os => labelTimesFrom (stepOut t o) os

/-- emitted statement as source statement (what the recompile sees) -/
def Out.toStmt : Out → Stmt
  | .label _ => .label
  | .abs v => .abs v
  | .rel d => .rel d
  | .instr => .instr

/-! ## decompiler with jumps: offset labels -/

/-- a stored instruction: its time and, if it is a jump, the index of the destination
instruction (`n` = end of script) and the time argument (`none` for jumps without one) -/
structure RInstr where
  time : Int32
  jump : Option (Nat × Option Int32)
deriving Repr, Inhabited

/-- `generate_label_at_offset`; `args` = the time arguments used with this destination, already
defaulted to `next` -/
def labelAt (prevIdx : Nat) (prev : Int32) (nextIdx : Nat) (next : Int32) (args : List Int32) : Label :=
  -- BTreeSet of the args has exactly one element and it is `prev`
  if prev < next ∧ args ≠ [] ∧ args.all (· == prev) then ⟨.before prevIdx, prev⟩ else ⟨.dest nextIdx, next⟩

def timeAt (is : List RInstr) (k : Nat) : Int32 :=
  match is[k]? with
  | some i => i.time
  | none => match is.getLast? with     -- label after the last instruction
    | some i => i.time
    | none => 0

def prevTimeAt (is : List RInstr) (k : Nat) : Int32 :=
  match k with
  | 0 => 0       -- scripts implicitly start at time 0
  | k + 1 => match is[k]? with
    | some i => i.time
    | none => 0

/-- all time arguments of jumps to instruction index `k` -/
def jumpArgs (is : List RInstr) (k : Nat) : List Int32 :=
  is.filterMap fun i => match i.jump with
    | some (dest, tm) => if dest = k then some (tm.getD (timeAt is k)) else none
    | none => none

/-- the script start has no previous instruction: its `r` label (the one whose time is not the
destination's) gets a name of its own, `label_startr` -/
def renameStart (k : Nat) (destTime : Int32) (l : Label) : Label :=
  if k = 0 ∧ l.time ≠ destTime then { l with name := .start } else l

/-- `generate_offset_labels` for one offset -/
def labelFor (is : List RInstr) (k : Nat) : Option Label :=
  match jumpArgs is k with
  | [] => none
  | args => some (renameStart k (timeAt is k) (labelAt (k - 1) (prevTimeAt is k) k (timeAt is k) args))

def badOffsetMsg : String := "an instruction has a bad jump offset!"

/-- instructions `k, k+1, ...` of the script -/
def raiseFrom (is : List RInstr) (prev : Int32) (k : Nat) : List RInstr → Outcome (List Out)
  | [] =>
    -- the `End` pseudo-instruction: time of the end label, else of the last instruction, else 0
    let lab := labelFor is k
    let endTime := match lab with
      | some l => l.time
      | none => match is.getLast? with | some i => i.time | none => 0
    emitLabels prev endTime lab
  | i :: rest =>
    match emitLabels prev i.time (labelFor is k) with
    | .ok os => match raiseFrom is i.time (k + 1) rest with
      | .ok os' => .ok (os ++ .instr :: os')
      | e => e
    | e => e

/-- a script of stored instructions -> the emitted statement sequence -/
def raise (is : List RInstr) : Outcome (List Out) :=
  if is.any (fun i => match i.jump with | some (dest, _) => dest > is.length | none => false)
  then .err badOffsetMsg
  else raiseFrom is 0 0 is

end TruthModel.Time

/-! # C13 extension (round 2): every statement shape that carries or interacts with times

Compile direction (`namespace X`): the whole of `TimeAndDifficultyHelper` / `Visitor`
(`src/passes/semantics/time_and_difficulty.rs`) with BOTH stacks:

* `interrupt[n]:` is a physical statement (an instruction): it inherits the current time;
* `{"EN"}: stmt` (difficulty label, only in front of physical statements by the grammar) pushes the
  mask on the difficulty stack for the statement and everything inside it and never touches the time;
* a statement may own several blocks (`if .. else if .. else ..`): `visit_block` is called on them in
  textual order, each `enter_block` duplicates the top of the difficulty stack, none touches the time:
  the time at the start of an `else` block is the time at the END of the block before it (textual,
  not control-flow, order);
* a nested function item is visited through `visit_root_block`: a fresh `0` on the time stack and the
  default mask on the difficulty stack, both popped at the end (the enclosing time resumes);
* `L:` is recorded with the current time: that is the value of `timeof(L)` and of the time argument
  of `goto L` (`LowerStmt::Label { time }` -> `RawLabelInfo.time`, `encode_labels`);
  `goto L @ t` stores `t`.
-/
namespace TruthModel.Time.X

/-- difficulty mask byte, the value `compute_diff_label_masks` stored in the label (its parsing is C14) -/
abbrev Mask := UInt8
def defaultMask : Mask := 0xFF

inductive Stmt where
  | abs (t : Int32)
  | rel (d : Int32)
  | relBad
  /-- an instruction call -/
  | instr
  /-- `interrupt[n]:` -/
  | interrupt
  /-- `name:` -/
  | label (name : Nat)
  /-- `goto dest @ tm;` / `goto dest;` -/
  | goto (dest : Nat) (tm : Option Int32)
  /-- an instruction with a `timeof(lbl)` argument -/
  | timeof (lbl : Nat)
  /-- `{"mask"}: s` -/
  | tagged (mask : Mask) (s : Stmt)
  /-- a statement with blocks: `{}`, `loop`, `times`, `while`, `do-while` (one block),
  `if .. else if .. else ..` (one block per branch, in textual order) -/
  | blocks (bs : List (List Stmt))
  /-- a nested function item `void f() { body }` -/
  | func (body : List Stmt)
deriving Repr, Inhabited

inductive Kind where
  | timeLabel | instr | interrupt
  | label (name : Nat)
  | goto (dest : Nat) (tm : Option Int32)
  | timeof (lbl : Nat)
  | block | item
deriving Repr, DecidableEq, Inhabited

/-- `TimeAndDifficulty` of one statement; `depth` = number of nested function items around it
(length of the time stack minus one) -/
structure Rec where
  kind : Kind
  time : Int32
  mask : Mask
  depth : Nat
deriving Repr, DecidableEq, Inhabited

structure VState where
  timeStack : List Int32
  diffStack : List Mask
  failed : Bool
  out : List Rec
  panicked : Option String
deriving Repr, Inhabited

def emptyDiffMsg : String := "empty diff stack?! (bug)"

def panicWith (st : VState) (msg : String) : VState := { st with panicked := st.panicked.or (some msg) }

/-- `visit_stmt_shallow` -/
def shallow (st : VState) : Stmt → VState
  | .abs v => match st.timeStack with
    | [] => panicWith st emptyStackMsg
    | _ :: rest => { st with timeStack := v :: rest }
  | .rel d => match st.timeStack with
    | [] => panicWith st emptyStackMsg
    | cur :: rest => { st with timeStack := (cur + d) :: rest }
  | .relBad => match st.timeStack with
    | [] => panicWith st emptyStackMsg
    | _ :: _ => { st with failed := true }
  | _ => st

/-- `helper.time()`, `helper.difficulty_mask()`, `id_map_insert` -/
def record (st : VState) (k : Kind) : VState :=
  match st.timeStack, st.diffStack with
  | [], _ => panicWith st emptyStackMsg
  | _ :: _, [] => panicWith st emptyDiffMsg
  | t :: ts, m :: _ => { st with out := ⟨k, t, m, ts.length⟩ :: st.out }

/-- `enter_stmt`, difficulty part -/
def pushDiff (st : VState) (m : Mask) : VState := { st with diffStack := m :: st.diffStack }

/-- `exit_stmt` / `exit_block` -/
def popDiff (st : VState) : VState :=
  match st.diffStack with
  | [] => panicWith st emptyDiffMsg
  | _ :: r => { st with diffStack := r }

/-- `enter_block` -/
def enterBlock (st : VState) : VState :=
  match st.diffStack with
  | [] => panicWith st "called `Option::unwrap()` on a `None` value"
  | m :: r => { st with diffStack := m :: m :: r }

/-- `enter_root_block` -/
def enterRoot (st : VState) : VState :=
  { st with timeStack := 0 :: st.timeStack, diffStack := defaultMask :: st.diffStack }

/-- `exit_root_block` -/
def exitRoot (st : VState) : VState :=
  match st.timeStack with
  | [] => panicWith st emptyStackMsg
  | _ :: ts => match st.diffStack with
    | [] => panicWith st emptyDiffMsg
    | _ :: ds => { st with timeStack := ts, diffStack := ds }

mutual
/-- `Visitor::visit_stmt` -/
def visitStmt (st : VState) : Stmt → VState
  | .abs v => record (shallow st (.abs v)) .timeLabel
  | .rel d => record (shallow st (.rel d)) .timeLabel
  | .relBad => record (shallow st .relBad) .timeLabel
  | .instr => record st .instr
  | .interrupt => record st .interrupt
  | .label n => record st (.label n)
  | .goto d tm => record st (.goto d tm)
  | .timeof l => record st (.timeof l)
  -- enter_stmt pushes the mask (the shallow visit does nothing on a physical statement), the
  -- statement is recorded and walked with it, exit_stmt pops
  | .tagged m s => popDiff (visitStmt (pushDiff st m) s)
  | .blocks bs => visitBlocks (record st .block) bs
  -- walk_stmt -> visit_item -> visit_root_block
  | .func body => exitRoot (popDiff (visitBlock (enterBlock (enterRoot (record st .item))) body))
/-- `walk_block` -/
def visitBlock (st : VState) : List Stmt → VState
  | [] => st
  | s :: ss => visitBlock (visitStmt st s) ss
/-- `visit_block` on every block of a statement, in textual order -/
def visitBlocks (st : VState) : List (List Stmt) → VState
  | [] => st
  | b :: bs => visitBlocks (popDiff (visitBlock (enterBlock st) b)) bs
end

/-- `time_and_difficulty::run`: `enter_root_block; enter_block; visit` -/
def run (body : List Stmt) : Outcome (List Rec) :=
  let st := visitBlock { timeStack := [0], diffStack := [defaultMask, defaultMask], failed := false, out := [], panicked := none } body
  match st.panicked with
  | some site => .panic site
  | none => if st.failed then .err constErr else .ok st.out.reverse

/-! ### the specification: time is threaded through the text, the mask is lexically scoped -/

mutual
/-- the time after a statement -/
def endStmt (t : Int32) : Stmt → Int32
  | .abs v => v
  | .rel d => t + d
  | .tagged _ s => endStmt t s
  | .blocks bs => endBlocks t bs
  | .relBad | .instr | .interrupt | .label _ | .goto _ _ | .timeof _ | .func _ => t
def endBlock (t : Int32) : List Stmt → Int32
  | [] => t
  | s :: ss => endBlock (endStmt t s) ss
def endBlocks (t : Int32) : List (List Stmt) → Int32
  | [] => t
  | b :: bs => endBlocks (endBlock t b) bs
end

mutual
/-- what is recorded for a statement (and everything inside it) that starts at time `t` under the
mask `m` inside `dp` nested functions -/
def recsStmt (t : Int32) (m : Mask) (dp : Nat) : Stmt → List Rec
  | .abs v => [⟨.timeLabel, v, m, dp⟩]
  | .rel d => [⟨.timeLabel, t + d, m, dp⟩]
  | .relBad => [⟨.timeLabel, t, m, dp⟩]
  | .instr => [⟨.instr, t, m, dp⟩]
  | .interrupt => [⟨.interrupt, t, m, dp⟩]
  | .label n => [⟨.label n, t, m, dp⟩]
  | .goto d tm => [⟨.goto d tm, t, m, dp⟩]
  | .timeof l => [⟨.timeof l, t, m, dp⟩]
  | .tagged k s => recsStmt t k dp s
  | .blocks bs => ⟨.block, t, m, dp⟩ :: recsBlocks t m dp bs
  | .func body => ⟨.item, t, m, dp⟩ :: recsBlock 0 defaultMask (dp + 1) body
def recsBlock (t : Int32) (m : Mask) (dp : Nat) : List Stmt → List Rec
  | [] => []
  | s :: ss => recsStmt t m dp s ++ recsBlock (endStmt t s) m dp ss
def recsBlocks (t : Int32) (m : Mask) (dp : Nat) : List (List Stmt) → List Rec
  | [] => []
  | b :: bs => recsBlock t m dp b ++ recsBlocks (endBlock t b) m dp bs
end

mutual
/-- a non-constant delta anywhere (also inside nested functions) -/
def badStmt : Stmt → Bool
  | .relBad => true
  | .tagged _ s => badStmt s
  | .blocks bs => badBlocks bs
  | .func body => badBlock body
  | .abs _ | .rel _ | .instr | .interrupt | .label _ | .goto _ _ | .timeof _ => false
def badBlock : List Stmt → Bool
  | [] => false
  | s :: ss => badStmt s || badBlock ss
def badBlocks : List (List Stmt) → Bool
  | [] => false
  | b :: bs => badBlock b || badBlocks bs
end

/-! ### lowering: what ends up in the instructions -/

/-- an emitted instruction: time, difficulty mask, and the time-valued argument if it has one -/
inductive CInstr where
  | plain (t : Int32) (m : Mask)
  | interrupt (t : Int32) (m : Mask)
  /-- `goto`: `arg` is the jump's time argument -/
  | jump (t : Int32) (m : Mask) (arg : Int32)
  /-- an instruction with `timeof(L)` as its argument -/
  | timeof (t : Int32) (m : Mask) (v : Int32)
deriving Repr, DecidableEq, Inhabited

/-- nested function items are not lowered (`StmtKind::Item => {}` in `lower/stackless.rs`) -/
def lowered (rs : List Rec) : List Rec := rs.filter (fun r => r.depth == 0)

/-- `gather_label_info`: label name -> time of the label statement -/
def labelTable (rs : List Rec) : List (Nat × Int32) :=
  rs.filterMap fun r => match r.kind with
    | .label n => some (n, r.time)
    | _ => none

def lookupLabel (tbl : List (Nat × Int32)) (n : Nat) : Option Int32 :=
  (tbl.find? (fun e => e.1 == n)).map (·.2)

def hasDupLabel : List (Nat × Int32) → Bool
  | [] => false
  | e :: es => es.any (fun x => x.1 == e.1) || hasDupLabel es

def dupLabelMsg : String := "duplicate label"
def undefLabelMsg : String := "undefined label"

/-- `populate_time_args` + `encode_labels` for one statement: `goto L @ t` stores `t`, `goto L`
stores `timeof(L)`, `timeof(L)` is the time recorded for the label statement -/
def lowerRec (tbl : List (Nat × Int32)) (r : Rec) : Outcome (Option CInstr) :=
  match r.kind with
  | .instr => .ok (some (.plain r.time r.mask))
  | .interrupt => .ok (some (.interrupt r.time r.mask))
  | .goto _ (some v) => .ok (some (.jump r.time r.mask v))
  | .goto d none => match lookupLabel tbl d with
    | some lt => .ok (some (.jump r.time r.mask lt))
    | none => .err undefLabelMsg
  | .timeof l => match lookupLabel tbl l with
    | some lt => .ok (some (.timeof r.time r.mask lt))
    | none => .err undefLabelMsg
  | .timeLabel | .label _ | .block | .item => .ok none

def lowerAll (tbl : List (Nat × Int32)) : List Rec → Outcome (List CInstr)
  | [] => .ok []
  | r :: rs => match lowerRec tbl r with
    | .ok o => match lowerAll tbl rs with
      | .ok cs => .ok (o.toList ++ cs)
      | e => e
    | .err c => .err c
    | .panic s => .panic s

/-- a script body -> its instructions (times, masks, time-valued arguments) -/
def compile (body : List Stmt) : Outcome (List CInstr) :=
  match run body with
  | .ok rs =>
    let ls := lowered rs
    let tbl := labelTable ls
    if hasDupLabel tbl then .err dupLabelMsg else lowerAll tbl ls
  | .err c => .err c
  | .panic s => .panic s

/-- the first-round statement language embeds (labels get a name nobody jumps to) -/
def ofOld : Time.Stmt → Stmt
  | .abs t => .abs t
  | .rel d => .rel d
  | .relBad => .relBad
  | .instr => .instr
  | .label => .label 0
  | .block body => .blocks [ofOldList body]
where ofOldList : List Time.Stmt → List Stmt
  | [] => []
  | s :: ss => ofOld s :: ofOldList ss

end TruthModel.Time.X

/-! ## decompile direction, extended: interrupt labels, difficulty masks, `goto L @ t`

A stored interrupt-label instruction is an instruction like any other for the label emitter: the
offset label and the time labels of its time are emitted in front of it, then `interrupt[n]:`.
The difficulty mask is printed as a `{"..."}:` prefix of the statement (`make_diff_label`), never as
a statement of its own, so it takes no part in the time arithmetic.  A jump is printed as
`goto L` when its stored time argument equals the time its label sits at (`label.time_label`) and
as `goto L @ t` otherwise (`raise_intrinsic_parts`); a jump instruction without a time argument
(signature `o`) prints `offsetof(L)` only. -/
namespace TruthModel.Time.X

inductive RKind where
  | plain
  | interrupt
  /-- destination instruction index (`n` = end of script), stored time argument (`none`: the
  instruction has no time argument) -/
  | jump (dest : Nat) (tm : Option Int32)
deriving Repr, DecidableEq, Inhabited

structure RInstr where
  time : Int32
  mask : Mask
  kind : RKind
deriving Repr, Inhabited

/-- forget what the first-round model does not know about -/
def RInstr.erase (i : RInstr) : Time.RInstr :=
  { time := i.time, jump := match i.kind with | .jump d tm => some (d, tm) | _ => none }

inductive Out where
  | label (name : LabelName)
  | abs (t : Int32)
  | rel (d : Int32)
  | instr (m : Mask)
  | interrupt (m : Mask)
  /-- `goto dest @ tm` / `goto dest` -/
  | goto (m : Mask) (dest : LabelName) (tm : Option Int32)
  /-- an instruction with `offsetof(dest)` and no time argument -/
  | jumpO (m : Mask) (dest : LabelName)
deriving Repr, DecidableEq, Inhabited

def Out.erase : Out → Time.Out
  | .label n => .label n
  | .abs t => .abs t
  | .rel d => .rel d
  | .instr _ | .interrupt _ | .goto _ _ _ | .jumpO _ _ => .instr

def noLabelMsg : String := "no label at jump destination"

/-- the statement an instruction is printed as -/
def stmtOf (all : List Time.RInstr) (i : RInstr) : Outcome Out :=
  match i.kind with
  | .plain => .ok (.instr i.mask)
  | .interrupt => .ok (.interrupt i.mask)
  | .jump dest tm =>
    match labelFor all dest with
    | none => .panic noLabelMsg     -- `self.offset_labels[&label_offset]`
    | some l => match tm with
      | some a => .ok (.goto i.mask l.name (if a = l.time then none else some a))
      | none => .ok (.jumpO i.mask l.name)

def liftOuts (os : List Time.Out) : List Out :=
  os.filterMap fun o => match o with
    | .label n => some (.label n)
    | .abs t => some (.abs t)
    | .rel d => some (.rel d)
    | .instr => none

def raiseFrom (all : List Time.RInstr) (prev : Int32) (k : Nat) : List RInstr → Outcome (List Out)
  | [] =>
    let lab := labelFor all k
    let endTime := match lab with
      | some l => l.time
      | none => match all.getLast? with | some i => i.time | none => 0
    match emitLabels prev endTime lab with
    | .ok os => .ok (liftOuts os)
    | .err c => .err c
    | .panic s => .panic s
  | i :: rest =>
    match emitLabels prev i.time (labelFor all k) with
    | .ok os => match stmtOf all i with
      | .ok o => match raiseFrom all i.time (k + 1) rest with
        | .ok os' => .ok (liftOuts os ++ o :: os')
        | e => e
      | .err c => .err c
      | .panic s => .panic s
    | .err c => .err c
    | .panic s => .panic s

def raise (is : List RInstr) : Outcome (List Out) :=
  let all := is.map RInstr.erase
  if all.any (fun i => match i.jump with | some (dest, _) => dest > all.length | none => false)
  then .err badOffsetMsg
  else raiseFrom all 0 0 is

/-- the source statement an emitted statement is read back as (`label_12` / `label_12r` /
`label_startr` become label names `3k`, `3k+1`, `3k+2`... any injective coding) -/
def labelCode : LabelName → Nat
  | .dest i => 3 * i
  | .before i => 3 * i + 1
  | .start => 2

def tagIf (m : Mask) (s : Stmt) : Stmt := if m = defaultMask then s else .tagged m s

def Out.toStmt : Out → Stmt
  | .label n => .label (labelCode n)
  | .abs t => .abs t
  | .rel d => .rel d
  | .instr m => tagIf m .instr
  | .interrupt m => tagIf m .interrupt
  | .goto m d tm => tagIf m (.goto (labelCode d) tm)
  | .jumpO m _ => tagIf m .instr

/-- what recompiling must give back for a stored instruction -/
def RInstr.expected (i : RInstr) : CInstr :=
  match i.kind with
  | .plain => .plain i.time i.mask
  | .interrupt => .interrupt i.time i.mask
  | .jump _ (some a) => .jump i.time i.mask a
  | .jump _ none => .plain i.time i.mask

end TruthModel.Time.X
