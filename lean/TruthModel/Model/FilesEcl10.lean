import TruthModel.Model.InstrIO10
import TruthModel.Model.FilesEcl
/-
Container level of stack ECL files (TH10 and later): `read` / `write` of src/formats/ecl/ecl_10.rs.

    "SCPT"  i16 1  u16 include_length  u32 include_offset (= 0x24)  u32 0  u32 sub_count  4 x u32 0
    "ANIM"  u32 count  strings        (`write_include_section` / `write_string_list`)
    "ECLI"  u32 count  strings
    sub_count x u32 offset of each sub header
    sub names as a string list
    per sub: "ECLH"  u32 0x10  u32 0  u32 0  instructions (16-byte headers, `Model/InstrIO10.lean`)

A string list is every string NUL-terminated (`write_cstring(.., 1)` / `read_cstring_blockwise(1)`),
then zero bytes up to a multiple of 4 *of the number of bytes written* (`align_to(num_bytes, 4)`).

Conventions as in `Model/Files.lean`: the file being read is the whole byte string, `start_pos = 0`,
`seek_to(off)` is `file.drop off`; panics are values - every `assert_eq!`, `unwrap`, subtraction, `as`
cast of `read` / `write` is an explicit arm; warnings are not modelled.  Text in memory is `List Char`
(`Sp<String>`); the text <-> bytes step (`Encoded::encode` / `decode`, Shift-JIS) is the parameter
`Abi.Sjis`, the laws a theorem needs are its hypotheses (checked exhaustively by C15).
-/
namespace TruthModel.Files
open TruthModel TruthModel.InstrIO

abbrev Text := List Char

structure Ecl10File where
  anim : List Text
  ecli : List Text
  /-- `IndexMap<Sp<String>, RawScript>` in insertion order (keys distinct in a real map) -/
  subs : List (Text × List Instr10)
deriving DecidableEq, Repr, Inhabited

def notSorted : String := "sub offsets are not sorted!"
def encErr : String := "string encoding error"
def includeTooLarge : String := "include section is too large to fit!"
def nulErr : String := "string in a list of names cannot contain a NUL character"

def scptMagic : Bytes := [83, 67, 80, 84]
def animMagic : Bytes := [65, 78, 73, 77]
def ecliMagic : Bytes := [69, 67, 76, 73]
def eclhMagic : Bytes := [69, 67, 76, 72]

/-- the number of bytes `align_to(n, 4)` writes / reads: `match n % 4 { 0 => 0, r => 4 - r }` -/
def padLen (n : Nat) : Nat := if n % 4 = 0 then 0 else 4 - n % 4

/-! ## writer -/

/-- the loop of `write_string_list` on already encoded strings: `write_cstring(encoded, 1)` appends
one NUL (`null_pad(1)`), `num_bytes_written += encoded.len() + 1` -/
def strListBody : List Bytes → Bytes × Nat
  | [] => ([], 0)
  | b :: bs => (b ++ [0] ++ (strListBody bs).1, b.length + 1 + (strListBody bs).2)

/-- `write_string_list` on encoded strings: the strings, then `align_to(num_bytes_written, 4)` -/
def writeStrListBytes (bs : List Bytes) : Bytes :=
  (strListBody bs).1 ++ List.replicate (padLen (strListBody bs).2) 0

/-- the loop of `write_string_list` up to the write: every string, in order, is encoded
(`Encoded::encode`) and then checked for a NUL byte in its encoding (dcd07d9: the strings of a list are
NUL-terminated, one that contains a NUL would read back as two); the first string that fails either
test gives the diagnostic, and for one string the encoding error comes before the NUL error -/
def encAll (sj : Abi.Sjis) : List Text → Outcome (List Bytes)
  | [] => .ok []
  | s :: ss =>
    match sj.enc s with
    | none => .err encErr
    | some b =>
      if b.contains 0 then .err nulErr else
      match encAll sj ss with
      | .ok bs => .ok (b :: bs)
      | .err c => .err c
      | .panic p => .panic p

/-- `write_string_list` -/
def writeStringList (sj : Abi.Sjis) (ss : List Text) : Outcome Bytes :=
  match encAll sj ss with
  | .ok bs => .ok (writeStrListBytes bs)
  | .err c => .err c
  | .panic p => .panic p

/-- `write_include_section`: magic, `strings.len() as u32`, the list -/
def writeInclude (sj : Abi.Sjis) (magic : Bytes) (ss : List Text) : Outcome Bytes :=
  match writeStringList sj ss with
  | .ok b => .ok (magic ++ u32 ss.length ++ b)
  | .err c => .err c
  | .panic p => .panic p

/-- `write_sub_header` -/
def subHeader : Bytes := eclhMagic ++ u32 16 ++ u32 0 ++ u32 0

/-- the sub loop of `write`: bytes of all subs and the offset of each header, first one at `pos` -/
def writeSubs10 : Nat → List (List Instr10) → Outcome (Bytes × List Nat)
  | _, [] => .ok ([], [])
  | pos, is :: rest =>
    match writeInstrs10 is with
    | .ok b =>
      match writeSubs10 (pos + 16 + b.length) rest with
      | .ok (bs, offs) => .ok (subHeader ++ b ++ bs, pos :: offs)
      | .err c => .err c
      | .panic s => .panic s
    | .err c => .err c
    | .panic s => .panic s

/-- the 36 bytes in front of the include section; `ecl.subs.len() as u32` keeps the low 32 bits -/
def ecl10Header (includeLength numSubs : Nat) : Bytes :=
  scptMagic ++ i16 1 ++ u16 includeLength ++ u32 36 ++ u32 0 ++ u32 numSubs ++ u32s [0, 0, 0, 0]

/-- `write`.  `offset as u32` keeps the low 32 bits of each sub offset. -/
def writeEcl10 (sj : Abi.Sjis) (f : Ecl10File) : Outcome Bytes :=
  match writeInclude sj animMagic f.anim with
  | .err c => .err c
  | .panic p => .panic p
  | .ok animBytes =>
  match writeInclude sj ecliMagic f.ecli with
  | .err c => .err c
  | .panic p => .panic p
  | .ok ecliBytes =>
  let includeOffset := 36                                   -- include_pos - start_pos
  let includeLength := animBytes.length + ecliBytes.length  -- sub_list_pos - include_pos
  -- `u16::try_from(include_length)`
  if includeLength > 65535 then .err includeTooLarge else
  -- `u32::try_from(include_offset).unwrap()` ("this is always 0x24")
  if includeOffset ≥ 2 ^ 32 then .panic "src/formats/ecl/ecl_10.rs: called `Result::unwrap()` on an `Err` value" else
  match writeStringList sj (f.subs.map (·.1)) with
  | .err c => .err c
  | .panic p => .panic p
  | .ok nameBytes =>
  match writeSubs10 (includeOffset + includeLength + 4 * f.subs.length + nameBytes.length) (f.subs.map (·.2)) with
  | .err c => .err c
  | .panic p => .panic p
  | .ok (subBytes, subOffs) =>
  -- `assert_eq!(sub_offsets.len(), ecl.subs.len())`
  if subOffs.length ≠ f.subs.length then .panic "src/formats/ecl/ecl_10.rs: assertion `left == right` failed" else
  .ok (ecl10Header includeLength f.subs.length ++ animBytes ++ ecliBytes ++ u32s subOffs ++ nameBytes ++ subBytes)

/-! ## reader -/

/-- `read_cstring_blockwise(1)`: bytes up to the first NUL (one byte per block; the trailing-NUL
strip removes exactly the terminator) -/
def readCStr1 : Bytes → Option (Bytes × Bytes)
  | [] => none
  | b :: r =>
    if b = 0 then some ([], r) else
    match readCStr1 r with
    | some (s, r') => some (b :: s, r')
    | none => none

/-- the `map` of `read_string_list`: each string is read, counted (`encoded.len() + 1`) and decoded
before the next one is read.  Returns the strings, `num_bytes_read` and the rest of the input. -/
def readStrsAux {α} (dec : Bytes → Option α) : Nat → List α → Nat → Bytes → Outcome (List α × Nat × Bytes)
  | 0, acc, n, bs => .ok (acc.reverse, n, bs)
  | k + 1, acc, n, bs =>
    match readCStr1 bs with
    | none => .err eofErr
    | some (raw, r) =>
      match dec raw with
      | none => .err undecodable
      | some s => readStrsAux dec k (s :: acc) (n + raw.length + 1) r

/-- `read_string_list(count)`: the strings, then `align_to(num_bytes_read, 4)`.  Returns the strings,
the number of bytes consumed and the rest. -/
def readStringList {α} (dec : Bytes → Option α) (count : Nat) (bs : Bytes) : Outcome (List α × Nat × Bytes) :=
  match readStrsAux dec count [] 0 bs with
  | .err c => .err c
  | .panic p => .panic p
  | .ok (ss, n, r) =>
    match rdBytes (padLen n) r with
    | none => .err eofErr
    | some (_, r') => .ok (ss, n + padLen n, r')

/-- `expect_magic` -/
def expectMagic (magic : Bytes) (bs : Bytes) : Outcome Bytes :=
  match rdBytes magic.length bs with
  | none => .err eofErr
  | some (got, r) => if got = magic then .ok r else .err badMagic

/-- `read_include_section`: strings, bytes consumed, rest -/
def readInclude {α} (dec : Bytes → Option α) (magic : Bytes) (bs : Bytes) : Outcome (List α × Nat × Bytes) :=
  match expectMagic magic bs with
  | .err c => .err c
  | .panic p => .panic p
  | .ok r =>
  match rdU32 r with
  | none => .err eofErr
  | some (count, r) =>
  match readStringList dec count r with
  | .err c => .err c
  | .panic p => .panic p
  | .ok (ss, n, r) => .ok (ss, magic.length + 4 + n, r)

/-- `read_sub_header`: magic and three dwords (unexpected values only warn) -/
def readSubHeader (bs : Bytes) : Outcome Bytes :=
  match expectMagic eclhMagic bs with
  | .err c => .err c
  | .panic p => .panic p
  | .ok r =>
  match rdU32s 3 r with
  | none => .err eofErr
  | some (_, r) => .ok r

/-- one iteration of the sub loop of `read`: the sortedness check, the header at `off`, the
instructions from `off + 16` (`reader.pos()` after the header) to `endOff` -/
def readSub10 (file : Bytes) (off endOff : Nat) : Outcome (List Instr10) :=
  if endOff < off then .err notSorted else
  match readSubHeader (seek file off) with
  | .err c => .err c
  | .panic p => .panic p
  | .ok r => readInstrs10 (some endOff) (off + 16) r

/-- `IndexMap::insert`: an existing key keeps its position and gets the new value -/
def insertSub (subs : List (Text × List Instr10)) (name : Text) (is : List Instr10) : List (Text × List Instr10) :=
  if subs.any (fun x => x.1 == name) then subs.map (fun x => if x.1 == name then (x.1, is) else x)
  else subs ++ [(name, is)]

/-- the sub loop: `zip!(0.., &sub_offsets, sub_names)` with `end_offsets = sub_offsets.skip(1)`;
`offs` has one more entry than there are names (the file size was pushed) -/
def readSubsAux (file : Bytes) : List Nat → List Text → List (Text × List Instr10) → Outcome (List (Text × List Instr10))
  | off :: endOff :: offs, name :: names, acc =>
    match readSub10 file off endOff with
    | .ok is => readSubsAux file (endOff :: offs) names (insertSub acc name is)
    | .err c => .err c
    | .panic p => .panic p
  | _, _, acc => .ok acc

def assertEqPanic : String := "src/formats/ecl/ecl_10.rs: assertion `left == right` failed"
def subOverflowPanic : String := "src/formats/ecl/ecl_10.rs: attempt to subtract with overflow"

/-- the end of `read`: the sub offset table (with the file size pushed), the sub names, the subs -/
def readEcl10Subs (sj : Abi.Sjis) (file : Bytes) (subCount : Nat) (r : Bytes) : Outcome (List (Text × List Instr10)) :=
  match rdU32s subCount r with
  | none => .err eofErr
  | some (subOffs, r) =>
  match readStringList sj.dec subCount r with
  | .err c => .err c
  | .panic p => .panic p
  | .ok (names, _, _) => readSubsAux file (subOffs ++ [file.length]) names []

/-- the middle of `read`, entered after the 36 header bytes (`r` = what follows them): both include
sections with the two "trust what the file says, but complain" repositionings -/
def readEcl10Includes (sj : Abi.Sjis) (file : Bytes) (includeLength includeOffset subCount : Nat) (r : Bytes) : Outcome Ecl10File :=
  -- `reader.pos() - start_pos = 36`
  let includePos := includeOffset
  let moved := decide (36 ≠ includeOffset)
  let r := if moved then seek file includePos else r
  let pos := if moved then includePos else 36
  -- `assert_eq!(reader.pos()?, include_pos)`
  if pos ≠ includePos then .panic assertEqPanic else
  match readInclude sj.dec animMagic r with
  | .err c => .err c
  | .panic p => .panic p
  | .ok (anim, c1, r) =>
  match readInclude sj.dec ecliMagic r with
  | .err c => .err c
  | .panic p => .panic p
  | .ok (ecli, c2, r) =>
  let pos := includePos + c1 + c2
  let subListPos := includePos + includeLength
  -- `reader.pos()? - include_pos`
  if pos < includePos then .panic subOverflowPanic else
  let expectedLength := pos - includePos
  let moved := decide (expectedLength ≠ includeLength)
  let r := if moved then seek file subListPos else r
  let pos := if moved then subListPos else pos
  -- `assert_eq!(reader.pos()?, sub_list_pos)`
  if pos ≠ subListPos then .panic assertEqPanic else
  match readEcl10Subs sj file subCount r with
  | .err c => .err c
  | .panic p => .panic p
  | .ok subs => .ok { anim, ecli, subs }

/-- `read` (with `start_pos = 0`) -/
def readEcl10 (sj : Abi.Sjis) (file : Bytes) : Outcome Ecl10File :=
  match expectMagic scptMagic file with
  | .err c => .err c
  | .panic p => .panic p
  | .ok r =>
  match rdI16 r with                 -- unknown_1
  | none => .err eofErr
  | some (_, r) =>
  match rdU16 r with
  | none => .err eofErr
  | some (includeLength, r) =>
  match rdU32 r with
  | none => .err eofErr
  | some (includeOffset, r) =>
  match rdU32 r with                 -- zero_1
  | none => .err eofErr
  | some (_, r) =>
  match rdU32 r with
  | none => .err eofErr
  | some (subCount, r) =>
  match rdU32s 4 r with              -- zero_2
  | none => .err eofErr
  | some (_, r) => readEcl10Includes sj file includeLength includeOffset subCount r

end TruthModel.Files
