import TruthModel.Model.Basic
/-
Model of `BinOpKind::const_eval`, `UnOpKind::const_eval`, `handle_shift_rhs`
(`src/passes/const_simplify.rs`) and `ScalarValue::cast_by_ty_sigil` (`src/value.rs`).
Written arm by arm like the Rust `match`.
-/
namespace TruthModel

inductive BinOp where
  | add | sub | mul | div | rem
  | eq | ne | lt | le | gt | ge
  | lor | land | xor | band | bor
  | shl | shr | ushr
deriving Repr, DecidableEq, Inhabited

inductive UnOp where
  | neg | not | bnot
  | sin | cos | tan | asin | acos | atan | sqrt
  | castI | castF      -- `int(x)` `float(x)`
  | sigI | sigF        -- `$(x)` `%(x)`
deriving Repr, DecidableEq, Inhabited

inductive Ty where
  | int | float | str
deriving Repr, DecidableEq, Inhabited

inductive Value where
  | int (v : Int32)
  | float (bits : UInt32)
  | str (s : String)
deriving Repr, DecidableEq, Inhabited

def Value.ty : Value → Ty
  | .int _ => .int
  | .float _ => .float
  | .str _ => .str

def b2i (b : Bool) : Int32 := if b then 1 else 0

/-- `x as u32 % u32::BITS` -/
def shiftRhs (b : Int32) : UInt32 := b.toUInt32 % 32

def typeErrorSite : String := "(bug!) type_check should fail..."

/-- Integer arm of `BinOpKind::const_eval`.  `wrapping_div`/`wrapping_rem` panic on a zero
divisor in Rust; after the repair (`fix:` commit, see known_findings.json) both tree walkers
test the divisor first and report `const evaluation error`, which is the `err` arm here. -/
def binopInt (op : BinOp) (a b : Int32) : Outcome Value :=
  match op with
  | .add => .ok (.int (a + b))
  | .sub => .ok (.int (a - b))
  | .mul => .ok (.int (a * b))
  | .div => if b = 0 then .err "const evaluation error" else .ok (.int (a / b))
  | .rem => if b = 0 then .err "const evaluation error" else .ok (.int (a % b))
  | .eq => .ok (.int (b2i (a == b)))
  | .ne => .ok (.int (b2i (a != b)))
  | .lt => .ok (.int (b2i (decide (a < b))))
  | .le => .ok (.int (b2i (decide (a ≤ b))))
  | .gt => .ok (.int (b2i (decide (b < a))))
  | .ge => .ok (.int (b2i (decide (b ≤ a))))
  | .lor => .ok (.int (if a = 0 then b else a))
  | .land => .ok (.int (if a = 0 then 0 else b))
  | .xor => .ok (.int (a ^^^ b))
  | .band => .ok (.int (a &&& b))
  | .bor => .ok (.int (a ||| b))
  | .shl => .ok (.int (a.toUInt32 <<< shiftRhs b).toInt32)
  | .shr => .ok (.int (a >>> (shiftRhs b).toInt32))
  | .ushr => .ok (.int (a.toUInt32 >>> shiftRhs b).toInt32)

def binopFloat (F : FloatOps) (op : BinOp) (a b : UInt32) : Outcome Value :=
  match op with
  | .add => .ok (.float (F.add a b))
  | .sub => .ok (.float (F.sub a b))
  | .mul => .ok (.float (F.mul a b))
  | .div => .ok (.float (F.div a b))
  | .rem => .ok (.float (F.rem a b))
  | .eq => .ok (.int (b2i (F.eq a b)))
  | .ne => .ok (.int (b2i (!F.eq a b)))
  | .lt => .ok (.int (b2i (F.lt a b)))
  | .le => .ok (.int (b2i (F.le a b)))
  | .gt => .ok (.int (b2i (F.lt b a)))
  | .ge => .ok (.int (b2i (F.le b a)))
  | _ => .panic typeErrorSite

def binop (F : FloatOps) (op : BinOp) (a b : Value) : Outcome Value :=
  match a, b with
  | .int a, .int b => binopInt op a b
  | .float a, .float b => binopFloat F op a b
  | _, _ => .panic typeErrorSite

def mathIndex : UnOp → Option Nat
  | .sin => some 0 | .cos => some 1 | .tan => some 2 | .asin => some 3
  | .acos => some 4 | .atan => some 5 | .sqrt => some 6
  | _ => none

/-- `UnOpKind::const_eval`: `none` is Rust's `None` ("cannot be folded": the sigil operators). -/
def unop (F : FloatOps) (op : UnOp) (b : Value) : Outcome (Option Value) :=
  match b with
  | .int x =>
    match op with
    | .neg => .ok (some (.int (-x)))
    | .not => .ok (some (.int (b2i (x == 0))))
    | .bnot => .ok (some (.int (~~~x)))
    | .sin | .cos | .tan | .asin | .acos | .atan | .sqrt => .panic typeErrorSite
    | .castI => .ok (some (.int x))
    | .castF => .ok (some (.float (F.ofInt x)))
    | .sigI | .sigF => .ok none
  | .float x =>
    match op with
    | .neg => .ok (some (.float (F.neg x)))
    | .not | .bnot => .panic typeErrorSite
    | .sin => .ok (some (.float (F.math 0 x)))
    | .cos => .ok (some (.float (F.math 1 x)))
    | .tan => .ok (some (.float (F.math 2 x)))
    | .asin => .ok (some (.float (F.math 3 x)))
    | .acos => .ok (some (.float (F.math 4 x)))
    | .atan => .ok (some (.float (F.math 5 x)))
    | .sqrt => .ok (some (.float (F.math 6 x)))
    | .castI => .ok (some (.int (F.toInt x)))
    | .castF => .ok (some (.float x))
    | .sigI | .sigF => .ok none
  | .str _ => .panic typeErrorSite

inductive Sigil where
  | int | float
deriving Repr, DecidableEq, Inhabited

/-- `ScalarValue::cast_by_ty_sigil` -/
def castBySigil (F : FloatOps) (v : Value) : Option Sigil → Option Value
  | none => some v
  | some .int => match v with
    | .int x => some (.int x)
    | .float x => some (.int (F.toInt x))
    | .str _ => none
  | some .float => match v with
    | .int x => some (.float (F.ofInt x))
    | .float x => some (.float x)
    | .str _ => none

end TruthModel
