import TruthModel.Model.FmtExpr
/-
C08 — model of the STATEMENT layer of the pretty printer and of the parser.

* `Kind` / `Block` / `Chain` / `Stmt` mirror `ast::StmtKind`, `ast::Block`, `ast::StmtCondChain`
  and `ast::Stmt` (src/ast/mod.rs 100-440); spans, node / loop ids and the `NoInstruction`
  bookends of a block are dropped, a block is the list of its real statements.  A statement of a
  block is the pair (difficulty label, kind) — `Block.cons`.
* `printKind` / `printStmts` / `printChain` / `printStmt` / `printBlock`: the TOKENS
  `impl Format for ast::Stmt / DiffLabel / StmtKind / StmtJumpKind / StmtGoto / StmtCondChain /
  CondBlock / CallAsyncKind / Block` (src/fmt.rs 647-868) write, in order.  New lines, indentation,
  the blank lines around labels are layout (`rKind` … below).
* `pKind` / `pStmt` / `pItemsB` / `pChain`: a recursive-descent parser for the rules `Stmt`,
  `DiffLabel`, `StmtKindPhysical`, `StmtKindUnphysical` (labels), `StmtJumpKind`,
  `StmtSpecialCall`, `CallAsyncKind`, `StmtDeclarationListItem`, `CondChain`, `CondBlock`, `Block`
  of src/parse/lalrparser.lalrpop 282-461.  The statement rules are decided by `lead` (what the
  LALR automaton decides on the first one to three tokens); expressions are read by the expression
  parser of `FmtExpr` on the classified tokens (`exprAt`, `exprNCAt`, `itemsAt`).
  A body is always a braced block (`StmtOrBlock = Block`), so an `else` always belongs to the
  chain whose block was just closed.
  NOT modelled: items as statements (`const` declarations, function definitions), the
  `// time` comment of a decompiled relative time label, `--show-instr-offsets` comments.
* `rKind` / `rItems` / `rChain` / `renderStmt` / `renderBlock`: the layout — `Formatter`'s
  `next_line` / `indent` / `dedent` / `fmt_label` / `suppress_blank_line` and the
  `prev_line_was_interrupt` grouping (fmt.rs 187-201, 269-293, 747-787, 843-868) on top of the
  inline / block layout of argument lists (`FmtExpr.xblk`).  The assertion
  "Detected line break in label" of `fmt_label` is the `.panic` outcome.

Core Lean only.
-/
namespace TruthModel.FmtStmt
open TruthModel TruthModel.Fmt TruthModel.FmtExpr

/-! ## the statement AST -/

/-- `ast::AssignOpKind` -/
inductive AssignOp where
  | assign | add | sub | mul | div | rem | bitOr | bitXor | bitAnd | shl | shr | ushr
deriving DecidableEq, Repr, Inhabited

def AssignOp.text : AssignOp → List Char
  | .assign => ['='] | .add => ['+', '='] | .sub => ['-', '='] | .mul => ['*', '='] | .div => ['/', '=']
  | .rem => ['%', '='] | .bitOr => ['|', '='] | .bitXor => ['^', '='] | .bitAnd => ['&', '=']
  | .shl => ['<', '<', '='] | .shr => ['>', '>', '='] | .ushr => ['>', '>', '>', '=']

/-- `ast::CondKeyword` -/
inductive CondKw where
  | if_ | unless
deriving DecidableEq, Repr, Inhabited

def CondKw.text : CondKw → List Char
  | .if_ => ['i', 'f']
  | .unless => ['u', 'n', 'l', 'e', 's', 's']

/-- `ast::TypeKeyword` -/
inductive TypeKw where
  | int | float | string | var | void
deriving DecidableEq, Repr, Inhabited

def TypeKw.text : TypeKw → List Char
  | .int => ['i', 'n', 't'] | .float => ['f', 'l', 'o', 'a', 't'] | .string => ['s', 't', 'r', 'i', 'n', 'g']
  | .var => ['v', 'a', 'r'] | .void => ['v', 'o', 'i', 'd']

/-- `ast::StmtJumpKind`: `goto label [@ time]` or `break` -/
inductive Jump where
  | goto (dest : List Char) (time : Option Int32)
  | brk
deriving DecidableEq, Repr, Inhabited

/-- `Option<ast::CallAsyncKind>` -/
inductive Async where
  | none
  | plain
  | id (e : Expr)
deriving DecidableEq, Repr, Inhabited

mutual
/-- `ast::StmtKind` -/
inductive Kind where
  | jump (j : Jump)
  | ret (value : Option Expr)
  | condJump (kw : CondKw) (cond : Expr) (j : Jump)
  /-- `CondChain`: the first `CondBlock` and the rest of the chain -/
  | condChain (kw : CondKw) (cond : Expr) (b : Block) (rest : Chain)
  | loop (b : Block)
  | while_ (cond : Expr) (b : Block)
  | doWhile (b : Block) (cond : Expr)
  | times (clobber : Option Var) (count : Expr) (b : Block)
  | expr (e : Expr)
  | block (b : Block)
  | assign (v : Var) (op : AssignOp) (value : Expr)
  | decl (ty : TypeKw) (vars : List (Var × Option Expr))
  | callSub (atSym : Bool) (async : Async) (func : List Char) (args : Exprs)
  | label (name : List Char)
  | interrupt (e : Expr)
  | absTime (t : Int32)
  | relTime (delta : Expr)
/-- `ast::Block` without the bookends: statements with their difficulty labels -/
inductive Block where
  | nil
  | cons (diff : Option (List Char)) (k : Kind) (rest : Block)
/-- the `else` parts of `ast::StmtCondChain` -/
inductive Chain where
  | nil
  | els (b : Block)
  | elif (kw : CondKw) (cond : Expr) (b : Block) (rest : Chain)
end

deriving instance DecidableEq for Kind, Block, Chain
deriving instance Repr for Kind, Block, Chain

instance : Inhabited Kind := ⟨.jump .brk⟩
instance : Inhabited Block := ⟨.nil⟩
instance : Inhabited Chain := ⟨.nil⟩

/-- `ast::Stmt` -/
structure Stmt where
  diff : Option (List Char)
  kind : Kind
deriving DecidableEq, Repr, Inhabited

/-- `StmtKindPhysical`: what may carry a difficulty label (everything but the three label kinds
that are `StmtKindUnphysical`) -/
def Kind.isPhysical : Kind → Bool
  | .label _ | .absTime _ | .relTime _ => false
  | _ => true

/-! ## tokens -/

def tLbrace : Tok := .punct ['{']
def tRbrace : Tok := .punct ['}']
def tSemi : Tok := .punct [';']
def tPlus : Tok := .punct ['+']
def tReturn : Tok := .word ['r', 'e', 't', 'u', 'r', 'n']
def tElse : Tok := .word ['e', 'l', 's', 'e']
def tDo : Tok := .word ['d', 'o']
def tWhile : Tok := .word ['w', 'h', 'i', 'l', 'e']
def tTimes : Tok := .word ['t', 'i', 'm', 'e', 's']
def tLoop : Tok := .word ['l', 'o', 'o', 'p']
def tGoto : Tok := .word ['g', 'o', 't', 'o']
def tBreak : Tok := .word ['b', 'r', 'e', 'a', 'k']
def tInterrupt : Tok := .word ['i', 'n', 't', 'e', 'r', 'r', 'u', 'p', 't']
def tAsync : Tok := .word ['a', 's', 'y', 'n', 'c']

def AssignOp.tok (op : AssignOp) : Tok := .punct op.text
def CondKw.tok (k : CondKw) : Tok := .word k.text
def TypeKw.tok (k : TypeKw) : Tok := .word k.text

def braces (ts : List Tok) : List Tok := tLbrace :: (ts ++ [tRbrace])

/-- `impl Format for ast::StmtJumpKind / StmtGoto`; the time is written by `Display for i32` -/
def jumpToks : Jump → List Tok
  | .goto d none => [tGoto, .word d]
  | .goto d (some t) => tGoto :: .word d :: tAt :: numToks (printI32 t)
  | .brk => [tBreak]

/-- `impl Format for ast::DiffLabel`: `{"ENH"}:` -/
def diffToks : Option (List Char) → List Tok
  | none => []
  | some s => [tLbrace, .str (escapeString s), tRbrace, tColon]

/-- the variables of a declaration: a comma between two of them, ` = value` after one -/
def declToks : List (Var × Option Expr) → List Tok
  | [] => []
  | (v, none) :: rest => varToks v ++ ((if rest.isEmpty then [] else [tComma]) ++ declToks rest)
  | (v, some e) :: rest => varToks v ++ tAssign :: (printE false e ++ ((if rest.isEmpty then [] else [tComma]) ++ declToks rest))

def asyncToks : Async → List Tok
  | .none => []
  | .plain => [tAsync]
  | .id e => tAsync :: printE false e

def clobberToks : Option Var → List Tok
  | none => []
  | some v => varToks v ++ [tAssign]

mutual
/-- `impl Format for ast::StmtKind` -/
def printKind : Kind → List Tok
  | .jump j => jumpToks j ++ [tSemi]
  | .ret none => [tReturn, tSemi]
  | .ret (some e) => tReturn :: (printE false e ++ [tSemi])
  | .condJump kw c j => kw.tok :: tLp :: (printE true c ++ tRp :: (jumpToks j ++ [tSemi]))
  | .condChain kw c b rest => kw.tok :: tLp :: (printE true c ++ tRp :: (braces (printStmts b) ++ printChain rest))
  | .loop b => tLoop :: braces (printStmts b)
  | .while_ c b => tWhile :: tLp :: (printE true c ++ tRp :: braces (printStmts b))
  | .doWhile b c => tDo :: (braces (printStmts b) ++ tWhile :: tLp :: (printE true c ++ [tRp, tSemi]))
  | .times cl n b => tTimes :: tLp :: (clobberToks cl ++ (printE true n ++ tRp :: braces (printStmts b)))
  | .expr e => printE false e ++ [tSemi]
  | .block b => braces (printStmts b)
  | .assign v op e => varToks v ++ op.tok :: (printE true e ++ [tSemi])
  | .decl ty vars => ty.tok :: (declToks vars ++ [tSemi])
  | .callSub atSym as f args =>
    (if atSym then [tAt] else []) ++ .word f :: tLp :: (printArgs args ++ tRp :: (asyncToks as ++ [tSemi]))
  | .label n => [.word n, tColon]
  | .interrupt e => tInterrupt :: tLb :: (printE false e ++ [tRb, tColon])
  | .absTime t => numToks (printI32 t) ++ [tColon]
  | .relTime d => tPlus :: (printE false d ++ [tColon])
/-- the statements of `impl Format for ast::Block`, without the braces -/
def printStmts : Block → List Tok
  | .nil => []
  | .cons d k rest => diffToks d ++ (printKind k ++ printStmts rest)
/-- `impl Format for ast::StmtCondChain` after the first `CondBlock` -/
def printChain : Chain → List Tok
  | .nil => []
  | .els b => tElse :: braces (printStmts b)
  | .elif kw c b rest => tElse :: kw.tok :: tLp :: (printE true c ++ tRp :: (braces (printStmts b) ++ printChain rest))
end

/-- `fmt::stringify(&stmt)`, tokens -/
def printStmt (s : Stmt) : List Tok := diffToks s.diff ++ printKind s.kind

/-- `fmt::stringify(&block)`, tokens -/
def printBlock (b : Block) : List Tok := braces (printStmts b)

/-! ## the parser -/

/-- the terminals of the statement rules that the expression classes do not tell apart -/
inductive SK where
  | lbrace | rbrace
  | aop (op : AssignOp)
  | kReturn | kIf | kUnless | kElse | kDo | kWhile | kTimes | kLoop | kGoto | kBreak | kInterrupt | kAsync
  | ty (k : TypeKw)
  | other
deriving DecidableEq, Repr, Inhabited

def assignOpOfText (s : List Char) : Option AssignOp :=
  if s = ['='] then some .assign else if s = ['+', '='] then some .add else if s = ['-', '='] then some .sub
  else if s = ['*', '='] then some .mul else if s = ['/', '='] then some .div else if s = ['%', '='] then some .rem
  else if s = ['|', '='] then some .bitOr else if s = ['^', '='] then some .bitXor else if s = ['&', '='] then some .bitAnd
  else if s = ['<', '<', '='] then some .shl else if s = ['>', '>', '='] then some .shr
  else if s = ['>', '>', '>', '='] then some .ushr else none

def wordSK (w : List Char) : SK :=
  if w = ['r', 'e', 't', 'u', 'r', 'n'] then .kReturn else if w = ['i', 'f'] then .kIf
  else if w = ['u', 'n', 'l', 'e', 's', 's'] then .kUnless else if w = ['e', 'l', 's', 'e'] then .kElse
  else if w = ['d', 'o'] then .kDo else if w = ['w', 'h', 'i', 'l', 'e'] then .kWhile
  else if w = ['t', 'i', 'm', 'e', 's'] then .kTimes else if w = ['l', 'o', 'o', 'p'] then .kLoop
  else if w = ['g', 'o', 't', 'o'] then .kGoto else if w = ['b', 'r', 'e', 'a', 'k'] then .kBreak
  else if w = ['i', 'n', 't', 'e', 'r', 'r', 'u', 'p', 't'] then .kInterrupt else if w = ['a', 's', 'y', 'n', 'c'] then .kAsync
  else if w = ['i', 'n', 't'] then .ty .int else if w = ['f', 'l', 'o', 'a', 't'] then .ty .float
  else if w = ['s', 't', 'r', 'i', 'n', 'g'] then .ty .string else if w = ['v', 'a', 'r'] then .ty .var
  else if w = ['v', 'o', 'i', 'd'] then .ty .void else .other

def sk : Tok → SK
  | .punct s =>
    if s = ['{'] then .lbrace else if s = ['}'] then .rbrace
    else match assignOpOfText s with
      | some op => .aop op
      | none => .other
  | .word w => wordSK w
  | _ => .other

/-- class of the first token, for the expression grammar / for the statement grammar -/
def hd (toks : List Tok) : Option PTok := toks.head?.map classify
def hs (toks : List Tok) : Option SK := toks.head?.map sk

/-- the expression parser on raw tokens: what it returns, and the tokens it left -/
def exprAt (f : Nat) (toks : List Tok) : Option (Expr × List Tok) :=
  match pExpr f (toks.map classify) with
  | some (e, r) => some (e, toks.drop (toks.length - r.length))
  | none => none

/-- `ExprNoColon` (the top of the operator tower) on raw tokens -/
def exprNCAt (f : Nat) (toks : List Tok) : Option (Expr × List Tok) :=
  match pLevel f 0 (toks.map classify) with
  | some (e, r) => some (e, toks.drop (toks.length - r.length))
  | none => none

/-- the items of `ExprCallParenArgsWithPseudos` after the opening parenthesis, up to and
including the closing one -/
def itemsAt (f : Nat) (toks : List Tok) : Option ((Pseudos × Exprs) × List Tok) :=
  match pItems f (toks.map classify) with
  | some (x, r) => some (x, toks.drop (toks.length - r.length))
  | none => none

/-- `LitIntSigned`: `-` folds with `i32::wrapping_neg` -/
def pLitIntSigned (toks : List Tok) : Option (Int32 × List Tok) :=
  match toks with
  | .int s :: r =>
    match litIntUnsigned s with
    | some v => some (v, r)
    | none => none
  | t :: .int s :: r =>
    if classify t = .op .sub then
      match litIntUnsigned s with
      | some v => some (-v, r)
      | none => none
    else none
  | _ => none

/-- `StmtJumpKind` -/
def pJump (toks : List Tok) : Option (Jump × List Tok) :=
  match toks with
  | [] => none
  | t :: r =>
    if sk t = .kBreak then some (.brk, r)
    else if sk t = .kGoto then
      match r with
      | [] => none
      | d :: r1 =>
        match classify d with
        | .ident w =>
          if hd r1 = some .at then
            match pLitIntSigned r1.tail with
            | some (v, r2) => some (.goto w (some v), r2)
            | none => none
          else some (.goto w none, r1)
        | _ => none
    else none

/-- `"(" Expr ")"` -/
def pParenExpr (f : Nat) (toks : List Tok) : Option (Expr × List Tok) :=
  if hd toks = some .lp then
    match exprAt f toks.tail with
    | some (e, r) => if hd r = some .rp then some (e, r.tail) else none
    | none => none
  else none

/-- `SeparatedStrictNonempty<StmtDeclarationListItem, ",">`: `VarIdent ("=" Expr)?`, no trailing comma -/
def pDeclItems : Nat → List Tok → Option (List (Var × Option Expr) × List Tok)
  | 0, _ => none
  | f + 1, toks =>
    match toks with
    | [] => none
    | t :: r =>
      match classify t with
      | .ident w =>
        let v : Var := { sigil := none, name := .normal w }
        if hd r = some .assign then
          match exprAt f r.tail with
          | some (e, r1) =>
            if hd r1 = some .comma then
              match pDeclItems f r1.tail with
              | some (vs, r2) => some ((v, some e) :: vs, r2)
              | none => none
            else some ([(v, some e)], r1)
          | none => none
        else if hd r = some .comma then
          match pDeclItems f r.tail with
          | some (vs, r2) => some ((v, none) :: vs, r2)
          | none => none
        else some ([(v, none)], r)
      | _ => none

/-- `LocalVarTypeKeyword SeparatedStrict<..> ";"` after the keyword: `string` and `void` are
rejected ("non-const string variable", "void-typed variable"); the list may be empty -/
def pDecl (f : Nat) (k : TypeKw) (toks : List Tok) : Option (Kind × List Tok) :=
  if k = .string ∨ k = .void then none
  else if hd toks = some .semi then some (.decl k [], toks.tail)
  else
    match pDeclItems f toks with
    | some (vs, r) => if hd r = some .semi then some (.decl k vs, r.tail) else none
    | none => none

/-- `CallAsyncKind? ";"` after the argument list of an explicit sub call -/
def pAsyncTail (f : Nat) (toks : List Tok) : Option (Async × List Tok) :=
  if hs toks = some .kAsync then
    let r := toks.tail
    if hd r = some .semi then some (.plain, r.tail)
    else
      match exprNCAt f r with
      | some (e, r1) => if hd r1 = some .semi then some (.id e, r1.tail) else none
      | none => none
  else if hd toks = some .semi then some (.none, toks.tail)
  else none

/-- what the first tokens of a statement decide -/
inductive Lead where
  | ret | cond (kw : CondKw) | doW | whileW | times | loop | jump | interrupt | lbrace
  | label (w : List Char)
  | absTime (s : List Char) (neg : Bool)
  | relTime | atCall
  | decl (k : TypeKw)
  | generic
deriving DecidableEq, Repr

/-- the statement rules that are told apart by the class the first token has in the expression grammar -/
def leadByClass (t : Tok) (r : List Tok) : Lead :=
  match classify t with
  | .ident w => if hd r = some .colon then .label w else .generic
  | .int s => if hd r = some .colon then .absTime s false else .generic
  | .op b =>
    if b = .sub then
      match r with
      | .int s :: c :: _ => if classify c = .colon then .absTime s true else .generic
      | _ => .generic
    else if b = .add then .relTime
    else .generic
  | .at => .atCall
  | _ => .generic

def lead (toks : List Tok) : Lead :=
  match toks with
  | [] => .generic
  | t :: r =>
    match sk t with
    | .kReturn => .ret | .kIf => .cond .if_ | .kUnless => .cond .unless | .kDo => .doW | .kWhile => .whileW
    | .kTimes => .times | .kLoop => .loop | .kGoto => .jump | .kBreak => .jump | .kInterrupt => .interrupt
    | .lbrace => .lbrace
    -- `int(x);` is an expression statement (a cast), `int x;` a declaration
    | .ty k => if hd r = some .lp then .generic else .decl k
    | _ => leadByClass t r

def varOfExpr : Expr → Option Var
  | .var v => some v
  | _ => none

/-- the statements that begin with an expression: `ExprNoColon ";"`, `Var OpAssign Expr ";"`
and `Ident ExprCallParenArgs CallAsyncKind ";"`.  The automaton shifts the common prefix and
decides on the token after it; a `Var` / a call that is the whole prefix is recognised by the
tree and by the first token not being a parenthesis. -/
def pGeneric (f : Nat) (toks : List Tok) : Option (Kind × List Tok) :=
  match exprNCAt f toks with
  | none => none
  | some (e, r1) =>
    match r1 with
    | [] => none
    | t1 :: r2 =>
      if classify t1 = .semi then some (.expr e, r2)
      else
        match sk t1 with
        | .aop op =>
          match varOfExpr e with
          | some v =>
            if hd toks = some .lp then none
            else
              match exprAt f r2 with
              | some (val, r3) => if hd r3 = some .semi then some (.assign v op val, r3.tail) else none
              | none => none
          | none => none
        | .kAsync =>
          match e with
          | .call (.normal w) ps as =>
            if hd toks = some (.ident w) && ps.isNil then
              match pAsyncTail f r1 with
              | some (a, r3) => some (.callSub true a w as, r3)
              | none => none
            else none
          | _ => none
        | _ => none

/-- `"@" Ident ExprCallParenArgs CallAsyncKind? ";"` after the `@` -/
def pAtCall (f : Nat) (toks : List Tok) : Option (Kind × List Tok) :=
  match toks with
  | [] => none
  | n :: r1 =>
    match classify n with
    | .ident w =>
      if hd r1 = some .lp then
        match itemsAt f r1.tail with
        | some ((ps, as), r2) =>
          if ps.isNil then
            match pAsyncTail f r2 with
            | some (a, r3) => some (.callSub true a w as, r3)
            | none => none
          else none
        | none => none
      else none
    | _ => none

/-- the difficulty label in front of a statement -/
inductive DL where
  | absent
  | bad
  | present (s : List Char) (rest : List Tok)

/-- `"{" LitString "}" ":"`; a `{` followed by a string and `}` cannot start a block -/
def diffLabelAt (toks : List Tok) : DL :=
  match toks with
  | t0 :: .str s :: t2 :: r =>
    if sk t0 = .lbrace ∧ sk t2 = .rbrace then
      match parseStringLiteral s with
      | .ok x => if hd r = some .colon then .present x r.tail else .bad
      | _ => .bad
    else .absent
  | _ => .absent

mutual
/-- `StmtKind` -/
def pKind : Nat → List Tok → Option (Kind × List Tok)
  | 0, _ => none
  | f + 1, toks =>
    match lead toks with
    | .ret =>
      let r := toks.tail
      if hd r = some .semi then some (.ret none, r.tail)
      else
        match exprAt f r with
        | some (e, r1) => if hd r1 = some .semi then some (.ret (some e), r1.tail) else none
        | none => none
    | .cond kw =>
      match pParenExpr f toks.tail with
      | some (c, r2) =>
        if hs r2 = some .lbrace then
          match pItemsB f r2.tail with
          | some (b, r3) =>
            match pChain f r3 with
            | some (ch, r4) => some (.condChain kw c b ch, r4)
            | none => none
          | none => none
        else
          match pJump r2 with
          | some (j, r3) => if hd r3 = some .semi then some (.condJump kw c j, r3.tail) else none
          | none => none
      | none => none
    | .doW =>
      let r := toks.tail
      if hs r = some .lbrace then
        match pItemsB f r.tail with
        | some (b, r1) =>
          if hs r1 = some .kWhile then
            match pParenExpr f r1.tail with
            | some (c, r2) => if hd r2 = some .semi then some (.doWhile b c, r2.tail) else none
            | none => none
          else none
        | none => none
      else none
    | .whileW =>
      match pParenExpr f toks.tail with
      | some (c, r1) =>
        if hs r1 = some .lbrace then
          match pItemsB f r1.tail with
          | some (b, r2) => some (.while_ c b, r2)
          | none => none
        else none
      | none => none
    | .times =>
      let r := toks.tail
      if hd r = some .lp then
        match exprAt f r.tail with
        | some (e1, r1) =>
          if hd r1 = some .assign then
            -- `(<Sp<Var>> "=")?`
            match varOfExpr e1 with
            | some v =>
              if hd r.tail = some .lp then none
              else
                match exprAt f r1.tail with
                | some (n, r2) =>
                  if hd r2 = some .rp ∧ hs r2.tail = some .lbrace then
                    match pItemsB f r2.tail.tail with
                    | some (b, r3) => some (.times (some v) n b, r3)
                    | none => none
                  else none
                | none => none
            | none => none
          else if hd r1 = some .rp ∧ hs r1.tail = some .lbrace then
            match pItemsB f r1.tail.tail with
            | some (b, r3) => some (.times none e1 b, r3)
            | none => none
          else none
        | none => none
      else none
    | .loop =>
      let r := toks.tail
      if hs r = some .lbrace then
        match pItemsB f r.tail with
        | some (b, r1) => some (.loop b, r1)
        | none => none
      else none
    | .jump =>
      match pJump toks with
      | some (j, r) => if hd r = some .semi then some (.jump j, r.tail) else none
      | none => none
    | .interrupt =>
      let r := toks.tail
      if hd r = some .lb then
        match exprAt f r.tail with
        | some (e, r1) =>
          if hd r1 = some .rb ∧ hd r1.tail = some .colon then some (.interrupt e, r1.tail.tail) else none
        | none => none
      else none
    | .lbrace =>
      match pItemsB f toks.tail with
      | some (b, r) => some (.block b, r)
      | none => none
    | .label w => some (.label w, toks.tail.tail)
    | .absTime s neg =>
      match litIntUnsigned s with
      | some v => if neg then some (.absTime (-v), toks.tail.tail.tail) else some (.absTime v, toks.tail.tail)
      | none => none
    | .relTime =>
      match exprNCAt f toks.tail with
      | some (e, r) => if hd r = some .colon then some (.relTime e, r.tail) else none
      | none => none
    | .atCall => pAtCall f toks.tail
    | .decl k => pDecl f k toks.tail
    | .generic => pGeneric f toks
/-- `Stmt`: an optional difficulty label, which only a `StmtKindPhysical` may carry -/
def pStmt : Nat → List Tok → Option ((Option (List Char) × Kind) × List Tok)
  | 0, _ => none
  | f + 1, toks =>
    match diffLabelAt toks with
    | .bad => none
    | .present s r =>
      match pKind f r with
      | some (k, r2) => if k.isPhysical then some ((some s, k), r2) else none
      | none => none
    | .absent =>
      match pKind f toks with
      | some (k, r2) => some ((none, k), r2)
      | none => none
/-- `Sp<Stmt>* "}"` -/
def pItemsB : Nat → List Tok → Option (Block × List Tok)
  | 0, _ => none
  | f + 1, toks =>
    if hs toks = some .rbrace then some (.nil, toks.tail)
    else
      match pStmt f toks with
      | some ((d, k), r) =>
        match pItemsB f r with
        | some (b, r2) => some (.cons d k b, r2)
        | none => none
      | none => none
/-- `("else" CondBlock)* ("else" Block)?` -/
def pChain : Nat → List Tok → Option (Chain × List Tok)
  | 0, _ => none
  | f + 1, toks =>
    if hs toks = some .kElse then
      let r := toks.tail
      if hs r = some .lbrace then
        match pItemsB f r.tail with
        | some (b, r2) => some (.els b, r2)
        | none => none
      else
        let kw? : Option CondKw := if hs r = some .kIf then some .if_ else if hs r = some .kUnless then some .unless else none
        match kw? with
        | some kw =>
          match pParenExpr f r.tail with
          | some (c, r2) =>
            if hs r2 = some .lbrace then
              match pItemsB f r2.tail with
              | some (b, r3) =>
                match pChain f r3 with
                | some (ch, r4) => some (.elif kw c b ch, r4)
                | none => none
              | none => none
            else none
          | none => none
        | none => none
    else some (.nil, toks)
end

def stmtFuel (toks : List Tok) : Nat := 40 * toks.length + 60

/-- `parse::<ast::Stmt>` on a token list: the whole input is one statement -/
def parseStmtFuel (fuel : Nat) (toks : List Tok) : Option Stmt :=
  match pStmt fuel toks with
  | some ((d, k), []) => some { diff := d, kind := k }
  | _ => none

def parseStmt (toks : List Tok) : Option Stmt := parseStmtFuel (stmtFuel toks) toks

/-- `parse::<ast::Block>` on a token list -/
def parseBlockFuel (fuel : Nat) (toks : List Tok) : Option Block :=
  if hs toks = some .lbrace then
    match pItemsB fuel toks.tail with
    | some (b, []) => some b
    | _ => none
  else none

def parseBlock (toks : List Tok) : Option Block := parseBlockFuel (stmtFuel toks) toks

def parseStmtText (s : List Char) : Option Stmt :=
  match lex s with
  | (toks, .eof) => parseStmt toks
  | _ => none

def parseBlockText (s : List Char) : Option Block :=
  match lex s with
  | (toks, .eof) => parseBlock toks
  | _ => none

/-! ## what a printed statement reads back as -/

def normAsync : Async → Async
  | .none => .none
  | .plain => .plain
  | .id e => .id (norm e)

def normDecl : List (Var × Option Expr) → List (Var × Option Expr)
  | [] => []
  | (v, none) :: rest => (v, none) :: normDecl rest
  | (v, some e) :: rest => (v, some (norm e)) :: normDecl rest

mutual
/-- expressions in their normal form (`FmtExpr.norm`); an explicit sub call always reads back
with `at_symbol: true` (both rules of `StmtSpecialCall` set it) -/
def normK : Kind → Kind
  | .jump j => .jump j
  | .ret none => .ret none
  | .ret (some e) => .ret (some (norm e))
  | .condJump kw c j => .condJump kw (norm c) j
  | .condChain kw c b rest => .condChain kw (norm c) (normB b) (normC rest)
  | .loop b => .loop (normB b)
  | .while_ c b => .while_ (norm c) (normB b)
  | .doWhile b c => .doWhile (normB b) (norm c)
  | .times cl n b => .times cl (norm n) (normB b)
  | .expr e => .expr (norm e)
  | .block b => .block (normB b)
  | .assign v op e => .assign v op (norm e)
  | .decl ty vars => .decl ty (normDecl vars)
  | .callSub _ as f args => .callSub true (normAsync as) f (normAs args)
  | .label n => .label n
  | .interrupt e => .interrupt (norm e)
  | .absTime t => .absTime t
  | .relTime d => .relTime (norm d)
def normB : Block → Block
  | .nil => .nil
  | .cons d k rest => .cons d (normK k) (normB rest)
def normC : Chain → Chain
  | .nil => .nil
  | .els b => .els (normB b)
  | .elif kw c b rest => .elif kw (norm c) (normB b) (normC rest)
end

def normS (s : Stmt) : Stmt := { diff := s.diff, kind := normK s.kind }

/-! ## the shapes on which print-then-parse is claimed

`OKK k`: every embedded expression satisfies `FmtExpr.NoGlue`; labels, jump targets and the names
of explicit sub calls are identifier tokens; a declaration has a type a local may have and declares
plain identifiers (`VarIdent`); an explicit sub call has `@` or `async` (otherwise it is an
expression statement); the delta of a relative time label does not begin with `++` (`+` `++x`
is lexed `++` `+` `x`: the open finding "plus-before-plus"); a difficulty label sits on a
`StmtKindPhysical`. -/

def jumpOK : Jump → Bool
  | .goto d _ => identOK d
  | .brk => true

def asyncOK : Async → Bool
  | .id e => NoGlue e
  | _ => true

def declVarOK (v : Var) : Bool :=
  match v.sigil, v.name with
  | none, .normal w => identOK w
  | _, _ => false

def declOK : List (Var × Option Expr) → Bool
  | [] => true
  | (v, none) :: rest => declVarOK v && declOK rest
  | (v, some e) :: rest => declVarOK v && NoGlue e && declOK rest

/-- the printed text of the expression begins with `+` -/
def startsPlus : Expr → Bool
  | .xcrement true true _ => true
  | _ => false

mutual
def OKK : Kind → Bool
  | .jump j => jumpOK j
  | .ret none => true
  | .ret (some e) => NoGlue e
  | .condJump _ c j => NoGlue c && jumpOK j
  | .condChain _ c b rest => NoGlue c && OKB b && OKC rest
  | .loop b => OKB b
  | .while_ c b => NoGlue c && OKB b
  | .doWhile b c => OKB b && NoGlue c
  | .times cl n b => (match cl with | none => true | some v => varOK v) && NoGlue n && OKB b
  | .expr e => NoGlue e
  | .block b => OKB b
  | .assign v _ e => varOK v && NoGlue e
  | .decl ty vars => (ty == .int || ty == .float || ty == .var) && declOK vars
  | .callSub atSym as f args => identOK f && NoGlueAs args && asyncOK as && (atSym || as != .none)
  | .label n => identOK n
  | .interrupt e => NoGlue e
  | .absTime _ => true
  | .relTime d => NoGlue d && !startsPlus d
def OKB : Block → Bool
  | .nil => true
  | .cons d k rest => (d.isNone || k.isPhysical) && OKK k && OKB rest
def OKC : Chain → Bool
  | .nil => true
  | .els b => OKB b
  | .elif _ c b rest => NoGlue c && OKB b && OKC rest
end

def OKS (s : Stmt) : Bool := (s.diff.isNone || s.kind.isPhysical) && OKK s.kind

/-! ## layout -/

/-- `Formatter` state beyond the current line: `suppress_blank_line` and
`state.prev_line_was_interrupt`; `pending_data` is `!l.fresh` -/
structure FSt where
  l : LSt
  suppress : Bool
  prevInt : Bool
deriving Repr

def FSt.init : FSt := { l := LSt.init, suppress := false, prevInt := false }

/-- a run of plain writes and argument lists on the current line -/
def FSt.docs (tw : Nat) (ds : XDocs) (st : FSt) : FSt := { st with l := xblkSeq tw ds st.l }

def FSt.tok (t : Tok) (st : FSt) : FSt := { st with l := xw st.l (.tok (tokChars t)) }

/-- `next_line` (fmt.rs 269-293) outside inline mode -/
def FSt.nextLine (st : FSt) : FSt :=
  if st.suppress && st.l.fresh then { st with suppress := false }
  else { st with l := st.l.newline, prevInt := false }

def nlCount (ps : List Piece) : Nat := (ps.filter (· == .nl)).length

def labelPanic : String := "Detected line break in label. This is a bug!"

/-- `fmt_label` (fmt.rs 187-201): flush with the margin and followed by a line break at the
start of a line, otherwise inline and followed by a space.  In the first case a line break inside
the label (an argument list that does not fit) trips the assertion. -/
def FSt.label (tw : Nat) (ds : XDocs) (st : FSt) : Outcome FSt :=
  if st.l.fresh then
    let l1 := xblkSeq tw ds { st.l with fresh := false, col := 0 }
    if nlCount l1.out = nlCount st.l.out then .ok ({ st with l := l1 }).nextLine
    else .panic labelPanic
  else .ok { st with l := xw (xblkSeq tw ds st.l) .space }

def tk (t : Tok) : XDoc := .tok t

def XDocs.ofList : List XDoc → XDocs
  | [] => .nil
  | d :: r => .cons d (XDocs.ofList r)

def jumpDocs : Jump → XDocs
  | .goto d none => XDocs.ofList [tk tGoto, .sp, tk (.word d)]
  | .goto d (some t) => (XDocs.ofList [tk tGoto, .sp, tk (.word d), .sp, tk tAt, .sp]).append (XDocs.ofToks (numToks (printI32 t)))
  | .brk => XDocs.ofList [tk tBreak]

/-- `(diff_label, "  ")` -/
def diffDocs : Option (List Char) → XDocs
  | none => .nil
  | some s => XDocs.ofList [tk tLbrace, tk (.str (escapeString s)), tk tRbrace, tk tColon, .sp, .sp]

def declDocs : List (Var × Option Expr) → Bool → XDocs
  | [], _ => .nil
  | (v, none) :: rest, first =>
    (if first then XDocs.nil else .cons (tk tComma) .nil).append ((XDocs.ofToks (varToks v)).append (declDocs rest false))
  | (v, some e) :: rest, first =>
    (if first then XDocs.nil else .cons (tk tComma) .nil).append ((XDocs.ofToks (varToks v)).append
      (.cons .sp (.cons (tk tAssign) (.cons .sp ((exprDocs false e).append (declDocs rest false))))))

def asyncDocs : Async → XDocs
  | .none => .nil
  | .plain => XDocs.ofList [.sp, tk tAsync]
  | .id e => .cons .sp (.cons (tk tAsync) (.cons .sp (exprDocs false e)))

def clobberDocs : Option Var → XDocs
  | none => .nil
  | some v => (XDocs.ofToks (varToks v)).append (XDocs.ofList [.sp, tk tAssign, .sp])

/-- `kw (cond) ` -/
def condDocs (kw : Tok) (c : Expr) : XDocs :=
  .cons (tk kw) (.cons .sp (.cons (tk tLp) ((exprDocs true c).append (XDocs.ofList [tk tRp, .sp]))))

/-- `{`, line break, indent -/
def FSt.openB (st : FSt) : FSt :=
  let s1 := (st.tok tLbrace).nextLine
  { s1 with l := { s1.l with indent := s1.l.indent + 4 } }

/-- dedent, `}` -/
def FSt.closeB (st : FSt) : FSt :=
  ({ st with l := { st.l with indent := st.l.indent - 4 } }).tok tRbrace

mutual
/-- `impl Format for ast::StmtKind` -/
def rKind (tw : Nat) : Kind → FSt → Outcome FSt
  | .jump j, st => .ok (st.docs tw ((jumpDocs j).append (.cons (tk tSemi) .nil)))
  | .ret none, st => .ok (st.docs tw (XDocs.ofList [tk tReturn, tk tSemi]))
  | .ret (some e), st => .ok (st.docs tw (.cons (tk tReturn) (.cons .sp ((exprDocs false e).append (.cons (tk tSemi) .nil)))))
  | .condJump kw c j, st => .ok (st.docs tw ((condDocs kw.tok c).append ((jumpDocs j).append (.cons (tk tSemi) .nil))))
  | .condChain kw c b rest, st =>
    match rItems tw b (st.docs tw (condDocs kw.tok c)).openB with
    | .ok st1 => rChain tw rest st1.closeB
    | other => other
  | .loop b, st =>
    match rItems tw b (st.docs tw (XDocs.ofList [tk tLoop, .sp])).openB with
    | .ok st1 => .ok st1.closeB
    | other => other
  | .while_ c b, st =>
    match rItems tw b (st.docs tw (condDocs tWhile c)).openB with
    | .ok st1 => .ok st1.closeB
    | other => other
  | .doWhile b c, st =>
    match rItems tw b (st.docs tw (XDocs.ofList [tk tDo, .sp])).openB with
    | .ok st1 =>
      .ok (st1.closeB.docs tw (.cons .sp (.cons (tk tWhile) (.cons .sp (.cons (tk tLp)
        ((exprDocs true c).append (XDocs.ofList [tk tRp, tk tSemi])))))))
    | other => other
  | .times cl n b, st =>
    match rItems tw b (st.docs tw (.cons (tk tTimes) (.cons (tk tLp)
        ((clobberDocs cl).append ((exprDocs true n).append (XDocs.ofList [tk tRp, .sp])))))).openB with
    | .ok st1 => .ok st1.closeB
    | other => other
  | .expr e, st => .ok (st.docs tw ((exprDocs false e).append (.cons (tk tSemi) .nil)))
  | .block b, st =>
    match rItems tw b st.openB with
    | .ok st1 => .ok st1.closeB
    | other => other
  | .assign v op e, st =>
    .ok (st.docs tw ((XDocs.ofToks (varToks v)).append (.cons .sp (.cons (tk op.tok) (.cons .sp
      ((exprDocs true e).append (.cons (tk tSemi) .nil)))))))
  | .decl ty vars, st => .ok (st.docs tw (.cons (tk ty.tok) (.cons .sp ((declDocs vars true).append (.cons (tk tSemi) .nil)))))
  | .callSub atSym as f args, st =>
    .ok (st.docs tw ((if atSym then XDocs.cons (tk tAt) .nil else .nil).append
      (.cons (tk (.word f)) (.cons (.args (argDocs args)) ((asyncDocs as).append (.cons (tk tSemi) .nil))))))
  | .label n, st =>
    match st.label tw (XDocs.ofList [tk (.word n), tk tColon]) with
    | .ok st1 => .ok { st1 with suppress := true }
    | other => other
  | .interrupt e, st =>
    let st0 := if st.prevInt then st else st.nextLine
    match st0.label tw (.cons (tk tInterrupt) (.cons (tk tLb) ((exprDocs false e).append (XDocs.ofList [tk tRb, tk tColon])))) with
    | .ok st1 => .ok { st1 with suppress := true, prevInt := true }
    | other => other
  | .absTime t, st =>
    match st.label tw ((XDocs.ofToks (numToks (printI32 t))).append (.cons (tk tColon) .nil)) with
    | .ok st1 => .ok { st1 with suppress := true }
    | other => other
  | .relTime d, st =>
    match st.label tw (.cons (tk tPlus) ((exprDocs false d).append (.cons (tk tColon) .nil))) with
    | .ok st1 => .ok { st1 with suppress := true }
    | other => other
/-- the loop of `impl Format for ast::Block`: statement, `next_line` -/
def rItems (tw : Nat) : Block → FSt → Outcome FSt
  | .nil, st => .ok st
  | .cons d k rest, st =>
    match rKind tw k (st.docs tw (diffDocs d)) with
    | .ok st1 => rItems tw rest st1.nextLine
    | other => other
def rChain (tw : Nat) : Chain → FSt → Outcome FSt
  | .nil, st => .ok st
  | .els b, st =>
    match rItems tw b (st.docs tw (XDocs.ofList [.sp, tk tElse, .sp])).openB with
    | .ok st1 => .ok st1.closeB
    | other => other
  | .elif kw c b rest, st =>
    match rItems tw b (st.docs tw (.cons .sp (.cons (tk tElse) (.cons .sp (condDocs kw.tok c))))).openB with
    | .ok st1 => rChain tw rest st1.closeB
    | other => other
end

/-- `stringify_with(&stmt, Config::new().max_columns(w))` as pieces: `target_width = w - 1` -/
def renderStmtPieces (w : Nat) (s : Stmt) : Outcome (List Piece) :=
  match rKind (w - 1) s.kind (FSt.init.docs (w - 1) (diffDocs s.diff)) with
  | .ok st => .ok st.l.out
  | .err c => .err c
  | .panic p => .panic p

/-- `stringify_with(&block, ..)` -/
def renderBlockPieces (w : Nat) (b : Block) : Outcome (List Piece) :=
  match rItems (w - 1) b FSt.init.openB with
  | .ok st => .ok st.closeB.l.out
  | .err c => .err c
  | .panic p => .panic p

def piecesText (ps : List Piece) : List Char := ps.flatMap Piece.chars

def renderStmt (w : Nat) (s : Stmt) : Outcome (List Char) :=
  match renderStmtPieces w s with
  | .ok ps => .ok (piecesText ps)
  | .err c => .err c
  | .panic p => .panic p

def renderBlock (w : Nat) (b : Block) : Outcome (List Char) :=
  match renderBlockPieces w b with
  | .ok ps => .ok (piecesText ps)
  | .err c => .err c
  | .panic p => .panic p

end TruthModel.FmtStmt
