import TruthModel.Model.Diff
/-
C14, decompile direction — `recognize_diff_switch` (src/llir/raise/recognize.rs) and what surrounds it:
`SingleSubRaiser::perform_recognition` (the loop that tries the fold at every position),
`diff_switchify_parts`, `DiffSwitchMeta::switch_from_explicit_cases` (src/diff_switch_utils.rs),
`bitmask_bits_are_contiguous`, and the last pass `raise_middle_to_ast` / `_raise_instr`
(src/llir/raise/late.rs) as far as it decides which statements come out and with which difficulty
label (`make_stmt` / `make_diff_label`, src/llir/raise.rs), including the `fallback_expansion` path.

Input: the instructions of one script *as the raiser sees them after `early_raise_instrs`*:
time, difficulty byte, "an offset label sits in front of this instruction" (it is the target of a
jump), the kind early raising gave it (`RaiseIntrinsicKind::Instruction`, or a single-instruction
intrinsic `Standard(k)`; one intrinsic kind belongs to one opcode in every built-in table, so the
opcode stands for `k`), the parts that cannot become a switch (`outputs`, `jump`, `sub_id`, `pseudos`,
`pseudo_blob`: compared with `check_eq!`) and the decoded `plain_args` as 32-bit patterns (floats by
their bits; which positions hold floats is part of the configuration, it is the ABI of the opcode).

Not in this model: `recognize_double_instr_intrinsic` (cmp + conditional jump of EoSD) and
`recognize_reg_call`, which `perform_recognition` tries before / after the difficulty fold; the `End`
pseudo-instruction (kind `End` never equals the kind of an instruction, so it ends every run exactly
like the end of the list does); `Blob` instructions (no `plain_args`, hence never folded).  The `ins_`
fallback of a single intrinsic without statement syntax is printed from `args` alone (exact for the
intrinsics concerned here, `CondJmp2A`: all its arguments are plain arguments).
-/
namespace TruthModel.DiffRaise
open TruthModel TruthModel.Diff

inductive Kind where
  | ins      -- `RaiseIntrinsicKind::Instruction`: printed as `ins_N(args)`
  | intr     -- `RaiseIntrinsicKind::Standard(k)`, `k` determined by the opcode
deriving DecidableEq, Repr, Inhabited

/-- what the binary holds for one instruction (plus the label flag) -/
structure Raw where
  time : Int32
  opcode : Nat
  mask : Mask
  label : Bool
  fixed : List Int32
  args : List Int32
deriving DecidableEq, Repr, Inhabited

/-- `RaiseInstr` as produced by `early_raise_instrs` -/
structure RInstr where
  time : Int32
  opcode : Nat
  mask : Mask
  label : Bool
  kind : Kind
  fixed : List Int32
  args : List Int32
deriving DecidableEq, Repr, Inhabited

def RInstr.raw (i : RInstr) : Raw :=
  { time := i.time, opcode := i.opcode, mask := i.mask, label := i.label, fixed := i.fixed, args := i.args }

/-- an argument of a decompiled statement: a value or `(a : b : : d)` -/
inductive RArg where
  | one (v : Int32)
  | sw (cases : List (Option Int32))
deriving DecidableEq, Repr, Inhabited

/-- a decompiled statement (`ast::Stmt` with its `diff_label`), before the label text is made -/
structure RStmt where
  time : Int32
  label : Bool
  mask : Mask
  kind : Kind
  opcode : Nat
  fixed : List Int32
  args : List RArg
deriving DecidableEq, Repr, Inhabited

structure Cfg where
  defs : Defs
  /-- ABI: `plain_args[pos]` of this opcode is a float (`ast::Expr::LitFloat`) -/
  isFloat : Nat → Nat → Bool
  /-- the intrinsic of this opcode has statement syntax (`try_raise_intrinsic` succeeds); false for
  `CondJmp2A`, `CondJmp2B`, `CallReg` -/
  raisable : Nat → Bool

/-! ## equality of decoded arguments (`same_value` in `diff_switchify_parts`) -/

/-- `same_value`: `(LitFloat a, LitFloat b) => a.to_bits() == b.to_bits()`, everything else (`LitInt { value,
format }`, the format comes from the ABI) by the derived `==`.  On bit patterns both arms are equality of
the dword: `0.0` and `-0.0` are different values, a NaN equals itself.  (Before commit b717bca the float arm
was `f32 ==`, which took a column `0.0 / -0.0` for constant: former finding
`diff-switch-fold-merges-signed-float-zeros`.) -/
def valEq (cfg : Cfg) (op pos : Nat) (a b : Int32) : Bool :=
  if cfg.isFloat op pos then a.toBitVec == b.toBitVec else a == b

/-! ## the gathering loop of `recognize_diff_switch` -/

/-- `this_full_mask ^ (this_full_mask & aux_bits)` -/
def diffPart (d : Defs) (m : Mask) : Mask := m ^^^ (m &&& auxBits d)

/-- `BitSet32::first` -/
def firstBit (m : Mask) : Option Nat := (bitsOf m).head?

/-- `bitmask_bits_are_contiguous`: `last + 1 - first == len`.  Its `assert!(!mask.is_empty())` is not
reachable: the only caller evaluates it after `first() == Some(next_difficulty)` (see
`C14.firstBit_some_nonempty`). -/
def contiguousBits (m : Mask) : Bool :=
  match (bitsOf m).head?, (bitsOf m).getLast? with
  | some f, some l => l + 1 - f == (bitsOf m).length
  | _, _ => false

/-- `this_kind != &instrs[0].kind` -/
def sameKind (a b : RInstr) : Bool :=
  a.kind == b.kind && (a.kind == .ins || a.opcode == b.opcode)

/-- one gathered instruction: `explicit_difficulties.insert(start)`, `next_difficulty = stop` after it -/
structure Rung where
  start : Nat
  stop : Nat
  instr : RInstr
deriving Repr, DecidableEq

/-- the `for instr in instrs` loop; `next` = `next_difficulty`, `n` = `explicit_parts.len()`.
Every `break` ends the list. -/
def gather (d : Defs) (first : RInstr) : List RInstr → Nat → Nat → List Rung
  | [], _, _ => []
  | i :: rest, next, n =>
    -- `&this_aux_mask != first_aux_mask.get_or_insert(this_aux_mask)`
    if i.mask &&& auxBits d != first.mask &&& auxBits d then []
    -- label after first instruction
    else if decide (0 < n) && i.label then []
    -- "combo breakers"
    else if !sameKind i first || i.time != first.time then []
    -- no holes in the difficulties (`this_diff_mask` = `diffPart d i.mask`)
    else if !(firstBit (diffPart d i.mask) == some next && contiguousBits (diffPart d i.mask)) then []
    else { start := next, stop := next + (bitsOf (diffPart d i.mask)).length, instr := i } ::
      gather d first rest (next + (bitsOf (diffPart d i.mask)).length) (n + 1)

/-- `num_difficulties`: `next_difficulty` after the loop -/
def numDifficulties (rs : List Rung) : Nat :=
  match rs.getLast? with
  | some r => r.stop
  | none => 0

/-- `explicit_difficulties` -/
def explicitMask (rs : List Rung) : Mask := rs.foldl (fun m r => setBit m r.start true) 0#8

/-! ## `diff_switchify_parts` -/

/-- `switch_from_explicit_cases`: `out = vec![None; num]; for (difficulty, value) in
zip(explicit_difficulties, cases) { out[difficulty] = Some(value) }` (the explicit difficulties are all
below `num` and as many as the cases: `C14.gather_chain`) -/
def switchFromExplicit {α} (num : Nat) (explicit : Mask) (cases : List α) : List (Option α) :=
  (List.range num).map fun d => ((bitsOf explicit).zip cases).lookup d

/-- the `check_eq!`s: `outputs`, `jump`, `sub_id`, `pseudos`, `pseudo_blob` (= `fixed`), `opcode`
(`Some(op)` for `Instruction`, `None` for intrinsics) and the number of plain arguments -/
def partsAgree (first i : RInstr) : Bool :=
  i.fixed == first.fixed && (first.kind == .intr || i.opcode == first.opcode) && i.args.length == first.args.length

/-- `explicit_plain_args_by_index[k]` -/
def column (rs : List Rung) (k : Nat) : List Int32 := rs.map fun r => r.instr.args.getD k 0

/-- `to_diff_switch_or_scalar` -/
def switchOrScalar (cfg : Cfg) (op : Nat) (num : Nat) (explicit : Mask) (k : Nat) (col : List Int32) : RArg :=
  -- `explicit_cases.iter().all(|case| case == first_case)`
  if col.all (fun c => valEq cfg op k c (col.headD 0)) then .one (col.headD 0)
  else .sw (switchFromExplicit num explicit col)

def RArg.isSw : RArg → Bool | .sw _ => true | .one _ => false

/-- `compressed_plain_args` -/
def foldedArgs (cfg : Cfg) (first : RInstr) (rs : List Rung) : List RArg :=
  (List.range first.args.length).map fun k =>
    switchOrScalar cfg first.opcode (numDifficulties rs) (explicitMask rs) k (column rs k)

def switchifyParts (cfg : Cfg) (first : RInstr) (rs : List Rung) : Option (List RArg) :=
  if !rs.all (fun r => partsAgree first r.instr) then none
  else
    -- "the file contains variants for each difficulty but they're all identical"
    if !(foldedArgs cfg first rs).any RArg.isSw then none else some (foldedArgs cfg first rs)

/-- `recognize_diff_switch`: the folded statement and the instructions it replaces -/
def recognizeDiffSwitch (cfg : Cfg) : List RInstr → Option (RStmt × List RInstr)
  | a :: b :: rest =>
    if !sameKind a b || a.time != b.time || a.mask == 0xFF#8 then none
    -- one case does not a diff switch make
    else if (gather cfg.defs a (a :: b :: rest) 0 0).length < 2 then none
    -- values up to at least Lunatic
    else if numDifficulties (gather cfg.defs a (a :: b :: rest) 0 0) < 4 then none
    else match switchifyParts cfg a (gather cfg.defs a (a :: b :: rest) 0 0) with
      | none => none
      | some args => some (
          { time := a.time, label := a.label, kind := a.kind, opcode := a.opcode, fixed := a.fixed, args := args
            -- same aux bits as the original instructions, all difficulty bits filled
            mask := (a.mask &&& auxBits cfg.defs) ||| diffBits cfg.defs },
          (gather cfg.defs a (a :: b :: rest) 0 0).map (·.instr))
  | _ => none

/-! ## `perform_recognition` and the last pass -/

/-- a `RaiseInstr` after recognition: untouched, or a fold with its `fallback_expansion` -/
inductive Item where
  | plain (i : RInstr)
  | folded (s : RStmt) (rungs : List RInstr)
deriving Repr, DecidableEq

/-- the instructions an item stands for -/
def Item.covers : Item → List RInstr
  | .plain i => [i]
  | .folded _ rungs => rungs

def Item.time : Item → Int32
  | .plain i => i.time
  | .folded s _ => s.time

/-- `perform_recognition` with `options.diff_switches`; `fuel` = number of instructions left is enough
(every step consumes at least one) -/
def performGo (cfg : Cfg) : Nat → List RInstr → List Item
  | 0, _ => []
  | _, [] => []
  | fuel + 1, i :: rest =>
    match recognizeDiffSwitch cfg (i :: rest) with
    | some (s, rungs) => .folded s rungs :: performGo cfg fuel ((i :: rest).drop rungs.length)
    | none => .plain i :: performGo cfg fuel rest

def performRecognition (cfg : Cfg) (is : List RInstr) : List Item := performGo cfg is.length is

def plainStmt (i : RInstr) : RStmt :=
  { time := i.time, label := i.label, mask := i.mask, kind := i.kind, opcode := i.opcode, fixed := i.fixed,
    args := i.args.map .one }

/-- does `try_raise_intrinsic` succeed for this kind? -/
def canRaise (cfg : Cfg) (k : Kind) (op : Nat) : Bool := k == .ins || cfg.raisable op

/-- `raise_middle_to_ast` for one item.  An intrinsic without statement syntax falls back to its
`fallback_expansion`: the `ins_` form of the instruction itself, or - for a folded statement - the
gathered instructions.  Every statement of a fallback carries the difficulty mask of the instruction
it is printed for (`cur_difficulty_mask`, set at the start of `_raise_instr`; before commit b717bca it
was the mask of the outer instruction: former finding
`diff-switch-fold-of-unraisable-intrinsic-loses-difficulty`); offset labels are emitted once, for the
outer instruction, before the first. -/
def render (cfg : Cfg) : Item → List RStmt
  | .plain i => if canRaise cfg i.kind i.opcode then [plainStmt i] else [{ plainStmt i with kind := .ins }]
  | .folded s rungs =>
    if canRaise cfg s.kind s.opcode then [s]
    else match rungs.map fun r => { plainStmt r with kind := .ins, label := false } with
      | [] => []
      | st :: sts => { st with label := s.label } :: sts

/-- raw instructions of a script -> statements of the decompiled script -/
def recognize (cfg : Cfg) (is : List RInstr) : List RStmt := (performRecognition cfg is).flatMap (render cfg)

/-! ## the difficulty label text, and compiling a statement back -/

/-- `make_diff_label`: no label for the default mask -/
def printLabel (d : Defs) (m : Mask) : Outcome (Option (List Char)) :=
  if m = 0xFF#8 then .ok none
  else match label d m with
    | .ok s => .ok (some s)
    | .err c => .err c
    | .panic s => .panic s

/-- the mask a statement gets from its label (none: every flag) -/
def readLabel (d : Defs) : Option (List Char) → Outcome Mask
  | none => .ok 0xFF#8
  | some s => parse d s

def toArg : RArg → Arg
  | .one v => .val v
  | .sw cs => .sw (cs.map (Option.map Arg.val))

/-- an offset label in front of a statement is in front of the first instruction it compiles to -/
def labelFirst (lab : Bool) : List Raw → List Raw
  | [] => []
  | r :: rest => { r with label := lab } :: rest

/-- compile one decompiled statement at this layer: the label text is printed and parsed, the
arguments go through `validate_difficulty` + `elaborate_diff_switches` (`Diff.expand`), every copy
keeps the statement's time and parts, an offset label stays in front of the first copy -/
def lowerStmt (d : Defs) (s : RStmt) : Outcome (List Raw) :=
  match printLabel d s.mask with
  | .err c => .err c
  | .panic p => .panic p
  | .ok lab => match readLabel d lab with
    | .err c => .err c
    | .panic p => .panic p
    | .ok m => match expand d m (s.args.map toArg) with
      | .err c => .err c
      | .panic p => .panic p
      | .ok copies => .ok (labelFirst s.label (copies.map fun c =>
          { time := s.time, opcode := s.opcode, mask := c.mask, label := false, fixed := s.fixed, args := c.args }))

def lowerStmts (d : Defs) : List RStmt → Outcome (List Raw)
  | [] => .ok []
  | s :: rest => match lowerStmt d s with
    | .err c => .err c
    | .panic p => .panic p
    | .ok a => match lowerStmts d rest with
      | .err c => .err c
      | .panic p => .panic p
      | .ok b => .ok (a ++ b)

end TruthModel.DiffRaise
