import TruthModel.Model.Types
/-
C04 — the front half of every `compile_from_ast` as a composition of the existing models with
their `panic` arms:

    type_check::run            `Types.checkStmts codeCfg`            (C09 model)
    evaluate_const_vars::run   `evalConst` per `const` item          (C11 model, `Expr.lean`)
    const_simplify::run        `simpE` / `simpStmts` below: the visitor of `const_simplify.rs`
                               WITH its error recovery (after a division by zero the node is left
                               alone, the error is recorded and the walk goes on; C11's `simplify`
                               stops at the first error), built from the C11 operator tables
                               `unop`, `binop`, `castBySigil`.

`run` reports the pass at which compilation stops and the class of its first diagnostic, or
`through` when the three passes succeed.  Everything after that (desugaring of blocks, lowering,
register allocation, argument encoding, file layout) is NOT part of this composition: the models
of C02/C05/C06/C12 use other program representations; for those passes only the search applies.
`validate_call_const_args` (string arguments must be literals after folding) is not modelled
either; the programs of the correspondence check have no string parameters in that position.
-/
namespace TruthModel.Pipeline
open TruthModel TruthModel.Types

/-! ## `const` items of a program, in source order -/

mutual
def constsS : Stmt → List (Nat × TExpr)
  | .constDecl x e => [(x, e)]
  | .constDecls ds => ds
  | .ite _ t e => constsSS t ++ constsSS e
  | .while_ _ b => constsSS b
  | .doWhile _ b => constsSS b
  | .loop b => constsSS b
  | .times _ _ b => constsSS b
  | .block b => constsSS b
  | .func _ b => constsSS b
  | .script b => constsSS b
  | _ => []
def constsSS : Stmts → List (Nat × TExpr)
  | .nil => []
  | .cons s ss => constsS s ++ constsSS ss
end

def lookup (ds : List (Nat × TExpr)) (n : Nat) : Option TExpr :=
  match ds with
  | [] => none
  | (m, e) :: rest => if m = n then some e else lookup rest n

/-- `defs.var_const_expr`: the initialiser of a `const` item; an initialiser containing an
instruction call has no constant value (`_const_eval` falls to its error path) -/
def defsOf (ds : List (Nat × TExpr)) (n : Nat) : Option Expr :=
  match lookup ds n with
  | some e => e.erase
  | none => none

/-- `Consts::do_deferred_evaluations`: every const in definition order, stop at the first error -/
def evalAll (F : FloatOps) (defs : Nat → Option Expr) (fuel : Nat) : List Nat → Outcome Unit
  | [] => .ok ()
  | n :: ns =>
    match evalConst F defs fuel [] n with
    | .ok _ => evalAll F defs fuel ns
    | .err c => .err c
    | .panic p => .panic p

/-- `consts.values` after `evaluate_const_vars` succeeded -/
def cacheOf (F : FloatOps) (defs : Nat → Option Expr) (fuel : Nat) : Consts := fun n =>
  match evalConst F defs fuel [] n with
  | .ok v => some v
  | _ => none

/-! ## `const_simplify::Visitor` with error recovery -/

def toConstT : TExpr → Option Value
  | .litI v => some (.int v)
  | .litF b => some (.float b)
  | .litS s => some (.str s)
  | _ => none

def ofValue : Value → TExpr
  | .int v => .litI v
  | .float b => .litF b
  | .str s => .litS s

/-- node step of `visit_expr`, children already simplified; the `Nat` counts the
`const evaluation error` diagnostics emitted at this node -/
def simpNode (F : FloatOps) (cs : Consts) : TExpr → Outcome (TExpr × Nat)
  | .var n sig =>
    match cs n with
    | some v =>
      match castBySigil F v sig with
      | some w => .ok (ofValue w, 0)
      | none => .panic "shoulda been type-checked"
    | none => .ok (.var n sig, 0)
  | .unop op b =>
    match toConstT b with
    | some bv =>
      match unop F op bv with
      | .ok (some w) => .ok (ofValue w, 0)
      | .ok none => .ok (.unop op b, 0)
      | .err _ => .ok (.unop op b, 1)
      | .panic p => .panic p
    | none => .ok (.unop op b, 0)
  | .binop op a b =>
    match toConstT a, toConstT b with
    | some av, some bv =>
      match binop F op av bv with
      | .ok w => .ok (ofValue w, 0)
      -- `const_eval_is_undefined`: `errors.set(emit(division_by_zero_error)); return;`
      | .err _ => .ok (.binop op a b, 1)
      | .panic p => .panic p
    | _, _ => .ok (.binop op a b, 0)
  | .ternary c l r =>
    match toConstT c with
    | some (.int v) => if v = 0 then .ok (r, 0) else .ok (l, 0)
    | some _ => .panic typeErrorSite
    | none => .ok (.ternary c l r, 0)
  | e => .ok (e, 0)

mutual
/-- `visit_expr`: post-order -/
def simpE (F : FloatOps) (cs : Consts) : TExpr → Outcome (TExpr × Nat)
  | .unop op e =>
    match simpE F cs e with
    | .ok (e', k) =>
      match simpNode F cs (.unop op e') with
      | .ok (r, j) => .ok (r, k + j)
      | .err c => .err c
      | .panic p => .panic p
    | .err c => .err c
    | .panic p => .panic p
  | .binop op a b =>
    match simpE F cs a with
    | .ok (a', ka) =>
      match simpE F cs b with
      | .ok (b', kb) =>
        match simpNode F cs (.binop op a' b') with
        | .ok (r, j) => .ok (r, ka + kb + j)
        | .err c => .err c
        | .panic p => .panic p
      | .err c => .err c
      | .panic p => .panic p
    | .err c => .err c
    | .panic p => .panic p
  | .ternary c l r =>
    match simpE F cs c with
    | .ok (c', kc) =>
      match simpE F cs l with
      | .ok (l', kl) =>
        match simpE F cs r with
        | .ok (r', kr) =>
          match simpNode F cs (.ternary c' l' r') with
          | .ok (x, j) => .ok (x, kc + kl + kr + j)
          | .err e => .err e
          | .panic p => .panic p
        | .err e => .err e
        | .panic p => .panic p
      | .err e => .err e
      | .panic p => .panic p
    | .err e => .err e
    | .panic p => .panic p
  | .call f args =>
    match simpArgs F cs args with
    | .ok (args', k) => .ok (.call f args', k)
    | .err c => .err c
    | .panic p => .panic p
  -- `walk_expr_mut` simplifies the cases of a difficulty switch and the pseudo-arguments and
  -- arguments of any call; the nodes themselves are left alone (`_ => return`).  A qualified enum
  -- constant would be replaced by its cached value; enum values are not part of this model, the
  -- node is left alone (the programs of the C04 correspondence contain none).
  | .diffSwitch first rest =>
    match simpE F cs first with
    | .ok (first', k) =>
      match simpCases F cs rest with
      | .ok (rest', j) => .ok (.diffSwitch first' rest', k + j)
      | .err c => .err c
      | .panic p => .panic p
    | .err c => .err c
    | .panic p => .panic p
  | .callx u f ps args =>
    match simpPseudos F cs ps with
    | .ok (ps', k) =>
      match simpArgs F cs args with
      | .ok (args', j) => .ok (.callx u f ps' args', k + j)
      | .err c => .err c
      | .panic p => .panic p
    | .err c => .err c
    | .panic p => .panic p
  | e => simpNode F cs e
def simpArgs (F : FloatOps) (cs : Consts) : TArgs → Outcome (TArgs × Nat)
  | .nil => .ok (.nil, 0)
  | .cons a as =>
    match simpE F cs a with
    | .ok (a', k) =>
      match simpArgs F cs as with
      | .ok (as', j) => .ok (.cons a' as', k + j)
      | .err c => .err c
      | .panic p => .panic p
    | .err c => .err c
    | .panic p => .panic p
def simpCases (F : FloatOps) (cs : Consts) : TCases → Outcome (TCases × Nat)
  | .nil => .ok (.nil, 0)
  | .blank rest =>
    match simpCases F cs rest with
    | .ok (rest', j) => .ok (.blank rest', j)
    | .err c => .err c
    | .panic p => .panic p
  | .case e rest =>
    match simpE F cs e with
    | .ok (e', k) =>
      match simpCases F cs rest with
      | .ok (rest', j) => .ok (.case e' rest', k + j)
      | .err c => .err c
      | .panic p => .panic p
    | .err c => .err c
    | .panic p => .panic p
def simpPseudos (F : FloatOps) (cs : Consts) : TPseudos → Outcome (TPseudos × Nat)
  | .nil => .ok (.nil, 0)
  | .cons kind e rest =>
    match simpE F cs e with
    | .ok (e', k) =>
      match simpPseudos F cs rest with
      | .ok (rest', j) => .ok (.cons kind e' rest', k + j)
      | .err c => .err c
      | .panic p => .panic p
    | .err c => .err c
    | .panic p => .panic p
end

/-- number of errors of one expression -/
def exprN (F : FloatOps) (cs : Consts) (e : TExpr) : Outcome Nat :=
  match simpE F cs e with
  | .ok (_, k) => .ok k
  | .err c => .err c
  | .panic p => .panic p

def seqN (a b : Outcome Nat) : Outcome Nat :=
  match a with
  | .ok k =>
    match b with
    | .ok j => .ok (k + j)
    | .err c => .err c
    | .panic p => .panic p
  | .err c => .err c
  | .panic p => .panic p

def optN (F : FloatOps) (cs : Consts) : Option TExpr → Outcome Nat
  | none => .ok 0
  | some e => exprN F cs e

/-- the initialisers of a multi-variable declaration, in order -/
def declsN (F : FloatOps) (cs : Consts) : List (Nat × Option TExpr) → Outcome Nat
  | [] => .ok 0
  | (_, init) :: rest => seqN (optN F cs init) (declsN F cs rest)

def constDeclsN (F : FloatOps) (cs : Consts) : List (Nat × TExpr) → Outcome Nat
  | [] => .ok 0
  | (_, e) :: rest => seqN (exprN F cs e) (constDeclsN F cs rest)

mutual
/-- `VisitMut` over a statement: every expression it contains -/
def simpStmt (F : FloatOps) (cs : Consts) : Stmt → Outcome Nat
  | .exprStmt e => exprN F cs e
  | .assign _ _ e => exprN F cs e
  | .decl _ init => optN F cs init
  | .constDecl _ e => exprN F cs e
  | .ite c t e => seqN (exprN F cs c) (seqN (simpStmts F cs t) (simpStmts F cs e))
  | .while_ c b => seqN (exprN F cs c) (simpStmts F cs b)
  | .doWhile c b => seqN (simpStmts F cs b) (exprN F cs c)
  | .loop b => simpStmts F cs b
  | .times _ count b => seqN (exprN F cs count) (simpStmts F cs b)
  | .condJump c => exprN F cs c
  | .inert => .ok 0
  | .block b => simpStmts F cs b
  | .ret e => optN F cs e
  | .func _ b => simpStmts F cs b
  | .script b => simpStmts F cs b
  | .interruptLabel e => exprN F cs e
  | .relTimeLabel e => exprN F cs e
  | .decls ds => declsN F cs ds
  | .constDecls ds => constDeclsN F cs ds
def simpStmts (F : FloatOps) (cs : Consts) : Stmts → Outcome Nat
  | .nil => .ok 0
  | .cons s ss => seqN (simpStmt F cs s) (simpStmts F cs ss)
end

/-! ## The composition -/

inductive Stop where
  | typecheck (cls : String)
  | constvars (cls : String)
  | simplify (cls : String)
  | through
deriving Repr, DecidableEq, Inhabited

def constEvalErr : String := "const evaluation error"

def run (F : FloatOps) (Γ : Ctx) (prog : Stmts) : Outcome Stop :=
  match checkStmts codeCfg Γ none prog with
  | .err c => .ok (.typecheck c)
  | .panic p => .panic p
  | .ok () =>
    let ds := constsSS prog
    let defs := defsOf ds
    let fuel := ds.length + 1
    match evalAll F defs fuel (ds.map (·.1)) with
    | .err c => .ok (.constvars c)
    | .panic p => .panic p
    | .ok () =>
      match simpStmts F (cacheOf F defs fuel) prog with
      | .ok 0 => .ok .through
      | .ok _ => .ok (.simplify constEvalErr)
      | .err c => .ok (.simplify c)
      | .panic p => .panic p

end TruthModel.Pipeline
