import TruthModel.Model.Expr
/-
C09 — model of the type checker (`src/passes/type_check.rs`) and the declarative typing rules.

* `check` / `checkArgs`        : `ExprTypeChecker::check_expr` / `check_expr_call`, arm by arm,
                                 including the order in which operands are examined (it decides
                                 which diagnostic is emitted first).
* `computeTy`                  : `ast::Expr::compute_ty` (the "cheap" second implementation that the
                                 `debug_assert_eq!` at the end of `check_expr` compares with).
* `checkStmt` / `checkStmts`   : `Visitor::visit_stmt` INCLUDING which statement kinds it recurses
                                 into.  Three arms of the pinned visitor did not look at what
                                 they contain; each is a switch of `Cfg` (all on since the
                                 repairs 9b7e57b / 353f983), `codeCfg` is the code as it is.
* `HasType` / `ArgsTyped`      : the typing judgement written from the documented rules
                                 (independent of `check`: no evaluation order, no diagnostics).
* `WellTypedStmt(s)`           : the statement rules (int-only conditions and counters, matching
                                 assignment / declaration types, `return` against the function).

Types, operators and values are the ones of the C11 model (`Ops.lean`, `Expr.lean`).

Added later (same functions, additional arms; nothing about the older constructs changed):
* expressions: difficulty switches `(a : : c)` (`diffSwitch`, `checkCases`), `++v` / `v--`
  (`xcrement`), qualified enum constants `Enum.Name` (`enumConst`; a bare constant name is a `var`),
  `offsetof(l)` / `timeof(l)` (`labelProp`), the general call `callx` with pseudo-arguments
  (`@mask=` `@pop=` `@arg0=` `@nargs=` `@blob=`; `checkPseudos`, `pseudoCheck`) and with user-defined
  functions as callees (`Ctx.fsig`; `const` / `inline` / exported, the type checker makes no
  difference between them); function parameters are variables of the body (`Ctx.varTy`);
* statements: `T a = e, b;` (`decls`), `const T a = e, b = f;` (`constDecls`); `return` is checked
  against the innermost enclosing function at every depth (`ρ`);
* two places where the code left the rules until e098828 / e91a1bf, each a switch (now set to
  the repaired behaviour): `checksXcrementTarget` (`--c` on a constant was accepted) and
  `computeTyEnumIsInt` (`compute_ty` of a string-enum constant was `Int`; `check` is `check_expr`
  without its `debug_assert_eq!`, which then fired);
* `evalT`: evaluation of the whole expression language (for `type_preservation`).
Not modelled: explicit sub calls `@f(..)` / `f(..) async` (every one is rejected by the visitor
since aa5781e, the harness never generates them), `meta` blocks (their scalars go through
`visit_expr`), the warning for a value-returning function without `return`.
-/
namespace TruthModel.Types

/-- `value::VarType`: inherent type of a register / variable (`Untyped` = `var x;`, `?` in a
mapfile, or a register that no mapfile mentions). -/
inductive VarTy where
  | untyped
  | typed (t : Ty)
deriving Repr, DecidableEq, Inhabited

/-- `value::ExprType` -/
inductive ETy where
  | void
  | value (t : Ty)
deriving Repr, DecidableEq, Inhabited

/-- `defs::SignatureParam`: the parameter type and whether it has a default.  (`abi_to_signature`
gave padding bytes a default until the repair 9d4386e; now no instruction signature has optional
parameters, `min_args`/`max_args` and the zip in `check_expr_call` are unchanged.) -/
structure Param where
  ty : VarTy
  optional : Bool
deriving Repr, DecidableEq, Inhabited

/-- What name resolution and the mapfiles have put into the `CompilerContext`. -/
structure Ctx where
  /-- `defs.reg_inherent_ty(language, reg)` -/
  regTy : Nat → VarTy
  /-- `defs.var_inherent_ty(def_id)` of locals and consts (set from the declaration keyword) -/
  varTy : Nat → VarTy
  /-- `ctx.func_signature_from_ast`: `none` = "signature not known" -/
  sig : Nat → Option (List Param)
  /-- `defs.var_const_expr(def_id).is_some()`: the variable is a `const` item (or a builtin /
  enum constant) -/
  isConst : Nat → Bool
  /-- `defs.enum_ty(enum_name)` is `String` (`true`) or `Int` (`false`).  Every enum the
  implementation declares has one of these two types: the built-in `EclSubName` is the only string
  enum, mapfile enums (`!enum`) and the other built-in ones are `Int`. -/
  enumStr : Nat → Bool := fun _ => false
  /-- `defs.func_signature(def_id)` of a user-defined function (`const` / `inline` / exported):
  parameter types from the keywords (`var` = untyped; `signature_from_func_ast` gives no parameter a
  default) and the return type.  Calling an undefined function is a name-resolution error, so
  the lookup is total. -/
  fsig : Nat → List VarTy × ETy := fun _ => ([], .void)

/-- `defs.enum_ty` -/
def Ctx.enumTy (Γ : Ctx) (en : Nat) : Ty := if Γ.enumStr en then .str else .int

/-- the parameters of a user-defined function as `SignatureParam`s (`default: None`) -/
def Ctx.fparams (Γ : Ctx) (f : Nat) : List Param := (Γ.fsig f).1.map fun t => ⟨t, false⟩

/-- `ctx.func_signature_from_ast(name)`: parameters and return type of the callee; `none` =
"signature not known" (only possible for instructions, whose signatures always return void) -/
def Ctx.calleeSig (Γ : Ctx) (user : Bool) (f : Nat) : Option (List Param × ETy) :=
  if user then some (Γ.fparams f, (Γ.fsig f).2)
  else match Γ.sig f with
    | some ps => some (ps, .void)
    | none => none

/-- `ast::Var` at a place where it is written or declared (also the operand of `++` / `--`) -/
structure VarRef where
  isReg : Bool
  id : Nat
  sig : Option Sigil
deriving Repr, DecidableEq, Inhabited

def Ctx.refTy (Γ : Ctx) (v : VarRef) : VarTy :=
  if v.isReg then Γ.regTy v.id else Γ.varTy v.id

/-- `ast::PseudoArgKind` -/
inductive PseudoKind where
  | pop | arg0 | nargs | mask | blob
deriving Repr, DecidableEq, Inhabited

mutual
inductive TExpr where
  | litI (v : Int32)
  | litF (bits : UInt32)
  | litS (s : String)
  | reg (r : Nat) (sig : Option Sigil)
  | var (n : Nat) (sig : Option Sigil)
  | unop (op : UnOp) (e : TExpr)
  | binop (op : BinOp) (a b : TExpr)
  | ternary (c l r : TExpr)
  /-- instruction call `ins_f(args)` -/
  | call (f : Nat) (args : TArgs)
  /-- difficulty switch `(first : c1 : : c3)`; the parser guarantees a first case, later cases
  may be blank -/
  | diffSwitch (first : TExpr) (rest : TCases)
  /-- `++v` `v++` `--v` `v--`: `pre` = the operator comes first, `inc` = `++` (neither plays a
  role in `check_expr`) -/
  | xcrement (pre inc : Bool) (v : VarRef)
  /-- `Enum.Name` (a bare enum-constant name is a `var` whose inherent type is the enum's) -/
  | enumConst (en : Nat) (name : Nat)
  /-- `offsetof(l)` / `timeof(l)` -/
  | labelProp (l : Nat)
  /-- the general call `name(@pseudo=e, .., args)`: `user = false` an instruction (alias),
  `user = true` a user-defined function.  `call f args` is `callx false f .nil args`
  (`C09.call_eq_callx`). -/
  | callx (user : Bool) (f : Nat) (pseudos : TPseudos) (args : TArgs)
inductive TArgs where
  | nil
  | cons (a : TExpr) (as : TArgs)
/-- the cases of a difficulty switch after the first -/
inductive TCases where
  | nil
  | blank (cs : TCases)
  | case (e : TExpr) (cs : TCases)
/-- `@kind=e` pseudo-arguments, in source order -/
inductive TPseudos where
  | nil
  | cons (k : PseudoKind) (e : TExpr) (ps : TPseudos)
end

instance : Inhabited TExpr := ⟨.litI 0⟩
instance : Inhabited TArgs := ⟨.nil⟩
instance : Inhabited TCases := ⟨.nil⟩
instance : Inhabited TPseudos := ⟨.nil⟩

def TArgs.length : TArgs → Nat
  | .nil => 0
  | .cons _ as => as.length + 1

def TArgs.isNil : TArgs → Bool
  | .nil => true
  | .cons _ _ => false

def TPseudos.isNil : TPseudos → Bool
  | .nil => true
  | .cons _ _ _ => false

/-- `ExprCall::blob().is_some()` -/
def TPseudos.hasBlob : TPseudos → Bool
  | .nil => false
  | .cons k _ ps => k == .blob || ps.hasBlob

/-- `ast::OpClass` (binary operators) -/
inductive OpClass where
  | arithmetic | comparison | bitwise | shift | logical
deriving Repr, DecidableEq, Inhabited

/-- `BinOpKind::class` -/
def _root_.TruthModel.BinOp.cls : BinOp → OpClass
  | .add | .sub | .mul | .div | .rem => .arithmetic
  | .eq | .ne | .lt | .le | .gt | .ge => .comparison
  | .bor | .xor | .band => .bitwise
  | .lor | .land => .logical
  | .shl | .shr | .ushr => .shift

def sigilTy : Sigil → Ty
  | .int => .int
  | .float => .float

/-! ## Diagnostic classes (first line of the message up to the first quote / digit) -/

def tyErr : String := "type error"
def prefixErr : String := "variable requires a type prefix"
def arityErr : String := "wrong number of arguments to"
def noSigErr : String := "signature not known for ANM opcode"
def constAssignErr : String := "cannot assign to a constant"
def pseudoCallErr : String := "forbidden pseudo-arg in function call"
def blobArgsErr : String := "cannot supply both normal arguments and an args blob"

/-! ## `ExprTypeChecker` -/

/-- `ctx.var_read_ty_from_ast` -/
def readTy (inh : VarTy) : Option Sigil → VarTy
  | some s => .typed (sigilTy s)
  | none => inh

/-- `check_var_weak` followed by the rest of `check_var` -/
def checkVar (inh : VarTy) (sig : Option Sigil) : Outcome Ty :=
  match inh, sig with
  | .typed .str, some _ => .err tyErr            -- "cannot cast a string to ..."
  | _, _ =>
    match readTy inh sig with
    | .typed t => .ok t
    | .untyped => .err prefixErr

def requireNumeric : Ty → Outcome Unit
  | .int => .ok ()
  | .float => .ok ()
  | .str => .err tyErr

def requireExact (t expected : Ty) : Outcome Unit :=
  if t = expected then .ok () else .err tyErr

def requireSame (a b : Ty) : Outcome Ty :=
  if a = b then .ok a else .err tyErr

def requireValue : ETy → Outcome Ty
  | .value t => .ok t
  | .void => .err tyErr

def requireVoid : ETy → Outcome Unit
  | .value _ => .err tyErr
  | .void => .ok ()

/-- `binop_check`: the class check looks at the LEFT operand type only, then both must agree. -/
def binopCheck (op : BinOp) (a b : Ty) : Outcome Unit :=
  match (match op.cls with
    | .arithmetic => requireNumeric a
    | .comparison => requireNumeric a
    | .bitwise | .logical | .shift => requireExact a .int) with
  | .ok () => match requireSame a b with
    | .ok _ => .ok ()
    | .err c => .err c
    | .panic s => .panic s
  | .err c => .err c
  | .panic s => .panic s

/-- `unop_check` -/
def unopCheck (op : UnOp) (t : Ty) : Outcome Unit :=
  match op with
  | .neg | .sigI | .sigF | .castI | .castF => requireNumeric t
  | .not | .bnot => requireExact t .int
  | .sin | .cos | .tan | .asin | .acos | .atan | .sqrt => requireExact t .float

/-- `.as_value_ty().expect("shouldn't be void")` -/
def expectValue : Outcome ETy → Outcome Ty
  | .ok (.value t) => .ok t
  | .ok .void => .panic "shouldn't be void"
  | .err c => .err c
  | .panic s => .panic s

/-- `_binop_ty`: the operand type is only computed for arithmetic operators. -/
def binopTyWith (op : BinOp) (argTy : Unit → Outcome Ty) : Outcome Ty :=
  match op.cls with
  | .arithmetic => argTy ()
  | .comparison => .ok .int
  | .bitwise | .logical | .shift => .ok .int

/-- `_unop_ty` -/
def unopTyWith (op : UnOp) (argTy : Unit → Outcome Ty) : Outcome Ty :=
  match op with
  | .neg => argTy ()
  | .not | .bnot => .ok .int
  | .sin | .cos | .tan | .asin | .acos | .atan | .sqrt => .ok .float
  | .sigI | .castI => .ok .int
  | .sigF | .castF => .ok .float

/-- `check_var_is_assignable` (0757655): `var_reg_from_ast` is `Err(def_id)` for everything that is
not a register (alias), and constants cannot be written to. -/
def checkAssignable (Γ : Ctx) (v : VarRef) : Outcome Unit :=
  if !v.isReg && Γ.isConst v.id then .err constAssignErr else .ok ()

/-- SWITCH: does `check_expr` reject `++c` / `c--` whose operand is a constant?  `true` since the
repair e098828 (the `XcrementOp` arm calls `check_var_is_assignable` right after `check_var`,
before `require_int`); before it (`false`) the arm called `check_var` and `require_int` only, so
`const int c = 3; .. if (--c > 0) goto l;` was accepted and panicked in lowering
(`C09.xcrement_const_accepted_when_unchecked`). -/
def checksXcrementTarget : Bool := true

/-- SWITCH: which type does `compute_ty` give `Enum.Name`?  `false` since the repair e91a1bf
(`compute_ty` asks `enum_ty(enum_name)` like `check_expr`); before it (`true`) the answer was
`Int` whatever the enum's type, and on a constant of the string enum `EclSubName` the
`debug_assert_eq!` of `check_expr` fired (`C09.computeTy_disagrees_on_string_enum`). -/
def computeTyEnumIsInt : Bool := false

/-- `pseudo_check` -/
def pseudoCheck (k : PseudoKind) (t : Ty) : Outcome Unit :=
  match k with
  | .pop | .arg0 | .nargs | .mask => if t = .int then .ok () else .err tyErr
  | .blob => if t = .str then .ok () else .err tyErr

/-- `ast::Expr::compute_ty`: assumes a checked expression; on anything else it "may return
anything" or hit one of its `expect`s (modelled as `panic`). -/
def computeTy (Γ : Ctx) : TExpr → Outcome ETy
  | .litI _ => .ok (.value .int)
  | .litF _ => .ok (.value .float)
  | .litS _ => .ok (.value .str)
  | .reg r sig =>
    match readTy (Γ.regTy r) sig with
    | .typed t => .ok (.value t)
    | .untyped => .panic "already type-checked"
  | .var n sig =>
    match readTy (Γ.varTy n) sig with
    | .typed t => .ok (.value t)
    | .untyped => .panic "already type-checked"
  | .unop op x =>
    match unopTyWith op (fun _ => expectValue (computeTy Γ x)) with
    | .ok t => .ok (.value t)
    | .err c => .err c
    | .panic s => .panic s
  | .binop op a _ =>
    match binopTyWith op (fun _ => expectValue (computeTy Γ a)) with
    | .ok t => .ok (.value t)
    | .err c => .err c
    | .panic s => .panic s
  | .ternary _ l _ => computeTy Γ l
  | .call f _ =>
    match Γ.sig f with
    | some _ => .ok .void          -- instruction signatures always return void
    | none => .panic "already type-checked"
  | .diffSwitch first _ => computeTy Γ first
  | .xcrement _ _ _ => .ok (.value .int)
  | .enumConst en _ => .ok (.value (if computeTyEnumIsInt then .int else Γ.enumTy en))
  | .labelProp _ => .ok (.value .int)
  | .callx user f pseudos _ =>
    if pseudos.hasBlob then .ok .void      -- "args blob always produces void"
    else match Γ.calleeSig user f with
      | some (_, rt) => .ok rt
      | none => .panic "already type-checked"

/-- `Signature::min_args` -/
def minArgs : List Param → Nat
  | [] => 0
  | p :: ps => (if p.optional then 0 else 1) + minArgs ps

/-- `Signature::max_args` (`self.min_args()` in the code that exists) -/
def maxArgs (ps : List Param) : Nat := minArgs ps

/-- the closure inside `zip!(1.., args, &siggy.params).map(...)` after the argument was checked -/
def paramCheck (p : Param) (t : Ty) : Outcome Unit :=
  match p.ty with
  | .typed pt => if t ≠ pt then .err tyErr else .ok ()
  | .untyped => .ok ()

mutual
/-- `check_expr` (without the `debug_assert_eq!` against `compute_ty`; that it cannot fire is
`C09.computeTy_agrees` / `C09.debug_assert_never_fires`). -/
def check (Γ : Ctx) : TExpr → Outcome ETy
  | .litI _ => .ok (.value .int)
  | .litF _ => .ok (.value .float)
  | .litS _ => .ok (.value .str)
  | .reg r sig =>
    match checkVar (Γ.regTy r) sig with
    | .ok t => .ok (.value t)
    | .err c => .err c
    | .panic s => .panic s
  | .var n sig =>
    match checkVar (Γ.varTy n) sig with
    | .ok t => .ok (.value t)
    | .err c => .err c
    | .panic s => .panic s
  | .binop op a b =>
    -- both operands are examined before the first `?`; the first diagnostic is the left one's
    match check Γ a >>= requireValue with
    | .ok ta =>
      match check Γ b >>= requireValue with
      | .ok tb =>
        match binopCheck op ta tb with
        | .ok () =>
          -- `ExprType::Value(ast::Expr::binop_ty(op.value, &a.value, self.ctx))`
          match binopTyWith op (fun _ => expectValue (computeTy Γ a)) with
          | .ok t => .ok (.value t)
          | .err c => .err c
          | .panic s => .panic s
        | .err c => .err c
        | .panic s => .panic s
      | .err c => .err c
      | .panic s => .panic s
    | .err c => .err c
    | .panic s => .panic s
  | .unop op x =>
    match check Γ x >>= requireValue with
    | .ok tx =>
      match unopCheck op tx with
      | .ok () =>
        match unopTyWith op (fun _ => expectValue (computeTy Γ x)) with
        | .ok t => .ok (.value t)
        | .err c => .err c
        | .panic s => .panic s
      | .err c => .err c
      | .panic s => .panic s
    | .err c => .err c
    | .panic s => .panic s
  | .ternary c l r =>
    -- order of the real code: left, right, cond
    match check Γ l >>= requireValue with
    | .ok tl =>
      match check Γ r >>= requireValue with
      | .ok tr =>
        match check Γ c >>= requireValue with
        | .ok tc =>
          match requireExact tc .int with
          | .ok () =>
            match requireSame tl tr with
            | .ok t => .ok (.value t)
            | .err c => .err c
            | .panic s => .panic s
          | .err c => .err c
          | .panic s => .panic s
        | .err c => .err c
        | .panic s => .panic s
      | .err c => .err c
      | .panic s => .panic s
    | .err c => .err c
    | .panic s => .panic s
  | .call f args =>
    -- `check_expr_call` without pseudo-arguments
    match Γ.sig f with
    | none => .err noSigErr
    | some ps =>
      if minArgs ps ≤ args.length ∧ args.length ≤ maxArgs ps then
        match checkArgs Γ args ps with
        | .ok () => .ok .void                  -- `siggy.return_ty` of an instruction
        | .err c => .err c
        | .panic s => .panic s
      else .err arityErr
  | .diffSwitch first rest =>
    match check Γ first >>= requireValue with
    | .ok t =>
      match checkCases Γ t rest with
      | .ok () => .ok (.value t)
      | .err c => .err c
      | .panic s => .panic s
    | .err c => .err c
    | .panic s => .panic s
  | .xcrement _ _ v =>
    -- `let var_ty = self.check_var(var)?; self.check_var_is_assignable(var)?;
    --  self.require_int(var_ty, ..)?; Value(var_ty)`: a float constant is reported as a constant
    match checkVar (Γ.refTy v) v.sig with
    | .ok t =>
      match (if checksXcrementTarget then checkAssignable Γ v else .ok ()) with
      | .ok () =>
        match requireExact t .int with
        | .ok () => .ok (.value t)
        | .err c => .err c
        | .panic s => .panic s
      | .err c => .err c
      | .panic s => .panic s
    | .err c => .err c
    | .panic s => .panic s
  | .enumConst en _ => .ok (.value (Γ.enumTy en))
  | .labelProp _ => .ok (.value .int)
  | .callx user f pseudos args =>
    -- `check_expr_call`
    match checkPseudos Γ pseudos with
    | .ok () =>
      -- "Only instruction-like calls are allowed to have pseudo-args"
      if user = true ∧ pseudos.isNil = false then .err pseudoCallErr
      -- "'@blob=' is incompatible with normal args"; "always void when providing a blob"
      else if pseudos.hasBlob = true then
        (if args.isNil = true then .ok .void else .err blobArgsErr)
      else
        match Γ.calleeSig user f with
        | none => .err noSigErr
        | some (ps, rt) =>
          if minArgs ps ≤ args.length ∧ args.length ≤ maxArgs ps then
            match checkArgs Γ args ps with
            | .ok () => .ok rt                   -- `siggy.return_ty`
            | .err c => .err c
            | .panic s => .panic s
          else .err arityErr
    | .err c => .err c
    | .panic s => .panic s

/-- The two passes over the arguments of a call: `zip!(1.., args, &siggy.params)` pairs the
arguments POSITIONALLY with all parameters (also the ones with defaults, which `min_args` does
not count); arguments beyond the zip are only walked by the second pass
(`args.iter().map(|arg| self.check_expr(arg))`).  Both passes report the first failing argument
first, so they are merged here. -/
def checkArgs (Γ : Ctx) : TArgs → List Param → Outcome Unit
  | .nil, _ => .ok ()
  | .cons a as, [] =>
    match check Γ a with
    | .ok _ => checkArgs Γ as []
    | .err c => .err c
    | .panic s => .panic s
  | .cons a as, p :: ps =>
    match check Γ a >>= requireValue with
    | .ok t =>
      match paramCheck p t with
      | .ok () => checkArgs Γ as ps
      | .err c => .err c
      | .panic s => .panic s
    | .err c => .err c
    | .panic s => .panic s

/-- the loop over `cases[1..]` of a difficulty switch: blank cases are skipped, every other case
must be a value of the type `t` of the first (`output_ty = require_same((output_ty, other_ty))`
leaves `output_ty` as it is) -/
def checkCases (Γ : Ctx) (t : Ty) : TCases → Outcome Unit
  | .nil => .ok ()
  | .blank cs => checkCases Γ t cs
  | .case e cs =>
    match check Γ e >>= requireValue with
    | .ok t' =>
      match requireSame t t' with
      | .ok _ => checkCases Γ t cs
      | .err c => .err c
      | .panic s => .panic s
    | .err c => .err c
    | .panic s => .panic s

/-- "type check pseudos": every pseudo-argument value is examined (`collect_with_recovery`), the
first failing one is reported first -/
def checkPseudos (Γ : Ctx) : TPseudos → Outcome Unit
  | .nil => .ok ()
  | .cons k e ps =>
    match check Γ e >>= requireValue with
    | .ok t =>
      match pseudoCheck k t with
      | .ok () => checkPseudos Γ ps
      | .err c => .err c
      | .panic s => .panic s
    | .err c => .err c
    | .panic s => .panic s
end

/-! ## Statements -/

-- (`VarRef`, `Ctx.refTy`: defined before `TExpr`, the operand of `++` / `--` is one)

/-- `ast::AssignOpKind` -/
inductive AssignOp where
  | assign | add | sub | mul | div | rem | bor | xor | band | shl | shr | ushr
deriving Repr, DecidableEq, Inhabited

/-- `AssignOpKind::corresponding_binop` -/
def AssignOp.binop : AssignOp → Option BinOp
  | .assign => none
  | .add => some .add | .sub => some .sub | .mul => some .mul | .div => some .div
  | .rem => some .rem | .bor => some .bor | .xor => some .xor | .band => some .band
  | .shl => some .shl | .shr => some .shr | .ushr => some .ushr

mutual
inductive Stmt where
  /-- `e;` -/
  | exprStmt (e : TExpr)
  /-- `v = e;` `v += e;` ... -/
  | assign (v : VarRef) (op : AssignOp) (e : TExpr)
  /-- `int x;` `float x = e;` `var x;` (the keyword is `Γ.varTy x`) -/
  | decl (x : Nat) (init : Option TExpr)
  /-- `const int x = e;` (an `Item`; the keyword is `Γ.varTy x`) -/
  | constDecl (x : Nat) (e : TExpr)
  /-- `if (c) { t } else { e }`; an `else if` chain is `e = [ite ...]`, which the visitor walks
  in the same order -/
  | ite (c : TExpr) (t e : Stmts)
  | while_ (c : TExpr) (body : Stmts)
  | doWhile (c : TExpr) (body : Stmts)
  | loop (body : Stmts)
  /-- `times(count) {..}` / `times(clobber = count) {..}` -/
  | times (clobber : Option VarRef) (count : TExpr) (body : Stmts)
  /-- `if (c) goto l;` `unless (c) break;` -/
  | condJump (c : TExpr)
  /-- `goto l;` `break;` `label:` `30:` : nothing to check -/
  | inert
  /-- free-standing `{ ... }` -/
  | block (body : Stmts)
  | ret (e : Option TExpr)
  /-- `inline int f() { ... }` / `void f() { ... }` (no parameters) -/
  | func (rt : ETy) (body : Stmts)
  /-- `script s { ... }` -/
  | script (body : Stmts)
  /-- `interrupt[e]:` -/
  | interruptLabel (e : TExpr)
  /-- `+e:` -/
  | relTimeLabel (e : TExpr)
  /-- `int a = 1, b;`: one keyword, several variables (the keyword of `x` is `Γ.varTy x`, the same
  for all of them in a parsed program; `decl x init` is `decls [(x, init)]`) -/
  | decls (ds : List (Nat × Option TExpr))
  /-- `const int a = 1, b = 2;` -/
  | constDecls (ds : List (Nat × TExpr))
inductive Stmts where
  | nil
  | cons (s : Stmt) (ss : Stmts)
end

instance : Inhabited Stmt := ⟨.inert⟩
instance : Inhabited Stmts := ⟨.nil⟩

/-- Which of the constructs that the pinned visitor left unexamined are examined.
All `false` = the pinned tree (`StmtKind::Block { .. } => {}`,
`StmtKind::InterruptLabel { .. } => {}`, `StmtKind::RelTimeLabel { .. } => {}`, and
`Item::ConstVar` reached only through `walk_item`, i.e. `visit_expr` on the initialiser and
nothing about the declared type).  `codeCfg` below is the code as it is now. -/
structure Cfg where
  walksFreeBlocks : Bool
  checksLabelExprs : Bool
  checksConstDeclTy : Bool
deriving Repr, DecidableEq, Inhabited

/-- SWITCH: does `visit_stmt` walk nested free blocks?  `true` since the repair 9b7e57b
(`StmtKind::Block { .. }` joined the arms that call `ast::walk_stmt`); the pinned tree had
`StmtKind::Block { .. } => {}` (`false`: `script s { { $REG[10000] = 1.5; } }` was accepted and
panicked in lowering, `C09.free_block_accepted`). -/
def walksFreeBlocks : Bool := true
/-- SWITCH: are the expressions of `interrupt[e]:` and `+e:` type-checked (int required)?  `true`
since the repair 353f983 (`InterruptLabel(expr) => self.visit_cond(expr)`,
`RelTimeLabel { delta, .. } => self.visit_cond(delta)`); the pinned tree had empty arms. -/
def checksLabelExprs : Bool := true
/-- SWITCH: is the initialiser of `const T x = e;` compared with `T`?  `true` since the repair
353f983 (`visit_item` calls `check_single_var_decl` for every `Item::ConstVar` pair); the pinned
tree reached the initialiser only through `walk_item`. -/
def checksConstDeclTy : Bool := true

/-- the code under test -/
def codeCfg : Cfg := ⟨walksFreeBlocks, checksLabelExprs, checksConstDeclTy⟩
/-- every skipped construct repaired -/
def fixedCfg : Cfg := ⟨true, true, true⟩

/-- sequencing of `if let Err(e) = ... { self.errors.set(e) }`: the walk continues after an
error, the first diagnostic is the one reported first, a panic anywhere wins. -/
def _root_.TruthModel.Outcome.andThen (a b : Outcome Unit) : Outcome Unit :=
  match a, b with
  | .panic s, _ => .panic s
  | _, .panic s => .panic s
  | .err c, _ => .err c
  | .ok _, r => r

/-- `check_cond`: `check_expr_as_value` + `require_int` -/
def checkCond (Γ : Ctx) (c : TExpr) : Outcome Unit :=
  match check Γ c >>= requireValue with
  | .ok t => requireExact t .int
  | .err c => .err c
  | .panic s => .panic s

/-- `check_stmt_assignment` after the assignability test -/
def checkAssignTyped (Γ : Ctx) (v : VarRef) (op : AssignOp) (e : TExpr) : Outcome Unit :=
  -- both sides are examined before the first `?`; the variable's diagnostic comes first
  match checkVar (Γ.refTy v) v.sig with
  | .ok tv =>
    match check Γ e >>= requireValue with
    | .ok te =>
      match op.binop with
      | none => match requireSame tv te with
        | .ok _ => .ok ()
        | .err c => .err c
        | .panic s => .panic s
      | some b => binopCheck b tv te
    | .err c => .err c
    | .panic s => .panic s
  | .err c => .err c
  | .panic s => .panic s

/-- `check_stmt_assignment`: `self.check_var_is_assignable(var)?` comes first and returns at once -/
def checkAssign (Γ : Ctx) (v : VarRef) (op : AssignOp) (e : TExpr) : Outcome Unit :=
  match checkAssignable Γ v with
  | .ok () => checkAssignTyped Γ v op e
  | .err c => .err c
  | .panic s => .panic s

/-- the clobber of `times(v = count)`: assignable, and of the count's type -/
def checkClobber (Γ : Ctx) (v : VarRef) (tc : Ty) : Outcome Unit :=
  match checkAssignable Γ v with
  | .ok () =>
    match checkVar (Γ.refTy v) v.sig with
    | .ok tv => match requireSame tv tc with
      | .ok _ => .ok ()
      | .err c => .err c
      | .panic s => .panic s
    | .err c => .err c
    | .panic s => .panic s
  | .err c => .err c
  | .panic s => .panic s

/-- `check_stmt_times` -/
def checkTimes (Γ : Ctx) (clobber : Option VarRef) (count : TExpr) : Outcome Unit :=
  match check Γ count >>= requireValue with
  | .ok tc =>
    match requireExact tc .int with
    | .ok () =>
      match clobber with
      | none => .ok ()
      | some v => checkClobber Γ v tc
    | .err c => .err c
    | .panic s => .panic s
  | .err c => .err c
  | .panic s => .panic s

/-- `check_single_var_decl` for `T x;` / `T x = e;` (declarations cannot carry a sigil, so
`check_var_weak` and the `int %x` test are vacuous). -/
def checkDecl (Γ : Ctx) (x : Nat) (init : Option TExpr) : Outcome Unit :=
  match init with
  | none => .ok ()
  | some e =>
    match checkVar (Γ.varTy x) none with
    | .ok tv =>
      match check Γ e >>= requireValue with
      | .ok te => requireExact te tv
      | .err c => .err c
      | .panic s => .panic s
    | .err c => .err c
    | .panic s => .panic s

/-- `Item::ConstVar`: `walk_item` calls `visit_expr` on the initialiser, nothing else.  With
`checksConstDeclTy` it is checked like a declaration with initialiser. -/
def checkConstDecl (cfg : Cfg) (Γ : Ctx) (x : Nat) (e : TExpr) : Outcome Unit :=
  if cfg.checksConstDeclTy then checkDecl Γ x (some e)
  else match check Γ e with
    | .ok _ => .ok ()
    | .err c => .err c
    | .panic s => .panic s

/-- `check_stmt_declaration`: `vars.iter().map(check_single_var_decl).collect_with_recovery()`:
every variable is examined, the first diagnostic is the one of the first failing variable -/
def checkDecls (Γ : Ctx) : List (Nat × Option TExpr) → Outcome Unit
  | [] => .ok ()
  | (x, init) :: rest => (checkDecl Γ x init).andThen (checkDecls Γ rest)

/-- `Item::ConstVar` with several variables: `for (var, expr) in vars { .. errors.set(e) }` -/
def checkConstDecls (cfg : Cfg) (Γ : Ctx) : List (Nat × TExpr) → Outcome Unit
  | [] => .ok ()
  | (x, e) :: rest => (checkConstDecl cfg Γ x e).andThen (checkConstDecls cfg Γ rest)

/-- SWITCH: what `check_stmt_return` does for a `return` outside of every function
(`script s { return; }`).  The pinned tree panicked
(`cur_func_stack.last_mut().expect("return outside of function?!")`, value
`.panic "return outside of function?!"`); since the repair 0757655 it reports the diagnostic
`'return' outside of a function`, whose canonical class (the message up to the first quote or
digit) is the empty string.  No theorem depends on which of the two it is, only on it not being
`.ok ()`. -/
def returnOutsideFunction : Outcome Unit := .err ""

/-- `check_stmt_return`; `ρ` = return type of the innermost enclosing function
(`cur_func_stack.last()`), `none` outside of every function. -/
def checkReturn (Γ : Ctx) (ρ : Option ETy) (e : Option TExpr) : Outcome Unit :=
  match ρ with
  | none => returnOutsideFunction
  | some rt =>
    match e with
    | none => if ETy.void = rt then .ok () else .err tyErr
    | some v =>
      match check Γ v >>= requireValue with
      | .ok t => if ETy.value t = rt then .ok () else .err tyErr
      | .err c => .err c
      | .panic s => .panic s

/-- `check_stmt_expr` -/
def checkExprStmt (Γ : Ctx) (e : TExpr) : Outcome Unit :=
  match check Γ e with
  | .ok t => requireVoid t
  | .err c => .err c
  | .panic s => .panic s

mutual
/-- `Visitor::visit_stmt` -/
def checkStmt (cfg : Cfg) (Γ : Ctx) (ρ : Option ETy) : Stmt → Outcome Unit
  | .exprStmt e => checkExprStmt Γ e
  | .assign v op e => checkAssign Γ v op e
  | .decl x init => checkDecl Γ x init
  | .constDecl x e => checkConstDecl cfg Γ x e
  | .ite c t e => (checkCond Γ c).andThen ((checkStmts cfg Γ ρ t).andThen (checkStmts cfg Γ ρ e))
  -- `walk_stmt`: `while (c) {..}` visits the block first, `do {..} while (c);` the condition first
  | .while_ c body => (checkStmts cfg Γ ρ body).andThen (checkCond Γ c)
  | .doWhile c body => (checkCond Γ c).andThen (checkStmts cfg Γ ρ body)
  | .loop body => checkStmts cfg Γ ρ body
  | .times clobber count body => (checkTimes Γ clobber count).andThen (checkStmts cfg Γ ρ body)
  | .condJump c => checkCond Γ c
  | .inert => .ok ()
  | .block body => if cfg.walksFreeBlocks then checkStmts cfg Γ ρ body else .ok ()
  | .ret e => checkReturn Γ ρ e
  | .func rt body => checkStmts cfg Γ (some rt) body
  | .script body => checkStmts cfg Γ ρ body
  | .interruptLabel e => if cfg.checksLabelExprs then checkCond Γ e else .ok ()
  | .relTimeLabel e => if cfg.checksLabelExprs then checkCond Γ e else .ok ()
  | .decls ds => checkDecls Γ ds
  | .constDecls ds => checkConstDecls cfg Γ ds
def checkStmts (cfg : Cfg) (Γ : Ctx) (ρ : Option ETy) : Stmts → Outcome Unit
  | .nil => .ok ()
  | .cons s ss => (checkStmt cfg Γ ρ s).andThen (checkStmts cfg Γ ρ ss)
end

/-! ## The declarative rules

Written from the documented rules, not from the code: a judgement `Γ ⊢ e : τ` without
evaluation order or diagnostics, operator rules by explicit operator lists. -/

def Numeric (t : Ty) : Prop := t = .int ∨ t = .float

/-- reading (or writing) a variable of inherent type `inh` through an optional sigil gives `t`:
without sigil the variable must have a type; a sigil selects the type and is only allowed on
numeric (or untyped) variables. -/
def ReadTy (inh : VarTy) : Option Sigil → Ty → Prop
  | none, t => inh = .typed t
  | some s, t => t = sigilTy s ∧ inh ≠ .typed .str

/-- operand type `t` ↦ result type `t'` -/
def BinopTy : BinOp → Ty → Ty → Prop
  | .add, t, t' | .sub, t, t' | .mul, t, t' | .div, t, t' | .rem, t, t' => Numeric t ∧ t' = t
  | .eq, t, t' | .ne, t, t' | .lt, t, t' | .le, t, t' | .gt, t, t' | .ge, t, t' =>
    Numeric t ∧ t' = .int
  | .bor, t, t' | .xor, t, t' | .band, t, t' | .lor, t, t' | .land, t, t'
  | .shl, t, t' | .shr, t, t' | .ushr, t, t' => t = .int ∧ t' = .int

def UnopTy : UnOp → Ty → Ty → Prop
  | .neg, t, t' => Numeric t ∧ t' = t
  | .not, t, t' | .bnot, t, t' => t = .int ∧ t' = .int
  | .sin, t, t' | .cos, t, t' | .tan, t, t' | .asin, t, t' | .acos, t, t' | .atan, t, t'
  | .sqrt, t, t' => t = .float ∧ t' = .float
  | .castI, t, t' | .sigI, t, t' => Numeric t ∧ t' = .int
  | .castF, t, t' | .sigF, t, t' => Numeric t ∧ t' = .float

/-- only registers and non-constant variables can be written to -/
def Assignable (Γ : Ctx) (v : VarRef) : Prop := v.isReg = true ∨ Γ.isConst v.id = false

/-- the parameters an argument has to be written for -/
def required : List Param → List Param
  | [] => []
  | p :: ps => if p.optional then required ps else p :: required ps

def ParamAccepts (p : Param) (t : Ty) : Prop := p.ty = .untyped ∨ p.ty = .typed t

/-- the value type a pseudo-argument takes -/
def PseudoTy : PseudoKind → Ty
  | .pop | .arg0 | .nargs | .mask => .int
  | .blob => .str

mutual
inductive HasType (Γ : Ctx) : TExpr → ETy → Prop
  | litI (v) : HasType Γ (.litI v) (.value .int)
  | litF (v) : HasType Γ (.litF v) (.value .float)
  | litS (v) : HasType Γ (.litS v) (.value .str)
  | reg {r sig t} : ReadTy (Γ.regTy r) sig t → HasType Γ (.reg r sig) (.value t)
  | var {n sig t} : ReadTy (Γ.varTy n) sig t → HasType Γ (.var n sig) (.value t)
  | unop {op e t t'} : UnopTy op t t' → HasType Γ e (.value t) → HasType Γ (.unop op e) (.value t')
  | binop {op a b t t'} : BinopTy op t t' → HasType Γ a (.value t) → HasType Γ b (.value t) →
      HasType Γ (.binop op a b) (.value t')
  | ternary {c l r t} : HasType Γ c (.value .int) → HasType Γ l (.value t) →
      HasType Γ r (.value t) → HasType Γ (.ternary c l r) (.value t)
  /-- one argument per required parameter, in order, each of the parameter's type -/
  | call {f args ps} : Γ.sig f = some ps → ArgsTyped Γ args (required ps) →
      HasType Γ (.call f args) .void
  /-- all non-blank cases of a difficulty switch have one value type, the type of the switch -/
  | diffSwitch {first rest t} : HasType Γ first (.value t) → CasesTyped Γ t rest →
      HasType Γ (.diffSwitch first rest) (.value t)
  /-- `++` / `--` apply to int variables only (through a sigil or not), write to them (so not to
  constants) and give an int -/
  | xcrement {pre inc v} : ReadTy (Γ.refTy v) v.sig .int → Assignable Γ v →
      HasType Γ (.xcrement pre inc v) (.value .int)
  /-- a qualified enum constant has the type of its enum -/
  | enumConst (en name) : HasType Γ (.enumConst en name) (.value (Γ.enumTy en))
  | labelProp (l) : HasType Γ (.labelProp l) (.value .int)
  /-- instruction call with pseudo-arguments but no `@blob`: as `call` -/
  | callIns {f pseudos args ps} : PseudosTyped Γ pseudos → pseudos.hasBlob = false →
      Γ.sig f = some ps → ArgsTyped Γ args (required ps) →
      HasType Γ (.callx false f pseudos args) .void
  /-- `ins_f(@blob="..")`: the blob stands for all arguments, so there are none; no signature is
  needed -/
  | callBlob {f pseudos} : PseudosTyped Γ pseudos → pseudos.hasBlob = true →
      HasType Γ (.callx false f pseudos .nil) .void
  /-- call of a user-defined function: no pseudo-arguments, one argument per parameter, each of
  the parameter's type; the call has the function's return type -/
  | callUser {f args} : ArgsTyped Γ args (Γ.fparams f) →
      HasType Γ (.callx true f .nil args) (Γ.fsig f).2
inductive ArgsTyped (Γ : Ctx) : TArgs → List Param → Prop
  | nil : ArgsTyped Γ .nil []
  | cons {a as p ps t} : HasType Γ a (.value t) → ParamAccepts p t → ArgsTyped Γ as ps →
      ArgsTyped Γ (.cons a as) (p :: ps)
inductive CasesTyped (Γ : Ctx) : Ty → TCases → Prop
  | nil {t} : CasesTyped Γ t .nil
  | blank {t cs} : CasesTyped Γ t cs → CasesTyped Γ t (.blank cs)
  | case {t e cs} : HasType Γ e (.value t) → CasesTyped Γ t cs → CasesTyped Γ t (.case e cs)
/-- `@pop` `@arg0` `@nargs` `@mask` take an int, `@blob` a string -/
inductive PseudosTyped (Γ : Ctx) : TPseudos → Prop
  | nil : PseudosTyped Γ .nil
  | cons {k e ps t} : HasType Γ e (.value t) → PseudoTy k = t → PseudosTyped Γ ps →
      PseudosTyped Γ (.cons k e ps)
end

/-- the operand rule of a compound assignment `v op= e` is the one of `v op e` -/
def AssignTy (op : AssignOp) (t : Ty) : Prop :=
  match op.binop with
  | none => True
  | some b => ∃ t', BinopTy b t t'

/-- a declared variable and its initialiser (if any) have the same type -/
def DeclOk (Γ : Ctx) (x : Nat) : Option TExpr → Prop
  | none => True
  | some e => ∃ t, Γ.varTy x = .typed t ∧ HasType Γ e (.value t)

mutual
def WellTypedStmt (Γ : Ctx) (ρ : Option ETy) : Stmt → Prop
  | .exprStmt e => HasType Γ e .void
  | .assign v op e =>
    Assignable Γ v ∧ ∃ t, ReadTy (Γ.refTy v) v.sig t ∧ HasType Γ e (.value t) ∧ AssignTy op t
  | .decl _ none => True
  | .decl x (some e) => ∃ t, Γ.varTy x = .typed t ∧ HasType Γ e (.value t)
  | .constDecl x e => ∃ t, Γ.varTy x = .typed t ∧ HasType Γ e (.value t)
  | .ite c t e => HasType Γ c (.value .int) ∧ WellTypedStmts Γ ρ t ∧ WellTypedStmts Γ ρ e
  | .while_ c body => HasType Γ c (.value .int) ∧ WellTypedStmts Γ ρ body
  | .doWhile c body => HasType Γ c (.value .int) ∧ WellTypedStmts Γ ρ body
  | .loop body => WellTypedStmts Γ ρ body
  | .times clobber count body =>
    HasType Γ count (.value .int) ∧
    (match clobber with
      | none => True
      | some v => Assignable Γ v ∧ ReadTy (Γ.refTy v) v.sig .int) ∧
    WellTypedStmts Γ ρ body
  | .condJump c => HasType Γ c (.value .int)
  | .inert => True
  | .block body => WellTypedStmts Γ ρ body
  | .ret none => ρ = some .void
  | .ret (some e) => ∃ t, HasType Γ e (.value t) ∧ ρ = some (.value t)
  | .func rt body => WellTypedStmts Γ (some rt) body
  | .script body => WellTypedStmts Γ ρ body
  | .interruptLabel e => HasType Γ e (.value .int)
  | .relTimeLabel e => HasType Γ e (.value .int)
  | .decls ds => ∀ p ∈ ds, DeclOk Γ p.1 p.2
  | .constDecls ds => ∀ p ∈ ds, DeclOk Γ p.1 (some p.2)
def WellTypedStmts (Γ : Ctx) (ρ : Option ETy) : Stmts → Prop
  | .nil => True
  | .cons s ss => WellTypedStmt Γ ρ s ∧ WellTypedStmts Γ ρ ss
end

/-! ## Erasure to the C11 expression language (for `type_preservation`) -/

/-- value-typed expressions contain no calls; they are expressions of the VM model -/
def TExpr.erase : TExpr → Option Expr
  | .litI v => some (.litI v)
  | .litF v => some (.litF v)
  | .litS v => some (.litS v)
  | .reg r sig => some (.reg r sig)
  | .var n sig => some (.var n sig)
  | .unop op e => match e.erase with
    | some e' => some (.unop op e')
    | none => none
  | .binop op a b => match a.erase, b.erase with
    | some a', some b' => some (.binop op a' b')
    | _, _ => none
  | .ternary c l r => match c.erase, l.erase, r.erase with
    | some c', some l', some r' => some (.ternary c' l' r')
    | _, _, _ => none
  | .call _ _ => none
  -- not expressions of the C11 model (`Expr.lean`)
  | .diffSwitch _ _ => none
  | .xcrement _ _ _ => none
  | .enumConst _ _ => none
  | .labelProp _ => none
  | .callx _ _ _ _ => none

/-! ## Evaluation of the whole expression language (for `type_preservation`)

`AstVm::eval` (src/vm.rs) covers difficulty switches and `++` / `--`; it has no enum constants,
label properties or calls (`unimplemented!`).  Enum constants and label properties evaluate to
what the compiler replaces them by (their `const` value, an integer offset / time); calls have no
value here (`err`, like every other case in which the machine's behaviour is not defined). -/

/-- what the additional constructs read at run time -/
structure XEnv where
  /-- `AstVm::difficulty` -/
  diff : Nat
  /-- the `const` value of a qualified enum constant -/
  enumVal : Nat → Nat → Value
  /-- `offsetof` / `timeof` of a label -/
  label : Nat → Int32

mutual
def evalT (F : FloatOps) (cs : Consts) (env : Env) (x : XEnv) : TExpr → Outcome Value
  | .litI v => .ok (.int v)
  | .litF b => .ok (.float b)
  | .litS s => .ok (.str s)
  | .reg r sig => .ok (env.reg r sig)
  | .var n sig =>
    match cs n with
    | some v => match castBySigil F v sig with
      | some w => .ok w
      | none => .panic "cannot cast"
    | none => .ok (env.loc n sig)
  | .unop op e =>
    match evalT F cs env x e with
    | .ok v =>
      match sigilOfUnop op with
      | some s => match castBySigil F v (some s) with
        | some w => .ok w
        | none => .panic "vm cannot evaluate unop"
      | none => match unop F op v with
        | .ok (some w) => .ok w
        | .ok none => .panic "vm cannot evaluate unop"
        | .err c => .err c
        | .panic s => .panic s
    | .err c => .err c
    | .panic s => .panic s
  | .binop op a b =>
    match evalT F cs env x a with
    | .ok va => match evalT F cs env x b with
      | .ok vb => binop F op va vb
      | .err c => .err c
      | .panic s => .panic s
    | .err c => .err c
    | .panic s => .panic s
  | .ternary c l r =>
    match evalT F cs env x c with
    | .ok (.int v) => if v = 0 then evalT F cs env x r else evalT F cs env x l
    | .ok _ => .panic "type error"
    | .err c => .err c
    | .panic s => .panic s
  | .call _ _ => .err "func calls in VM exprs"
  -- `select_diff_switch_case`: the case of the current difficulty, a blank one stands for the
  -- closest explicit case before it; only the selected case is evaluated
  | .diffSwitch first rest => evalCaseT F cs env x x.diff (fun _ => evalT F cs env x first) rest
  | .xcrement pre inc v =>
    -- `read_var_by_ast`, then `panic!("type error")` unless the value is an int
    match (if v.isReg then .ok (env.reg v.id v.sig) else
            match cs v.id with
            | some c => match castBySigil F c v.sig with
              | some w => Outcome.ok w
              | none => .panic "cannot cast"
            | none => .ok (env.loc v.id v.sig)) with
    | .ok (.int old) =>
      let new := if inc then old + 1 else old + (-1)
      .ok (.int (if pre then new else old))
    | .ok _ => .panic "type error"
    | .err c => .err c
    | .panic s => .panic s
  | .enumConst en n => .ok (x.enumVal en n)
  | .labelProp l => .ok (.int (x.label l))
  | .callx _ _ _ _ => .err "func calls in VM exprs"
/-- `cur` = the closest explicit case so far (unevaluated), `d` = difficulties still to skip;
a difficulty beyond the last case trips `assert!(difficulty < cases.len())`, which is not a type
error: no value (`err`) -/
def evalCaseT (F : FloatOps) (cs : Consts) (env : Env) (x : XEnv) :
    Nat → (Unit → Outcome Value) → TCases → Outcome Value
  | 0, cur, _ => cur ()
  | _ + 1, _, .nil => .err "no case for this difficulty"
  | d + 1, cur, .blank rest => evalCaseT F cs env x d cur rest
  | d + 1, _, .case e rest => evalCaseT F cs env x d (fun _ => evalT F cs env x e) rest
end

/-- the run-time values of the additional constructs respect the declared types -/
structure XEnvOk (Γ : Ctx) (x : XEnv) : Prop where
  enum : ∀ en n, (x.enumVal en n).ty = Γ.enumTy en

/-! ## Vocabulary of the theorems in `Props/C09.lean` -/

/-- parameters with defaults (`_` padding) only at the end of a signature -/
def trailingOptional : List Param → Bool
  | [] => true
  | p :: ps => if p.optional then ps.all (·.optional) else trailingOptional ps

/-- every known signature has its optional parameters at the end (true of all signatures in
the core mapfiles; a user mapfile can violate it, see `C09.padding_witness`) -/
def SigsOk (Γ : Ctx) : Prop := ∀ f ps, Γ.sig f = some ps → trailingOptional ps = true


def litTy : TExpr → Option Ty
  | .litI _ => some .int
  | .litF _ => some .float
  | .litS _ => some .str
  | _ => none

mutual
/-- the parts of a program that `checkStmt cfg` does not examine are harmless -/
def Covered (cfg : Cfg) (Γ : Ctx) : Stmt → Prop
  | .block body => cfg.walksFreeBlocks = true ∧ CoveredS cfg Γ body
  | .interruptLabel e => cfg.checksLabelExprs = true ∨ litTy e = some .int
  | .relTimeLabel e => cfg.checksLabelExprs = true ∨ litTy e = some .int
  | .constDecl x e => cfg.checksConstDeclTy = true ∨ ∃ t, litTy e = some t ∧ Γ.varTy x = .typed t
  | .ite _ t e => CoveredS cfg Γ t ∧ CoveredS cfg Γ e
  | .while_ _ body => CoveredS cfg Γ body
  | .doWhile _ body => CoveredS cfg Γ body
  | .loop body => CoveredS cfg Γ body
  | .times _ _ body => CoveredS cfg Γ body
  | .func _ body => CoveredS cfg Γ body
  | .script body => CoveredS cfg Γ body
  | .exprStmt _ => True
  | .assign _ _ _ => True
  | .decl _ _ => True
  | .condJump _ => True
  | .inert => True
  | .ret _ => True
  | .decls _ => True
  | .constDecls ds => cfg.checksConstDeclTy = true ∨
      ∀ p ∈ ds, ∃ t, litTy p.2 = some t ∧ Γ.varTy p.1 = .typed t
def CoveredS (cfg : Cfg) (Γ : Ctx) : Stmts → Prop
  | .nil => True
  | .cons s ss => Covered cfg Γ s ∧ CoveredS cfg Γ ss
end


/-- the run-time environment respects the declared types -/
structure EnvOk (Γ : Ctx) (cs : Consts) (env : Env) : Prop where
  const : ∀ n v, cs n = some v → Γ.varTy n = .typed v.ty
  reg : ∀ r sig t, ReadTy (Γ.regTy r) sig t → (env.reg r sig).ty = t
  loc : ∀ n sig t, cs n = none → ReadTy (Γ.varTy n) sig t → (env.loc n sig).ty = t


/-! subexpressions (everything `check_expr` is called on while checking `e`) -/
mutual
def subsE : TExpr → List TExpr
  | .litI v => [.litI v]
  | .litF v => [.litF v]
  | .litS v => [.litS v]
  | .reg r s => [.reg r s]
  | .var n s => [.var n s]
  | .unop op x => .unop op x :: subsE x
  | .binop op a b => .binop op a b :: (subsE a ++ subsE b)
  | .ternary c l r => .ternary c l r :: (subsE c ++ subsE l ++ subsE r)
  | .call f args => .call f args :: subsA args
  | .diffSwitch first rest => .diffSwitch first rest :: (subsE first ++ subsC rest)
  | .xcrement pre inc v => [.xcrement pre inc v]
  | .enumConst en n => [.enumConst en n]
  | .labelProp l => [.labelProp l]
  | .callx u f ps args => .callx u f ps args :: (subsP ps ++ subsA args)
def subsA : TArgs → List TExpr
  | .nil => []
  | .cons a as => subsE a ++ subsA as
def subsC : TCases → List TExpr
  | .nil => []
  | .blank cs => subsC cs
  | .case e cs => subsE e ++ subsC cs
def subsP : TPseudos → List TExpr
  | .nil => []
  | .cons _ e ps => subsE e ++ subsP ps
end

/-- no qualified constant of a string enum occurs in `e` (the one place where `compute_ty`
and `check_expr` disagree, see `computeTyEnumIsInt`) -/
def NoStrEnumConst (Γ : Ctx) (e : TExpr) : Prop :=
  ∀ en n, .enumConst en n ∈ subsE e → Γ.enumStr en = false

/-- no `++` / `--` in `e` writes to a constant (what `check_var_is_assignable` demands of
assignment and clobber targets, and since e098828 of the operand of `++` / `--`, see
`checksXcrementTarget`) -/
def WritesOk (Γ : Ctx) (e : TExpr) : Prop :=
  ∀ pre inc v, .xcrement pre inc v ∈ subsE e → Assignable Γ v


end TruthModel.Types
