import TruthModel.Model.Basic
/-
C04 — model of the error plumbing and of source spans.

Part 1, error plumbing (`src/error.rs`, `src/diagnostic.rs`, `wrap_exit_code` in `src/cli_def.rs`):

* `ErrorReported` is a payload-free token.  `ErrorReported::new()` is called in exactly three
  places, all of them `emit` methods (`RootEmitter::emit`, the default `Emitter::emit` of chained
  emitters, `DummyEmitter::emit`), so a token can only come out of an `emit` call — but `emit`
  returns one for EVERY argument: a warning, an empty `Vec<Diagnostic>`, a `DummyEmitter`, or a
  root emitter whose writer is `dev_null()` (`src/llir/lower.rs:225`).  The model mirrors this:
  `Token` carries one ghost bit `vis` = "the emit call(s) this token stands for rendered an
  error-severity diagnostic on the visible writer"; the real token carries nothing.
* The code that handles tokens is a stack machine here (`Op`, `step`, `exec`): tokens exist only on
  the machine's stack and only `emit` / `collectEmit` push fresh ones.  The other operations are
  the ones the code base uses: `.ignore()`, dropping a value, `ErrorFlag::{new,set,into_result}`,
  `Err(e)`, `Ok(())`, `.unwrap_or_else(|e| errors.set(e))`, `collect_with_recovery`, `?`.
* `exitCode` is `wrap_exit_code`.

Part 2, spans (`src/pos/span.rs`, `src/pos/source_map.rs`, `diagnostic.rs:149-166`): byte ranges in
a registered file, the combinators the lexer / parser glue uses (`Span::new` with its
`assert!(end >= start)`, `from_locs`, `merge` with its `assert_eq!` on the files, `start_span`,
`end_span`) and rendering: codespan-reporting 0.11 fails (and `write_error` then panics with
"Internal compiler error while formatting error") exactly when a label names a file that is not
in the database; it tolerates ranges that are out of bounds or not on character boundaries (it
clamps them), which the correspondence check confirms on arbitrary spans.  Labels are made by
`Diagnostic::primary` / `secondary` only (`DiagB.addLabel`): since the repair c4ddfe9 a span
without a file (`Span::NULL`, `file_id == None`: generated code, built-in definitions) does not
become a label but a note, so a file-less span can no longer reach the renderer; before, it did and
`ambiguous value for enum const` on a built-in enum panicked.
-/
namespace TruthModel.Diag

/-! ## Part 1: emitters, tokens, exit status -/

/-- `codespan_reporting::diagnostic::Severity` -/
inductive Severity where
  | bug | error | warning | note | help
deriving Repr, DecidableEq, Inhabited

/-- error severity or above (`bug!` diagnostics are internal errors) -/
def Severity.isError : Severity → Bool
  | .bug => true
  | .error => true
  | _ => false

/-- where an emitter writes -/
inductive Writer where
  /-- `RootEmitter` (stderr, or the capturing writer) -/
  | root
  /-- `Node<..>`: the root emitter behind `depth` unspanned prefixes (`chain`, `while_reading`, ...) -/
  | chain (depth : Nat)
  /-- `DummyEmitter`: returns a token, writes nothing -/
  | dummy
  /-- `root.with_writer(dev_null())` -/
  | null
deriving Repr, DecidableEq, Inhabited

def Writer.visible : Writer → Bool
  | .root => true
  | .chain _ => true
  | _ => false

def Writer.depth : Writer → Nat
  | .chain d => d
  | _ => 0

/-- one rendered diagnostic as the log (stderr) shows it: severity and number of prefixes -/
structure Entry where
  sev : Severity
  depth : Nat
deriving Repr, DecidableEq, Inhabited

abbrev Log := List Entry

def hasErr (log : Log) : Bool := log.any (·.sev.isError)

/-- `ErrorReported`, with the ghost bit described above -/
structure Token where
  vis : Bool
deriving Repr, DecidableEq, Inhabited

/-- what `emit` appends to the visible log -/
def emitLog (w : Writer) (ds : List Severity) (log : Log) : Log :=
  if w.visible then log ++ ds.map (fun s => ⟨s, w.depth⟩) else log

/-- the token `emit` returns -/
def emitTok (w : Writer) (ds : List Severity) : Token :=
  ⟨w.visible && ds.any (·.isError)⟩

/-- `ErrorFlag::set`: the earliest token is kept (the ghost bits are joined) -/
def setFlag (f : Option Token) (t : Token) : Option Token :=
  match f with
  | none => some t
  | some t0 => some ⟨t0.vis || t.vis⟩

/-- `ErrorFlag::into_result(())` -/
def flagResult (f : Option Token) : Except Token Unit :=
  match f with
  | none => .ok ()
  | some t => .error t

/-- the closure of `collect_with_recovery`: `Err(e) => errors.set(e)` -/
def absorb (f : Option Token) : Except Token Unit → Option Token
  | .ok _ => f
  | .error t => setFlag f t

/-- `collect_with_recovery::<()>` on already computed items -/
def collectRes (rs : List (Except Token Unit)) : Except Token Unit :=
  flagResult (rs.foldl absorb none)

/-- `wrap_exit_code` -/
def exitCode : Except Token Unit → Nat
  | .ok _ => 0
  | .error _ => 1

inductive Val where
  | tok (t : Token)
  | flag (f : Option Token)
  | res (r : Except Token Unit)
deriving Repr, Inhabited

structure State where
  stack : List Val
  log : Log
  /-- ghost: number of `vis` tokens that were ignored or dropped -/
  lost : Nat
deriving Repr, Inhabited

def State.init : State := ⟨[], [], 0⟩

/-- an element of an iterator given to `collect_with_recovery`: `Ok(())`, or
`Err(emitter.emit(..))` evaluated when the iterator reaches it -/
abbrev Elem := Option (Writer × List Severity)

inductive Op where
  /-- `let e = emitter.emit(ds);` -/
  | emit (w : Writer) (ds : List Severity)
  /-- `emitter.emit(ds).ignore();` -/
  | emitIgnore (w : Writer) (ds : List Severity)
  /-- `e.ignore()` -/
  | ignore
  /-- a value goes out of scope -/
  | drop
  | flagNew
  /-- `errors.set(e)` -/
  | flagSet
  /-- `errors.into_result(())` -/
  | flagRes
  /-- `Err(e)` -/
  | errOf
  /-- `Ok(())` -/
  | okUnit
  /-- `r.unwrap_or_else(|e| errors.set(e))` -/
  | orElse
  /-- `collect_with_recovery` over the `n` results on top of the stack -/
  | collect (n : Nat)
  /-- `elems.map(|x| ..Err(emit(..))..).collect_with_recovery()` -/
  | collectEmit (elems : List Elem)
  /-- `r?` -/
  | try_
deriving Repr, Inhabited

inductive Step where
  | next (s : State)
  /-- `?` returned early with this error -/
  | halt (t : Token) (s : State)
  /-- the operation does not apply to the values on the stack (not a program) -/
  | stuck

def Val.vis : Val → Bool
  | .tok t => t.vis
  | .flag (some t) => t.vis
  | .flag none => false
  | .res (.error t) => t.vis
  | .res (.ok _) => false

/-- pops `n` results; returns them in the order they were pushed -/
def popRes : Nat → List Val → Option (List (Except Token Unit) × List Val)
  | 0, st => some ([], st)
  | n + 1, .res r :: st =>
    match popRes n st with
    | some (rs, st') => some (rs ++ [r], st')
    | none => none
  | _ + 1, _ => none

/-- the loop of `collectEmit`: every element is evaluated, none is skipped -/
def runElems : List Elem → Log → Option Token → Log × Option Token
  | [], log, f => (log, f)
  | none :: es, log, f => runElems es log f
  | some (w, ds) :: es, log, f => runElems es (emitLog w ds log) (setFlag f (emitTok w ds))

def step (s : State) : Op → Step
  | .emit w ds => .next { s with stack := .tok (emitTok w ds) :: s.stack, log := emitLog w ds s.log }
  | .emitIgnore w ds =>
    .next { s with log := emitLog w ds s.log, lost := s.lost + (if (emitTok w ds).vis then 1 else 0) }
  | .ignore =>
    match s.stack with
    | .tok t :: st => .next { s with stack := st, lost := s.lost + (if t.vis then 1 else 0) }
    | _ => .stuck
  | .drop =>
    match s.stack with
    | v :: st => .next { s with stack := st, lost := s.lost + (if v.vis then 1 else 0) }
    | _ => .stuck
  | .flagNew => .next { s with stack := .flag none :: s.stack }
  | .flagSet =>
    match s.stack with
    | .tok t :: .flag f :: st => .next { s with stack := .flag (setFlag f t) :: st }
    | _ => .stuck
  | .flagRes =>
    match s.stack with
    | .flag f :: st => .next { s with stack := .res (flagResult f) :: st }
    | _ => .stuck
  | .errOf =>
    match s.stack with
    | .tok t :: st => .next { s with stack := .res (.error t) :: st }
    | _ => .stuck
  | .okUnit => .next { s with stack := .res (.ok ()) :: s.stack }
  | .orElse =>
    match s.stack with
    | .res r :: .flag f :: st => .next { s with stack := .flag (absorb f r) :: st }
    | _ => .stuck
  | .collect n =>
    match popRes n s.stack with
    | some (rs, st) => .next { s with stack := .res (collectRes rs) :: st }
    | none => .stuck
  | .collectEmit elems =>
    let (log, f) := runElems elems s.log none
    .next { s with stack := .res (flagResult f) :: s.stack, log := log }
  | .try_ =>
    match s.stack with
    | .res (.ok _) :: st => .next { s with stack := st }
    | .res (.error t) :: _ => .halt t s
    | _ => .stuck

/-- runs a trace; at its end exactly the function's result is left -/
def exec : State → List Op → Option (Except Token Unit × State)
  | s, [] =>
    match s.stack with
    | [.res r] => some (r, s)
    | _ => none
  | s, op :: ops =>
    match step s op with
    | .next s' => exec s' ops
    | .halt t s' => some (.error t, s')
    | .stuck => none

/-- every token that is kept comes from an emit that rendered an error-severity diagnostic -/
def Op.disciplined : Op → Bool
  | .emit w ds => w.visible && ds.any (·.isError)
  | .collectEmit elems => elems.all fun e =>
      match e with
      | none => true
      | some (w, ds) => w.visible && ds.any (·.isError)
  | _ => true

/-- the operation creates no token that is kept -/
def Op.tokenFree : Op → Bool
  | .emit _ _ => false
  | .collectEmit elems => elems.all (·.isNone)
  | _ => true

/-! ## Part 2: spans -/

/-- `pos::Span`; `file = none` is `FileId = None` (`Span::NULL`), `some i` the i-th registered file -/
structure Span where
  file : Option Nat
  lo : Nat
  hi : Nat
deriving Repr, DecidableEq, Inhabited

/-- the file database: the (UTF-8) text of every registered file -/
abbrev Files := List (List UInt8)

/-- `str::is_char_boundary` -/
def isCharBoundary (src : List UInt8) (i : Nat) : Bool :=
  if i = 0 then true
  else if src.length ≤ i then i = src.length
  else match src[i]? with
    | some b => !(128 ≤ b.toNat && b.toNat < 192)
    | none => false

def Span.known (fs : Files) (s : Span) : Bool :=
  match s.file with
  | some f => f < fs.length
  | none => false

/-- in a registered file, ordered, inside the text, on character boundaries -/
def Span.valid (fs : Files) (s : Span) : Bool :=
  match s.file with
  | none => false
  | some f =>
    match fs[f]? with
    | none => false
    | some src => s.lo ≤ s.hi && s.hi ≤ src.length && isCharBoundary src s.lo && isCharBoundary src s.hi

/-- `Span::new` -/
def Span.new (file : Option Nat) (lo hi : Nat) : Outcome Span :=
  if lo ≤ hi then .ok ⟨file, lo, hi⟩ else .panic "assertion failed: end >= start"

/-- `Span::from_locs(left, right)`: start of `a` to end of `b` in the file of `a` (what `Sp<Rule>`
does with `@L`, `@R`; its `debug_assert_eq!` on the two file ids is not reachable from outside the
crate and the lexer gives both locations the same file) -/
def Span.join (a b : Span) : Outcome Span := Span.new a.file a.lo b.hi

/-- `Span::merge` -/
def Span.merge (a b : Span) : Outcome Span :=
  if a.file ≠ b.file then .panic "assertion `left == right` failed"
  else Span.new a.file (min a.lo b.lo) (max a.hi b.hi)

def Span.startSpan (a : Span) : Span := ⟨a.file, a.lo, a.lo⟩
def Span.endSpan (a : Span) : Span := ⟨a.file, a.hi, a.hi⟩

/-- rendering one label (`cs::term::emit` + the `unwrap_or_else(panic!)` of `write_error`) -/
def renderLabel (fs : Files) (s : Span) : Outcome Unit :=
  if s.known fs then .ok () else .panic "Internal compiler error while formatting error"

/-- rendering a diagnostic with these labels -/
def render (fs : Files) : List Span → Outcome Unit
  | [] => .ok ()
  | l :: ls =>
    match renderLabel fs l with
    | .ok () => render fs ls
    | .err c => .err c
    | .panic p => .panic p

/-- a `Diagnostic` under construction: what `primary` / `secondary` / `note` have added so far -/
structure DiagB where
  labels : List Span
  notes : Nat
deriving Repr, DecidableEq, Inhabited

def DiagB.empty : DiagB := ⟨[], 0⟩

/-- `Diagnostic::primary(span, msg)` / `secondary(span, msg)` (c4ddfe9): a span without a file
becomes a note, anything else a label -/
def DiagB.addLabel (d : DiagB) (s : Span) : DiagB :=
  match s.file with
  | none => { d with notes := d.notes + 1 }
  | some _ => { d with labels := d.labels ++ [s] }

/-- a diagnostic labelled with these spans, in order -/
def DiagB.ofSpans (spans : List Span) : DiagB := spans.foldl DiagB.addLabel DiagB.empty

/-- `write_error` on a diagnostic built through the public API -/
def renderDiag (fs : Files) (spans : List Span) : Outcome Unit := render fs (DiagB.ofSpans spans).labels

/-- spans the parser glue can build from the lexer's token spans `toks` of file `f` -/
inductive Built (fs : Files) (toks : List Span) : Span → Prop
  | tok {t} : t ∈ toks → Built fs toks t
  /-- `Sp<Rule>` over a non-empty production: first token start .. last token end -/
  | join {a b} : Built fs toks a → Built fs toks b → a.file = b.file → a.lo ≤ b.hi →
      Built fs toks ⟨a.file, a.lo, b.hi⟩
  | merge {a b} : Built fs toks a → Built fs toks b → a.file = b.file →
      Built fs toks ⟨a.file, min a.lo b.lo, max a.hi b.hi⟩
  /-- empty productions / `start_span` / `end_span`: zero-width at a token edge -/
  | start {a} : Built fs toks a → Built fs toks a.startSpan
  | stop {a} : Built fs toks a → Built fs toks a.endSpan
  /-- `Span::initial`, and the location reported at end of input -/
  | initial {f src} : fs[f]? = some src → Built fs toks ⟨some f, 0, 0⟩
  | eof {f src} : fs[f]? = some src → Built fs toks ⟨some f, src.length, src.length⟩

end TruthModel.Diag
