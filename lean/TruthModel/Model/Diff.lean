import TruthModel.Model.Basic
/-
C14 — difficulty labels and difficulty switches.

Mirror of `src/context/diff_flags.rs` (`DiffFlagDefs`: `define_flag`, `define_flag_from_mapfile`,
`parse_diff_string`, `mask_to_diff_label`, `difficulty_bits`, `aux_bits`), of
`src/diff_switch_utils.rs` (`select_diff_switch_case`, `explicit_difficulty_cases`,
`DiffSwitchMeta::{update, explicit_case_bitmasks}`), of `elaborate_diff_switches` /
`update_diff_switch_meta` / `select_diff_for_lower_arg` (`src/llir/lower.rs`), of the mask arithmetic of
`lower_assign_diff_switch` (`src/llir/lower/stackless.rs`) and of `SwitchLenChecker`
(`src/passes/validate_difficulty.rs`).  Masks are the 8-bit difficulty byte (`BitSet32` holding
`NUM_BITS = 8` bits).
-/
namespace TruthModel.Diff

abbrev Mask := BitVec 8

/-- `BitSet32::set_bit` -/
def setBit (m : Mask) (i : Nat) (on : Bool) : Mask :=
  if on then m ||| (1#8 <<< i) else m &&& ~~~(1#8 <<< i)

/-- `BitSet32::into_iter` restricted to 8 bits: ascending -/
def bitsOf (m : Mask) : List Nat := (List.range 8).filter (fun i => m.getLsbD i)

/-! ## flag table -/

/-- `DiffFlagDefs`; the two `BTreeMap`s as finite functions -/
structure Defs where
  defaultOn : Mask
  byName : Char → Option Nat
  byFlag : Nat → Option Char

/-- `diff_flag_char_pat!()`: ASCII alphanumeric -/
def isFlagChar (c : Char) : Bool := c.isAlphanum

/-- `define_flag` -/
def defineFlag (d : Defs) (name : Char) (index : Nat) (enable : Bool) : Outcome Defs :=
  if ¬ index < 8 then .panic "assertion failed: index < NUM_BITS"
  else if ¬ isFlagChar name then .panic "assertion failed: matches!(name, diff_flag_char_pat!())"
  else .ok {
    defaultOn := setBit d.defaultOn index enable
    byName := fun c => if c = name then some index else d.byName c
    byFlag := fun i => if i = index then some name else d.byFlag i }

def emptyDefs : Defs := { defaultOn := 0, byName := fun _ => none, byFlag := fun _ => none }

/-- `define_flag` without the assertions (they hold for the arguments used below) -/
def defineFlag' (d : Defs) (name : Char) (index : Nat) (enable : Bool) : Defs :=
  { defaultOn := setBit d.defaultOn index enable
    byName := fun c => if c = name then some index else d.byName c
    byFlag := fun i => if i = index then some name else d.byFlag i }

/-- `Default for DiffFlagDefs`: the digit names, all off by default -/
def defaultDefs : Defs :=
  (List.range 8).foldl (fun d i => defineFlag' d (Char.ofNat (48 + i)) i false) emptyDefs

def rangeErr : String := "difficulty flag index out of range"
def invalidDefErr : String := "invalid difficulty flag definition"

def dupNameErr : String := "difficulty flag name"

/-- `self.by_flag.iter().find(|&(&i, &c)| c == name && i != index)`: the name already names
another flag (keys of `by_flag` are always below `NUM_BITS`) -/
def namesOtherFlag (d : Defs) (name : Char) (index : Nat) : Bool :=
  (List.range 8).any fun i => i != index && d.byFlag i == some name

/-- `define_flag_from_mapfile`: `index` and the two-character definition string -/
def defineFromMapfile (d : Defs) (index : Int) (str : List Char) : Outcome Defs :=
  if ¬ (0 ≤ index ∧ index < 8) then .err rangeErr
  else match str with
    -- `str.len() != 2 || !str.is_char_boundary(1)`: exactly two one-byte characters
    | [name, sign] =>
      if ¬ (name.val < 128 ∧ sign.val < 128) then .err invalidDefErr
      else if ¬ isFlagChar name then .err invalidDefErr
      else if ¬ (sign = '-' ∨ sign = '+') then .err invalidDefErr
      -- a name may only stand for one flag
      else if namesOtherFlag d name index.toNat then .err dupNameErr
      else defineFlag d name index.toNat (sign = '+')
    | _ => .err invalidDefErr

/-- all `!difficulty_flags` lines of the mapfiles, in order, on top of the default table -/
def applyLines (d : Defs) : List (Int × List Char) → Outcome Defs
  | [] => .ok d
  | (i, s) :: rest => match defineFromMapfile d i s with
    | .ok d' => applyLines d' rest
    | .err c => .err c
    | .panic s => .panic s

def unknownFlagErr : String := "unknown difficulty flag"
def invalidCharErr : String := "invalid character"

/-- loop of `parse_diff_string` -/
def parseGo (d : Defs) : List Char → Mask → Bool → Outcome Mask
  | [], out, _ => .ok out
  | c :: cs, out, en =>
    if c = '-' then parseGo d cs out false
    else if c = '+' then parseGo d cs out true
    else if c = '*' then parseGo d cs (if en then 0xFF#8 else 0#8) en
    else if isFlagChar c then
      match d.byName c with
      | some i => parseGo d cs (setBit out i en) en
      | none => .err unknownFlagErr
    else .err invalidCharErr

/-- `parse_diff_string` -/
def parse (d : Defs) (s : List Char) : Outcome Mask := parseGo d s d.defaultOn true

/-- `difficulty_bits` -/
def diffBits (d : Defs) : Mask := ~~~d.defaultOn
/-- `aux_bits` -/
def auxBits (d : Defs) : Mask := d.defaultOn

def missingKeyMsg : String := "no entry found for key"

/-- `for bit in set { out.push(self.by_flag[&bit]) }` -/
def names (d : Defs) : List Nat → Outcome (List Char)
  | [] => .ok []
  | i :: rest => match d.byFlag i with
    | none => .panic missingKeyMsg
    | some c => match names d rest with
      | .ok cs => .ok (c :: cs)
      | e => e

/-- `mask_to_diff_label` -/
def label (d : Defs) (mask : Mask) : Outcome (List Char) :=
  let mustEnable := mask &&& diffBits d
  let mustDisable := ~~~mask &&& auxBits d
  let first : Outcome (List Char) := if mustEnable = diffBits d then .ok ['*'] else names d (bitsOf mustEnable)
  match first with
  | .ok a =>
    if mustDisable = 0#8 then .ok a
    else match names d (bitsOf mustDisable) with
      | .ok b => .ok (a ++ '-' :: b)
      | e => e
  | e => e

/-! ## difficulty switches -/

/-- last `some` among the entries `0..=d` -/
def pick {α} : List (Option α) → Nat → Option α
  | [], _ => none
  | c :: _, 0 => c
  | c :: cs, d + 1 => match pick cs d with
    | some x => some x
    | none => c

def lenAssertMsg : String := "assertion failed: difficulty < cases.len() as u32"
def easyMsg : String := "there's always an easy value"

/-- `select_diff_switch_case` -/
def selectCase {α} (cases : List (Option α)) (d : Nat) : Outcome α :=
  if d < cases.length then
    match pick cases d with
    | some x => .ok x
    | none => .panic easyMsg
  else .panic lenAssertMsg

/-- `(prev..stop).collect::<BitSet32>()` as a difficulty byte -/
def rangeMask (a b : Nat) : Mask := (List.range' a (b - a)).foldl (fun m i => setBit m i true) 0#8

/-- `explicit_difficulty_cases`: loop state = (current mask, current case, difficulty) -/
def explicitCasesGo {α} : List (Option α) → Mask → α → Nat → List (Mask × α)
  | [], curMask, cur, _ => [(curMask, cur)]
  | none :: rest, curMask, cur, d => explicitCasesGo rest (setBit curMask d true) cur (d + 1)
  | some c :: rest, curMask, cur, d => (curMask, cur) :: explicitCasesGo rest (setBit 0#8 d true) c (d + 1)

def explicitCases {α} : List (Option α) → Outcome (List (Mask × α))
  | [] => .panic "always len > 1"
  | none :: _ => .panic "first case always present"
  | some c :: rest => .ok (explicitCasesGo rest (setBit 0#8 0 true) c 1)

/-- an instruction argument after `classify_expr`: a plain value or a switch whose cases are
arguments again (`LowerArg::DiffSwitch`) -/
inductive Arg where
  | val (v : Int32)
  | sw (cases : List (Option Arg))
deriving Repr, Inhabited

mutual
/-- `select_diff_for_lower_arg`: select this difficulty's case, recursing into nested switches -/
def selArg (d : Nat) : Arg → Outcome Int32
  | .val v => .ok v
  | .sw cases => if d < cases.length then selList d cases d else .panic lenAssertMsg
/-- the last `Some` among `cases[0..=k]`, selected again at difficulty `d` -/
def selList (d : Nat) : List (Option Arg) → Nat → Outcome Int32
  | [], _ => .panic easyMsg
  | c :: _, 0 => selOpt d c
  | c :: cs, k + 1 => if (cs.take (k + 1)).any Option.isSome then selList d cs k else selOpt d c
def selOpt (d : Nat) : Option Arg → Outcome Int32
  | none => .panic easyMsg
  | some a => selArg d a
end

mutual
/-- lengths of all switches in an argument, as `SwitchLenChecker` visits them (post-order) -/
def switchLens : Arg → List Nat
  | .val _ => []
  | .sw cases => switchLensList cases ++ [cases.length]
def switchLensList : List (Option Arg) → List Nat
  | [] => []
  | none :: rest => switchLensList rest
  | some a :: rest => switchLens a ++ switchLensList rest
end

def mismatchErr : String := "mismatched diff switch lengths in a single statement"
def tooManyErr : String := "too many cases in diff switch"

/-- `SwitchLenChecker::into_result`: the common length of all switches of the statement
(`none` if there is no switch) -/
def checkLens (args : List Arg) : Outcome (Option Nat) :=
  match args.flatMap switchLens with
  | [] => .ok none
  | n :: rest =>
    if rest.any (· != n) then .err mismatchErr
    else if n > 8 then .err tooManyErr
    else .ok (some n)

/-- `DiffSwitchMeta` -/
structure Meta where
  num : Nat
  explicit : Mask
deriving Repr

/-- `DiffSwitchMeta::update` -/
def Meta.update {α} (m : Meta) (cases : List (Option α)) : Meta :=
  { num := max m.num cases.length
    explicit := (List.range cases.length).foldl (fun e i => if (cases[i]?).join.isSome then setBit e i true else e) m.explicit }

/-- consecutive pairs of a list of stops -/
def ranges : List Nat → List (Nat × Nat)
  | a :: b :: rest => (a, b) :: ranges (b :: rest)
  | _ => []

/-- `explicit_case_bitmasks`, as (first difficulty, one past the last) pairs -/
def Meta.caseRanges (m : Meta) : List (Nat × Nat) := ranges (bitsOf m.explicit ++ [m.num])

mutual
/-- `update_diff_switch_meta`: a switch contributes its own explicit cases and, recursively, those
of every switch nested in one of its cases -/
def metaArg (m : Meta) : Arg → Meta
  | .val _ => m
  | .sw cases => metaCases (m.update cases) cases
/-- `for case in cases.iter().flatten() { update_diff_switch_meta(meta, case) }` -/
def metaCases (m : Meta) : List (Option Arg) → Meta
  | [] => m
  | none :: rest => metaCases m rest
  | some a :: rest => metaCases (metaArg m a) rest
end

/-- what `elaborate_diff_switches` collects over all arguments of the instruction -/
def metaOf (args : List Arg) : Meta := args.foldl metaArg { num := 0, explicit := 0#8 }

/-- one emitted instruction: difficulty byte and argument values -/
structure Copy where
  mask : Mask
  args : List Int32
deriving Repr, DecidableEq

def selArgs (d : Nat) : List Arg → Outcome (List Int32)
  | [] => .ok []
  | a :: rest => match selArg d a with
    | .ok v => match selArgs d rest with
      | .ok vs => .ok (v :: vs)
      | e => e
    | .err c => .err c
    | .panic s => .panic s

def expandGo (d : Defs) (mask : Mask) (args : List Arg) : List (Nat × Nat) → Outcome (List Copy)
  | [] => .ok []
  | (a, b) :: rest =>
    let newDiff := (mask &&& diffBits d) &&& rangeMask a b
    if newDiff = 0#8 then expandGo d mask args rest
    else match selArgs a args with     -- `case_diff_mask.into_iter().next().unwrap()` = a
      | .ok vs => match expandGo d mask args rest with
        | .ok cs => .ok ({ mask := newDiff ||| (mask &&& auxBits d), args := vs } :: cs)
        | e => e
      | .err c => .err c
      | .panic s => .panic s

/-- `elaborate_diff_switches` for one instruction with known arguments -/
def expandCore (d : Defs) (mask : Mask) (args : List Arg) : Outcome (List Copy) :=
  let m := metaOf args
  if m.num < 2 then
    -- no (top-level) difficulty switch: the instruction is kept as it is
    match selArgs 0 args with
    | .ok vs => .ok [{ mask := mask, args := vs }]
    | .err c => .err c
    | .panic s => .panic s
  else expandGo d mask args m.caseRanges

/-- the length check of `validate_difficulty`, then `elaborate_diff_switches` -/
def expand (d : Defs) (mask : Mask) (args : List Arg) : Outcome (List Copy) :=
  match checkLens args with
  | .err c => .err c
  | .panic s => .panic s
  | .ok _ => expandCore d mask args

/-- `lower_assign_diff_switch`: one assignment per explicit case; note that here the emptiness
test is on the whole new mask (difficulty part *and* aux part) -/
def assignCopies {α} (d : Defs) (mask : Mask) (cases : List (Option α)) : Outcome (List (Mask × α)) :=
  match explicitCases cases with
  | .ok ecs => .ok (ecs.filterMap fun (cm, c) =>
      let newMask := ((mask &&& diffBits d) &&& cm) ||| (mask &&& auxBits d)
      if newMask = 0#8 then none else some (newMask, c))
  | .err c => .err c
  | .panic s => .panic s

end TruthModel.Diff
