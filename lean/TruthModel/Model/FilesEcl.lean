import TruthModel.Model.Files
/-
Container level of old-format ECL files (TH06-TH095): `read_olde_ecl` / `write_olde_ecl`
(src/formats/ecl/ecl_06.rs): optional magic, sub count, timeline count, the timeline offset
array (fixed capacity in TH06-TH08/TH095, counted in TH09), the sub offset array, subs and
timelines as instruction streams.  Conventions as in `Model/Files.lean`.
-/
namespace TruthModel.Files
open TruthModel TruthModel.InstrIO

/-- `TimelineArrayKind` -/
inductive TlKind where
  | eosd (cap : Nat)
  | pcb (cap : Nat)
  | pofv
deriving DecidableEq, Repr, Inhabited

/-- `OldeFileFormat`: what depends on the game -/
structure EclFmt where
  magic : Option Nat
  kind : TlKind
  ecl : Fmt
  tl : Fmt
deriving DecidableEq, Repr, Inhabited

def eclTh06 : EclFmt := { magic := none, kind := .eosd 3, ecl := .ecl06, tl := .tl06 }
def eclTh07 : EclFmt := { magic := none, kind := .pcb 16, ecl := .ecl07, tl := .tl06 }
def eclTh08 : EclFmt := { magic := some 0x800, kind := .pcb 16, ecl := .ecl07, tl := .tl08 }
def eclTh09 : EclFmt := { magic := some 0x900, kind := .pofv, ecl := .ecl07, tl := .tl08 }
def eclTh095 : EclFmt := eclTh08

structure EclFile where
  /-- `IndexMap<Ident, RawScript>`: the names are not used by the writer, the reader names sub `i` `sub{i}` -/
  subs : List (List Instr)
  timelines : List (List Instr)
deriving DecidableEq, Repr, Inhabited

def tooManyTimelines : String := "too many timelines!"
def badMagic : String := "failed to find magic"
def timelineAfterNull : String := "unexpected timeline offset"
def tooManySubs : String := "too many subs!"
def emptyTimelineTable : String := "timeline table has no entries"

/-- `max_timelines()`; `cap - 1` on a `usize` -/
def TlKind.maxTimelines : TlKind → Outcome (Option Nat)
  | .eosd _ => .ok (some 1)
  | .pcb cap => if cap = 0 then .panic "src/formats/ecl/ecl_06.rs: attempt to subtract with overflow" else .ok (some (cap - 1))
  | .pofv => .ok none

/-- bytes and start offsets of consecutive scripts, first one at `pos` -/
def writeScriptList (f : Fmt) : Nat → List (List Instr) → Outcome (Bytes × List Nat)
  | _, [] => .ok ([], [])
  | pos, is :: rest =>
    match writeInstrs f is with
    | .ok b =>
      match writeScriptList f (pos + b.length) rest with
      | .ok (bs, offs) => .ok (b ++ bs, pos :: offs)
      | .err c => .err c
      | .panic s => .panic s
    | .err c => .err c
    | .panic s => .panic s

/-- `Vec::resize(n, 0)`: pads or truncates -/
def resize0 (n : Nat) (l : List Nat) : List Nat := l.take n ++ List.replicate (n - l.length) 0

def eclMagicBytes (fmt : EclFmt) : Bytes := match fmt.magic with | some m => u32 m | none => []

/-- `u16::try_from(len)` of the two counts (repaired by d14e963: they used to be `len() as u16`): the
sub count always, the timeline count only in the games that store it -/
def eclCountsCheck (kind : TlKind) (e : EclFile) : Outcome Unit :=
  if e.subs.length > 65535 then .err tooManySubs else
  match kind with
  | .eosd _ => .ok ()
  | _ => if e.timelines.length > 65535 then .err tooManyTimelines else .ok ()

/-- the two count words (both fit: `eclCountsCheck`) -/
def eclCounts (kind : TlKind) (e : EclFile) : Bytes :=
  match kind with
  | .eosd _ => u16 e.subs.length ++ u16 0
  | _ => u16 e.subs.length ++ u16 e.timelines.length

def eclWriteTlArrayLen (kind : TlKind) (e : EclFile) : Nat :=
  match kind with
  | .pcb cap => cap
  | .eosd cap => cap
  | .pofv => e.timelines.length

/-- offset of the first sub -/
def eclBase (fmt : EclFmt) (e : EclFile) : Nat :=
  (eclMagicBytes fmt).length + 4 + 4 * (e.subs.length + eclWriteTlArrayLen fmt.kind e)

def eclTooMany (maxTl : Option Nat) (e : EclFile) : Bool :=
  match maxTl with
  | some m => decide (e.timelines.length > m)
  | none => false

/-- the timeline offset array as written: TH07-style games append the end of the file -/
def eclTlTable (fmt : EclFmt) (e : EclFile) (tlOffs : List Nat) (endPos : Nat) : List Nat :=
  resize0 (eclWriteTlArrayLen fmt.kind e) (match fmt.kind with | .pcb _ => tlOffs ++ [endPos] | _ => tlOffs)

def eclAssemble (fmt : EclFmt) (e : EclFile) (subBytes : Bytes) (subOffs : List Nat) (tlBytes : Bytes) (tlOffs : List Nat) : Bytes :=
  eclMagicBytes fmt ++ eclCounts fmt.kind e
    ++ u32s (eclTlTable fmt e tlOffs (eclBase fmt e + subBytes.length + tlBytes.length)) ++ u32s subOffs ++ subBytes ++ tlBytes

/-- `write_olde_ecl`.  `offset as u32` keeps the low bits. -/
def writeEcl (fmt : EclFmt) (e : EclFile) : Outcome Bytes :=
  match fmt.kind.maxTimelines with
  | .err c => .err c
  | .panic p => .panic p
  | .ok maxTl =>
  if eclTooMany maxTl e then .err tooManyTimelines else
  match eclCountsCheck fmt.kind e with
  | .err c => .err c
  | .panic p => .panic p
  | .ok _ =>
  match writeScriptList fmt.ecl (eclBase fmt e) e.subs with
  | .err c => .err c
  | .panic p => .panic p
  | .ok (subBytes, subOffs) =>
  match writeScriptList fmt.tl (eclBase fmt e + subBytes.length) e.timelines with
  | .err c => .err c
  | .panic p => .panic p
  | .ok (tlBytes, tlOffs) => .ok (eclAssemble fmt e subBytes subOffs tlBytes tlOffs)

/-- the sub / timeline loops of `read_olde_ecl`: every script is read to its end marker -/
def readScriptsAt (f : Fmt) (file : Bytes) : List Nat → List (List Instr) → Outcome (List (List Instr))
  | [], acc => .ok acc.reverse
  | off :: offs, acc =>
    match readInstrs f (seek file off) with
    | .ok is => readScriptsAt f file offs (is :: acc)
    | .err c => .err c
    | .panic p => .panic p

/-- `position(|&x| x == 0).unwrap_or(len)` -/
def firstZero : List Nat → Nat
  | [] => 0
  | x :: xs => if x = 0 then 0 else firstZero xs + 1

/-- `expect_magic` -/
def eclAfterMagic (fmt : EclFmt) (file : Bytes) : Outcome Bytes :=
  match fmt.magic with
  | none => .ok file
  | some m =>
    match rdBytes 4 file with
    | none => .err eofErr
    | some (got, r) => if got = u32 m then .ok r else .err badMagic

/-- how many dwords the timeline offset array has -/
def eclTlArrayLen (kind : TlKind) (high : Nat) : Nat :=
  match kind with
  | .pofv => high
  | .pcb cap => cap
  | .eosd cap => cap

/-- number of timelines given the number of leading nonzero offsets; where the last used entry is
the end of the file: `num_timelines.checked_sub(1)` (repaired by 8c247ce: it used to be
`num_timelines -= 1`, a panic on an array that starts with a zero offset) -/
def eclNumTimelines (kind : TlKind) (numNonzero : Nat) : Outcome Nat :=
  match kind with
  | .pcb _ => if numNonzero = 0 then .err emptyTimelineTable else .ok (numNonzero - 1)
  | _ => .ok numNonzero

/-- `read_olde_ecl` -/
def readEcl (fmt : EclFmt) (file : Bytes) : Outcome EclFile :=
  match eclAfterMagic fmt file with
  | .err c => .err c
  | .panic p => .panic p
  | .ok r =>
  match rdU16 r with
  | none => .err eofErr
  | some (numSubs, r) =>
  match rdU16 r with
  | none => .err eofErr
  | some (high, r) =>
  match rdU32s (eclTlArrayLen fmt.kind high) r with
  | none => .err eofErr
  | some (tlOffs, r) =>
  match rdU32s numSubs r with
  | none => .err eofErr
  | some (subOffs, _) =>
  if (tlOffs.drop (firstZero tlOffs)).any (· ≠ 0) then .err timelineAfterNull else
  match eclNumTimelines fmt.kind (firstZero tlOffs) with
  | .err c => .err c
  | .panic p => .panic p
  | .ok numTl =>
  match readScriptsAt fmt.ecl file subOffs [] with
  | .err c => .err c
  | .panic p => .panic p
  | .ok subs =>
  match readScriptsAt fmt.tl file (tlOffs.take numTl) [] with
  | .err c => .err c
  | .panic p => .panic p
  | .ok timelines => .ok { subs, timelines }

end TruthModel.Files
