/-
C07: model of block reconstruction while decompiling
(`src/passes/decompile_loop.rs`, `src/passes/unused_labels.rs`, `passes::postprocess_decompiled`).

The input is the flat statement list the raiser produces (`llir/raise/late.rs`): labels, gotos with
an optional explicit time, conditional gotos, interrupt labels, time labels, instructions,
assignments, each physical statement with an optional difficulty tag.  The output is a rose tree:
`loop`, `do .. while`, cond chains (children of a `chain` node are `arm` / `els` nodes), `break`.

Not modelled: the `NoInstruction` bookends truth puts at both ends of every block (they carry
no information for this algorithm; all indices below are those of the block without its two
bookends, which shifts every index of the Rust code by one and changes no comparison), spans,
node ids.  Loop ids are modelled by the index of the consumed backward jump (unique per loop).

Panics are values: `unimplemented!()` for `unless` jumps / `break` in the input and every
`assert!` / `unwrap` of `IfElseVisitor::visit_block` and `LoopVisitor::visit_block` is an explicit
`.panic` result.  Core Lean only.
-/
import TruthModel.Model.Basic
namespace TruthModel.Decomp

inductive Operand where
  | reg (r : Nat)
  | lit (v : Int)
  | dec (r : Nat)          -- `--$REG[r]`
  | timeof (l : Nat)
  | offsetof (l : Nat)
deriving DecidableEq, Repr, Inhabited

inductive BinOp where
  | eq | ne | lt | le | gt | ge | add | sub | band
deriving DecidableEq, Repr, Inhabited

/-- `BinOpKind::negate_comparison` -/
def BinOp.negate : BinOp → Option BinOp
  | .eq => some .ne | .ne => some .eq
  | .le => some .gt | .ge => some .lt
  | .lt => some .ge | .gt => some .le
  | _ => none

inductive Expr where
  | bin (op : BinOp) (a b : Operand)
  | val (a : Operand)
deriving DecidableEq, Repr, Inhabited

inductive Kw where
  | if_ | unless
deriving DecidableEq, Repr, Inhabited

/-- `ast::StmtJumpKind` -/
inductive Jump where
  | goto (dest : Nat) (time : Option Int)
  | brk
deriving DecidableEq, Repr, Inhabited

/-- leaf statements -/
inductive Atom where
  | label (l : Nat)
  | jump (j : Jump)
  | condJump (kw : Kw) (c : Expr) (j : Jump)
  | interrupt (n : Int)
  | absTime (t : Int)
  | relTime (d : Int)
  | ins (op : Nat) (args : List Operand)
  | set (r : Nat) (e : Expr)
deriving DecidableEq, Repr, Inhabited

inductive Kind where
  | loop (id : Nat)
  | doWhile (id : Nat) (c : Expr)
  | chain
  | arm (kw : Kw) (c : Expr)
  | els
deriving DecidableEq, Repr, Inhabited

inductive Stmt where
  /-- a leaf with its difficulty tag -/
  | atom (diff : Option String) (a : Atom)
  | node (k : Kind) (body : List Stmt)
deriving Repr, Inhabited

abbrev Block := List Stmt

/-! ### observations on trees -/

/-- `Expr::XcrementOp` -/
def Operand.isDec : Operand → Bool
  | .dec _ => true
  | _ => false

def Operand.refs : Operand → List Nat
  | .timeof l => [l]
  | .offsetof l => [l]
  | _ => []

def Expr.refs : Expr → List Nat
  | .bin _ a b => a.refs ++ b.refs
  | .val a => a.refs

def Jump.refs : Jump → List Nat
  | .goto d _ => [d]
  | .brk => []

/-- labels mentioned by a leaf: `get_label_refcounts` counts goto destinations and
`offsetof`/`timeof` in every expression -/
def Atom.refs : Atom → List Nat
  | .jump j => j.refs
  | .condJump _ c j => c.refs ++ j.refs
  | .ins _ args => args.flatMap Operand.refs
  | .set _ e => e.refs
  | _ => []

def Kind.refs : Kind → List Nat
  | .doWhile _ c => c.refs
  | .arm _ c => c.refs
  | _ => []

mutual
/-- all label mentions of a tree, with multiplicity, in text order -/
def Stmt.refs : Stmt → List Nat
  | .atom _ a => a.refs
  | .node k b => k.refs ++ refsL b
def refsL : List Stmt → List Nat
  | [] => []
  | s :: ss => s.refs ++ refsL ss
end

mutual
/-- all leaves of a tree in text order -/
def Stmt.atoms : Stmt → List (Option String × Atom)
  | .atom d a => [(d, a)]
  | .node _ b => atomsL b
def atomsL : List Stmt → List (Option String × Atom)
  | [] => []
  | s :: ss => s.atoms ++ atomsL ss
end

mutual
/-- all label definitions of a tree in text order -/
def Stmt.labels : Stmt → List Nat
  | .atom _ (.label l) => [l]
  | .atom _ _ => []
  | .node _ b => labelsL b
def labelsL : List Stmt → List Nat
  | [] => []
  | s :: ss => s.labels ++ labelsL ss
end

/-- `get_label_refcounts(block)[l]` (0 when absent) -/
def refcount (ss : Block) (l : Nat) : Nat := (refsL ss).count l

/-! ### `JmpInfo` -/

inductive JmpKind where
  | uncond
  | cond (kw : Kw) (c : Expr)
deriving DecidableEq, Repr, Inhabited

structure JmpInfo where
  dest : Nat
  destRc : Nat
  time : Option Int
  kind : JmpKind
deriving Repr, Inhabited

def isLabel (l : Nat) : Stmt → Bool
  | .atom _ (.label l') => l == l'
  | _ => false

/-- `get_label_info(..)[l].stmt_index`: the map is collected from an iterator, a later duplicate
replaces an earlier one -/
def labelIndexFrom (l : Nat) : List Stmt → Nat → Option Nat → Option Nat
  | [], _, acc => acc
  | s :: ss, i, acc => labelIndexFrom l ss (i + 1) (if isLabel l s then some i else acc)

def labelIndex (ss : Block) (l : Nat) : Option Nat := labelIndexFrom l ss 0 none

/-- `JmpInfo::from_stmt` for a statement of block `ss` (the `unimplemented!()` arms are handled by
`unsupported` below; here they are "not a jump") -/
def jmpInfo (ss : Block) (rc : Nat → Nat) : Stmt → Option JmpInfo
  | .atom none (.jump (.goto d t)) => (labelIndex ss d).map fun i => ⟨i, rc d, t, .uncond⟩
  | .atom none (.condJump .if_ c (.goto d t)) => (labelIndex ss d).map fun i => ⟨i, rc d, t, .cond .if_ c⟩
  | _ => none

/-- statements on which `JmpInfo::from_stmt` hits `unimplemented!()` -/
def unsupported : Stmt → Bool
  | .atom none (.condJump .unless _ _) => true
  | .atom none (.condJump .if_ _ .brk) => true
  | .atom none (.jump .brk) => true
  | _ => false

def isInterrupt : Stmt → Bool
  | .atom _ (.interrupt _) => true
  | _ => false

/-- `get_interrupt_label_indices` -/
def interruptIndicesFrom : List Stmt → Nat → List Nat
  | [], _ => []
  | s :: ss, i => if isInterrupt s then i :: interruptIndicesFrom ss (i + 1) else interruptIndicesFrom ss (i + 1)

def interruptIndices (ss : Block) : List Nat := interruptIndicesFrom ss 0

/-! ### `decompile_loop` -/

structure ScanState where
  out : List Stmt
  idx : List Nat
deriving Repr, Inhabited

/-- `should_decompile_loop`: position of the label in the current output -/
def shouldLoop (ints : List Nat) (idx : List Nat) (src : Nat) (j : JmpInfo) : Option Nat :=
  if j.time.isSome then none
  else if src < j.dest then none
  else match idx.findIdx? (· == j.dest) with
    | none => none
    | some pos => if ints.any (fun k => j.dest ≤ k && k < src) then none else some pos

/-- `JmpKind::make_loop` -/
def makeLoop (id : Nat) : JmpKind → Kind
  | .uncond => .loop id
  | .cond _ c => .doWhile id c

/-- one iteration of the `for (scan_index, scan_stmt)` loop of `LoopVisitor::visit_block` -/
def loopStep (ss : Block) (ints : List Nat) (st : ScanState) (i : Nat) (s : Stmt) : Outcome ScanState :=
  let out := st.out ++ [s]
  let idx := st.idx ++ [i]
  match jmpInfo ss (fun _ => 0) s with
  | none => .ok ⟨out, idx⟩
  | some j =>
    match shouldLoop ints idx i j with
    | none => .ok ⟨out, idx⟩
    | some pos =>
      -- `new_block = out_stmts.drain(trim_from..)`, `new_block.0.pop().unwrap()`
      match (out.drop (pos + 1)).reverse with
      | [] => .panic "decompile_loop: pop on empty block"
      | _ :: revBody => .ok ⟨out.take (pos + 1) ++ [.node (makeLoop i j.kind) revBody.reverse], idx.take (pos + 1) ++ [i]⟩

def loopScan (ss : Block) (ints : List Nat) : List Stmt → Nat → ScanState → Outcome ScanState
  | [], _, st => .ok st
  | s :: rest, i, st =>
    match loopStep ss ints st i s with
    | .ok st' => loopScan ss ints rest (i + 1) st'
    | .err e => .err e
    | .panic p => .panic p

/-- `LoopVisitor::visit_block` on the (flat) body of a script -/
def decompileLoop (ss : Block) : Outcome Block :=
  match loopScan ss (interruptIndices ss) ss 0 ⟨[], []⟩ with
  | .ok st => .ok st.out
  | .err e => .err e
  | .panic p => .panic p

/-! ### `decompile_if_else` -/

structure CondBlockInfo where
  kw : Kw
  cond : Expr
  ifIndex : Nat
  labelIndex : Nat
deriving Repr, Inhabited

structure ChainInfo where
  chain : List CondBlockInfo
  elseStart : Option Nat
  endLabel : Nat
deriving Repr, Inhabited

def jmpAt (ss : Block) (rc : Nat → Nat) (i : Nat) : Option JmpInfo :=
  match ss[i]? with
  | some s => jmpInfo ss rc s
  | none => none

def JmpKind.isCond : JmpKind → Bool
  | .cond _ _ => true
  | .uncond => false

/-- `_gather_cond_chain` (the `loop`; `fuel` bounds the number of `else if`s) -/
def gatherGo (ss : Block) (rc : Nat → Nat) : Nat → Nat → List CondBlockInfo → Option Nat → Option ChainInfo
  | 0, _, _, _ => none
  | fuel + 1, src, chain, knownEnd =>
    match jmpAt ss rc src with
    | none => none
    | some ifJ =>
      if ifJ.time.isSome then none
      else if ifJ.dest ≤ src then none
      else match ifJ.kind with
        | .uncond => none
        | .cond _ (.val _) => none
        | .cond kw (.bin op a b) =>
          -- `as_binop_cond`: a counting jump (`--x > 0`) never becomes the condition of an `if` block
          if a.isDec || b.isDec then none else
          match op.negate with
          | none => none
          | some nop =>
            let chain := chain ++ [⟨kw, .bin nop a b, src, ifJ.dest⟩]
            let uncondSrc := ifJ.dest - 1
            match (if src != uncondSrc then jmpAt ss rc uncondSrc else none) with
            | none =>
              -- a chain with no `else`
              match knownEnd with
              | some e => if ifJ.dest != e then none else some ⟨chain, none, ifJ.dest⟩
              | none => some ⟨chain, none, ifJ.dest⟩
            | some u =>
              if ifJ.destRc > 1 then none
              else if u.time.isSome then none
              else if u.kind.isCond then none
              else if u.dest ≤ uncondSrc then none
              else if knownEnd.getD u.dest != u.dest then none
              else
                let src' := ifJ.dest + 1
                match jmpAt ss rc src' with
                | some ⟨_, _, _, .cond _ _⟩ => gatherGo ss rc fuel src' chain (some u.dest)
                | _ => if u.dest < src' then none else some ⟨chain, some src', u.dest⟩

/-- `gather_cond_chain` = `_gather_cond_chain` + `reject_potentially_confusing_cond_chain` -/
def gatherCondChain (ss : Block) (rc : Nat → Nat) (ints : List Nat) (start : Nat) : Option ChainInfo :=
  match gatherGo ss rc (ss.length + 1) start [] none with
  | none => none
  | some info =>
    let first := match info.chain with | cb :: _ => cb.ifIndex | [] => start
    if ints.any (fun i => first ≤ i && i < info.endLabel) then none else some info

structure BuildState where
  index : Nat
  rest : List Stmt
deriving Repr, Inhabited

def isLabelStmt : Stmt → Bool
  | .atom _ (.label _) => true
  | _ => false

def isJumpStmt : Stmt → Bool
  | .atom _ (.jump _) => true
  | _ => false

def isCondJumpStmt : Stmt → Bool
  | .atom _ (.condJump _ _ _) => true
  | _ => false

/-- one cond block of `IfElseVisitor::visit_block`: consumes from the statement iterator -/
def buildArm (endLabel : Nat) (cb : CondBlockInfo) (st : BuildState) : Outcome (Stmt × BuildState) :=
  if st.index != cb.ifIndex then .panic "if_else: assert_eq!(index, cond_block.if_index)" else
  let len := cb.labelIndex - cb.ifIndex
  let inner := st.rest.take len
  let rest := st.rest.drop len
  let index := st.index + len
  -- eliminate the unconditional jump to the end
  let popped : Outcome (List Stmt) :=
    if cb.labelIndex != endLabel then
      match inner.reverse with
      | [] => .panic "if_else: pop on empty block"
      | r :: revInner => if isJumpStmt r then .ok revInner.reverse else .panic "if_else: removed statement is not a jump"
    else .ok inner
  match popped with
  | .err e => .err e
  | .panic p => .panic p
  | .ok inner =>
    match rest with
    | [] => .panic "if_else: statement iterator exhausted"
    | labelStmt :: rest =>
      if !isLabelStmt labelStmt then .panic "if_else: expected a label" else
      let inner := if cb.labelIndex == endLabel then inner ++ [labelStmt] else inner
      match inner with
      | [] => .panic "if_else: inner_block.0[0] out of range"
      | first :: body =>
        if !isCondJumpStmt first then .panic "if_else: first statement is not a conditional jump" else
        .ok (.node (.arm cb.kw cb.cond) body, ⟨index + 1, rest⟩)

def buildArms (endLabel : Nat) : List CondBlockInfo → BuildState → Outcome (List Stmt × BuildState)
  | [], st => .ok ([], st)
  | cb :: cbs, st =>
    match buildArm endLabel cb st with
    | .err e => .err e
    | .panic p => .panic p
    | .ok (arm, st') =>
      match buildArms endLabel cbs st' with
      | .err e => .err e
      | .panic p => .panic p
      | .ok (arms, st'') => .ok (arm :: arms, st'')

/-- the `Ok(CondChainInfo { .. })` arm of `IfElseVisitor::visit_block` -/
def buildChain (info : ChainInfo) (st : BuildState) : Outcome (Stmt × BuildState) :=
  match buildArms info.endLabel info.chain st with
  | .err e => .err e
  | .panic p => .panic p
  | .ok (arms, st) =>
    match info.elseStart with
    | none =>
      if st.index != info.endLabel + 1 then .panic "if_else: assert_eq!(index, end_label_index + 1)"
      else .ok (.node .chain arms, st)
    | some es =>
      if st.index != es then .panic "if_else: assert_eq!(index, else_start_index)" else
      let len := info.endLabel - es
      let inner := st.rest.take len
      if inner.length != len then .panic "if_else: assert_eq!(inner_block.0.len(), inner_block_len)" else
      match st.rest.drop len with
      | [] => .panic "if_else: statement iterator exhausted"
      | labelStmt :: rest =>
        if !isLabelStmt labelStmt then .panic "if_else: expected a label" else
        let index := st.index + len + 1
        if index != info.endLabel + 1 then .panic "if_else: assert_eq!(index, end_label_index + 1)"
        else .ok (.node .chain (arms ++ [.node .els (inner ++ [labelStmt])]), ⟨index, rest⟩)

/-- the `while index < original_len` loop of `IfElseVisitor::visit_block` on block `ss` -/
def chainFrom (ss : Block) (rc : Nat → Nat) (ints : List Nat) : Nat → BuildState → Outcome (List Stmt)
  | 0, _ => .panic "model: out of fuel"
  | fuel + 1, st =>
    if st.index < ss.length then
      match gatherCondChain ss rc ints st.index with
      | none =>
        match st.rest with
        | [] => .panic "if_else: statement iterator exhausted"
        | s :: rest =>
          match chainFrom ss rc ints fuel ⟨st.index + 1, rest⟩ with
          | .ok out => .ok (s :: out)
          | .err e => .err e
          | .panic p => .panic p
      | some info =>
        match buildChain info st with
        | .err e => .err e
        | .panic p => .panic p
        | .ok (node, st') =>
          match chainFrom ss rc ints fuel st' with
          | .ok out => .ok (node :: out)
          | .err e => .err e
          | .panic p => .panic p
    else .ok []

mutual
/-- size of a tree (number of constructors).  The outside-in recursion of `decompile_if_else` gets
`2 * size + 1` fuel: every new chain consumes a conditional jump and adds two levels of nesting. -/
def Stmt.size : Stmt → Nat
  | .atom _ _ => 1
  | .node _ b => 1 + sizeL b
def sizeL : List Stmt → Nat
  | [] => 1
  | s :: ss => s.size + sizeL ss
end

/-- `walk_block_mut`: apply `g` to the body of every nested block -/
def descendWith (g : Block → Outcome Block) : List Stmt → Outcome (List Stmt)
  | [] => .ok []
  | .atom d a :: rest =>
    match descendWith g rest with
    | .ok out => .ok (.atom d a :: out)
    | .err e => .err e
    | .panic p => .panic p
  | .node k body :: rest =>
    match g body with
    | .err e => .err e
    | .panic p => .panic p
    | .ok body' =>
      match descendWith g rest with
      | .ok out => .ok (.node k body' :: out)
      | .err e => .err e
      | .panic p => .panic p

/-- `IfElseVisitor::visit_block`: rewrite this block, then `walk_block_mut` into the blocks of the
result (outside-in), always with the refcounts taken at the beginning of the pass -/
def ifElseBlock (rc : Nat → Nat) : Nat → Block → Outcome Block
  | 0, _ => .panic "model: out of fuel"
  | fuel + 1, ss =>
    match chainFrom ss rc (interruptIndices ss) (ss.length + 1) ⟨0, ss⟩ with
    | .err e => .err e
    | .panic p => .panic p
    | .ok new => descendWith (ifElseBlock rc fuel) new

/-- `decompile_if_else` on a script body -/
def decompileIfElse (ss : Block) : Outcome Block :=
  ifElseBlock (refcount ss) (2 * sizeL ss + 1) ss

/-! ### `decompile_break` -/

def Kind.loopId : Kind → Option Nat
  | .loop id => some id
  | .doWhile id _ => some id
  | _ => none

/-- labels that appear immediately after a loop -/
def labelsAfter : List Stmt → List Nat
  | .atom _ (.label l) :: rest => l :: labelsAfter rest
  | _ => []

/-- the `for loop_stmt_index in 0..block.0.len()` part of `gather_loop_end_labels` -/
def localEndLabels : List Stmt → List (Nat × Nat)
  | [] => []
  | .node k _ :: rest =>
    match k.loopId with
    | some id => (labelsAfter rest).map (fun l => (l, id)) ++ localEndLabels rest
    | none => localEndLabels rest
  | _ :: rest => localEndLabels rest

mutual
/-- `gather_loop_end_labels`, the `walk_block` part: insertions into the map in visiting order -/
def nestedEndS : Stmt → List (Nat × Nat)
  | .atom _ _ => []
  | .node _ b => localEndLabels b ++ nestedEndL b
def nestedEndL : List Stmt → List (Nat × Nat)
  | [] => []
  | s :: ss => nestedEndS s ++ nestedEndL ss
end

def endLabels (root : Block) : List (Nat × Nat) := localEndLabels root ++ nestedEndL root

/-- `HashMap::get` after the insertions above: the last insertion for a key wins -/
def lookupLast (m : List (Nat × Nat)) (l : Nat) : Option Nat :=
  match m.reverse.find? (fun p => p.1 == l) with
  | some p => some p.2
  | none => none

/-- `MakeBreakVisitor::visit_jump` -/
def convJump (m : List (Nat × Nat)) (cur : Option Nat) : Jump → Jump
  | .goto d none =>
    match cur with
    | some c =>
      match lookupLast m d with
      | some e => if c == e then .brk else .goto d none
      | none => .goto d none
    | none => .goto d none
  | j => j

def convAtom (m : List (Nat × Nat)) (cur : Option Nat) : Atom → Atom
  | .jump j => .jump (convJump m cur j)
  | .condJump kw c j => .condJump kw c (convJump m cur j)
  | a => a

mutual
def breakS (m : List (Nat × Nat)) (cur : Option Nat) : Stmt → Stmt
  | .atom d a => .atom d (convAtom m cur a)
  | .node k b => .node k (breakL m (match k.loopId with | some id => some id | none => cur) b)
def breakL (m : List (Nat × Nat)) (cur : Option Nat) : List Stmt → List Stmt
  | [] => []
  | s :: ss => breakS m cur s :: breakL m cur ss
end

/-- `decompile_break` on a script body -/
def decompileBreak (ss : Block) : Block := breakL (endLabels ss) none ss

/-! ### `unused_labels::run` -/

mutual
def unusedS (rc : Nat → Nat) : Stmt → Stmt
  | .atom d a => .atom d a
  | .node k b => .node k (unusedL rc b)
/-- inner blocks first, then `retain` -/
def unusedL (rc : Nat → Nat) : List Stmt → List Stmt
  | [] => []
  | .atom d (.label l) :: ss => if rc l > 0 then .atom d (.label l) :: unusedL rc ss else unusedL rc ss
  | s :: ss => unusedS rc s :: unusedL rc ss
end

def removeUnusedLabels (ss : Block) : Block := unusedL (refcount ss) ss

/-! ### `postprocess_decompiled` with `blocks = true` -/

def postprocess (ss : Block) : Outcome Block :=
  if ss.any unsupported then .panic "not implemented" else
  match decompileLoop ss with
  | .err e => .err e
  | .panic p => .panic p
  | .ok a =>
    match decompileIfElse a with
    | .err e => .err e
    | .panic p => .panic p
    | .ok b => .ok (removeUnusedLabels (decompileBreak b))

end TruthModel.Decomp
