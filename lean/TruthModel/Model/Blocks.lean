import TruthModel.Model.Basic
/-
C06 — model of block desugaring (`src/passes/desugar_blocks.rs`), of the time assignment pass
(`src/passes/semantics/time_and_difficulty.rs`) and of the reference interpreter `AstVm::_run`
(`src/vm.rs`) on both the structured and the flat statement language.

* `Stmt`/`Chain`: structured statements.  Blocks are `List Stmt`; the two `NoInstruction`
  "bookend" statements the parser puts at the start and end of every block are implicit in the
  syntax and explicit in every function below (`nop` in the flat code, one iteration tick and one
  wait in the interpreters).
* lexical time (`endS/endL/endC`): `time_and_difficulty::run` is one running counter over the
  statements in textual order; a statement's time is the counter after its own label.
* `desugarS/desugarL/desugarB/desugarC`: the `Desugarer`, producing the flat code already paired
  with the time the time pass assigns to it (`annot_desugar` in `Props/C06.lean` proves that
  re-running the time pass on the stripped flat list gives these times back).
* `runL ..`: executable structured interpreter with the VM's iteration limit;  `Big`: the same
  semantics as a continuation-style big-step relation.
* `stepF/runF`: flat machine (program counter, `goto` = first label of that name in the list,
  time := the label's time), `Exec` its reflexive-transitive closure.
Core Lean only.
-/
namespace TruthModel.Blocks

/-! ## expressions (pure, over `Int32` registers) -/

inductive IOp where
  | add | sub | mul | eq | ne | lt | le | gt | ge
deriving Repr, DecidableEq, Inhabited

def b2i (b : Bool) : Int32 := if b then 1 else 0

def IOp.eval : IOp → Int32 → Int32 → Int32
  | .add, a, b => a + b
  | .sub, a, b => a - b
  | .mul, a, b => a * b
  | .eq, a, b => b2i (a == b)
  | .ne, a, b => b2i (a != b)
  | .lt, a, b => b2i (decide (a < b))
  | .le, a, b => b2i (decide (a ≤ b))
  | .gt, a, b => b2i (decide (b < a))
  | .ge, a, b => b2i (decide (b ≤ a))

inductive Expr where
  | lit (v : Int32)
  | reg (r : Nat)
  | bin (op : IOp) (a b : Expr)
deriving Repr, Inhabited

def Expr.eval (σ : Nat → Int32) : Expr → Int32
  | .lit v => v
  | .reg r => σ r
  | .bin op a b => op.eval (a.eval σ) (b.eval σ)

/-- `AstVm::eval_cond` -/
def Expr.evalB (σ : Nat → Int32) (e : Expr) : Bool := e.eval σ != 0

/-- `Expr::as_const_int`: integer literals only -/
def Expr.asConst : Expr → Option Int32
  | .lit v => some v
  | _ => none

/-! ## structured statements -/

mutual
inductive Stmt where
  | call (op : Nat) (args : List Expr)
  | assign (r : Nat) (e : Expr)
  | tabs (t : Int)                 -- `30:`
  | trel (d : Int)                 -- `+30:`
  | brk                            -- `break;`
  | cbrk (isIf : Bool) (c : Expr)  -- `if (c) break;` / `unless (c) break;`
  | block (b : List Stmt)
  | cond (ch : Chain)
  | loop (b : List Stmt)
  | while_ (c : Expr) (b : List Stmt)
  | doWhile (c : Expr) (b : List Stmt)
  | times (clob : Option Nat) (count : Expr) (b : List Stmt)
inductive Chain where
  | none
  | els (b : List Stmt)
  | elif (isIf : Bool) (c : Expr) (thn : List Stmt) (rest : Chain)
end

instance : Inhabited Stmt := ⟨.brk⟩
instance : Inhabited Chain := ⟨.none⟩

/-- `i32::wrapping_add` on times -/
def wrap32 (x : Int) : Int := Int.bmod x 4294967296

/-- body of a loop statement -/
def Stmt.body : Stmt → List Stmt
  | .loop b => b
  | .while_ _ b => b
  | .doWhile _ b => b
  | .times _ _ b => b
  | _ => []

/-! ## lexical time (`time_and_difficulty::run`) -/

mutual
def endS (lt : Int) : Stmt → Int
  | .tabs t => t
  | .trel d => wrap32 (lt + d)
  | .block b => endL lt b
  | .cond ch => endC lt ch
  | .loop b => endL lt b
  | .while_ _ b => endL lt b
  | .doWhile _ b => endL lt b
  | .times _ _ b => endL lt b
  | _ => lt
def endL (lt : Int) : List Stmt → Int
  | [] => lt
  | s :: ss => endL (endS lt s) ss
def endC (lt : Int) : Chain → Int
  | .none => lt
  | .els b => endL lt b
  | .elif _ _ thn rest => endC (endL lt thn) rest
end

/-! Time labels never make the lexical time go backwards (hypothesis of `desugar_sound`). -/
mutual
def MonoS (lt : Int) : Stmt → Prop
  | .tabs t => lt ≤ t
  | .trel d => lt ≤ wrap32 (lt + d)
  | .block b => MonoL lt b
  | .cond ch => MonoC lt ch
  | .loop b => MonoL lt b
  | .while_ _ b => MonoL lt b
  | .doWhile _ b => MonoL lt b
  | .times _ _ b => MonoL lt b
  | _ => True
def MonoL (lt : Int) : List Stmt → Prop
  | [] => True
  | s :: ss => MonoS lt s ∧ MonoL (endS lt s) ss
def MonoC (lt : Int) : Chain → Prop
  | .none => True
  | .els b => MonoL lt b
  | .elif _ _ thn rest => MonoL lt thn ∧ MonoC (endL lt thn) rest
end

/-- time of a statement itself: labels carry their new time -/
def stmtTime (lt : Int) : Stmt → Int
  | .tabs t => t
  | .trel d => wrap32 (lt + d)
  | _ => lt

/-! ## flat statements -/

inductive CJ where
  | ne   -- `if (--C) goto`        (`CountJmpKind::PredecNeZero`)
  | gt   -- `if (--C > 0) goto`    (`CountJmpKind::PredecGtZero`)
deriving Repr, DecidableEq, Inhabited

inductive Var where
  | reg (r : Nat)
  | tmp (k : Nat)   -- gensym'd local `count<k>` of a `times` without counter
deriving Repr, DecidableEq, Inhabited

inductive FStmt where
  | nop                                  -- block bookend (`NoInstruction`)
  | decl (k : Nat)                       -- `int count<k>;`
  | scopeEnd (k : Nat)
  | call (op : Nat) (args : List Expr)
  | assign (v : Var) (e : Expr)
  | tabs (t : Int)
  | trel (d : Int)
  | label (l : Nat)
  | goto (l : Nat)
  | cjmp (isIf : Bool) (c : Expr) (l : Nat)   -- `if (c) goto l` / `unless (c) goto l`
  | jz (v : Var) (l : Nat)                    -- `if (v == 0) goto l`
  | cntjmp (k : CJ) (v : Var) (l : Nat)       -- `if (--v) goto l` / `if (--v > 0) goto l`
deriving Repr, Inhabited

/-- flat statement with the time assigned to it -/
abbrev AF := Int × FStmt

def FStmt.time (lt : Int) : FStmt → Int
  | .tabs t => t
  | .trel d => wrap32 (lt + d)
  | _ => lt

/-- the time pass on a flat list, starting from lexical time `lt` -/
def annot (lt : Int) : List FStmt → List AF
  | [] => []
  | f :: fs => (f.time lt, f) :: annot (f.time lt) fs

def strip (p : List AF) : List FStmt := p.map (·.2)

/-! ## the Desugarer

One counter `n` plays the role of `ctx.gensym` (labels `@cond#`, `@cond_veryend#`, `@loop#`,
`@times_zero#` and the local `count`); `@loop_end#<loop id>` labels, which the real code names
after the loop id, take their number from the same counter (first, before the loop's other
names).  The correspondence check renumbers generated names by first occurrence on both sides.
`brk` is the label a `break` jumps to. -/

/-- the zero test is omitted iff the count is a non-zero literal -/
def needZeroTest (count : Expr) : Bool :=
  match count.asConst with
  | none => true
  | some v => v == 0

/-- `if (v == 0) goto l`, unless the count is a non-zero literal -/
def zeroTest (lt : Int) (v : Var) (l : Nat) (count : Expr) : List AF :=
  if needZeroTest count then [(lt, .jz v l)] else []

/-- "an unconditional jump over the rest of the blocks, if necessary" -/
def gotoEnd (t : Int) (ve : Nat) : Chain → List AF
  | .none => []
  | _ => [(t, .goto ve)]

/-- a desugared block body with its bookends -/
def bookend (lt tEnd : Int) (r : List AF × Nat) : List AF × Nat :=
  ([(lt, .nop)] ++ r.1 ++ [(tEnd, .nop)], r.2)

mutual
def desugarS (k : CJ) (brk : Nat) (n : Nat) (lt : Int) : Stmt → List AF × Nat
  | .call op args => ([(lt, .call op args)], n)
  | .assign r e => ([(lt, .assign (.reg r) e)], n)
  | .tabs t => ([(t, .tabs t)], n)
  | .trel d => ([(wrap32 (lt + d), .trel d)], n)
  | .brk => ([(lt, .goto brk)], n)
  | .cbrk isIf c => ([(lt, .cjmp isIf c brk)], n)
  | .block b => bookend lt (endL lt b) (desugarL k brk n lt b)
  | .cond ch =>
    -- veryend := n
    let r := desugarC k brk n (n + 1) lt ch
    (r.1 ++ [(endC lt ch, .label n)], r.2)
  | .loop b =>
    -- loop_end := n, loop := n+1
    let r := bookend lt (endL lt b) (desugarL k n (n + 2) lt b)
    ([(lt, .label (n + 1))] ++ r.1 ++ [(endL lt b, .goto (n + 1)), (endL lt b, .label n)], r.2)
  | .doWhile c b =>
    let r := bookend lt (endL lt b) (desugarL k n (n + 2) lt b)
    ([(lt, .label (n + 1))] ++ r.1 ++ [(endL lt b, .cjmp true c (n + 1)), (endL lt b, .label n)], r.2)
  | .while_ c b =>
    -- loop_end := n, skip := n+1, loop := n+2
    let r := bookend lt (endL lt b) (desugarL k n (n + 3) lt b)
    ([(lt, .cjmp false c (n + 1)), (lt, .label (n + 2))] ++ r.1
      ++ [(endL lt b, .cjmp true c (n + 2)), (endL lt b, .label (n + 1)), (endL lt b, .label n)], r.2)
  | .times none count b =>
    -- loop_end := n, count := n+1, times_zero := n+2, loop := n+3
    let r := bookend lt (endL lt b) (desugarL k n (n + 4) lt b)
    ([(lt, .decl (n + 1)), (lt, .assign (.tmp (n + 1)) count)]
      ++ zeroTest lt (.tmp (n + 1)) (n + 2) count
      ++ [(lt, .label (n + 3))] ++ r.1
      ++ [(endL lt b, .cntjmp k (.tmp (n + 1)) (n + 3)), (endL lt b, .label (n + 2)),
          (endL lt b, .scopeEnd (n + 1)), (endL lt b, .label n)], r.2)
  | .times (some x) count b =>
    -- loop_end := n, times_zero := n+1, loop := n+2
    let r := bookend lt (endL lt b) (desugarL k n (n + 3) lt b)
    ([(lt, .assign (.reg x) count)]
      ++ zeroTest lt (.reg x) (n + 1) count
      ++ [(lt, .label (n + 2))] ++ r.1
      ++ [(endL lt b, .cntjmp k (.reg x) (n + 2)), (endL lt b, .label (n + 1)), (endL lt b, .label n)], r.2)
def desugarL (k : CJ) (brk : Nat) (n : Nat) (lt : Int) : List Stmt → List AF × Nat
  | [] => ([], n)
  | s :: ss =>
    let a := desugarS k brk n lt s
    let b := desugarL k brk a.2 (endS lt s) ss
    (a.1 ++ b.1, b.2)
/-- `ve`: the chain's `@cond_veryend#` label -/
def desugarC (k : CJ) (brk : Nat) (ve : Nat) (n : Nat) (lt : Int) : Chain → List AF × Nat
  | .none => ([], n)
  | .els b => bookend lt (endL lt b) (desugarL k brk n lt b)
  | .elif isIf c thn rest =>
    -- skip := n
    let t := bookend lt (endL lt thn) (desugarL k brk (n + 1) lt thn)
    let r := desugarC k brk ve t.2 (endL lt thn) rest
    ([(lt, .cjmp (!isIf) c n)] ++ t.1
      ++ gotoEnd (endL lt thn) ve rest
      ++ [(endL lt thn, .label n)] ++ r.1, r.2)
end

/-- a block with its bookends -/
def desugarB (k : CJ) (brk : Nat) (n : Nat) (lt : Int) (b : List Stmt) : List AF × Nat :=
  bookend lt (endL lt b) (desugarL k brk n lt b)

/-- the whole pass on a script body (a block, with bookends), starting at time 0 and gensym 0 -/
def desugarA (k : CJ) (prog : List Stmt) : List AF := (desugarB k 0 0 0 prog).1
def desugar (k : CJ) (prog : List Stmt) : List FStmt := strip (desugarA k prog)

/-! ## machine state -/

structure Call where
  op : Nat
  rtime : Int
  args : List Int32
deriving Repr, DecidableEq, Inhabited

structure St where
  time : Int
  rtime : Int
  log : List Call          -- most recent first
  regs : Nat → Int32

def i32max : Int := 2147483647

/-- "Wait" until a statement's time.  `none`: the `i32` subtraction or addition overflows, which
is a panic in the profile under test. -/
def wait (t : Int) (st : St) : Option St :=
  if st.time < t then
    if t - st.time > i32max then none
    else if st.rtime + (t - st.time) > i32max then none
    else some { st with time := t, rtime := st.rtime + (t - st.time) }
  else some st

def St.setTime (st : St) (t : Int) : St := { st with time := t }
def St.setReg (st : St) (r : Nat) (v : Int32) : St :=
  { st with regs := fun x => if x = r then v else st.regs x }
def St.doCall (st : St) (op : Nat) (args : List Expr) : St :=
  { st with log := { op := op, rtime := st.rtime, args := args.map (·.eval st.regs) } :: st.log }

/-! ## structured semantics as a relation

Continuation-style: `seq lt ss` runs the statement list `ss` whose first statement sits at
lexical time `lt`; `blk lt b` runs a block with its bookends; `chain lt ch ss` is in the middle
of a cond chain (the remaining chain starts at `lt`), then continues with `ss`;
`iter lt s k ss` is about to run the body of loop statement `s` (hidden counter `k` for `times`
without counter), `again lt s k ss` has just finished the body normally and decides whether to
iterate.  `Out.brk`: a `break` is propagating.

`Mode`: `none` = everything `AstVm` does; `some k` leaves out the runs in which the VM's
treatment of a count differs from count-jump flavour `k` *by design of the VM* (see the rules
`timesNeg` and `againTimesS`). -/

inductive Cfg where
  | seq (lt : Int) (ss : List Stmt)
  | blk (lt : Int) (b : List Stmt)
  | chain (lt : Int) (ch : Chain) (ss : List Stmt)
  | iter (lt : Int) (s : Stmt) (k : Int32) (ss : List Stmt)
  | again (lt : Int) (s : Stmt) (k : Int32) (ss : List Stmt)

inductive Out where
  | done (st : St)
  | brk (st : St)

abbrev Mode := Option CJ

/-- effect of a statement without control flow, at its own time (after the wait) -/
def simpleEff : Stmt → St → Option St
  | .call op args, st => some (st.doCall op args)
  | .assign r e, st => some (st.setReg r (e.eval st.regs))
  | .tabs _, st => some st
  | .trel _, st => some st
  | _, _ => none

inductive Big (m : Mode) : Cfg → St → Out → Prop
  -- statement lists
  | nil (lt st) : Big m (.seq lt []) st (.done st)
  | simple (lt s ss st st0 st1 r) : wait (stmtTime lt s) st = some st0 → simpleEff s st0 = some st1 →
      Big m (.seq (endS lt s) ss) st1 r → Big m (.seq lt (s :: ss)) st r
  | brk (lt ss st st0) : wait lt st = some st0 → Big m (.seq lt (.brk :: ss)) st (.brk st0)
  | cbrkT (lt isIf c ss st st0) : wait lt st = some st0 → c.evalB st0.regs = isIf →
      Big m (.seq lt (.cbrk isIf c :: ss)) st (.brk st0)
  | cbrkF (lt isIf c ss st st0 r) : wait lt st = some st0 → c.evalB st0.regs ≠ isIf →
      Big m (.seq lt ss) st0 r → Big m (.seq lt (.cbrk isIf c :: ss)) st r
  | block (lt b ss st st0 st1 r) : wait lt st = some st0 → Big m (.blk lt b) st0 (.done st1) →
      Big m (.seq (endL lt b) ss) st1 r → Big m (.seq lt (.block b :: ss)) st r
  | blockBrk (lt b ss st st0 st1) : wait lt st = some st0 → Big m (.blk lt b) st0 (.brk st1) →
      Big m (.seq lt (.block b :: ss)) st (.brk st1)
  | cond (lt ch ss st st0 r) : wait lt st = some st0 → Big m (.chain lt ch ss) st0 r →
      Big m (.seq lt (.cond ch :: ss)) st r
  -- blocks with bookends
  | blk (lt b st st0 st1 st2) : wait lt st = some st0 → Big m (.seq lt b) st0 (.done st1) →
      wait (endL lt b) st1 = some st2 → Big m (.blk lt b) st (.done st2)
  | blkBrk (lt b st st0 st1) : wait lt st = some st0 → Big m (.seq lt b) st0 (.brk st1) →
      Big m (.blk lt b) st (.brk st1)
  -- cond chains: `self.time = start_time(block)` on the taken branch, `end_time(last_block)` after
  | chainNone (lt ss st r) : Big m (.seq lt ss) (st.setTime lt) r → Big m (.chain lt .none ss) st r
  | chainEls (lt b ss st st1 r) : Big m (.blk lt b) (st.setTime lt) (.done st1) →
      Big m (.seq (endL lt b) ss) (st1.setTime (endL lt b)) r → Big m (.chain lt (.els b) ss) st r
  | chainElsBrk (lt b ss st st1) : Big m (.blk lt b) (st.setTime lt) (.brk st1) →
      Big m (.chain lt (.els b) ss) st (.brk st1)
  | chainT (lt isIf c thn rest ss st st1 r) : c.evalB st.regs = isIf →
      Big m (.blk lt thn) (st.setTime lt) (.done st1) →
      Big m (.seq (endC lt (.elif isIf c thn rest)) ss) (st1.setTime (endC lt (.elif isIf c thn rest))) r →
      Big m (.chain lt (.elif isIf c thn rest) ss) st r
  | chainTBrk (lt isIf c thn rest ss st st1) : c.evalB st.regs = isIf →
      Big m (.blk lt thn) (st.setTime lt) (.brk st1) →
      Big m (.chain lt (.elif isIf c thn rest) ss) st (.brk st1)
  | chainF (lt isIf c thn rest ss st r) : c.evalB st.regs ≠ isIf →
      Big m (.chain (endL lt thn) rest ss) st r → Big m (.chain lt (.elif isIf c thn rest) ss) st r
  -- one iteration of any loop (`handle_block_of_breakable_stmt!`)
  | iter (lt s k ss st st1 r) : Big m (.blk lt s.body) st (.done st1) → Big m (.again lt s k ss) st1 r →
      Big m (.iter lt s k ss) st r
  | iterBrk (lt s k ss st st1 r) : Big m (.blk lt s.body) st (.brk st1) →
      Big m (.seq (endL lt s.body) ss) (st1.setTime (endL lt s.body)) r → Big m (.iter lt s k ss) st r
  -- loop
  | loop (lt b ss st st0 r) : wait lt st = some st0 → Big m (.iter lt (.loop b) 0 ss) st0 r →
      Big m (.seq lt (.loop b :: ss)) st r
  | againLoop (lt b k ss st r) : Big m (.iter lt (.loop b) k ss) (st.setTime lt) r →
      Big m (.again lt (.loop b) k ss) st r
  -- do-while
  | doWhile (lt c b ss st st0 r) : wait lt st = some st0 → Big m (.iter lt (.doWhile c b) 0 ss) st0 r →
      Big m (.seq lt (.doWhile c b :: ss)) st r
  | againDoT (lt c b k ss st r) : c.evalB st.regs = true → Big m (.iter lt (.doWhile c b) k ss) (st.setTime lt) r →
      Big m (.again lt (.doWhile c b) k ss) st r
  | againDoF (lt c b k ss st r) : c.evalB st.regs = false → Big m (.seq (endL lt b) ss) st r →
      Big m (.again lt (.doWhile c b) k ss) st r
  -- while
  | whileT (lt c b ss st st0 r) : wait lt st = some st0 → c.evalB st0.regs = true →
      Big m (.iter lt (.while_ c b) 0 ss) st0 r → Big m (.seq lt (.while_ c b :: ss)) st r
  | whileF (lt c b ss st st0 r) : wait lt st = some st0 → c.evalB st0.regs = false →
      Big m (.seq (endL lt b) ss) (st0.setTime (endL lt b)) r → Big m (.seq lt (.while_ c b :: ss)) st r
  | againWhT (lt c b k ss st r) : c.evalB st.regs = true → Big m (.iter lt (.while_ c b) k ss) (st.setTime lt) r →
      Big m (.again lt (.while_ c b) k ss) st r
  | againWhF (lt c b k ss st r) : c.evalB st.regs = false → Big m (.seq (endL lt b) ss) st r →
      Big m (.again lt (.while_ c b) k ss) st r
  -- times without counter: `for _ in 0..count`
  | timesZ (lt count b ss st st0 r) : wait lt st = some st0 → count.eval st0.regs = 0 →
      Big m (.seq (endL lt b) ss) (st0.setTime (endL lt b)) r → Big m (.seq lt (.times none count b :: ss)) st r
  | timesNeg (lt count b ss st st0 r) : m = none → wait lt st = some st0 → count.eval st0.regs < 0 →
      Big m (.seq (endL lt b) ss) (st0.setTime (endL lt b)) r → Big m (.seq lt (.times none count b :: ss)) st r
  | timesP (lt count b ss st st0 r) : wait lt st = some st0 → 0 < count.eval st0.regs →
      Big m (.iter lt (.times none count b) (count.eval st0.regs) ss) (st0.setTime lt) r →
      Big m (.seq lt (.times none count b :: ss)) st r
  | againTimesN (lt count b k ss st r) : k - 1 ≠ 0 →
      Big m (.iter lt (.times none count b) (k - 1) ss) (st.setTime lt) r →
      Big m (.again lt (.times none count b) k ss) st r
  | againTimesNEnd (lt count b k ss st r) : k - 1 = 0 → Big m (.seq (endL lt b) ss) st r →
      Big m (.again lt (.times none count b) k ss) st r
  -- times with counter register
  | timesSZ (lt x count b ss st st0 r) : wait lt st = some st0 → count.eval st0.regs = 0 →
      Big m (.seq (endL lt b) ss) ((st0.setReg x 0).setTime (endL lt b)) r →
      Big m (.seq lt (.times (some x) count b :: ss)) st r
  | timesSP (lt x count b ss st st0 r) : wait lt st = some st0 → count.eval st0.regs ≠ 0 →
      Big m (.iter lt (.times (some x) count b) 0 ss) ((st0.setReg x (count.eval st0.regs)).setTime lt) r →
      Big m (.seq lt (.times (some x) count b :: ss)) st r
  | againTimesS (lt x count b k ss st r) : st.regs x ≠ Int32.minValue → st.regs x - 1 ≠ 0 →
      (m = some .gt → 0 < st.regs x - 1) →
      Big m (.iter lt (.times (some x) count b) k ss) ((st.setReg x (st.regs x - 1)).setTime lt) r →
      Big m (.again lt (.times (some x) count b) k ss) st r
  | againTimesSEnd (lt x count b k ss st r) : st.regs x ≠ Int32.minValue → st.regs x - 1 = 0 →
      Big m (.seq (endL lt b) ss) (st.setReg x 0) r →
      Big m (.again lt (.times (some x) count b) k ss) st r

/-! ## executable structured interpreter (`AstVm::_run` with `max_iterations`)

The `Mode` argument only adds two guards (see `runL`, `.times none`, and `runIter`,
`.times (some x)`); with `m = none` they are never taken and the functions are the VM. -/

inductive Res where
  | done (st : St) (it : Nat)
  | brk (st : St) (it : Nat)
  | limit                    -- "iteration limit exceeded!"
  | panic (msg : String)
  | fuel                     -- recursion fuel of the model exhausted (never with `defaultFuel`)

def waitMsg (t : Int) (st : St) : String :=
  if t - st.time > i32max then "attempt to subtract with overflow" else "attempt to add with overflow"

/-- `then`-combinator for a nested run: `done` continues, everything else propagates -/
@[inline] def Res.andThen (r : Res) (f : St → Nat → Res) : Res :=
  match r with
  | .done st it => f st it
  | r => r

/-- after the body of a breakable statement: `break` = `self.time = end_time(block)` and go on -/
@[inline] def Res.loopThen (r : Res) (tEnd : Int) (onDone : St → Nat → Res) (onBrk : St → Nat → Res) : Res :=
  match r with
  | .done st it => onDone st it
  | .brk st it => onBrk (st.setTime tEnd) it
  | r => r

mutual
/-- statements of a list, in order; `it` = iterations used so far -/
def runL (m : Mode) (max : Nat) : (fuel : Nat) → (lt : Int) → List Stmt → St → Nat → Res
  | 0, _, _, _, _ => .fuel
  | _ + 1, _, [], st, it => .done st it
  | fuel + 1, lt, s :: ss, st, it =>
    if it ≥ max then .limit else
    let it := it + 1
    match wait (stmtTime lt s) st with
    | none => .panic (waitMsg (stmtTime lt s) st)
    | some st0 =>
      match s with
      | .call op args => runL m max fuel lt ss (st0.doCall op args) it
      | .assign r e => runL m max fuel lt ss (st0.setReg r (e.eval st0.regs)) it
      | .tabs t => runL m max fuel t ss st0 it
      | .trel d => runL m max fuel (wrap32 (lt + d)) ss st0 it
      | .brk => .brk st0 it
      | .cbrk isIf c => if c.evalB st0.regs = isIf then .brk st0 it else runL m max fuel lt ss st0 it
      | .block b => (runB m max fuel lt b st0 it).andThen fun st1 it => runL m max fuel (endL lt b) ss st1 it
      | .cond ch => (runC m max fuel lt ch st0 it).andThen fun st1 it => runL m max fuel (endC lt ch) ss st1 it
      | .loop b => (runIter m max fuel lt (.loop b) 0 st0 it).andThen fun st1 it => runL m max fuel (endL lt b) ss st1 it
      | .doWhile c b => (runIter m max fuel lt (.doWhile c b) 0 st0 it).andThen fun st1 it => runL m max fuel (endL lt b) ss st1 it
      | .while_ c b =>
        if c.evalB st0.regs then
          (runIter m max fuel lt (.while_ c b) 0 st0 it).andThen fun st1 it => runL m max fuel (endL lt b) ss st1 it
        else runL m max fuel (endL lt b) ss (st0.setTime (endL lt b)) it
      | .times none count b =>
        let n := count.eval st0.regs
        if n < 0 ∧ m ≠ none then .panic "excluded by the mode: negative times count"
        else if n ≤ 0 then runL m max fuel (endL lt b) ss (st0.setTime (endL lt b)) it
        else (runIter m max fuel lt (.times none count b) n (st0.setTime lt) it).andThen fun st1 it =>
          runL m max fuel (endL lt b) ss st1 it
      | .times (some x) count b =>
        let n := count.eval st0.regs
        if n = 0 then runL m max fuel (endL lt b) ss ((st0.setReg x 0).setTime (endL lt b)) it
        else (runIter m max fuel lt (.times (some x) count b) 0 ((st0.setReg x n).setTime lt) it).andThen fun st1 it =>
          runL m max fuel (endL lt b) ss st1 it
/-- a block with its two bookend statements -/
def runB (m : Mode) (max : Nat) : (fuel : Nat) → (lt : Int) → List Stmt → St → Nat → Res
  | 0, _, _, _, _ => .fuel
  | fuel + 1, lt, b, st, it =>
    if it ≥ max then .limit else
    match wait lt st with
    | none => .panic (waitMsg lt st)
    | some st0 =>
      (runL m max fuel lt b st0 (it + 1)).andThen fun st1 it =>
        if it ≥ max then .limit else
        match wait (endL lt b) st1 with
        | none => .panic (waitMsg (endL lt b) st1)
        | some st2 => .done st2 (it + 1)
/-- the rest of a cond chain starting at lexical time `lt` -/
def runC (m : Mode) (max : Nat) : (fuel : Nat) → (lt : Int) → Chain → St → Nat → Res
  | 0, _, _, _, _ => .fuel
  | _ + 1, lt, .none, st, it => .done (st.setTime lt) it
  | fuel + 1, lt, .els b, st, it =>
    (runB m max fuel lt b (st.setTime lt) it).andThen fun st1 it => .done (st1.setTime (endL lt b)) it
  | fuel + 1, lt, .elif isIf c thn rest, st, it =>
    if c.evalB st.regs = isIf then
      (runB m max fuel lt thn (st.setTime lt) it).andThen fun st1 it =>
        .done (st1.setTime (endC lt (.elif isIf c thn rest))) it
    else runC m max fuel (endL lt thn) rest st it
/-- run the body of loop statement `s` once, then decide (`k`: hidden counter of `times(n)`);
returns after the whole loop, with the time the VM leaves behind -/
def runIter (m : Mode) (max : Nat) : (fuel : Nat) → (lt : Int) → Stmt → Int32 → St → Nat → Res
  | 0, _, _, _, _, _ => .fuel
  | fuel + 1, lt, s, k, st, it =>
    (runB m max fuel lt s.body st it).loopThen (endL lt s.body)
      (fun st1 it =>
        match s with
        | .loop _ => runIter m max fuel lt s k (st1.setTime lt) it
        | .doWhile c _ => if c.evalB st1.regs then runIter m max fuel lt s k (st1.setTime lt) it else .done st1 it
        | .while_ c _ => if c.evalB st1.regs then runIter m max fuel lt s k (st1.setTime lt) it else .done st1 it
        | .times none _ _ => if k - 1 = 0 then .done st1 it else runIter m max fuel lt s (k - 1) (st1.setTime lt) it
        | .times (some x) _ _ =>
          if st1.regs x = Int32.minValue then .panic "attempt to subtract with overflow"
          else if st1.regs x - 1 = 0 then .done (st1.setReg x 0) it
          else if m = some .gt ∧ ¬ 0 < st1.regs x - 1 then .panic "excluded by the mode: counter not positive"
          else runIter m max fuel lt s k ((st1.setReg x (st1.regs x - 1)).setTime lt) it
        | _ => .done st1 it)
      (fun st1 it => .done st1 it)
end

/- size of a program (bound on the nesting of the interpreter between two iteration ticks) -/
mutual
def sizeS : Stmt → Nat
  | .block b => sizeL b + 1
  | .cond ch => sizeC ch + 1
  | .loop b => sizeL b + 1
  | .while_ _ b => sizeL b + 1
  | .doWhile _ b => sizeL b + 1
  | .times _ _ b => sizeL b + 1
  | _ => 1
def sizeL : List Stmt → Nat
  | [] => 1
  | s :: ss => sizeS s + sizeL ss
def sizeC : Chain → Nat
  | .none => 1
  | .els b => sizeL b + 1
  | .elif _ _ thn rest => sizeL thn + sizeC rest + 1
end

def defaultFuel (max : Nat) (prog : List Stmt) : Nat := (max + 4) * (sizeL prog + 8)

def St.init (regs : Nat → Int32) : St := { time := 0, rtime := 0, log := [], regs := regs }

/-- `AstVm::new().with_max_iterations(max).run(prog)` from the given registers (`m = none`; with
`m = some k` the runs that `Big (some k)` leaves out end in `.panic "excluded .."`) -/
def runSM (m : Mode) (max : Nat) (prog : List Stmt) (regs : Nat → Int32) : Res :=
  runB m max (defaultFuel max prog) 0 prog (St.init regs) 0

def runS (max : Nat) (prog : List Stmt) (regs : Nat → Int32) : Res := runSM none max prog regs

/-! ## flat machine -/

structure FS where
  st : St
  tmps : Nat → Int32

def FS.get (fs : FS) : Var → Int32
  | .reg r => fs.st.regs r
  | .tmp k => fs.tmps k

def FS.set (fs : FS) (v : Var) (x : Int32) : FS :=
  match v with
  | .reg r => { fs with st := fs.st.setReg r x }
  | .tmp k => { fs with tmps := fun j => if j = k then x else fs.tmps j }

def CJ.test : CJ → Int32 → Bool
  | .ne, x => x != 0
  | .gt, x => decide (0 < x)

/-- effect of one flat statement at its time: new state and the label jumped to, if any -/
def effect (a : AF) (fs : FS) : Option (FS × Option Nat) :=
  match wait a.1 fs.st with
  | none => none
  | some st0 =>
    let fs0 : FS := { fs with st := st0 }
    match a.2 with
    | .nop => some (fs0, none)
    | .decl _ => some (fs0, none)
    | .scopeEnd _ => some (fs0, none)
    | .tabs _ => some (fs0, none)
    | .trel _ => some (fs0, none)
    | .label _ => some (fs0, none)
    | .call op args => some ({ fs0 with st := st0.doCall op args }, none)
    | .assign v e => some (fs0.set v (e.eval st0.regs), none)
    | .goto l => some (fs0, some l)
    | .cjmp isIf c l => some (fs0, if c.evalB st0.regs = isIf then some l else none)
    | .jz v l => some (fs0, if fs0.get v = 0 then some l else none)
    | .cntjmp k v l =>
      let x := fs0.get v - 1     -- `i32::wrapping_add(old, -1)`
      some (fs0.set v x, if k.test x then some l else none)

def FStmt.isLabel (l : Nat) : FStmt → Bool
  | .label l' => l' == l
  | _ => false

/-- `AstVm::try_goto`: index of the first label of that name -/
def findLabel (P : List AF) (l : Nat) : Option Nat := P.findIdx? (fun a => a.2.isLabel l)

def FS.setTime (fs : FS) (t : Int) : FS := { fs with st := fs.st.setTime t }

/-- one step of the flat machine at program counter `pc` -/
def stepF (P : List AF) (pc : Nat) (fs : FS) : Option (Nat × FS) :=
  match P[pc]? with
  | none => none
  | some a =>
    match effect a fs with
    | none => none
    | some (fs1, none) => some (pc + 1, fs1)
    | some (fs1, some l) =>
      match findLabel P l with
      | none => none
      | some i =>
        match P[i]? with
        | none => none
        | some b => some (i, fs1.setTime b.1)

inductive Exec (P : List AF) : Nat → FS → Nat → FS → Prop
  | refl (pc fs) : Exec P pc fs pc fs
  | step (pc fs pc1 fs1 pc2 fs2) : stepF P pc fs = some (pc1, fs1) → Exec P pc1 fs1 pc2 fs2 → Exec P pc fs pc2 fs2

inductive FRes where
  | done (fs : FS) (it : Nat)
  | limit
  | panic (msg : String)
  | stuck (msg : String)   -- jump to a label that does not exist (the VM panics)
  | fuel

def effectMsg (a : AF) (fs : FS) : String := waitMsg a.1 fs.st

/-- executable flat run with the VM's iteration limit -/
def runF (max : Nat) (P : List AF) : (fuel : Nat) → (pc : Nat) → FS → Nat → FRes
  | 0, _, _, _ => .fuel
  | fuel + 1, pc, fs, it =>
    match P[pc]? with
    | none => .done fs it
    | some a =>
      if it ≥ max then .limit else
      match effect a fs with
      | none => .panic (effectMsg a fs)
      | some (fs1, none) => runF max P fuel (pc + 1) fs1 (it + 1)
      | some (fs1, some l) =>
        match findLabel P l with
        | none => .stuck "AST VM tried to jump"
        | some i =>
          match P[i]? with
          | none => .stuck "AST VM tried to jump"
          | some b => runF max P fuel i (fs1.setTime b.1) (it + 1)

def FS.init (regs : Nat → Int32) : FS := { st := St.init regs, tmps := fun _ => 0 }

/-- `AstVm` on the desugared program -/
def runFlat (k : CJ) (max : Nat) (prog : List Stmt) (regs : Nat → Int32) : FRes :=
  runF max (annot 0 (desugar k prog)) (max + 2) 0 (FS.init regs) 0

end TruthModel.Blocks
