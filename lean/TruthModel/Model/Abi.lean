import TruthModel.Model.Basic
/-
Model of instruction-argument encoding and decoding (properties C12 and C15).

Mirrors, arm by arm:
* `ArgEncoding`, `StringArgSize`, `AcceleratingByteMask`, `validate`        (src/llir/abi.rs)
* the arity / type / const-argument checks a call goes through before lowering
  (`abi_to_signature`, `Signature::min_args`, `match_params_to_args`, `check_expr_call`,
  `validate_call_const_args`)                                                   -> `checkCall`
* `encode_args`                                                                 (src/llir/lower.rs)
* `decode_args_with_abi` + the padding filter of `raise_raw_ins_args`           (src/llir/raise/early.rs)
* `Encoded::{null_pad, trim_first_nul, apply_xor_mask, encode_fixed_size}`,
  `write_cstring`, `read_cstring_blockwise`, `read_cstring_exact`               (src/io.rs)
* the mission MSG line cipher (additive)                                        (src/formats/mission.rs)

Strings are byte lists here: the text <-> bytes step (`encoding_rs::SHIFT_JIS`) is the parameter
`Sjis`.  Integers are `Int` (Rust `i32`, every value the compiler can hand over satisfies
`i32Range`); floats are 32-bit patterns.  Core Lean only.
-/
namespace TruthModel.Abi

abbrev Bytes := List UInt8

/-! ## byte helpers -/

def zeros (n : Nat) : Bytes := List.replicate n 0

/-- little-endian encoding of `x mod 256^n` in `n` bytes (`write_u8/u16/u32` after an `as` cast) -/
def leBytes : Nat → Nat → Bytes
  | 0, _ => []
  | n+1, x => UInt8.ofNat (x % 256) :: leBytes n (x / 256)

/-- little-endian value of a byte string (`read_u8/u16/u32`) -/
def leNat : Bytes → Nat
  | [] => 0
  | b :: bs => b.toNat + 256 * leNat bs

/-- two's complement reinterpretation of an `n`-byte unsigned value (`read_i8/i16/i32`, `as i32`) -/
def toSigned (nbytes : Nat) (x : Nat) : Int :=
  if x < 2 ^ (8 * nbytes - 1) then (x : Int) else (x : Int) - (2 ^ (8 * nbytes) : Nat)

/-- `x as uN` for an `i32` value -/
def wrapTo (nbytes : Nat) (v : Int) : Nat := (v % ((2 ^ (8 * nbytes) : Nat) : Int)).toNat

def i32Range (v : Int) : Bool := decide (-2147483648 ≤ v) && decide (v < 2147483648)

/-! ## the encoding enum -/

/-- `AcceleratingByteMask` -/
structure ByteMask where
  mask : UInt8
  vel : UInt8
  accel : UInt8
deriving DecidableEq, Repr, Inhabited

def ByteMask.next (m : ByteMask) : ByteMask := ⟨m.mask + m.vel, m.vel + m.accel, m.accel⟩

/-- the first `n` items of the iterator -/
def maskStream (m : ByteMask) : Nat → Bytes
  | 0 => []
  | n+1 => m.mask :: maskStream m.next n

/-- `Encoded::apply_xor_mask` (zip with the infinite iterator) -/
def applyMask (m : ByteMask) : Bytes → Bytes
  | [] => []
  | b :: bs => (b ^^^ m.mask) :: applyMask m.next bs

/-- `StringArgSize` -/
inductive StrSize where
  | fixed (len : Nat) (nulless : Bool)
  | toBlobEnd (bs : Nat)
  | pascal (bs : Nat)
deriving DecidableEq, Repr, Inhabited

/-- width of an integer parameter (`S U C n N E` = 4, `s u` = 2, `c b` = 1) -/
inductive IntW where
  | w1 | w2 | w4
deriving DecidableEq, Repr, Inhabited

def IntW.bytes : IntW → Nat
  | .w1 => 1 | .w2 => 2 | .w4 => 4

/-- `ArgEncoding` without the presentation-only fields (`ty_color`, radix) -/
inductive Enc where
  | int (w : IntW) (signed : Bool) (arg0 : Bool) (imm : Bool)
  | jumpOffset
  | jumpTime
  /-- `_` (wide = true, 4 bytes) or `-` (1 byte) -/
  | padding (wide : Bool)
  | float (imm : Bool)
  | str (size : StrSize) (mask : ByteMask) (furibug : Bool)
deriving DecidableEq, Repr, Inhabited

abbrev Abi := List Enc

def Enc.isPadding : Enc → Bool
  | .padding _ => true
  | _ => false

def Enc.isArg0 : Enc → Bool
  | .int _ _ true _ => true
  | _ => false

/-- `contributes_to_param_mask` -/
def Enc.contributes (e : Enc) : Bool := !e.isPadding

/-- `is_always_immediate` -/
def Enc.alwaysImmediate : Enc → Bool
  | .str .. => true
  | .jumpOffset => true
  | .jumpTime => true
  | .padding _ => true
  | .int _ _ _ imm => imm
  | .float imm => imm

def padBytes (wide : Bool) : Nat := if wide then 4 else 1

/-- bytes of a padding parameter (0 for everything else) -/
def Enc.padWidth : Enc → Nat
  | .padding wide => padBytes wide
  | _ => 0

/-- the attribute rules `string_from_attrs` enforces while the signature is parsed: the block size
is nonzero, `furibug` is not combined with `nulless` (the quirk appends bytes after the string's
terminator, and a nulless string has none) -/
def Enc.strAttrsOk : Enc → Bool
  | .str (.toBlobEnd bs) _ _ => bs != 0
  | .str (.pascal bs) _ _ => bs != 0
  | .str (.fixed _ nulless) _ furibug => !(nulless && furibug)
  | _ => true

/-- `validate` (abi.rs), plus the structural rules enforced while parsing the attributes (`arg0`
only on parameters of at most two bytes; `Enc.strAttrsOk`). -/
def validAbi (abi : Abi) : Bool :=
  let oCount := (abi.filter (· == .jumpOffset)).length
  let tCount := (abi.filter (· == .jumpTime)).length
  decide (oCount ≤ 1) && decide (tCount ≤ 1)
  && !(tCount == 1 && oCount == 0)
  && !((abi.drop 1).any Enc.isArg0)
  && !((abi.reverse.drop 1).any fun e => match e with | .str (.toBlobEnd _) _ _ => true | _ => false)
  && (abi.all fun e => match e with | .int .w4 _ true _ => false | _ => true)
  && abi.all Enc.strAttrsOk

/-! ## arguments -/

/-- `SimpleArg` -/
inductive Arg where
  | int (v : Int) (reg : Bool)
  | float (bits : UInt32) (reg : Bool)
  | str (s : Bytes)
deriving DecidableEq, Repr, Inhabited

def Arg.isReg : Arg → Bool
  | .int _ r => r
  | .float _ r => r
  | .str _ => false

inductive Ty where
  | int | float | string
deriving DecidableEq, Repr

def Arg.ty : Arg → Ty
  | .int .. => .int | .float .. => .float | .str _ => .string

/-- `ArgEncoding::expr_type` -/
def Enc.ty : Enc → Ty
  | .float _ => .float
  | .str .. => .string
  | _ => .int

/-- `RawInstr` restricted to what the argument codec touches -/
structure Raw where
  blob : Bytes
  /-- `param_mask : u16` -/
  mask : Nat
  /-- `extra_arg : Option<i16>` -/
  arg0 : Option Int
deriving DecidableEq, Repr, Inhabited

/-- `ArgEncodingState.furibug_bytes` -/
abbrev EncState := Option Bytes

/-! ## the checks a call passes before lowering

`abi_to_signature` makes one parameter per non-padding encoding (padding bytes are written by
the encoder itself and are not arguments of the call; before commit 9d4386e padding was a
defaulted parameter and the positional pairing of parameters and arguments was shifted by it).
The type checker (`check_expr_call`) and `validate_call_const_args` pair parameters and
arguments positionally. -/

/-- `reg_ok` of `abi_to_signature` -/
def Enc.regOk : Enc → Bool
  | .int _ _ false _ => true
  | .float _ => true
  | .str .. => true
  | _ => false

def checkTypes : Abi → List Arg → Outcome Unit
  | e :: es, a :: as => if a.ty == e.ty then checkTypes es as else .err "type error"
  | _, _ => .ok ()

def checkConst : Abi → List Arg → Outcome Unit
  | e :: es, a :: as =>
    if !e.regOk && a.isReg then .err "argument must be a compile-time constant" else checkConst es as
  | _, _ => .ok ()

def checkCall (abi : Abi) (args : List Arg) : Outcome Unit :=
  let params := abi.filter Enc.contributes
  if args.length != params.length then .err "wrong number of arguments to" else
  match checkTypes params args with
  | .ok () => checkConst params args
  | o => o

/-! ## encoding -/

/-- `T::try_from(value)` for the field types `i8 u8 i16 u16` (4-byte fields take every `i32`) -/
def fitsInt (w : IntW) (signed : Bool) (v : Int) : Bool :=
  match w, signed with
  | .w1, true => decide (-128 ≤ v) && decide (v < 128)
  | .w1, false => decide (0 ≤ v) && decide (v < 256)
  | .w2, true => decide (-32768 ≤ v) && decide (v < 32768)
  | .w2, false => decide (0 ≤ v) && decide (v < 65536)
  | .w4, _ => i32Range v


def expectInt : Arg → Outcome Int
  | .int v _ => .ok v
  | _ => .panic "expect_int"

def expectFloat : Arg → Outcome UInt32
  | .float b _ => .ok b
  | _ => .panic "expect_float"

def expectString : Arg → Outcome Bytes
  | .str s => .ok s
  | _ => .panic "expect_string"

/-- `Encoded::null_pad`; the caller guarantees `bs ≠ 0` (the Rust code computes `% bs`). -/
def nullPad (bs : Nat) (x : Bytes) : Bytes :=
  let minSize := x.length + 1
  let final := if minSize % bs = 0 then minSize else minSize + bs - minSize % bs
  x ++ zeros (final - x.length)

/-- string bytes, eager NUL ("have to append null eagerly to correctly reproduce TH17 Extra
files"), then the pending furigana bytes if the parameter has `furibug` (`take()` clears them) -/
def strBody (st : EncState) (size : StrSize) (furibug : Bool) (s : Bytes) : Bytes × EncState :=
  let e1 := match size with
    | .fixed _ true => s
    | _ => s ++ [0]
  if furibug then (match st with | some fb => (e1 ++ fb, none) | none => (e1, none)) else (e1, st)

/-- padding to the block size, or the fixed-size check and fill -/
def strPad (size : StrSize) (e2 : Bytes) : Outcome Bytes :=
  match size with
  | .toBlobEnd bs | .pascal bs =>
    if bs = 0 then .panic "attempt to calculate the remainder with a divisor of zero"
    else if e2.length % bs != 0 then .ok (nullPad bs e2) else .ok e2
  | .fixed len _ =>
    if e2.length > len then .err "string argument too large for buffer"
    else .ok (e2 ++ zeros (len - e2.length))

/-- the string arm of `encode_args` on already-encoded text; returns the bytes appended to the
blob and the new furigana state -/
def encodeStr (st : EncState) (size : StrSize) (mask : ByteMask) (furibug : Bool) (s : Bytes) :
    Outcome (Bytes × EncState) :=
  let (e2, st1) := strBody st size furibug s
  match strPad size e2 with
  | .ok e3 =>
    let e4 := applyMask mask e3
    let st2 : EncState := if furibug && s.head? == some 0x7C then some e4 else st1
    let pre : Bytes := match size with
      | .pascal _ => leBytes 4 e4.length
      | _ => []
    .ok (pre ++ e4, st2)
  | .err c => .err c
  | .panic p => .panic p

/-- one non-padding parameter: bytes appended to the blob -/
def encodeOne (st : EncState) (e : Enc) (a : Arg) : Outcome (Bytes × EncState) :=
  match e with
  | .int _ _ true _ => .panic "unreachable"
  | .padding _ => .panic "unreachable"
  | .jumpOffset | .jumpTime =>
    match expectInt a with
    | .ok v => .ok (leBytes 4 (wrapTo 4 v), st)
    | .err c => .err c | .panic p => .panic p
  | .int w signed false _ =>
    -- 1- and 2-byte fields: `fit_int_arg` (`TryFrom`); 4-byte fields: `write_i32(x)` / `write_u32(x as _)`
    match expectInt a with
    | .ok v =>
      if w != .w4 && !fitsInt w signed v then .err "integer argument does not fit"
      else .ok (leBytes w.bytes (wrapTo w.bytes v), st)
    | .err c => .err c | .panic p => .panic p
  | .float _ =>
    match expectFloat a with
    | .ok b => .ok (leBytes 4 b.toNat, st)
    | .err c => .err c | .panic p => .panic p
  | .str size mask furibug =>
    match expectString a with
    | .ok s => encodeStr st size mask furibug s
    | .err c => .err c | .panic p => .panic p

structure EncOut where
  blob : Bytes
  /-- bit k = k-th non-padding parameter of the remaining list -/
  mask : Nat
  warnings : List String
  st : EncState
deriving Repr, DecidableEq

/-- The `for enc in arg_encodings_iter` loop; `k` = number of mask bits already used
(`current_param_mask_bit = 1 << k` as a `u16`, i.e. 0 once `k ≥ 16`).  The Rust loop carries
`(current_param_mask_bit, param_mask)`; here the mask of the remaining parameters is built on the
way back (`bit + 2 * rest`), which is the same number (`mask_bits_positions`). -/
def encLoop : Nat → Abi → List Arg → EncState → Outcome EncOut
  | _, [], _, st => .ok ⟨[], 0, [], st⟩
  | k, e :: es, args, st =>
    if e.isPadding then
      -- `if let ArgEncoding::Padding { size } = enc { write zeros; continue; }`: no argument is consumed
      match encLoop k es args st with
      | .ok o => .ok { o with blob := zeros e.padWidth ++ o.blob }
      | r => r
    else
      match args with
      | [] => .panic "function arity already checked"
      | a :: as =>
        -- the mask has one bit per parameter; a register after the bits ran out cannot be marked
        if a.isReg && decide (16 ≤ k) then .err "too many arguments in instruction" else
        let warn := e.alwaysImmediate && a.isReg
        let bit := if a.isReg && !e.alwaysImmediate then 1 else 0
        match encodeOne st e a with
        | .ok (bytes, st1) =>
          match encLoop (k + 1) es as st1 with
          | .ok o => .ok ⟨bytes ++ o.blob, bit + 2 * o.mask,
              (if warn then ["non-constant expression in immediate argument"] else []) ++ o.warnings, o.st⟩
          | r => r
        | .err c => .err c
        | .panic p => .panic p

/-- the part of `encode_args` after the `arg0` handling: loop, then `RawInstr` (mask is a `u16`) -/
def encodePlain (st : EncState) (es : Abi) (args : List Arg) (arg0 : Option Int) :
    Outcome (Raw × List String × EncState) :=
  match encLoop 0 es args st with
  | .ok o => .ok (⟨o.blob, o.mask % 65536, arg0⟩, o.warnings, o.st)
  | .err c => .err c
  | .panic p => .panic p

/-- `encode_args` for `LowerArgs::Known`, no explicit `@arg0`/`@mask`.  The `arg0` parameter is
consumed before the loop and does *not* advance the mask bit; its value must fit the `i16` header
field (`fit_int_arg`). -/
def encodeArgs (hasRegs : Bool) (st : EncState) (abi : Abi) (args : List Arg) :
    Outcome (Raw × List String × EncState) :=
  if !hasRegs && args.any Arg.isReg then .err "non-constant expression in language without registers" else
  match abi with
  | [] => encodePlain st [] args none
  | e :: es =>
    if e.isArg0 then
      match args with
      | [] => .panic "type checker already checked arity"
      | a :: as =>
        if a.isReg then .panic "checked above" else
        match expectInt a with
        | .ok v =>
          if !fitsInt .w2 true v then .err "integer argument does not fit"
          else encodePlain st es as (some v)
        | .err c => .err c
        | .panic p => .panic p
    else encodePlain st (e :: es) args none

/-- what `compile` does with one call statement -/
def compileCall (hasRegs : Bool) (st : EncState) (abi : Abi) (args : List Arg) :
    Outcome (Raw × List String × EncState) :=
  match checkCall abi args with
  | .ok () => encodeArgs hasRegs st abi args
  | .err c => .err c
  | .panic p => .panic p

/-! ## decoding -/

/-- `Encoded::trim_first_nul`: string before the first NUL and the warnings -/
def trimFirstNul (x : Bytes) (warnOnData : Bool) : Bytes × List String :=
  let idx := x.findIdx (· == 0)
  let w1 := if idx == x.length then ["missing null terminator will be appended to string"] else []
  let w2 := if warnOnData && (x.drop idx).any (· != 0) then ["string will be truncated at first null"] else []
  (x.take idx, w1 ++ w2)

def notEnough : String := "not enough bytes in instruction"

structure DecOut where
  args : List Arg
  warnings : List String
  rest : Bytes
  mask : Nat
  arg0 : Option Int
deriving Repr, DecidableEq

/-- the string arm of `decode_args_with_abi`: decoded bytes, warnings, unread rest -/
def decodeStr (size : StrSize) (mask : ByteMask) (furibug : Bool) (rest : Bytes) :
    Outcome (Bytes × List String × Bytes) :=
  let hdr : Outcome (Nat × Bytes) := match size with
    | .toBlobEnd _ => .ok (rest.length, rest)
    | .pascal _ => if rest.length < 4 then .err notEnough else .ok (leNat (rest.take 4), rest.drop 4)
    | .fixed len _ => .ok (len, rest)
  match hdr with
  | .ok (readLen, rest1) =>
    if rest1.length < readLen then .err notEnough else
    let un := applyMask mask (rest1.take readLen)
    let un1 := match size with
      | .fixed _ true => if un.contains 0 then un else un ++ [0]
      | _ => un
    let (s, w) := trimFirstNul un1 (!furibug)
    .ok (s, w, rest1.drop readLen)
  | .err c => .err c
  | .panic p => .panic p

/-- one non-padding parameter of `decode_args_with_abi`: value, warnings, unread rest, `pseudo_arg0` -/
def decodeOne (e : Enc) (rest : Bytes) (isReg : Bool) (arg0 : Option Int) :
    Outcome (Arg × List String × Bytes × Option Int) :=
  match e with
  | .padding _ => .panic "unreachable"
  | .int _ _ true _ =>
    match arg0 with
    | some v => .ok (.int v isReg, [], rest, none)
    | none => .panic "timeline arg in sig for non-timeline language"
  | .jumpOffset | .jumpTime =>
    if rest.length < 4 then .err notEnough
    else .ok (.int (toSigned 4 (leNat (rest.take 4))) isReg, [], rest.drop 4, arg0)
  | .int w signed false _ =>
    if rest.length < w.bytes then .err notEnough
    else
      let x := leNat (rest.take w.bytes)
      -- every width is finally cast to `i32`
      let v := if signed then toSigned w.bytes x else toSigned 4 x
      .ok (.int v isReg, [], rest.drop w.bytes, arg0)
  | .float _ =>
    if rest.length < 4 then .err notEnough
    else .ok (.float (UInt32.ofNat (leNat (rest.take 4))) isReg, [], rest.drop 4, arg0)
  | .str size m furibug =>
    match decodeStr size m furibug rest with
    | .ok (s, w, rest1) => .ok (.str s, w, rest1, arg0)
    | .err c => .err c
    | .panic p => .panic p

/-- the `for (arg_index, enc) in siggy.arg_encodings()` loop; padding values are kept -/
def decLoop : Abi → Bytes → Nat → Option Int → Outcome DecOut
  | [], rest, mask, arg0 => .ok ⟨[], [], rest, mask, arg0⟩
  | e :: es, rest, mask, arg0 =>
    if e.isPadding then
      if rest.length < e.padWidth then .err notEnough else
      match decLoop es (rest.drop e.padWidth) mask arg0 with
      | .ok o => .ok { o with args := .int (toSigned 4 (leNat (rest.take e.padWidth))) false :: o.args }
      | r => r
    else
      match decodeOne e rest (!e.alwaysImmediate && mask % 2 == 1) arg0 with
      | .ok (a, w, rest1, arg01) =>
        match decLoop es rest1 (mask / 2) arg01 with
        | .ok o => .ok { o with args := a :: o.args, warnings := w ++ o.warnings }
        | r => r
      | .err c => .err c
      | .panic p => .panic p

/-- `decode_args_with_abi` (register style `ByParamMask`): one value per encoding, padding
included, and the warnings -/
def decodeArgs (abi : Abi) (raw : Raw) : Outcome (List Arg × List String) :=
  match decLoop abi raw.blob raw.mask raw.arg0 with
  | .ok o =>
    let w1 := if o.rest.isEmpty then [] else ["unexpected leftover bytes in ins_"]
    let w2 := if o.mask != 0 then ["unused mask bits in ins_"] else []
    .ok (o.args, o.warnings ++ w1 ++ w2)
  | .err c => .err c
  | .panic p => .panic p

/-- the padding filter of `raise_raw_ins_args`: warn about non-zero padding, drop padding -/
def dropPadding : Abi → List Arg → List Arg
  | e :: es, a :: as => if e.isPadding then dropPadding es as else a :: dropPadding es as
  | _, _ => []

def nonzeroPadding : Abi → List Arg → Bool
  | e :: es, a :: as => (e.isPadding && a != .int 0 false) || nonzeroPadding es as
  | _, _ => false

/-- what `decompile` shows for one instruction: the user-visible arguments and all warnings -/
def decompileCall (abi : Abi) (raw : Raw) : Outcome (List Arg × List String) :=
  match decodeArgs abi raw with
  | .ok (args, w) =>
    .ok (dropPadding abi args,
         w ++ (if nonzeroPadding abi args then ["ignoring nonzero data found in padding"] else []))
  | .err c => .err c
  | .panic p => .panic p

/-! ## sequences of instructions (the furigana state lives across instructions of a script) -/

def compileSeq (hasRegs : Bool) : EncState → List (Abi × List Arg) → Outcome (List Raw × List String)
  | _, [] => .ok ([], [])
  | st, (abi, args) :: rest =>
    match compileCall hasRegs st abi args with
    | .ok (raw, w, st1) =>
      match compileSeq hasRegs st1 rest with
      | .ok (raws, ws) => .ok (raw :: raws, w ++ ws)
      | r => r
    | .err c => .err c
    | .panic p => .panic p

/-! ## `ArgsOk`: the argument lists the property quantifies over -/

/-- A string argument the property quantifies over: NUL-free; in a fixed buffer it fits together
with its NUL and the pending furigana bytes; a length-prefixed string stays below 2^32 bytes. -/
def strLayoutOk (st : EncState) (size : StrSize) (furibug : Bool) (s : Bytes) : Bool :=
  let extra := if furibug then (st.getD []).length else 0
  !s.contains 0 &&
  match size with
  | .fixed len nulless => decide (s.length + (if nulless then 0 else 1) + extra ≤ len)
  | .toBlobEnd _ => true
  | .pascal bs => decide (s.length + 1 + extra + bs < 4294967296)

def argOk (st : EncState) : Enc → Arg → Bool
  | .int w signed false imm, .int v reg => fitsInt w signed v && i32Range v && !(reg && imm)
  | .jumpOffset, .int v reg => i32Range v && !reg
  | .jumpTime, .int v reg => i32Range v && !reg
  | .float imm, .float _ reg => !(reg && imm)
  | .str size _ furibug, .str s => strLayoutOk st size furibug s
  | _, _ => false

/-- the furigana state after a string argument (mirrors `encodeStr`; used only to thread the
state through `ArgsOk`) -/
def stateAfter (st : EncState) (e : Enc) (a : Arg) : EncState :=
  match encodeOne st e a with
  | .ok (_, st1) => st1
  | _ => st

def argsOkLoop : EncState → Abi → List Arg → Bool
  | _, [], args => args.isEmpty
  | st, e :: es, args =>
    if e.isPadding then argsOkLoop st es args else
    match args with
    | [] => false
    | a :: as => argOk st e a && argsOkLoop (stateAfter st e a) es as

/-- Arity, types, integers within the declared width and signedness, registers only where the
encoding contributes to the mask and is not immediate, strings NUL-free and fitting.  An `arg0`
parameter takes an immediate that fits the 16-bit header field it is stored in; with an
`arg0` parameter no argument may be a register (only timelines have `arg0`, and they have no
registers; `arg0_shifts_mask` shows what happens otherwise). -/
def ArgsOk (st : EncState) (abi : Abi) (args : List Arg) : Bool :=
  match abi with
  | [] => argsOkLoop st [] args
  | e :: es =>
    if e.isArg0 then
      match e, args with
      | .int _ _ _ _, .int v false :: as =>
        fitsInt .w2 true v && argsOkLoop st es as && !as.any Arg.isReg
      | _, _ => false
    else argsOkLoop st (e :: es) args

/-! ## text layer (C15) -/

/-- The text <-> bytes step, `encoding_rs::SHIFT_JIS` in the implementation.  Theorems name the
laws they need as hypotheses; the harness checks them exhaustively over all scalar values. -/
structure Sjis where
  enc : List Char → Option Bytes
  dec : Bytes → Option (List Char)

/-- `Encoded::encode` then the string arm of `encode_args` -/
def encodeText (sj : Sjis) (st : EncState) (size : StrSize) (mask : ByteMask) (furibug : Bool)
    (s : List Char) : Outcome (Bytes × EncState) :=
  match sj.enc s with
  | none => .err "string encoding error"
  | some b => encodeStr st size mask furibug b

/-- the string arm of `decode_args_with_abi` then `Encoded::decode` -/
def decodeText (sj : Sjis) (size : StrSize) (mask : ByteMask) (furibug : Bool) (rest : Bytes) :
    Outcome (List Char × List String × Bytes) :=
  match decodeStr size mask furibug rest with
  | .ok (b, w, rest1) =>
    match sj.dec b with
    | some s => .ok (s, w, rest1)
    | none => .err "could not read string using encoding"
  | .err c => .err c
  | .panic p => .panic p

/-- `Encoded::encode_fixed_size` (STD names: 128, mission lines: 64) -/
def encodeFixedSize (sj : Sjis) (bufSize : Nat) (s : List Char) : Outcome Bytes :=
  match sj.enc s with
  | none => .err "string encoding error"
  | some b => if b.length ≥ bufSize then .err "string is too long" else .ok (b ++ zeros (bufSize - b.length))

/-- `read_cstring_exact(n)` + `decode` on exactly `n` bytes -/
def readFixedSize (sj : Sjis) (buf : Bytes) : Outcome (List Char × List String) :=
  let (b, w) := trimFirstNul buf true
  match sj.dec b with
  | some s => .ok (s, w)
  | none => .err "could not read string using encoding"

/-- `write_cstring(s, block)`; `block = 0` is an `assert`-free `% 0` in `null_pad` -/
def writeCString (block : Nat) (b : Bytes) : Outcome Bytes :=
  if block = 0 then .panic "attempt to calculate the remainder with a divisor of zero" else .ok (nullPad block b)

def stripTrailingZeros (x : Bytes) : Bytes := (x.reverse.dropWhile (· == 0)).reverse

/-- `read_cstring_blockwise(block)`: reads blocks until one ends in NUL, then strips every
trailing NUL; `fuel` = number of blocks available (the input length bounds it). -/
def readCStringBlockwise (block : Nat) : Nat → Bytes → Bytes → Outcome (Bytes × Bytes)
  | 0, _, _ => .err "unexpected EOF"
  | fuel+1, acc, input =>
    if block = 0 then .panic "assertion failed: block_size != 0" else
    if input.length < block then .err "unexpected EOF" else
    let acc1 := acc ++ input.take block
    if acc1.getLast? == some 0 then .ok (stripTrailingZeros acc1, input.drop block)
    else readCStringBlockwise block fuel acc1 (input.drop block)

/-- mission MSG lines: `encode_fixed_size(64)`, then every byte minus the cipher byte (wrapping) -/
def addCipher : Bytes → Bytes → Bytes
  | b :: bs, c :: cs => (b + c) :: addCipher bs cs
  | bs, _ => bs

def subCipher : Bytes → Bytes → Bytes
  | b :: bs, c :: cs => (b - c) :: subCipher bs cs
  | bs, _ => bs

def writeMissionLine (sj : Sjis) (cipher : Bytes) (s : List Char) : Outcome Bytes :=
  match encodeFixedSize sj 64 s with
  | .ok b => .ok (subCipher b cipher)
  | .err c => .err c
  | .panic p => .panic p

def readMissionLine (sj : Sjis) (cipher : Bytes) (buf : Bytes) : Outcome (List Char × List String) :=
  readFixedSize sj (addCipher buf cipher)

end TruthModel.Abi
