import TruthModel.Model.Basic
/-
C17 — pixel transcoders, image padding / cropping, image-source matching.

Executable model of
  * `src/image/color.rs`           (`ColorFormat::transcode_{to,from}_argb_8888`, the four
                                    `From<..> for Components` pairs, `change_bit_depth`),
  * `src/formats/anm/image_io.rs`  (`produce_image_from_entry`: pad by the entry's offsets;
                                    `load_img_file_for_entry`: dimension checks and crop),
  * `src/formats/anm/mod.rs`       (`apply_anm_image_source`, `update_entry_from_anm_image_source`,
                                    `apply_directory_image_source`, `finalize_entry_texture`,
                                    `validate_and_transcode_texture_for_entry`),
  * `src/formats/anm/soft_option.rs`.

Core Lean only.  The one float computation (Gray8 luminance) is a *parameter* `lum` of the model:
the driver instantiates it with native `Float32`, theorems state what they need of it as hypotheses.
-/
namespace TruthModel.Pixels
open TruthModel

abbrev Bytes := List UInt8

/-! ## Colour formats -/

inductive ColorFormat where
  | argb8888 | rgb565 | argb4444 | gray8
deriving DecidableEq, Repr, Inhabited

namespace ColorFormat

/-- `ColorFormat::from_format_num` -/
def ofNum : Nat → Option ColorFormat
  | 1 => some argb8888
  | 3 => some rgb565
  | 5 => some argb4444
  | 7 => some gray8
  | _ => none

def num : ColorFormat → Nat
  | argb8888 => 1 | rgb565 => 3 | argb4444 => 5 | gray8 => 7

/-- `ColorFormat::bytes_per_pixel` -/
def bytesPerPixel : ColorFormat → Nat
  | argb8888 => 4 | rgb565 => 2 | argb4444 => 2 | gray8 => 1

end ColorFormat

structure Components where
  red : UInt8
  green : UInt8
  blue : UInt8
  alpha : UInt8
deriving DecidableEq, Repr, Inhabited

/-- `change_bit_depth::<IN, OUT>(x)`.  The shift counts are the const generics, all below 8 for
the instantiations that exist (`<5,8>`, `<6,8>`, `<4,8>`), so no shift overflows. -/
def changeBitDepth (i o : Nat) (x : UInt8) : UInt8 :=
  if o ≤ i then
    x >>> UInt8.ofNat (i - o)
  else
    (x <<< UInt8.ofNat (o - i)) ||| (x >>> UInt8.ofNat (2 * i - o))

/-- The Gray8 luminance `((r as f32)*0.2126 + (g as f32)*0.7152 + (b as f32)*0.0722 + 0.001) as u8`
is computed in IEEE single by the real code; its integer result is a parameter here. -/
abbrev Lum := UInt8 → UInt8 → UInt8 → UInt8

/-! ### little-endian integers (`byteorder`'s `read_u16::<LE>` etc., specified arithmetically) -/

def u16le (b0 b1 : UInt8) : UInt16 := UInt16.ofNat (b0.toNat + 256 * b1.toNat)
def u16bytes (v : UInt16) : Bytes := [UInt8.ofNat (v.toNat % 256), UInt8.ofNat (v.toNat / 256)]

def u32le (b0 b1 b2 b3 : UInt8) : UInt32 :=
  UInt32.ofNat (b0.toNat + 256 * b1.toNat + 65536 * b2.toNat + 16777216 * b3.toNat)
def u32bytes (v : UInt32) : Bytes :=
  [UInt8.ofNat (v.toNat % 256), UInt8.ofNat (v.toNat / 256 % 256),
   UInt8.ofNat (v.toNat / 65536 % 256), UInt8.ofNat (v.toNat / 16777216)]

/-! ### `Argb8888(u32)`: `0xAARRGGBB` -/

/-- `let [alpha, red, green, blue] = color.0.to_be_bytes()` -/
def argb8888ToComponents (c : UInt32) : Components :=
  { alpha := UInt8.ofNat (c.toNat / 16777216)
    red := UInt8.ofNat (c.toNat / 65536 % 256)
    green := UInt8.ofNat (c.toNat / 256 % 256)
    blue := UInt8.ofNat (c.toNat % 256) }

/-- `u32::from_be_bytes([alpha, red, green, blue])` -/
def argb8888OfComponents (c : Components) : UInt32 :=
  UInt32.ofNat (c.alpha.toNat * 16777216 + c.red.toNat * 65536 + c.green.toNat * 256 + c.blue.toNat)

/-! ### `Rgb565(u16)`: `0bRRRRR_GGGGGG_BBBBB` -/

def rgb565ToComponents (c : UInt16) : Components :=
  let blue := (c &&& 0x1F).toUInt8
  let green := ((c >>> 5) &&& 0x3F).toUInt8
  let red := ((c >>> 11) &&& 0x1F).toUInt8
  { blue := changeBitDepth 5 8 blue
    green := changeBitDepth 6 8 green
    red := changeBitDepth 5 8 red
    alpha := 0xFF }

/-- `Rgb565((red << 11) + (green << 5) + blue)`; `+` is overflow-checked in the dev profile, the
sum never exceeds `0xFFFF` (`Props/C17.lean: rgb565_pack_no_overflow`). -/
def rgb565OfComponents (c : Components) : UInt16 :=
  let blue := (c.blue >>> 3).toUInt16
  let green := (c.green >>> 2).toUInt16
  let red := (c.red >>> 3).toUInt16
  (red <<< 11) + (green <<< 5) + blue

/-! ### `Argb4444(u16)`: `0xARGB` -/

def argb4444ToComponents (c : UInt16) : Components :=
  let blue := (c &&& 0xF).toUInt8
  let green := ((c >>> 4) &&& 0xF).toUInt8
  let red := ((c >>> 8) &&& 0xF).toUInt8
  let alpha := (c >>> 12).toUInt8
  { blue := changeBitDepth 4 8 blue
    green := changeBitDepth 4 8 green
    red := changeBitDepth 4 8 red
    alpha := changeBitDepth 4 8 alpha }

/-- `Argb4444(((alpha * 16 + red) * 16 + green) * 16 + blue)` (no overflow:
`argb4444_pack_no_overflow`). -/
def argb4444OfComponents (c : Components) : UInt16 :=
  let blue := (c.blue >>> 4).toUInt16
  let green := (c.green >>> 4).toUInt16
  let red := (c.red >>> 4).toUInt16
  let alpha := (c.alpha >>> 4).toUInt16
  ((alpha * 16 + red) * 16 + green) * 16 + blue

/-! ### `Gray8(u8)` -/

def gray8ToComponents (v : UInt8) : Components :=
  { blue := v, green := v, red := v, alpha := 0xFF }

def gray8OfComponents (lum : Lum) (c : Components) : UInt8 := lum c.red c.green c.blue

/-! ### `ColorBytes::decode` / `encode` and the two transcoders -/

def pixels16 : Bytes → List UInt16
  | b0 :: b1 :: rest => u16le b0 b1 :: pixels16 rest
  | _ => []

def pixels32 : Bytes → List UInt32
  | b0 :: b1 :: b2 :: b3 :: rest => u32le b0 b1 b2 b3 :: pixels32 rest
  | _ => []

def decodeSite : String := "src/image/color.rs decode: assert_eq!(bytes.len() % BYTES_PER_PIXEL, 0)"

/-- `<F as ColorBytes>::decode`: panics when the buffer is not a whole number of pixels. -/
def decode (fmt : ColorFormat) (bs : Bytes) : Outcome (List Components) :=
  if bs.length % fmt.bytesPerPixel ≠ 0 then .panic decodeSite
  else .ok <| match fmt with
    | .argb8888 => (pixels32 bs).map argb8888ToComponents
    | .rgb565 => (pixels16 bs).map rgb565ToComponents
    | .argb4444 => (pixels16 bs).map argb4444ToComponents
    | .gray8 => bs.map gray8ToComponents

/-- `<F as ColorBytes>::encode` -/
def encode (lum : Lum) (fmt : ColorFormat) (cs : List Components) : Bytes :=
  match fmt with
  | .argb8888 => cs.flatMap fun c => u32bytes (argb8888OfComponents c)
  | .rgb565 => cs.flatMap fun c => u16bytes (rgb565OfComponents c)
  | .argb4444 => cs.flatMap fun c => u16bytes (argb4444OfComponents c)
  | .gray8 => cs.map (gray8OfComponents lum)

/-- `ColorFormat::transcode_to_argb_8888` (`Argb8888` is `Rc::clone`, no length assertion) -/
def transcodeTo8888 (fmt : ColorFormat) (bs : Bytes) : Outcome Bytes :=
  match fmt with
  | .argb8888 => .ok bs
  | f => do
    let cs ← decode f bs
    pure (encode (fun _ _ _ => 0) .argb8888 cs)

/-- `ColorFormat::transcode_from_argb_8888` -/
def transcodeFrom8888 (lum : Lum) (fmt : ColorFormat) (bs : Bytes) : Outcome Bytes :=
  match fmt with
  | .argb8888 => .ok bs
  | f => do
    let cs ← decode .argb8888 bs
    pure (encode lum f cs)

/-! ## Padding and cropping (row-major lists of pixels)

`produce_image_from_entry` allocates a `(w+ox) x (h+oy)` image filled with `0xFF` and copies the
content to `(ox, oy)`; `load_img_file_for_entry` takes `sub_image(ox, oy, w, h)` of the loaded
image.  Pixels are abstract (`α`), so the statements hold for every pixel representation. -/

def padRows {α} (fill : α) (ox w : Nat) : Nat → List α → List α
  | 0, _ => []
  | h + 1, img => List.replicate ox fill ++ img.take w ++ padRows fill ox w h (img.drop w)

/-- content `w x h` placed at `(ox, oy)` of a `(w+ox) x (h+oy)` image filled with `fill` -/
def pad {α} (fill : α) (ox oy w h : Nat) (img : List α) : List α :=
  List.replicate (oy * (w + ox)) fill ++ padRows fill ox w h img

def cropRows {α} (ox w sw : Nat) : Nat → List α → List α
  | 0, _ => []
  | h + 1, img => (img.drop ox).take w ++ cropRows ox w sw h (img.drop sw)

/-- the `w x h` window at `(ox, oy)` of an image that is `sw` pixels wide -/
def crop {α} (ox oy w h sw : Nat) (img : List α) : List α :=
  cropRows ox w sw h (img.drop (oy * sw))

/-- groups of `n` (the last one may be short); fuel = length -/
def chunksAux {α} (n : Nat) : Nat → List α → List (List α)
  | 0, _ => []
  | fuel + 1, xs => if xs.isEmpty then [] else xs.take n :: chunksAux n fuel (xs.drop n)

def chunks {α} (n : Nat) (xs : List α) : List (List α) := chunksAux n xs.length xs

/-! ## `SoftOption` -/

inductive SoftOption (α : Type) where
  | missing
  | soft (a : α)
  | explicit (a : α)
deriving DecidableEq, Repr, Inhabited

namespace SoftOption
variable {α : Type}

def setExplicit (s : SoftOption α) (v : α) : SoftOption α :=
  match s with
  | missing | soft _ => explicit v
  | explicit a => explicit a

def setSoft (s : SoftOption α) (v : α) : SoftOption α :=
  match s with
  | missing | soft _ => soft v
  | explicit a => explicit a

def setSoftIfMissing (s : SoftOption α) (v : α) : SoftOption α :=
  match s with
  | missing => soft v
  | s => s

def toOption : SoftOption α → Option α
  | missing => none
  | soft a => some a
  | explicit a => some a

def isExplicit : SoftOption α → Bool
  | explicit _ => true
  | _ => false

end SoftOption

/-! ## Loading an image file for an entry (`load_img_file_for_entry`)

`src` is the decoded file, `sw x sh`, as BGRA pixels.  Returns the cropped texture in
`Argb8888` and the (possibly soft-filled) dimensions. -/

structure ImgSpecs where
  imgWidth : SoftOption Nat := .missing
  imgHeight : SoftOption Nat := .missing
  offsetX : SoftOption Nat := .missing
  offsetY : SoftOption Nat := .missing
deriving Repr

def loadImage {α} (specs : ImgSpecs) (sw sh : Nat) (src : List α) : Outcome (ImgSpecs × List α) :=
  let ox := specs.offsetX.toOption.getD 0
  let oy := specs.offsetY.toOption.getD 0
  if sw < ox then .err "image too small" else
  let specs := { specs with imgWidth := specs.imgWidth.setSoft (sw - ox) }
  if sh < oy then .err "image too small" else
  let specs := { specs with imgHeight := specs.imgHeight.setSoft (sh - oy) }
  let w := specs.imgWidth.toOption.getD 0
  let h := specs.imgHeight.toOption.getD 0
  if (sw, sh) ≠ (w + ox, h + oy) then .err "wrong image dimensions"
  else .ok (specs, crop ox oy w h sw src)

/-! ## Image sources

A destination entry keeps the most recently loaded texture; an ANM source hands its entries out
per path, in order; a directory source offers one file per path. -/

/-- queues of source entries keyed by path, in first-appearance order of the keys
(`IndexMap<String, Vec<Entry>>`) -/
abbrev Queues (X : Type) := List (String × List X)

namespace Queues
variable {X : Type}

def get (q : Queues X) (p : String) : List X :=
  match q with
  | [] => []
  | (k, v) :: rest => if k = p then v else get rest p

/-- `src_entries_by_path.entry(path).or_default().push(entry)` -/
def push (q : Queues X) (p : String) (x : X) : Queues X :=
  match q with
  | [] => [(p, [x])]
  | (k, v) :: rest => if k = p then (k, v ++ [x]) :: rest else (k, v) :: push rest p x

/-- `get_mut(path).and_then(|vec| vec.pop())` on the reversed vectors = take from the front -/
def pop (q : Queues X) (p : String) : Option (X × Queues X) :=
  match q with
  | [] => none
  | (k, v) :: rest =>
    if k = p then
      match v with
      | [] => none
      | x :: v' => some (x, (k, v') :: rest)
    else
      match pop rest p with
      | none => none
      | some (x, rest') => some (x, (k, v) :: rest')

def build (src : List (String × X)) : Queues X :=
  src.foldl (fun q e => q.push e.1 e.2) []

end Queues

/-- `apply_anm_image_source`'s loop over the destination entries -/
def applyAnmGo {D X : Type} (path : D → String) (upd : D → X → D) : Queues X → List D → List D
  | _, [] => []
  | q, d :: ds =>
    match q.pop (path d) with
    | some (x, q') => upd d x :: applyAnmGo path upd q' ds
    | none => d :: applyAnmGo path upd q ds

def applyAnm {D X : Type} (path : D → String) (upd : D → X → D) (src : List (String × X))
    (dests : List D) : List D :=
  applyAnmGo path upd (Queues.build src) dests

/-- `HasData` -/
inductive HasData where
  | no | yes | dummy
deriving DecidableEq, Repr, Inhabited

/-- what a source entry of an ANM file carries, as far as textures are concerned
(`T` = the texture: metadata + data) -/
structure AnmSrcEntry (T : Type) where
  texture : Option T
deriving Repr

/-- `TextureFromSource` -/
inductive Loaded (T : Type) where
  | fromAnm (t : T)
  | fromImage (file : T)
deriving Repr, DecidableEq

structure Dest (T : Type) where
  path : String
  hasData : SoftOption HasData := .missing
  loaded : Option (Loaded T) := none
deriving Repr

/-- `update_entry_from_anm_image_source` (texture-related part) -/
def updFromAnm {T} (d : Dest T) (s : AnmSrcEntry T) : Dest T :=
  let d := { d with hasData := d.hasData.setSoft (if s.texture.isSome then .yes else .no) }
  match s.texture with
  | some t => { d with loaded := some (.fromAnm t) }
  | none => d

inductive Source (T : Type) where
  | anm (entries : List (String × AnmSrcEntry T))
  | dir (files : List (String × T))

def lookupFile {T} (files : List (String × T)) (p : String) : Option T :=
  (files.find? (fun f => f.1 = p)).map (·.2)

/-- `update_entry_from_directory_source` -/
def updFromDir {T} (files : List (String × T)) (d : Dest T) : Dest T :=
  match lookupFile files d.path with
  | some f => { d with loaded := some (.fromImage f) }
  | none => d

def applySource {T} (dests : List (Dest T)) (s : Source T) : List (Dest T) :=
  match s with
  | .anm entries => applyAnm Dest.path updFromAnm entries dests
  | .dir files => dests.map (updFromDir files)

/-- the loop in `anm_compile::run`: sources are applied in order -/
def applySources {T} (srcs : List (Source T)) (dests : List (Dest T)) : List (Dest T) :=
  srcs.foldl applySource dests

/-- `finalize_entry_texture` for the non-dummy cases: which texture the entry ends up with -/
def finalizeDest {T} (d : Dest T) : Outcome (Option (Loaded T)) :=
  match (d.hasData.setSoftIfMissing .yes).toOption with
  | some .yes =>
    match d.loaded with
    | some t => .ok (some t)
    | none => .err "no bitmap data available for"
  | some .no => .ok none
  | _ => .err "dummy"

/-- `validate_and_transcode_texture_for_entry`: same format number -> the bytes are shared
(`Rc::clone`, unknown format numbers allowed), otherwise transcode through 8888. -/
def transcodeForEntry (lum : Lum) (destFormat srcFormat : Nat) (data : Bytes) : Outcome Bytes :=
  if destFormat = srcFormat then .ok data
  else
    match ColorFormat.ofNum srcFormat with
    | none => .err "cannot transcode from unknown color format"
    | some sf =>
      match ColorFormat.ofNum destFormat with
      | none => .err "cannot transcode into unknown color format"
      | some df => do
        let argb ← transcodeTo8888 sf data
        transcodeFrom8888 lum df argb

/-- `img_format` of the finished entry: explicit value, else the soft one, else `Argb8888` -/
def finalFormat (imgFormat : SoftOption Nat) : Nat :=
  ((imgFormat.setSoftIfMissing 1).toOption).getD 1

/-- texture bytes of an entry whose texture comes from an ANM source with format `srcFormat`:
`update_entry_from_anm_image_source` first sets `img_format` softly to the source's format. -/
def anmTextureForEntry (lum : Lum) (imgFormat : SoftOption Nat) (srcFormat : Nat) (data : Bytes) :
    Outcome Bytes :=
  transcodeForEntry lum (finalFormat (imgFormat.setSoft srcFormat)) srcFormat data

/-- texture bytes of an entry whose texture comes from an image file (always `Argb8888`) -/
def imageTextureForEntry (lum : Lum) (imgFormat : SoftOption Nat) (argb : Bytes) : Outcome Bytes :=
  transcodeForEntry lum (finalFormat imgFormat) 1 argb

end TruthModel.Pixels
