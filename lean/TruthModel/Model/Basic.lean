/-
Shared basic definitions of the executable models.  Core Lean only (no Mathlib, no Std
beyond what core ships) so that the driver can be linked as a `lean_exe`.
-/
namespace TruthModel

/-- Result of a modelled pass.  Panics of the real code are *values* of the model: "never
crashes" is then the theorem `∀ x, f x ≠ .panic _`, not an artefact of Lean's totality. -/
inductive Outcome (α : Type) where
  | ok (a : α)
  | err (cls : String)
  | panic (site : String)
deriving Repr, DecidableEq, Inhabited

namespace Outcome

def bind {α β} (x : Outcome α) (f : α → Outcome β) : Outcome β :=
  match x with
  | .ok a => f a
  | .err c => .err c
  | .panic s => .panic s

instance : Monad Outcome where
  pure := .ok
  bind := bind

def isPanic {α} : Outcome α → Bool
  | .panic _ => true
  | _ => false

def isOk {α} : Outcome α → Bool
  | .ok _ => true
  | _ => false

@[simp] theorem bind_ok {α β} (a : α) (f : α → Outcome β) : (Outcome.ok a >>= f) = f a := rfl
@[simp] theorem bind_err {α β} (c : String) (f : α → Outcome β) :
    ((Outcome.err c : Outcome α) >>= f) = .err c := rfl
@[simp] theorem bind_panic {α β} (c : String) (f : α → Outcome β) :
    ((Outcome.panic c : Outcome α) >>= f) = .panic c := rfl
@[simp] theorem pure_eq {α} (a : α) : (pure a : Outcome α) = .ok a := rfl

end Outcome

/-- IEEE single operations are *parameters* of every theorem: floats cross all interfaces as
their 32-bit pattern and no law is assumed unless a theorem lists it as a hypothesis.  The
driver instantiates this with Lean's native `Float32`. -/
structure FloatOps where
  add : UInt32 → UInt32 → UInt32
  sub : UInt32 → UInt32 → UInt32
  mul : UInt32 → UInt32 → UInt32
  div : UInt32 → UInt32 → UInt32
  rem : UInt32 → UInt32 → UInt32
  neg : UInt32 → UInt32
  lt : UInt32 → UInt32 → Bool
  le : UInt32 → UInt32 → Bool
  eq : UInt32 → UInt32 → Bool
  ofInt : Int32 → UInt32
  toInt : UInt32 → Int32
  /-- sin cos tan asin acos atan sqrt, by index -/
  math : Nat → UInt32 → UInt32

end TruthModel
