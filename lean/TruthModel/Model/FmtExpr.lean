import TruthModel.Model.Fmt
/-
C08 — model of the EXPRESSION layer of the pretty printer and of the parser.

* `Expr` mirrors `ast::Expr` (src/ast/mod.rs 445-484), spans / ids / languages dropped.
* `printP` mirrors `impl Format for ast::Expr` (src/fmt.rs 873-950) including
  `fmt_optional_parens` / `SuppressParens` (fmt.rs 302-311, 405-412): the Boolean argument is the
  formatter's `disable_parens` flag at the moment the node is written.  Its output is a list of
  pieces: the tokens the formatter writes, and the spaces between them.  `printText` is the text
  (byte-identical with `fmt::stringify` at unlimited width), `printE` the tokens alone.
  A piece is "what one write call would lex to on its own"; whether the joined text really lexes
  to those tokens is the glue question (`LexOK`, Props/C08Expr.lean).
* `pExpr` … `pItems`: a recursive-descent parser for the `Expr` rules of
  src/parse/lalrparser.lalrpop 464-778 over classified tokens (`classify`): the precedence tower
  `LeftBinOp<Op, NextTier>` (`pLevel`/`pLoop`, ten tiers), `LeftUnOp` without recursion (`pUnary`:
  one prefix operator per term), `ExprTerm` (`pTerm`), `ExprTernary` / `ExprTernaryRhs` /
  `ExprDiffSwitch` (`pExpr`, `pTernRhs`, `pSwitch`: a ternary is not a switch case and vice versa
  without parentheses), `Var` (`pVar`), `ExprCallParenArgsWithPseudos` (`pItems`).
  Fuel is structural; `parseExpr` supplies `40 * length + 40`, which always suffices for printed
  expressions (`cost_le`, Props/C08Expr.lean).

Not modelled: `rad(..)` float tokens, comments (as in `Fmt.lex`).  Core Lean only.
-/
namespace TruthModel.FmtExpr
open TruthModel TruthModel.Fmt

/-! ## operators and names -/

/-- `ast::UnOpKind` -/
inductive UnOp where
  | not | neg | bitNot | sin | cos | tan | asin | acos | atan | sqrt | encI | encF | castI | castF
deriving DecidableEq, Repr, Inhabited

/-- the three operators that fmt.rs 901-902 writes directly in front of the operand (all others
are written like a call, fmt.rs 904-909) -/
def UnOp.isPrefix : UnOp → Bool
  | .not | .neg | .bitNot => true
  | _ => false

/-- `ast::BinOpKind` -/
inductive BinOp where
  | add | sub | mul | div | rem | eq | ne | lt | le | gt | ge
  | bitOr | bitXor | bitAnd | logicOr | logicAnd | shl | shr | ushr
deriving DecidableEq, Repr, Inhabited

def BinOp.text : BinOp → List Char
  | .add => ['+'] | .sub => ['-'] | .mul => ['*'] | .div => ['/'] | .rem => ['%']
  | .eq => ['=', '='] | .ne => ['!', '='] | .lt => ['<'] | .le => ['<', '='] | .gt => ['>'] | .ge => ['>', '=']
  | .bitOr => ['|'] | .bitXor => ['^'] | .bitAnd => ['&'] | .logicOr => ['|', '|'] | .logicAnd => ['&', '&']
  | .shl => ['<', '<'] | .shr => ['>', '>'] | .ushr => ['>', '>', '>']

/-- tier of the operator in the tower of lalrparser.lalrpop 510-520: 0 = `ExprBinOpOr` (loosest)
… 9 = `ExprBinOpMulLike` (tightest) -/
def BinOp.level : BinOp → Nat
  | .logicOr => 0 | .logicAnd => 1 | .bitOr => 2 | .bitXor => 3 | .bitAnd => 4
  | .eq | .ne => 5
  | .lt | .le | .gt | .ge => 6
  | .shl | .shr | .ushr => 7
  | .add | .sub => 8
  | .mul | .div | .rem => 9

/-- `ast::VarSigil` -/
inductive Sigil where
  | int | float
deriving DecidableEq, Repr, Inhabited

/-- `ast::VarName` -/
inductive VarName where
  | normal (ident : List Char)
  | reg (n : Int32)
deriving DecidableEq, Repr, Inhabited

/-- `ast::Var` -/
structure Var where
  sigil : Option Sigil
  name : VarName
deriving DecidableEq, Repr, Inhabited

/-- `ast::CallableName`; the opcode is a `u16` in the implementation -/
inductive CallName where
  | normal (ident : List Char)
  | ins (opcode : Nat)
deriving DecidableEq, Repr, Inhabited

/-- `ast::PseudoArgKind` -/
inductive PseudoKind where
  | mask | pop | blob | arg0 | nargs
deriving DecidableEq, Repr, Inhabited

def PseudoKind.text : PseudoKind → List Char
  | .mask => ['m', 'a', 's', 'k'] | .pop => ['p', 'o', 'p'] | .blob => ['b', 'l', 'o', 'b']
  | .arg0 => ['a', 'r', 'g', '0'] | .nargs => ['n', 'a', 'r', 'g', 's']

/-- `ast::LabelPropertyKeyword` -/
inductive LabelKw where
  | offsetof | timeof
deriving DecidableEq, Repr, Inhabited

def LabelKw.text : LabelKw → List Char
  | .offsetof => ['o', 'f', 'f', 's', 'e', 't', 'o', 'f']
  | .timeof => ['t', 'i', 'm', 'e', 'o', 'f']

/-- What `impl Format for f32` (fmt.rs 1047-1065) writes after the sign: the digits of a finite
value (Rust's `Display`, with `.0` appended when there is no point: an opaque text here, a
parameter of the model), `INF`, or `NAN`. -/
inductive FloatBody where
  | num (text : List Char)
  | inf
  | nan
deriving DecidableEq, Repr, Inhabited

/-! ## the expression AST (`ast::Expr`) -/

mutual
inductive Expr where
  | ternary (cond left right : Expr)
  | binop (a : Expr) (op : BinOp) (b : Expr)
  | unop (op : UnOp) (x : Expr)
  /-- `XcrementOp { order, op, var }` -/
  | xcrement (pre : Bool) (inc : Bool) (v : Var)
  | var (v : Var)
  | call (name : CallName) (pseudos : Pseudos) (args : Exprs)
  /-- `DiffSwitch(Vec<Option<Expr>>)` -/
  | diffSwitch (cases : Cases)
  | litInt (value : Int32) (format : IntFormat)
  /-- `LitFloat { value }`: sign and printed magnitude of the value; every NaN prints as `NAN` -/
  | litFloat (neg : Bool) (body : FloatBody)
  | litString (s : List Char)
  | labelProp (kw : LabelKw) (label : List Char)
  | enumConst (enumName ident : List Char)
inductive Exprs where
  | nil
  | cons (e : Expr) (es : Exprs)
inductive Pseudos where
  | nil
  | cons (kind : PseudoKind) (value : Expr) (ps : Pseudos)
inductive Cases where
  | nil
  /-- an omitted case (`None`) -/
  | blank (cs : Cases)
  | some (e : Expr) (cs : Cases)
end

deriving instance DecidableEq for Expr, Exprs, Pseudos, Cases
deriving instance Repr for Expr, Exprs, Pseudos, Cases

instance : Inhabited Expr := ⟨.litString []⟩
instance : Inhabited Exprs := ⟨.nil⟩
instance : Inhabited Pseudos := ⟨.nil⟩
instance : Inhabited Cases := ⟨.nil⟩

def Exprs.isNil : Exprs → Bool
  | .nil => true
  | _ => false
def Pseudos.isNil : Pseudos → Bool
  | .nil => true
  | _ => false
def Cases.isNil : Cases → Bool
  | .nil => true
  | _ => false

/-- `cases.last().unwrap().is_none()` -/
def Cases.lastBlank : Cases → Bool
  | .nil => false
  | .blank cs => if cs.isNil then true else cs.lastBlank
  | .some _ cs => if cs.isNil then false else cs.lastBlank

/-- `cases.first().unwrap().is_none()` -/
def Cases.firstBlank : Cases → Bool
  | .blank _ => true
  | _ => false

/-- `ast::IntFormat::SIGNED`, the format the parser gives every literal -/
def signedDec : IntFormat := { signed := true, radix := .dec }

/-! ## tokens the printer writes -/

def tLp : Tok := .punct ['(']
def tRp : Tok := .punct [')']
def tComma : Tok := .punct [',']
def tQuest : Tok := .punct ['?']
def tColon : Tok := .punct [':']
def tLb : Tok := .punct ['[']
def tRb : Tok := .punct [']']
def tDot : Tok := .punct ['.']
def tAt : Tok := .punct ['@']
def tAssign : Tok := .punct ['=']
def tMinus : Tok := .punct ['-']
def tDollar : Tok := .punct ['$']
def tPercent : Tok := .punct ['%']
def tInc : Tok := .punct ['+', '+']
def tDec : Tok := .punct ['-', '-']
def tReg : Tok := .word ['R', 'E', 'G']

def trueText : List Char := ['t', 'r', 'u', 'e']
def falseText : List Char := ['f', 'a', 'l', 's', 'e']
def infText : List Char := ['I', 'N', 'F']
def nanText : List Char := ['N', 'A', 'N']
def insPrefix : List Char := ['i', 'n', 's', '_']

/-- the token an operator is written as (`Display` of `UnOpKind`) -/
def UnOp.tok : UnOp → Tok
  | .not => .punct ['!'] | .neg => tMinus | .bitNot => .punct ['~']
  | .encI => tDollar | .encF => tPercent
  | .sin => .word ['s', 'i', 'n'] | .cos => .word ['c', 'o', 's'] | .tan => .word ['t', 'a', 'n']
  | .asin => .word ['a', 's', 'i', 'n'] | .acos => .word ['a', 'c', 'o', 's'] | .atan => .word ['a', 't', 'a', 'n']
  | .sqrt => .word ['s', 'q', 'r', 't']
  | .castI => .word ['i', 'n', 't'] | .castF => .word ['f', 'l', 'o', 'a', 't']

def BinOp.tok (op : BinOp) : Tok := .punct op.text

def xcrTok (inc : Bool) : Tok := if inc then tInc else tDec

/-- the tokens of a printed number: a leading `-` is a token of its own (there is no negative
literal token), `true` / `false` are words -/
def numToks (s : List Char) : List Tok :=
  match s with
  | '-' :: r => [tMinus, .int r]
  | _ => if s = trueText ∨ s = falseText then [.word s] else [.int s]

def sigilToks : Option Sigil → List Tok
  | none => []
  | some .int => [tDollar]
  | some .float => [tPercent]

/-- `impl Format for ast::VarName` (fmt.rs 974-981): `REG[n]` with `n` printed by `Display for i32` -/
def nameToks : VarName → List Tok
  | .normal id => [.word id]
  | .reg n => [tReg, tLb] ++ numToks (printI32 n) ++ [tRb]

/-- `impl Format for ast::Var` (fmt.rs 965-972) -/
def varToks (v : Var) : List Tok := sigilToks v.sigil ++ nameToks v.name

/-- `Display for CallableName`: the identifier, or `ins_` followed by the opcode in decimal -/
def CallName.tok : CallName → Tok
  | .normal id => .word id
  | .ins n => .word (insPrefix ++ natDigits 10 n)

def floatToks (neg : Bool) (b : FloatBody) : List Tok :=
  match b with
  | .num t => (if neg then [tMinus] else []) ++ [.float t]
  | .inf => (if neg then [tMinus] else []) ++ [.word infText]
  | .nan => [.word nanText]

/-- `fmt_optional_parens`: parentheses unless `disable_parens` was set immediately before -/
def wrap (sup : Bool) (ts : List Tok) : List Tok := if sup then ts else tLp :: (ts ++ [tRp])

/-! ## `impl Format for ast::Expr`, token level -/

mutual
/-- `sup` = the formatter's `disable_parens` flag when the node is written (`SuppressParens`) -/
def printE : Bool → Expr → List Tok
  | sup, .ternary c l r => wrap sup (printE false c ++ tQuest :: (printE false l ++ tColon :: printE false r))
  | sup, .binop a op b => wrap sup (printE false a ++ op.tok :: printE false b)
  | sup, .unop op x =>
    if op.isPrefix then wrap sup (op.tok :: printE false x)
    else op.tok :: tLp :: (printE true x ++ [tRp])
  | _, .xcrement pre inc v => if pre then xcrTok inc :: varToks v else varToks v ++ [xcrTok inc]
  | _, .var v => varToks v
  | _, .call name ps as => name.tok :: tLp :: (printItems ps as.isNil (printArgs as) ++ [tRp])
  | sup, .diffSwitch cs => wrap sup (printCases cs)
  | _, .litInt v f => numToks (printInt f v)
  | _, .litFloat neg b => floatToks neg b
  | _, .litString s => [.str (escapeString s)]
  | _, .labelProp kw l => [.word kw.text, tLp, .word l, tRp]
  | _, .enumConst en id => [.word en, tDot, .word id]
/-- the items of `fmt_comma_separated("(", ")", pseudos ++ args)`: a comma after every item but
the last (the inline style; the block style adds one after the last, `Fmt.layout_tokens`);
`noArgs` / `argToks`: whether plain arguments follow the pseudo-arguments, and their tokens -/
def printItems : Pseudos → Bool → List Tok → List Tok
  | .nil, _, argToks => argToks
  | .cons k e ps, noArgs, argToks =>
    tAt :: .word k.text :: tAssign :: (printE false e ++
      ((if ps.isNil && noArgs then [] else [tComma]) ++ printItems ps noArgs argToks))
def printArgs : Exprs → List Tok
  | .nil => []
  | .cons e es => printE false e ++ ((if es.isNil then [] else [tComma]) ++ printArgs es)
/-- `fmt_separated(cases.map(OrBlank), " : ")`: an omitted case writes nothing -/
def printCases : Cases → List Tok
  | .nil => []
  | .blank cs => printCasesT cs
  | .some e cs => printE false e ++ printCasesT cs
/-- the cases after the first: each preceded by the separator -/
def printCasesT : Cases → List Tok
  | .nil => []
  | .blank cs => tColon :: printCasesT cs
  | .some e cs => tColon :: (printE false e ++ printCasesT cs)
end

/-- `fmt::stringify(&expr)`: nothing suppresses the parentheses of a lone expression -/
def printExpr (e : Expr) : List Tok := printE false e

/-! ## the same with the white space the formatter writes between the tokens -/

inductive EP where
  | t (k : Tok)
  | sp
deriving DecidableEq, Repr

def tokChars : Tok → List Char
  | .punct s => s | .word s => s | .int s => s | .float s => s | .str s => s | .difficulty s => s

def EP.chars : EP → List Char
  | .t k => tokChars k
  | .sp => [' ']

def ts (l : List Tok) : List EP := l.map EP.t

def wrapP (sup : Bool) (ps : List EP) : List EP := if sup then ps else .t tLp :: (ps ++ [.t tRp])

mutual
def printP : Bool → Expr → List EP
  | sup, .ternary c l r =>
    wrapP sup (printP false c ++ .sp :: .t tQuest :: .sp :: (printP false l ++ .sp :: .t tColon :: .sp :: printP false r))
  | sup, .binop a op b => wrapP sup (printP false a ++ .sp :: .t op.tok :: .sp :: printP false b)
  | sup, .unop op x =>
    if op.isPrefix then wrapP sup (.t op.tok :: printP false x)
    else .t op.tok :: .t tLp :: (printP true x ++ [.t tRp])
  | _, .xcrement pre inc v => ts (if pre then xcrTok inc :: varToks v else varToks v ++ [xcrTok inc])
  | _, .var v => ts (varToks v)
  | _, .call name ps as => .t name.tok :: .t tLp :: (printItemsP ps as.isNil (printArgsP as) ++ [.t tRp])
  | sup, .diffSwitch cs =>
    wrapP sup ((if cs.firstBlank then [.sp] else []) ++ (printCasesP cs ++ (if cs.lastBlank then [.sp] else [])))
  | _, .litInt v f => ts (numToks (printInt f v))
  | _, .litFloat neg b => ts (floatToks neg b)
  | _, .litString s => [.t (.str (escapeString s))]
  | _, .labelProp kw l => ts [.word kw.text, tLp, .word l, tRp]
  | _, .enumConst en id => ts [.word en, tDot, .word id]
def printItemsP : Pseudos → Bool → List EP → List EP
  | .nil, _, argPs => argPs
  | .cons k e ps, noArgs, argPs =>
    .t tAt :: .t (.word k.text) :: .t tAssign :: (printP false e ++
      ((if ps.isNil && noArgs then [] else [.t tComma, .sp]) ++ printItemsP ps noArgs argPs))
def printArgsP : Exprs → List EP
  | .nil => []
  | .cons e es => printP false e ++ ((if es.isNil then [] else [.t tComma, .sp]) ++ printArgsP es)
def printCasesP : Cases → List EP
  | .nil => []
  | .blank cs => printCasesTP cs
  | .some e cs => printP false e ++ printCasesTP cs
def printCasesTP : Cases → List EP
  | .nil => []
  | .blank cs => .sp :: .t tColon :: .sp :: printCasesTP cs
  | .some e cs => .sp :: .t tColon :: .sp :: (printP false e ++ printCasesTP cs)
end

def toksOf : List EP → List Tok
  | [] => []
  | .t k :: r => k :: toksOf r
  | .sp :: r => toksOf r

def textOf (ps : List EP) : List Char := ps.flatMap EP.chars

/-- the text of `fmt::stringify(&expr)` (any width at which no argument list is broken) -/
def printText (e : Expr) : List Char := textOf (printP false e)

/-- the text in a position where the parentheses are suppressed (right-hand side of an
assignment, condition of `if (..)`, ...) -/
def printTextSup (e : Expr) : List Char := textOf (printP true e)

/-! ## classified tokens (what the grammar's terminals distinguish) -/

inductive PTok where
  | lp | rp | comma | quest | colon | lb | rb | dot | at | assign | semi
  /-- a binary operator token; `-` and `%` are also a prefix operator / a sigil -/
  | op (b : BinOp)
  | tilde | bang | dollar | inc | dec
  | int (s : List Char) | float (s : List Char) | str (s : List Char)
  /-- `IDENT` or one of the contextual keywords of `IdentStr` -/
  | ident (s : List Char)
  /-- `INSTR`, with the text after `ins_` -/
  | ins (s : List Char)
  /-- `FuncUnOpKeyword` other than `$` / `%` -/
  | func (u : UnOp)
  | labelKw (k : LabelKw)
  | reg
  /-- a token no expression rule mentions: other keywords, other punctuation, `DifficultyStr` -/
  | bad
deriving DecidableEq, Repr, Inhabited

def binOpOfText (s : List Char) : Option BinOp :=
  if s = ['+'] then some .add else if s = ['-'] then some .sub else if s = ['*'] then some .mul
  else if s = ['/'] then some .div else if s = ['%'] then some .rem
  else if s = ['=', '='] then some .eq else if s = ['!', '='] then some .ne
  else if s = ['<'] then some .lt else if s = ['<', '='] then some .le
  else if s = ['>'] then some .gt else if s = ['>', '='] then some .ge
  else if s = ['|'] then some .bitOr else if s = ['^'] then some .bitXor else if s = ['&'] then some .bitAnd
  else if s = ['|', '|'] then some .logicOr else if s = ['&', '&'] then some .logicAnd
  else if s = ['<', '<'] then some .shl else if s = ['>', '>'] then some .shr
  else if s = ['>', '>', '>'] then some .ushr else none

def punctClass (s : List Char) : PTok :=
  if s = ['('] then .lp else if s = [')'] then .rp else if s = [','] then .comma
  else if s = ['?'] then .quest else if s = [':'] then .colon
  else if s = ['['] then .lb else if s = [']'] then .rb else if s = ['.'] then .dot
  else if s = ['@'] then .at else if s = ['='] then .assign else if s = [';'] then .semi
  else if s = ['~'] then .tilde else if s = ['!'] then .bang else if s = ['$'] then .dollar
  else if s = ['+', '+'] then .inc else if s = ['-', '-'] then .dec
  else match binOpOfText s with
    | some b => .op b
    | none => .bad

/-- the keyword tokens of the lexer that are not identifiers in an expression
(`IdentStr` admits `mapfile entry anim ecli script default case`) -/
def reservedWords : List (List Char) :=
  ["meta", "sub", "var", "string", "void", "const", "inline", "insdef", "return", "goto", "loop",
   "if", "else", "unless", "do", "while", "times", "break", "switch", "interrupt", "async", "global",
   "pragma", "image_source"].map String.toList

def wordClass (w : List Char) : PTok :=
  if w = ['s', 'i', 'n'] then .func .sin else if w = ['c', 'o', 's'] then .func .cos
  else if w = ['t', 'a', 'n'] then .func .tan else if w = ['a', 's', 'i', 'n'] then .func .asin
  else if w = ['a', 'c', 'o', 's'] then .func .acos else if w = ['a', 't', 'a', 'n'] then .func .atan
  else if w = ['s', 'q', 'r', 't'] then .func .sqrt
  else if w = ['_', 'S'] then .func .encI else if w = ['_', 'f'] then .func .encF
  else if w = ['i', 'n', 't'] then .func .castI else if w = ['f', 'l', 'o', 'a', 't'] then .func .castF
  else if w = ['o', 'f', 'f', 's', 'e', 't', 'o', 'f'] then .labelKw .offsetof
  else if w = ['t', 'i', 'm', 'e', 'o', 'f'] then .labelKw .timeof
  else if w = ['R', 'E', 'G'] then .reg
  else if w.take 4 = insPrefix then .ins (w.drop 4)
  else if reservedWords.contains w then .bad
  else .ident w

def classify : Tok → PTok
  | .punct s => punctClass s
  | .word w => wordClass w
  | .int s => .int s
  | .float s => .float s
  | .str s => .str s
  | .difficulty _ => .bad

/-! ## the parser -/

abbrev PR (α : Type) := Option (α × List PTok)

/-- `CANONICAL_INT_RE = ^(0|[1-9][0-9]*)$` of `RawInsIdent` -/
def isCanonicalInt (s : List Char) : Bool :=
  match s with
  | [] => false
  | ['0'] => true
  | c :: r => isDigit c && c != '0' && r.all isDigit

/-- `RawInsIdent`: canonical decimal that fits `u16` -/
def insOpcode (s : List Char) : Option Nat :=
  if isCanonicalInt s then
    match parseDigitsFrom 10 0 s with
    | some n => if n < 65536 then some n else none
    | none => none
  else none

def pseudoKindOf (w : List Char) : Option PseudoKind :=
  if w = PseudoKind.text .pop then some .pop else if w = PseudoKind.text .mask then some .mask
  else if w = PseudoKind.text .blob then some .blob else if w = PseudoKind.text .arg0 then some .arg0
  else if w = PseudoKind.text .nargs then some .nargs else none

/-- `VarName`: an identifier, or `"REG" "[" OptionalMinus LitIntUnsigned "]"` with
`i32::wrapping_mul(x, sign)` -/
def pVarName (sg : Option Sigil) (toks : List PTok) : PR Var :=
  match toks with
  | .ident w :: r => some ({ sigil := sg, name := .normal w }, r)
  | .reg :: .lb :: .op .sub :: .int s :: .rb :: r =>
    match litIntUnsigned s with
    | some v => some ({ sigil := sg, name := .reg (v * (-1)) }, r)
    | none => none
  | .reg :: .lb :: .int s :: .rb :: r =>
    match litIntUnsigned s with
    | some v => some ({ sigil := sg, name := .reg (v * 1) }, r)
    | none => none
  | _ => none

/-- `Var: VarSigil VarName` -/
def pVar (toks : List PTok) : PR Var :=
  match toks with
  | .dollar :: r => pVarName (some .int) r
  | .op .rem :: r => pVarName (some .float) r
  | _ => pVarName none toks

/-- what follows a `Var` in `ExprTerm`: `++` / `--` (post-xcrement), `[` (the reserved array
indexing rule, always an error), anything else leaves the variable -/
def pVarPost (v : Var) (r : List PTok) : PR Expr :=
  if r.head? = some .inc then some (.xcrement false true v, r.tail)
  else if r.head? = some .dec then some (.xcrement false false v, r.tail)
  else if r.head? = some .lb then none
  else some (.var v, r)

/-- FIRST(`ExprNoColon`): decides between an omitted and a present case after `:` -/
def startsExpr : Option PTok → Bool
  | some .lp | some (.func _) | some .dollar | some (.op .rem) | some (.op .sub) | some .tilde
  | some .bang | some .inc | some .dec | some (.int _) | some (.float _) | some (.str _)
  | some (.ident _) | some (.ins _) | some (.labelKw _) | some .reg => true
  | _ => false

def binOpOf : Option PTok → Option BinOp
  | some (.op b) => some b
  | _ => none

mutual
/-- `Expr = ExprWithColon`: `ExprTernary | ExprDiffSwitch | ExprNoColon` -/
def pExpr : Nat → List PTok → PR Expr
  | 0, _ => none
  | f + 1, toks =>
    match pLevel f 0 toks with
    | none => none
    | some (a, r) =>
      if r.head? = some .quest then
        match pTernRhs f r.tail with
        | some (l, .colon :: r2) =>
          match pTernRhs f r2 with
          | some (rt, r3) => some (.ternary a l rt, r3)
          | none => none
        | _ => none
      else if r.head? = some .colon then
        match pSwitch f r with
        | some (cs, r2) => some (.diffSwitch (.some a cs), r2)
        | none => none
      else some (a, r)
/-- `ExprTernaryRhs`: `ExprTernary | ExprNoColon` (right associative, no switch) -/
def pTernRhs : Nat → List PTok → PR Expr
  | 0, _ => none
  | f + 1, toks =>
    match pLevel f 0 toks with
    | none => none
    | some (a, r) =>
      if r.head? = some .quest then
        match pTernRhs f r.tail with
        | some (l, .colon :: r2) =>
          match pTernRhs f r2 with
          | some (rt, r3) => some (.ternary a l rt, r3)
          | none => none
        | _ => none
      else some (a, r)
/-- `(":" ExprNoColon?)*` of `ExprDiffSwitch` -/
def pSwitch : Nat → List PTok → PR Cases
  | 0, _ => none
  | f + 1, toks =>
    if toks.head? = some .colon then
      if startsExpr toks.tail.head? then
        match pLevel f 0 toks.tail with
        | some (e, r) =>
          match pSwitch f r with
          | some (cs, r2) => some (.some e cs, r2)
          | none => none
        | none => none
      else
        match pSwitch f toks.tail with
        | some (cs, r2) => some (.blank cs, r2)
        | none => none
    else some (.nil, toks)
/-- tier `lvl` of the tower: `LeftBinOp<Op_lvl, tier lvl+1>`; tier 10 is `ExprUnOp` -/
def pLevel : Nat → Nat → List PTok → PR Expr
  | 0, _, _ => none
  | f + 1, lvl, toks =>
    if 10 ≤ lvl then pUnary f toks
    else
      match pLevel f (lvl + 1) toks with
      | some (a, r) => pLoop f lvl a r
      | none => none
/-- the left recursion of `LeftBinOp`: `a (op b)*` with `op` of tier `lvl` and `b` of the next tier -/
def pLoop : Nat → Nat → Expr → List PTok → PR Expr
  | 0, _, _, _ => none
  | f + 1, lvl, a, toks =>
    match binOpOf toks.head? with
    | some op =>
      if op.level = lvl then
        match pLevel f (lvl + 1) toks.tail with
        | some (b, r) => pLoop f lvl (.binop a op b) r
        | none => none
      else some (a, toks)
    | none => some (a, toks)
/-- `LeftUnOp<OpLeftUnary, ExprTerm>`: "no recursion; only allow one unary op" -/
def pUnary : Nat → List PTok → PR Expr
  | 0, _ => none
  | f + 1, toks =>
    match toks with
    | .op .sub :: r =>
      match pTerm f r with
      | some (x, r2) => some (.unop .neg x, r2)
      | none => none
    | .tilde :: r =>
      match pTerm f r with
      | some (x, r2) => some (.unop .bitNot x, r2)
      | none => none
    | .bang :: r =>
      match pTerm f r with
      | some (x, r2) => some (.unop .not x, r2)
      | none => none
    | _ => pTerm f toks
/-- `ExprTerm` -/
def pTerm : Nat → List PTok → PR Expr
  | 0, _ => none
  | f + 1, toks =>
    match toks with
    | [] => none
    | t :: r =>
      match t with
      | .lp =>
        match pExpr f r with
        | some (e, .rp :: r2) => some (e, r2)
        | _ => none
      | .func u =>
        match r with
        | .lp :: r1 =>
          match pExpr f r1 with
          | some (e, .rp :: r2) => some (.unop u e, r2)
          | _ => none
        | _ => none
      | .dollar =>
        if r.head? = some .lp then
          match pExpr f r.tail with
          | some (e, .rp :: r2) => some (.unop .encI e, r2)
          | _ => none
        else
          match pVar (.dollar :: r) with
          | some (v, r2) => pVarPost v r2
          | none => none
      | .op b =>
        if b = .rem then
          if r.head? = some .lp then
            match pExpr f r.tail with
            | some (e, .rp :: r2) => some (.unop .encF e, r2)
            | _ => none
          else
            match pVar (.op .rem :: r) with
            | some (v, r2) => pVarPost v r2
            | none => none
        else none
      | .labelKw k =>
        match r with
        | .lp :: .ident l :: .rp :: r2 => some (.labelProp k l, r2)
        | _ => none
      | .ins s =>
        match insOpcode s with
        | some n =>
          if r.head? = some .lp then
            match pItems f r.tail with
            | some ((ps, as), r2) => some (.call (.ins n) ps as, r2)
            | none => none
          else none
        | none => none
      | .ident w =>
        if r.head? = some .lp then
          match pItems f r.tail with
          | some ((ps, as), r2) => some (.call (.normal w) ps as, r2)
          | none => none
        else if r.head? = some .dot then
          match r.tail with
          | .ident x :: r2 => some (.enumConst w x, r2)
          | _ => none
        else pVarPost { sigil := none, name := .normal w } r
      | .reg =>
        match pVar (.reg :: r) with
        | some (v, r2) => pVarPost v r2
        | none => none
      | .inc =>
        match pVar r with
        | some (v, r2) => some (.xcrement true true v, r2)
        | none => none
      | .dec =>
        match pVar r with
        | some (v, r2) => some (.xcrement true false v, r2)
        | none => none
      | .int s =>
        match litIntUnsigned s with
        | some v => some (.litInt v signedDec, r)
        | none => none
      | .float s => some (.litFloat false (.num s), r)
      | .str s =>
        match parseStringLiteral s with
        | .ok x => some (.litString x, r)
        | _ => none
      | _ => none
/-- `SeparatedTrailing<Either<PseudoArg, Expr>, ","> ")"` followed by the split of
`ExprCallParenArgsWithPseudos` (a pseudo-arg after a plain argument is an error); called at the
start of the list and after every comma -/
def pItems : Nat → List PTok → PR (Pseudos × Exprs)
  | 0, _ => none
  | f + 1, toks =>
    if toks.head? = some .rp then some ((.nil, .nil), toks.tail)
    else if toks.head? = some .at then
      match toks.tail with
      | .ident k :: .assign :: r =>
        match pseudoKindOf k with
        | some kind =>
          match pExpr f r with
          | some (e, r1) =>
            if r1.head? = some .comma then
              match pItems f r1.tail with
              | some ((ps, as), r2) => some ((.cons kind e ps, as), r2)
              | none => none
            else if r1.head? = some .rp then some ((.cons kind e .nil, .nil), r1.tail)
            else none
          | none => none
        | none => none
      | _ => none
    else
      match pExpr f toks with
      | some (e, r1) =>
        if r1.head? = some .comma then
          match pItems f r1.tail with
          | some ((ps, as), r2) => if ps.isNil then some ((.nil, .cons e as), r2) else none
          | none => none
        else if r1.head? = some .rp then some ((.nil, .cons e .nil), r1.tail)
        else none
      | none => none
end

/-- `parse::<Expr>` on a token list with explicit fuel: the whole input must be one `Expr` -/
def parseToksFuel (fuel : Nat) (toks : List Tok) : Option Expr :=
  match pExpr fuel (toks.map classify) with
  | some (e, []) => some e
  | _ => none

def fuelFor (toks : List Tok) : Nat := 40 * toks.length + 40

/-- `parse::<Expr>` on a token list -/
def parseExpr (toks : List Tok) : Option Expr := parseToksFuel (fuelFor toks) toks

/-- `parse::<Expr>` on text: lexer, then parser (an invalid token anywhere rejects the input) -/
def parseText (s : List Char) : Option Expr :=
  match lex s with
  | (toks, .eof) => parseExpr toks
  | _ => none

/-! ## what a printed expression reads back as

Parentheses, the radix of an integer and `true`/`false`/`INF`/`NAN` are not part of the parsed
AST: the parser gives every integer literal the format `SIGNED`, reads a `-` in front of a number
as the operator, and reads the four names as variables. -/

def wrapNeg (neg : Bool) (e : Expr) : Expr := if neg then .unop .neg e else e

def normInt (v : Int32) (f : IntFormat) : Expr :=
  if f.radix = .bool ∧ v = 0 then .var { sigil := none, name := .normal falseText }
  else if f.radix = .bool ∧ v = 1 then .var { sigil := none, name := .normal trueText }
  else if f.signed = true ∧ v.toInt < 0 then .unop .neg (.litInt (-v) signedDec)
  else .litInt v signedDec

def normFloat (neg : Bool) (b : FloatBody) : Expr :=
  match b with
  | .num t => wrapNeg neg (.litFloat false (.num t))
  | .inf => wrapNeg neg (.var { sigil := none, name := .normal infText })
  | .nan => .var { sigil := none, name := .normal nanText }

mutual
def norm : Expr → Expr
  | .ternary c l r => .ternary (norm c) (norm l) (norm r)
  | .binop a op b => .binop (norm a) op (norm b)
  | .unop op x => .unop op (norm x)
  | .xcrement pre inc v => .xcrement pre inc v
  | .var v => .var v
  | .call name ps as => .call name (normPs ps) (normAs as)
  | .diffSwitch cs => .diffSwitch (normCs cs)
  | .litInt v f => normInt v f
  | .litFloat neg b => normFloat neg b
  | .litString s => .litString s
  | .labelProp kw l => .labelProp kw l
  | .enumConst en id => .enumConst en id
def normPs : Pseudos → Pseudos
  | .nil => .nil
  | .cons k e ps => .cons k (norm e) (normPs ps)
def normAs : Exprs → Exprs
  | .nil => .nil
  | .cons e es => .cons (norm e) (normAs es)
def normCs : Cases → Cases
  | .nil => .nil
  | .blank cs => .blank (normCs cs)
  | .some e cs => .some (norm e) (normCs cs)
end

/-! ## the shapes on which print-then-parse is claimed

`NoGlue e` holds when
* every identifier is an identifier token for the grammar (not a keyword, no `ins_` prefix),
  opcodes fit `u16`, a difficulty switch has at least two cases and its first case is present
  (`WF`: what the parser and the decompiler build);
* no prefix operator `-` stands in front of an operand whose text starts with `-` (a negative
  number, a pre-decrement): the text would contain `--`;
* no prefix operator `~` stands in front of a negative number (the grammar allows one prefix
  operator per term);
* no prefix operator `!` stands in front of an operand whose text starts with one of
  `-*ENHLWXYZO4567`: `!` and those characters lex as one `DifficultyStr` token.
These are exactly the open findings "operator-glued-to-operand" of known_findings.json. -/

def identOK (w : List Char) : Bool := wordClass w == .ident w

/-- the printed text starts with `-`: a negative number in a signed format -/
def negLit : Expr → Bool
  | .litInt v f => (printInt f v).head? == some '-'
  | .litFloat neg b => neg && b != .nan
  | _ => false

/-- the printed text (parentheses not suppressed) starts with `-` -/
def startsMinus : Expr → Bool
  | .xcrement true false _ => true
  | e => negLit e

/-- first character of the printed text (parentheses not suppressed) -/
def firstChar (e : Expr) : Option Char := (printText e).head?

def startsDiffChar (e : Expr) : Bool :=
  match firstChar e with
  | some c => isDiffChar c
  | none => false

def varOK (v : Var) : Bool :=
  match v.name with
  | .normal id => identOK id
  | .reg _ => true

def CallName.ok : CallName → Bool
  | .normal id => identOK id
  | .ins n => n < 65536

mutual
def NoGlue : Expr → Bool
  | .ternary c l r => NoGlue c && NoGlue l && NoGlue r
  | .binop a _ b => NoGlue a && NoGlue b
  | .unop op x =>
    NoGlue x &&
    (match op with
     | .neg => !startsMinus x
     | .bitNot => !negLit x
     | .not => !startsDiffChar x
     | _ => true)
  | .xcrement _ _ v => varOK v
  | .var v => varOK v
  | .call name ps as => name.ok && NoGluePs ps && NoGlueAs as
  | .diffSwitch cs =>
    (match cs with
     | .some e cs' => NoGlue e && !cs'.isNil && NoGlueCs cs'
     | _ => false)
  | .litInt _ _ => true
  | .litFloat _ _ => true
  | .litString _ => true
  | .labelProp _ l => identOK l
  | .enumConst en id => identOK en && identOK id
def NoGluePs : Pseudos → Bool
  | .nil => true
  | .cons _ e ps => NoGlue e && NoGluePs ps
def NoGlueAs : Exprs → Bool
  | .nil => true
  | .cons e es => NoGlue e && NoGlueAs es
def NoGlueCs : Cases → Bool
  | .nil => true
  | .blank cs => NoGlueCs cs
  | .some e cs => NoGlue e && NoGlueCs cs
end

/- `NoNegLit`: no literal prints with a leading `-`: on these shapes printing is also idempotent
(a negative literal reads back as the operator `-` applied to a literal, which prints with
parentheses: the open finding "negative-literal-gains-parens") -/
mutual
def NoNegLit : Expr → Bool
  | .ternary c l r => NoNegLit c && NoNegLit l && NoNegLit r
  | .binop a _ b => NoNegLit a && NoNegLit b
  | .unop _ x => NoNegLit x
  | .call _ ps as => NoNegLitPs ps && NoNegLitAs as
  | .diffSwitch cs => NoNegLitCs cs
  | e => !negLit e
def NoNegLitPs : Pseudos → Bool
  | .nil => true
  | .cons _ e ps => NoNegLit e && NoNegLitPs ps
def NoNegLitAs : Exprs → Bool
  | .nil => true
  | .cons e es => NoNegLit e && NoNegLitAs es
def NoNegLitCs : Cases → Bool
  | .nil => true
  | .blank cs => NoNegLitCs cs
  | .some e cs => NoNegLit e && NoNegLitCs cs
end

/-! ## layout of an expression at a given width

`Formatter` writes an expression as a sequence of plain writes and `fmt_comma_separated` lists
(the argument lists of calls), fmt.rs 206-238 / 349-389: a list is first tried inline and, if the
line gets longer than the target width anywhere up to its closing parenthesis, the line is
truncated back and the list is written one item per line with a trailing comma.  Nested lists do
not backtrack on their own while an outer one is being tried inline.  This is `Fmt.inl` /
`Fmt.blk` extended with sequences; widths are counted in bytes (`line_buffer.len()`). -/

mutual
inductive XDoc where
  | tok (k : Tok)
  | sp
  /-- `fmt_comma_separated("(", ")", items)` -/
  | args (items : XDocs)
  | seq (ds : XDocs)
inductive XDocs where
  | nil
  | cons (d : XDoc) (ds : XDocs)
end

instance : Inhabited XDoc := ⟨.sp⟩
instance : Inhabited XDocs := ⟨.nil⟩

def XDocs.isNil : XDocs → Bool
  | .nil => true
  | _ => false

def XDocs.append : XDocs → XDocs → XDocs
  | .nil, b => b
  | .cons d ds, b => .cons d (ds.append b)

def XDocs.ofToks : List Tok → XDocs
  | [] => .nil
  | t :: r => .cons (.tok t) (XDocs.ofToks r)

/-- bytes of the UTF-8 encoding -/
def utf8Len (s : List Char) : Nat := s.foldl (fun n c => n + c.utf8Size) 0

/-- `append_to_line`, the column counted in bytes -/
def xw (st : LSt) (p : Piece) : LSt :=
  if st.fresh then { st with out := st.out ++ [.pad st.indent, p], col := st.indent + utf8Len p.chars, fresh := false }
  else { st with out := st.out ++ [p], col := st.col + utf8Len p.chars }

mutual
/-- inline mode (`inline_depth > 0`): `none` = `LineBreakRequired` -/
def xinl (tw : Nat) : XDoc → LSt → Option LSt
  | .tok k, st => some (xw st (.tok (tokChars k)))
  | .sp, st => some (xw st .space)
  | .args items, st =>
    match xinlItems tw items true (xw st (.tok ['('])) with
    | none => none
    | some st1 =>
      let st2 := xw st1 (.tok [')'])
      if st2.col > tw then none else some st2
  | .seq ds, st => xinlSeq tw ds st
def xinlItems (tw : Nat) : XDocs → Bool → LSt → Option LSt
  | .nil, _, st => some st
  | .cons d ds, first, st =>
    let st0 := if first then st else xw (xw st .comma) .space
    match xinl tw d st0 with
    | none => none
    | some st1 => if st1.col > tw then none else xinlItems tw ds false st1
def xinlSeq (tw : Nat) : XDocs → LSt → Option LSt
  | .nil, st => some st
  | .cons d ds, st =>
    match xinl tw d st with
    | none => none
    | some st1 => xinlSeq tw ds st1
end

mutual
/-- outside inline mode -/
def xblk (tw : Nat) : XDoc → LSt → LSt
  | .tok k, st => xw st (.tok (tokChars k))
  | .sp, st => xw st .space
  | .args items, st =>
    match xinl tw (.args items) st with
    | some st' => st'
    | none =>
      let st1 := (xw st (.tok ['('])).newline
      let st2 := xblkItems tw items { st1 with indent := st1.indent + 4 }
      xw { st2 with indent := st2.indent - 4 } (.tok [')'])
  | .seq ds, st => xblkSeq tw ds st
def xblkItems (tw : Nat) : XDocs → LSt → LSt
  | .nil, st => st
  | .cons d ds, st =>
    let st1 := xblk tw d st
    xblkItems tw ds ((xw st1 (if ds.isNil then .tcomma else .comma)).newline)
def xblkSeq (tw : Nat) : XDocs → LSt → LSt
  | .nil, st => st
  | .cons d ds, st => xblkSeq tw ds (xblk tw d st)
end

mutual
/-- the tokens (and the commas between items) a document denotes -/
def XDoc.toks : XDoc → List Piece
  | .tok k => [.tok (tokChars k)]
  | .sp => []
  | .args items => .tok ['('] :: (items.toksItems true ++ [.tok [')']])
  | .seq ds => ds.toksSeq
def XDocs.toksItems : XDocs → Bool → List Piece
  | .nil, _ => []
  | .cons d ds, first => (if first then d.toks else .comma :: d.toks) ++ ds.toksItems false
def XDocs.toksSeq : XDocs → List Piece
  | .nil => []
  | .cons d ds => d.toks ++ ds.toksSeq
end

def wrapD (sup : Bool) (ds : XDocs) : XDocs := if sup then ds else .cons (.tok tLp) (ds.append (.cons (.tok tRp) .nil))

def spTokSp (t : Tok) (rest : XDocs) : XDocs := .cons .sp (.cons (.tok t) (.cons .sp rest))

mutual
/-- the write calls of `impl Format for ast::Expr`, argument lists kept as lists -/
def exprDocs : Bool → Expr → XDocs
  | sup, .ternary c l r =>
    wrapD sup ((exprDocs false c).append (spTokSp tQuest ((exprDocs false l).append (spTokSp tColon (exprDocs false r)))))
  | sup, .binop a op b => wrapD sup ((exprDocs false a).append (spTokSp op.tok (exprDocs false b)))
  | sup, .unop op x =>
    if op.isPrefix then wrapD sup (.cons (.tok op.tok) (exprDocs false x))
    else .cons (.tok op.tok) (.cons (.tok tLp) ((exprDocs true x).append (.cons (.tok tRp) .nil)))
  | _, .xcrement pre inc v => XDocs.ofToks (if pre then xcrTok inc :: varToks v else varToks v ++ [xcrTok inc])
  | _, .var v => XDocs.ofToks (varToks v)
  | _, .call name ps as => .cons (.tok name.tok) (.cons (.args (itemDocs ps (argDocs as))) .nil)
  | sup, .diffSwitch cs =>
    wrapD sup ((if cs.firstBlank then XDocs.cons .sp .nil else .nil).append
      ((caseDocs cs).append (if cs.lastBlank then XDocs.cons .sp .nil else .nil)))
  | _, .litInt v f => XDocs.ofToks (numToks (printInt f v))
  | _, .litFloat neg b => XDocs.ofToks (floatToks neg b)
  | _, .litString s => .cons (.tok (.str (escapeString s))) .nil
  | _, .labelProp kw l => XDocs.ofToks [.word kw.text, tLp, .word l, tRp]
  | _, .enumConst en id => XDocs.ofToks [.word en, tDot, .word id]
/-- one document per item of the argument list -/
def itemDocs : Pseudos → XDocs → XDocs
  | .nil, rest => rest
  | .cons k e ps, rest =>
    .cons (.seq (.cons (.tok tAt) (.cons (.tok (.word k.text)) (.cons (.tok tAssign) (exprDocs false e))))) (itemDocs ps rest)
def argDocs : Exprs → XDocs
  | .nil => .nil
  | .cons e es => .cons (.seq (exprDocs false e)) (argDocs es)
def caseDocs : Cases → XDocs
  | .nil => .nil
  | .blank cs => caseDocsT cs
  | .some e cs => (exprDocs false e).append (caseDocsT cs)
def caseDocsT : Cases → XDocs
  | .nil => .nil
  | .blank cs => spTokSp tColon (caseDocsT cs)
  | .some e cs => spTokSp tColon ((exprDocs false e).append (caseDocsT cs))
end

/-- `stringify_with(&expr, Config::new().max_columns(w))`: `target_width = w - 1` -/
def renderExprPieces (w : Nat) (e : Expr) : List Piece := (xblkSeq (w - 1) (exprDocs false e) LSt.init).out

def renderExpr (w : Nat) (e : Expr) : List Char := (renderExprPieces w e).flatMap Piece.chars

end TruthModel.FmtExpr
