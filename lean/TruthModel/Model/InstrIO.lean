import TruthModel.Model.Basic
/-
Binary instruction headers of every instruction format: `InstrFormat::write_instr` /
`read_instr` of MSG (`formats/msg.rs`), ANM v0 and v2+ (`formats/anm/read_write.rs`), STD
EoSD-PoFV and StB+ (`formats/std.rs`), old ECL and its two timeline formats
(`formats/ecl/ecl_06.rs`), and the script loop `llir::read_instrs` / `write_instrs`.

Bytes are `List UInt8`; header fields are unbounded `Int`/`Nat` exactly like the wider Rust types
(`time: i32`, `opcode: u16`, ...) so that "does not fit the on-disk field" is expressible.
-/
namespace TruthModel.InstrIO
open TruthModel

abbrev Bytes := List UInt8

inductive Fmt where
  | msg      -- also ANM v0: i16 time, u8 opcode, u8 argsize
  | anm07    -- u16 opcode, u16 size, i16 time, u16 mask
  | std06    -- i32 time, u16 opcode, u16 argsize (= 12)
  | std10    -- i32 time, u16 opcode, u16 size
  | ecl06    -- i32 time, u16 opcode, i16 size, u8 0, u8 difficulty, u16 mask (EoSD: mask written as 0xFF)
  | ecl07    -- same, mask stored
  | tl06     -- i16 time, i16 arg0, u16 opcode, i16 size
  | tl08     -- i32 time, u16 opcode, u8 size, u8 difficulty
deriving Repr, DecidableEq, Inhabited

structure Instr where
  time : Int
  opcode : Nat
  mask : Nat := 0
  blob : Bytes := []
  difficulty : Nat := 255
  /-- `extra_arg` (timeline arg0), `none` elsewhere -/
  extra : Option Int := none
deriving Repr, DecidableEq, Inhabited

def headerSize : Fmt → Nat
  | .msg => 4 | .anm07 => 8 | .std06 => 8 | .std10 => 8 | .ecl06 => 12 | .ecl07 => 12 | .tl06 => 8 | .tl08 => 8

/-! ### little-endian primitives -/

def u8 (n : Nat) : Bytes := [UInt8.ofNat (n % 256)]
def u16 (n : Nat) : Bytes := [UInt8.ofNat (n % 256), UInt8.ofNat (n / 256 % 256)]
def u32 (n : Nat) : Bytes :=
  [UInt8.ofNat (n % 256), UInt8.ofNat (n / 256 % 256), UInt8.ofNat (n / 65536 % 256), UInt8.ofNat (n / 16777216 % 256)]
/-- two's complement of a signed value in `bits` bits -/
def twos (bits : Nat) (i : Int) : Nat := (i % (2 ^ bits : Nat)).toNat
def i16 (i : Int) : Bytes := u16 (twos 16 i)
def i32 (i : Int) : Bytes := u32 (twos 32 i)

def signed (bits : Nat) (n : Nat) : Int := if n < 2 ^ (bits - 1) then n else (n : Int) - (2 ^ bits : Nat)

def rdU8 : Bytes → Option (Nat × Bytes)
  | a :: r => some (a.toNat, r)
  | _ => none
def rdU16 : Bytes → Option (Nat × Bytes)
  | a :: b :: r => some (a.toNat + 256 * b.toNat, r)
  | _ => none
def rdU32 : Bytes → Option (Nat × Bytes)
  | a :: b :: c :: d :: r => some (a.toNat + 256 * b.toNat + 65536 * c.toNat + 16777216 * d.toNat, r)
  | _ => none
def rdI16 (bs : Bytes) : Option (Int × Bytes) := (rdU16 bs).map fun (n, r) => (signed 16 n, r)
def rdI32 (bs : Bytes) : Option (Int × Bytes) := (rdU32 bs).map fun (n, r) => (signed 32 n, r)
def rdBytes (n : Nat) (bs : Bytes) : Option (Bytes × Bytes) :=
  if n ≤ bs.length then some (bs.take n, bs.drop n) else none

def fitsU (bits : Nat) (n : Nat) : Bool := n < 2 ^ bits
def fitsI (bits : Nat) (i : Int) : Bool := - (2 ^ (bits - 1) : Nat) ≤ i ∧ i < (2 ^ (bits - 1) : Nat)

/-! ### writer (`write_instr`): every narrowing is checked, a misfit is an error -/

def tooLarge : String := "too large for this instruction format"

def instrSize (f : Fmt) (i : Instr) : Nat := headerSize f + i.blob.length

/-- what the format can store (`Fits`) -/
def fits (f : Fmt) (i : Instr) : Bool :=
  match f with
  | .msg => fitsI 16 i.time && fitsU 8 i.opcode && fitsU 8 i.blob.length
  | .anm07 => i.opcode != 65535 && fitsU 16 i.opcode && fitsU 16 (instrSize f i) && fitsI 16 i.time && fitsU 16 i.mask
  | .std06 => i.opcode != 65535 && fitsU 16 i.opcode && fitsI 32 i.time && i.blob.length == 12
  | .std10 => i.opcode != 65535 && fitsU 16 i.opcode && fitsI 32 i.time && fitsU 16 (instrSize f i)
  | .ecl06 | .ecl07 => i.opcode != 65535 && fitsU 16 i.opcode && fitsI 32 i.time && fitsI 16 (instrSize f i) && fitsU 8 i.difficulty && fitsU 16 i.mask
  | .tl06 => fitsI 16 i.time && fitsU 16 i.opcode && fitsI 16 (instrSize f i) && fitsI 16 (i.extra.getD 0)
  | .tl08 => fitsI 32 i.time && fitsU 16 i.opcode && fitsU 8 (instrSize f i) && fitsU 8 i.difficulty

def writeInstr (f : Fmt) (i : Instr) : Outcome Bytes :=
  if !fits f i then .err tooLarge else
  match f with
  | .msg => .ok (i16 i.time ++ u8 i.opcode ++ u8 i.blob.length ++ i.blob)
  | .anm07 => .ok (u16 i.opcode ++ u16 (instrSize f i) ++ i16 i.time ++ u16 i.mask ++ i.blob)
  | .std06 => .ok (i32 i.time ++ u16 i.opcode ++ u16 12 ++ i.blob)
  | .std10 => .ok (i32 i.time ++ u16 i.opcode ++ u16 (instrSize f i) ++ i.blob)
  | .ecl06 => .ok (i32 i.time ++ u16 i.opcode ++ u16 (instrSize f i) ++ u8 0 ++ u8 i.difficulty ++ u16 255 ++ i.blob)
  | .ecl07 => .ok (i32 i.time ++ u16 i.opcode ++ u16 (instrSize f i) ++ u8 0 ++ u8 i.difficulty ++ u16 i.mask ++ i.blob)
  | .tl06 => .ok (i16 i.time ++ i16 (i.extra.getD 0) ++ u16 i.opcode ++ u16 (instrSize f i) ++ i.blob)
  | .tl08 => .ok (i32 i.time ++ u16 i.opcode ++ u8 (instrSize f i) ++ u8 i.difficulty ++ i.blob)

def writeTerminal : Fmt → Bytes
  | .msg => u32 0
  | .anm07 => i16 (-1) ++ u16 0 ++ u16 0 ++ u16 0
  | .std06 | .std10 => i32 (-1) ++ i32 (-1) ++ i32 (-1) ++ i32 (-1) ++ i32 (-1)
  | .ecl06 | .ecl07 => i32 (-1) ++ i16 (-1) ++ i16 12 ++ u16 0xff00 ++ u16 0x00ff
  | .tl06 => i16 (-1) ++ i16 4
  | .tl08 => i32 (-1) ++ u32 0

/-! ### reader (`read_instr`) -/

inductive ReadRes where
  | instr (i : Instr)
  | maybeTerminal (i : Instr)
  | terminal
  | eof
deriving Repr, DecidableEq, Inhabited

def eofErr : String := "unexpected EOF"
def badSize : String := "bad instruction size"

/-- `read_instr`; returns the remaining input.  Every arithmetic step on file data that could
underflow is an `err` arm (the repaired readers use `checked_sub`). -/
def readInstr (f : Fmt) (bs : Bytes) : Outcome (ReadRes × Bytes) :=
  match f with
  | .msg =>
    match bs with
    | [] => .ok (.eof, [])
    | [_] => .err eofErr     -- `read_i16_or_eof`: incomplete word
    | _ =>
    match rdI16 bs with
    | none => .err eofErr
    | some (time, r) =>
    match rdU8 r with
    | none => .err eofErr
    | some (opcode, r) =>
    match rdU8 r with
    | none => .err eofErr
    | some (argsize, r) =>
    match rdBytes argsize r with
    | none => .err eofErr
    | some (blob, r) =>
      let i : Instr := { time, opcode, mask := 0, blob }
      if time = 0 ∧ opcode = 0 ∧ argsize = 0 then .ok (.maybeTerminal i, r) else .ok (.instr i, r)
  | .anm07 =>
    match rdU16 bs with
    | none => .err eofErr
    | some (opcode, r) =>
    match rdU16 r with
    | none => .err eofErr
    | some (size, r) =>
    if opcode = 65535 then .ok (.terminal, r) else
    match rdI16 r with
    | none => .err eofErr
    | some (time, r) =>
    match rdU16 r with
    | none => .err eofErr
    | some (mask, r) =>
    if size < 8 then .err badSize else
    match rdBytes (size - 8) r with
    | none => .err eofErr
    | some (blob, r) => .ok (.instr { time, opcode, mask, blob }, r)
  | .std06 =>
    match rdI32 bs with
    | none => .err eofErr
    | some (time, r) =>
    match rdU16 r with
    | none => .err eofErr
    | some (opcode, r) =>
    match rdU16 r with
    | none => .err eofErr
    | some (argsize, r) =>
    if opcode = 65535 then .ok (.terminal, r) else
    if argsize ≠ 12 then .err badSize else
    match rdBytes 12 r with
    | none => .err eofErr
    | some (blob, r) => .ok (.instr { time, opcode, mask := 0, blob }, r)
  | .std10 =>
    match rdI32 bs with
    | none => .err eofErr
    | some (time, r) =>
    match rdU16 r with
    | none => .err eofErr
    | some (opcode, r) =>
    match rdU16 r with
    | none => .err eofErr
    | some (size, r) =>
    if opcode = 65535 then .ok (.terminal, r) else
    if size < 8 then .err badSize else
    match rdBytes (size - 8) r with
    | none => .err eofErr
    | some (blob, r) => .ok (.instr { time, opcode, mask := 0, blob }, r)
  | .ecl06 | .ecl07 =>
    match rdI32 bs with
    | none => .err eofErr
    | some (time, r) =>
    match rdU16 r with
    | none => .err eofErr
    | some (opcode, r) =>
    match rdI16 r with
    | none => .err eofErr
    | some (size, r) =>
    match rdU8 r with
    | none => .err eofErr
    | some (_, r) =>
    match rdU8 r with
    | none => .err eofErr
    | some (difficulty, r) =>
    match rdU16 r with
    | none => .err eofErr
    | some (mask, r) =>
    if size < 12 then .err badSize else
    match rdBytes (size.toNat - 12) r with
    | none => .err eofErr
    | some (blob, r) =>
      if opcode = 65535 then .ok (.terminal, r)
      else .ok (.instr { time, opcode, mask, blob, difficulty }, r)
  | .tl06 =>
    match rdI16 bs with
    | none => .err eofErr
    | some (time, r) =>
    match rdI16 r with
    | none => .err eofErr
    | some (arg0, r) =>
    if time = -1 ∧ arg0 = 4 then .ok (.terminal, r) else
    match rdU16 r with
    | none => .err eofErr
    | some (opcode, r) =>
    match rdI16 r with
    | none => .err eofErr
    | some (size, r) =>
    if size < 8 then .err badSize else
    match rdBytes (size.toNat - 8) r with
    | none => .err eofErr
    | some (blob, r) => .ok (.instr { time, opcode, mask := 0, blob, extra := some arg0 }, r)
  | .tl08 =>
    match rdI32 bs with
    | none => .err eofErr
    | some (time, r) =>
    match rdU16 r with
    | none => .err eofErr
    | some (opcode, r) =>
    match rdU8 r with
    | none => .err eofErr
    | some (size, r) =>
    match rdU8 r with
    | none => .err eofErr
    | some (difficulty, r) =>
    if time = -1 ∧ opcode = 0 ∧ size = 0 ∧ difficulty = 0 then .ok (.terminal, r) else
    if size < 8 then .err badSize else
    match rdBytes (size - 8) r with
    | none => .err eofErr
    | some (blob, r) => .ok (.instr { time, opcode, mask := 0, blob, difficulty }, r)

/-! ### script loops -/

def writeInstrs (f : Fmt) : List Instr → Outcome Bytes
  | [] => .ok (writeTerminal f)
  | i :: is =>
    match writeInstr f i with
    | .ok b => match writeInstrs f is with
      | .ok bs => .ok (b ++ bs)
      | .err c => .err c
      | .panic s => .panic s
    | .err c => .err c
    | .panic s => .panic s

/-- `llir::read_instrs` reading to a terminal instruction or the end of input (`end_offset = None`).
`fuel` bounds the number of iterations; `Props/C16.lean` shows `bs.length + 1` always suffices. -/
def readInstrsAux (f : Fmt) : Nat → Option Instr → List Instr → Bytes → Outcome (List Instr)
  | 0, _, _, _ => .err "fuel"
  | fuel + 1, pending, acc, bs =>
    match readInstr f bs with
    | .ok (.eof, _) => .ok acc.reverse
    | .ok (.terminal, _) => .ok acc.reverse
    | .ok (.instr i, r) =>
      let acc := match pending with | some p => p :: acc | none => acc
      readInstrsAux f fuel none (i :: acc) r
    | .ok (.maybeTerminal i, r) =>
      let acc := match pending with | some p => p :: acc | none => acc
      readInstrsAux f fuel (some i) acc r
    | .err c => .err c
    | .panic s => .panic s

def readInstrs (f : Fmt) (bs : Bytes) : Outcome (List Instr) :=
  readInstrsAux f (bs.length + 1) none [] bs

end TruthModel.InstrIO
