import TruthModel.Model.LowerSem
/-
The expression compiler of `src/llir/lower/stackless.rs` WITH labels and jumps: everything of
`Model/Lower.lean` (which stays the straight-line restriction; `Props/C02.lean` proves that the two agree
on integer expressions, `lowerSetJ_eq`) plus

* `lower_uncond_jump`                       `goto L` / `goto L @ t`
* `lower_cond_jump` / `lower_count_jump_or_bust` / `lower_count_jump_intrinsic`
                                            `if (--x) goto L`, `if (--x > 0) goto L`, `unless (--x) ...`
* `lower_cond_jump_non_count`               dispatch on the shape of the condition
* `lower_cond_jump_comparison` / `lower_cond_jump_intrinsic`
                                            temporaries for complex operands, `unless` by `negate_comparison`,
                                            one `CondJmp` or the pair `CondJmp2A` + `CondJmp2B`
* `lower_cond_jump_logic_binop`             `&&` `||` through a skip label
* `lower_assign_direct_ternary`             `v = c ? a : b` through two labels
* the alternatives of `src/llir/intrinsic.rs::discover_alternatives` for jumps (`cond_jmps`, `count_jmps`)
* `IntrinsicBuilder::into_vec` / `populate_time_args` (argument order of jump instructions),
  `gather_label_info` / `encode_labels` (labels become positions in the final instruction list).

The Rust code re-enters `lower_cond_jump_comparison` with an operand replaced by its temporary; here it is
"operand A, operand B, the primitive" (same emitted code, which is what the correspondence check compares).
All recursion takes fuel (at most five calls lead from an expression to a proper subexpression).

Semantics: `stepJ` gives every jump instruction the meaning of the statement it is raised to
(`src/llir/raise/late.rs`): `CondJmp(op)` is `if (a op b) goto L @ t`, `CountJmp()` is `if (--x) goto`,
`CountJmp(op=">")` is `if (--x > 0) goto`; the pair `CondJmp2A` / `CondJmp2B` communicates through a hidden
compare register.  `execJ` runs a whole lowered stream with a program counter and fuel; `execFrag` is the
structural (fuel-free) execution of a code fragment whose jumps go forward or out of the fragment, which is
all the compiler emits for one statement.
-/
namespace TruthModel.Lower
open TruthModel TruthModel.Regs

/-! ## source: conditions and jump statements -/

/-- `ast::CondKeyword` -/
inductive Kw where
  | kif | kunless
deriving Repr, DecidableEq, Inhabited

/-- `CondKeyword::negate` -/
def Kw.negate : Kw → Kw
  | .kif => .kunless
  | .kunless => .kif

/-- `alternatives::CountJmpKind`: `PredecNeZero`, `PredecGtZero` -/
inductive CountKind where
  | ne | gt
deriving Repr, DecidableEq, Inhabited

/-- `BinOpKind::negate_comparison` -/
def negateCmp : BinOp → Option BinOp
  | .eq => some .ne | .ne => some .eq
  | .le => some .gt | .ge => some .lt
  | .lt => some .ge | .gt => some .le
  | _ => none

/-- `ast::StmtGoto` -/
structure Goto where
  l : Nat
  time : Option Int
deriving Repr, Inhabited

/-- the condition of a conditional jump as `CountJmpKind::of_cond` sees it: `--x` / `--x != 0` / `--x > 0`
at the top, or any other expression -/
inductive JCond where
  | expr (e : SExpr)
  | predec (v : VarRef) (k : CountKind)
deriving Repr, Inhabited

inductive JSStmt where
  /-- declaration, assignment, call, scope end (ternaries allowed in their expressions) -/
  | base (s : SStmt)
  | label (l : Nat)
  | goto (g : Goto)
  | condGoto (kw : Kw) (c : JCond) (g : Goto)
  /-- relative time label `+n:` -/
  | wait (n : Int)
deriving Repr, Inhabited

/-! ## lowered form -/

inductive JStmt where
  | base (s : LStmt)
  /-- `LowerStmt::Label { time, label }` -/
  | label (time : Int) (l : Nat)
  /-- `Jmp` -/
  | jmp (mask : Nat) (l : Nat) (time : Option Int)
  /-- `CondJmp(op, ty)` -/
  | condJmp (mask : Nat) (op : BinOp) (ty : RTy) (a b : Arg) (l : Nat) (time : Option Int)
  /-- `CondJmp2A(ty)` -/
  | cmp (mask : Nat) (ty : RTy) (a b : Arg)
  /-- `CondJmp2B(op)` -/
  | cmpJmp (mask : Nat) (op : BinOp) (l : Nat) (time : Option Int)
  /-- `CountJmp(op)` -/
  | countJmp (mask : Nat) (k : CountKind) (x : Arg) (l : Nat) (time : Option Int)
deriving Repr, Inhabited

def liftCode (c : List LStmt) : List JStmt := c.map .base

/-- the jump intrinsics a language has, next to the arithmetic ones -/
structure JIntrinsics where
  base : Intrinsics
  jmp : Option Nat
  condJmp : BinOp → RTy → Option Nat
  cmp : RTy → Option Nat
  cmpJmp : BinOp → Option Nat
  countJmp : CountKind → Option Nat

/-- `alternatives::CondJmp` -/
inductive CondAlt where
  | intrinsic | twoPart
deriving Repr, DecidableEq

/-- `discover_alternatives`, conditional jumps: the single instruction is preferred; otherwise the pair
needs both halves -/
def JIntrinsics.condAlt (I : JIntrinsics) (op : BinOp) (ty : RTy) : Option CondAlt :=
  match I.condJmp op ty with
  | some _ => some .intrinsic
  | none => match I.cmp ty, I.cmpJmp op with
    | some _, some _ => some .twoPart
    | _, _ => none

/-- `lower_uncond_jump` -/
def lowerJmp (I : JIntrinsics) (mask : Nat) (tgt : Goto) : Outcome (List JStmt) :=
  match I.jmp with
  | none => .err errUnsupported
  | some _ => .ok [.jmp mask tgt.l tgt.time]

/-- `lower_cond_jump_intrinsic` after the `if`/`unless` adjustment of `lower_cond_jump_comparison` -/
def condJmpAtom (I : JIntrinsics) (mask : Nat) (kw : Kw) (op : BinOp) (tyA tyB : RTy) (a b : Arg) (tgt : Goto) :
    Outcome (List JStmt) :=
  let op' : Option BinOp := match kw with
    | .kif => some op
    | .kunless => negateCmp op
  match op' with
  | none => .panic "lower_cond_jump_comparison called with non-comparison operator"
  | some op' =>
    if tyA ≠ tyB then .panic "assertion failed: should've been type-checked" else
    match I.condAlt op' tyA with
    | none => .err errUnsupported
    | some .intrinsic => .ok [.condJmp mask op' tyA a b tgt.l tgt.time]
    | some .twoPart => .ok [.cmp mask tyA a b, .cmpJmp mask op' tgt.l tgt.time]

/-- `lower_count_jump_or_bust` / `lower_count_jump_intrinsic`; `lg` is the next fresh label -/
def lowerCountJmp (I : JIntrinsics) (lg : Nat) (t : Int) (mask : Nat) (kw : Kw) (v : VarRef) (k : CountKind) (tgt : Goto) :
    Outcome (List JStmt × Nat) :=
  match I.countJmp k with
  | none => .err errUnsupported
  | some _ =>
    if v.readTy ≠ .int then .panic "assertion failed: shoulda been type-checked!" else
    match kw with
    | .kif => .ok ([.countJmp mask k v.lowered tgt.l tgt.time], lg)
    | .kunless =>
      -- `if (--var) goto skip; goto label; skip:`
      let skip := lg
      match lowerJmp I mask tgt with
      | .ok j => .ok (.countJmp mask k v.lowered skip none :: j ++ [.label t skip], lg + 1)
      | .err x => .err x
      | .panic x => .panic x

/-- result of lowering an operand, with both counters -/
structure OperandJ where
  code : List JStmt
  atom : Arg
  ty : RTy
  gen : Gen
  lgen : Nat
  free : Option Def

def freeOfJ (o : Option Def) : List JStmt := liftCode (freeOf o)

def liftAtom (r : Outcome (List LStmt)) (g lg : Nat) : Outcome (List JStmt × Gen × Nat) :=
  match r with
  | .ok c => .ok (liftCode c, g, lg)
  | .err x => .err x
  | .panic x => .panic x

mutual
/-- `lower_assign_op` for `v = e` -/
def lowerSetJ (I : JIntrinsics) (db ab : Nat) : Nat → Gen → Nat → Int → Nat → VarRef → SExpr → Outcome (List JStmt × Gen × Nat)
  | 0, _, _, _, _, _, _ => .panic "out of fuel"
  | fuel + 1, g, lg, t, mask, v, e =>
    match e.simple? with
    | some a => liftAtom (lowerAssignAtom I.base mask v .set a) g lg
    | none =>
      let tm := e.temp
      if tm.readTy ≠ tm.tmpTy then
        let d := g
        match lowerSetJ I db ab fuel (g + 1) lg t mask (tmpVar d tm.tmpTy) tm.tmpExpr with
        | .ok (c1, g1, lg1) =>
          match lowerAssignAtom I.base mask v .set (.loc d tm.readTy) with
          | .ok c2 => .ok (.base (.alloc d tm.tmpTy) :: c1 ++ liftCode c2 ++ [.base (.free d)], g1, lg1)
          | .err x => .err x
          | .panic x => .panic x
        | .err x => .err x
        | .panic x => .panic x
      else
        match tm.tmpExpr with
        | .binop op a b => lowerBinopJ I db ab fuel g lg t mask v op a b
        | .unop op b => lowerUnopJ I db ab fuel g lg t mask v op b
        | .switch cs => lowerSwitchJ I db ab fuel g lg t mask v (explicitCases cs 0 none)
        | .ternary c l r => lowerTernaryJ I db ab fuel g lg t mask v c l r
        | _ => .err errUnsupported

/-- one operand of a binary / unary operation (see `lowerOperand`) -/
def lowerOperandJ (I : JIntrinsics) (db ab : Nat) : Nat → Gen → Nat → Int → Nat → VarRef → RTy → Bool → SExpr → Outcome OperandJ
  | 0, _, _, _, _, _, _, _, _ => .panic "out of fuel"
  | fuel + 1, g, lg, t, mask, v, tyRhs, guard, e =>
    match e.simple? with
    | some a => .ok ⟨[], a, e.simpleTy, g, lg, none⟩
    | none =>
      let tm := e.temp
      if tm.tmpTy = tyRhs ∧ tm.tmpTy = tm.readTy ∧ guard then
        match lowerSetJ I db ab fuel g lg t mask v tm.tmpExpr with
        | .ok (c, g1, lg1) => .ok ⟨c, v.toArg tm.readTy, tm.readTy, g1, lg1, none⟩
        | .err x => .err x
        | .panic x => .panic x
      else
        let d := g
        match lowerSetJ I db ab fuel (g + 1) lg t mask (tmpVar d tm.tmpTy) tm.tmpExpr with
        | .ok (c, g1, lg1) => .ok ⟨.base (.alloc d tm.tmpTy) :: c, .loc d tm.readTy, tm.readTy, g1, lg1, some d⟩
        | .err x => .err x
        | .panic x => .panic x

/-- `lower_assign_direct_binop` -/
def lowerBinopJ (I : JIntrinsics) (db ab : Nat) : Nat → Gen → Nat → Int → Nat → VarRef → BinOp → SExpr → SExpr → Outcome (List JStmt × Gen × Nat)
  | 0, _, _, _, _, _, _, _, _ => .panic "out of fuel"
  | fuel + 1, g, lg, t, mask, v, op, a, b =>
    let tyRhs := binopTy op a.ty
    match lowerOperandJ I db ab fuel g lg t mask v tyRhs (!b.uses v.name) a with
    | .ok A =>
      let aUsesV := operandUses a v.name A.free
      match lowerOperandJ I db ab fuel A.gen A.lgen t mask v tyRhs (!aUsesV) b with
      | .ok B =>
        match lowerBinopAtom I.base mask v op A.ty A.atom B.atom with
        | .ok c => .ok (A.code ++ (B.code ++ (liftCode c ++ (freeOfJ B.free ++ freeOfJ A.free))), B.gen, B.lgen)
        | .err x => .err x
        | .panic x => .panic x
      | .err x => .err x
      | .panic x => .panic x
    | .err x => .err x
    | .panic x => .panic x

/-- `lower_assign_direct_unop` -/
def lowerUnopJ (I : JIntrinsics) (db ab : Nat) : Nat → Gen → Nat → Int → Nat → VarRef → UnOp → SExpr → Outcome (List JStmt × Gen × Nat)
  | 0, _, _, _, _, _, _, _ => .panic "out of fuel"
  | fuel + 1, g, lg, t, mask, v, op, b =>
    let tyRhs := unopTy op b.ty
    match lowerOperandJ I db ab fuel g lg t mask v tyRhs true b with
    | .ok B =>
      match lowerUnopAtom I.base mask v op B.ty B.atom with
      | .ok c => .ok (B.code ++ (liftCode c ++ freeOfJ B.free), B.gen, B.lgen)
      | .err x => .err x
      | .panic x => .panic x
    | .err x => .err x
    | .panic x => .panic x

/-- `lower_assign_diff_switch` -/
def lowerSwitchJ (I : JIntrinsics) (db ab : Nat) : Nat → Gen → Nat → Int → Nat → VarRef → List (Nat × SExpr) → Outcome (List JStmt × Gen × Nat)
  | 0, _, _, _, _, _, _ => .panic "out of fuel"
  | _ + 1, g, lg, _, _, _, [] => .ok ([], g, lg)
  | fuel + 1, g, lg, t, mask, v, (caseMask, c) :: rest =>
    let newMask := ((mask &&& db) &&& caseMask) ||| (mask &&& ab)
    let first : Outcome (List JStmt × Gen × Nat) :=
      if newMask = 0 then .ok ([], g, lg) else lowerSetJ I db ab fuel g lg t newMask v c
    match first with
    | .ok (c1, g1, lg1) =>
      match lowerSwitchJ I db ab fuel g1 lg1 t mask v rest with
      | .ok (c2, g2, lg2) => .ok (c1 ++ c2, g2, lg2)
      | .err x => .err x
      | .panic x => .panic x
    | .err x => .err x
    | .panic x => .panic x

/-- `lower_assign_direct_ternary`:
`unless (c) goto false; v = l; goto end; false: v = r; end:` -/
def lowerTernaryJ (I : JIntrinsics) (db ab : Nat) : Nat → Gen → Nat → Int → Nat → VarRef → SExpr → SExpr → SExpr → Outcome (List JStmt × Gen × Nat)
  | 0, _, _, _, _, _, _, _, _ => .panic "out of fuel"
  | fuel + 1, g, lg, t, mask, v, c, l, r =>
    let falseL := lg
    let endL := lg + 1
    match lowerCondJ I db ab fuel g (lg + 2) t mask .kunless c ⟨falseL, none⟩ with
    | .ok (c1, g1, lg1) =>
      match lowerSetJ I db ab fuel g1 lg1 t mask v l with
      | .ok (c2, g2, lg2) =>
        match lowerJmp I mask ⟨endL, none⟩ with
        | .ok j =>
          match lowerSetJ I db ab fuel g2 lg2 t mask v r with
          | .ok (c3, g3, lg3) => .ok (c1 ++ (c2 ++ (j ++ (.label t falseL :: (c3 ++ [.label t endL])))), g3, lg3)
          | .err x => .err x
          | .panic x => .panic x
        | .err x => .err x
        | .panic x => .panic x
      | .err x => .err x
      | .panic x => .panic x
    | .err x => .err x
    | .panic x => .panic x

/-- `lower_cond_jump_non_count` -/
def lowerCondJ (I : JIntrinsics) (db ab : Nat) : Nat → Gen → Nat → Int → Nat → Kw → SExpr → Goto → Outcome (List JStmt × Gen × Nat)
  | 0, _, _, _, _, _, _, _ => .panic "out of fuel"
  | fuel + 1, g, lg, t, mask, kw, e, tgt =>
    match e with
    | .binop op a b =>
      if isComparison op then lowerCmpJ I db ab fuel g lg t mask kw a op b tgt
      else if op = .land ∨ op = .lor then lowerLogicJ I db ab fuel g lg t mask kw a op b tgt
      else if e.ty ≠ .int then .panic "assertion failed: ty == ScalarType::Int"
      else lowerCmpJ I db ab fuel g lg t mask kw e .ne (.litI 0) tgt
    | .unop .not b => lowerCondJ I db ab fuel g lg t mask kw.negate b tgt
    | _ =>
      -- other arbitrary expressions: `<if|unless> (<expr> != 0)`
      if e.ty ≠ .int then .panic "assertion failed: ty == ScalarType::Int"
      else lowerCmpJ I db ab fuel g lg t mask kw e .ne (.litI 0) tgt

/-- an operand of a comparison: as it is if simple, else `define_temporary` -/
def lowerTempJ (I : JIntrinsics) (db ab : Nat) : Nat → Gen → Nat → Int → Nat → SExpr → Outcome OperandJ
  | 0, _, _, _, _, _ => .panic "out of fuel"
  | fuel + 1, g, lg, t, mask, e =>
    match e.simple? with
    | some a => .ok ⟨[], a, e.simpleTy, g, lg, none⟩
    | none =>
      let tm := e.temp
      let d := g
      match lowerSetJ I db ab fuel (g + 1) lg t mask (tmpVar d tm.tmpTy) tm.tmpExpr with
      | .ok (c, g1, lg1) => .ok ⟨.base (.alloc d tm.tmpTy) :: c, .loc d tm.readTy, tm.readTy, g1, lg1, some d⟩
      | .err x => .err x
      | .panic x => .panic x

/-- `lower_cond_jump_comparison` -/
def lowerCmpJ (I : JIntrinsics) (db ab : Nat) : Nat → Gen → Nat → Int → Nat → Kw → SExpr → BinOp → SExpr → Goto → Outcome (List JStmt × Gen × Nat)
  | 0, _, _, _, _, _, _, _, _, _ => .panic "out of fuel"
  | fuel + 1, g, lg, t, mask, kw, a, op, b, tgt =>
    match lowerTempJ I db ab fuel g lg t mask a with
    | .ok A =>
      match lowerTempJ I db ab fuel A.gen A.lgen t mask b with
      | .ok B =>
        match condJmpAtom I mask kw op A.ty B.ty A.atom B.atom tgt with
        | .ok c => .ok (A.code ++ (B.code ++ (c ++ (freeOfJ B.free ++ freeOfJ A.free))), B.gen, B.lgen)
        | .err x => .err x
        | .panic x => .panic x
      | .err x => .err x
      | .panic x => .panic x
    | .err x => .err x
    | .panic x => .panic x

/-- `lower_cond_jump_logic_binop` -/
def lowerLogicJ (I : JIntrinsics) (db ab : Nat) : Nat → Gen → Nat → Int → Nat → Kw → SExpr → BinOp → SExpr → Goto → Outcome (List JStmt × Gen × Nat)
  | 0, _, _, _, _, _, _, _, _, _ => .panic "out of fuel"
  | fuel + 1, g, lg, t, mask, kw, a, op, b, tgt =>
    let easy := (kw = .kif ∧ op = .lor) ∨ (kw = .kunless ∧ op = .land)
    if easy then
      -- `if (a || b) ...` splits into `if (a) ...` and `if (b) ...`; likewise `unless (a && b) ...`
      match lowerCondJ I db ab fuel g lg t mask kw a tgt with
      | .ok (c1, g1, lg1) =>
        match lowerCondJ I db ab fuel g1 lg1 t mask kw b tgt with
        | .ok (c2, g2, lg2) => .ok (c1 ++ c2, g2, lg2)
        | .err x => .err x
        | .panic x => .panic x
      | .err x => .err x
      | .panic x => .panic x
    else
      -- `unless (a) goto skip; unless (b) goto skip; goto label; skip:`
      let skip := lg
      match lowerCondJ I db ab fuel g (lg + 1) t mask kw.negate a ⟨skip, none⟩ with
      | .ok (c1, g1, lg1) =>
        match lowerCondJ I db ab fuel g1 lg1 t mask kw.negate b ⟨skip, none⟩ with
        | .ok (c2, g2, lg2) =>
          match lowerJmp I mask tgt with
          | .ok j => .ok (c1 ++ (c2 ++ (j ++ [.label t skip])), g2, lg2)
          | .err x => .err x
          | .panic x => .panic x
        | .err x => .err x
        | .panic x => .panic x
      | .err x => .err x
      | .panic x => .panic x
end

def jumpFuel (e : SExpr) : Nat := 6 * e.size + 6

/-- `lower_cond_jump`: count jumps are recognised at the top of the condition only -/
def lowerCondGoto (I : JIntrinsics) (db ab : Nat) (g lg : Nat) (t : Int) (mask : Nat) (kw : Kw) (c : JCond) (tgt : Goto) :
    Outcome (List JStmt × Gen × Nat) :=
  match c with
  | .predec v k => match lowerCountJmp I lg t mask kw v k tgt with
    | .ok (code, lg') => .ok (code, g, lg')
    | .err x => .err x
    | .panic x => .panic x
  | .expr e => lowerCondJ I db ab (jumpFuel e) g lg t mask kw e tgt

/-- `lower_assign_op`: `v op e` for every assignment operator -/
def lowerAssignJ (I : JIntrinsics) (db ab : Nat) (g lg : Nat) (t : Int) (mask : Nat) (v : VarRef) (op : AssignOp) (e : SExpr) :
    Outcome (List JStmt × Gen × Nat) :=
  let fuel := jumpFuel e
  match op with
  | .set => lowerSetJ I db ab fuel g lg t mask v e
  | _ =>
    match e.simple? with
    | some a => liftAtom (lowerAssignAtom I.base mask v op a) g lg
    | none =>
      let tm := e.temp
      let d := g
      match lowerSetJ I db ab fuel (g + 1) lg t mask (tmpVar d tm.tmpTy) tm.tmpExpr with
      | .ok (c1, g1, lg1) =>
        match lowerAssignAtom I.base mask v op (.loc d tm.readTy) with
        | .ok c2 => .ok (.base (.alloc d tm.tmpTy) :: c1 ++ liftCode c2 ++ [.base (.free d)], g1, lg1)
        | .err x => .err x
        | .panic x => .panic x
      | .err x => .err x
      | .panic x => .panic x

/-- arguments of `lower_instruction` -/
def lowerArgsJ (I : JIntrinsics) (db ab : Nat) (t : Int) (mask : Nat) : Gen → Nat → List SExpr → Outcome (List JStmt × List Arg × List Def × Gen × Nat)
  | g, lg, [] => .ok ([], [], [], g, lg)
  | g, lg, e :: es =>
    match e.simple? with
    | some a => match lowerArgsJ I db ab t mask g lg es with
      | .ok (c, as, ds, g', lg') => .ok (c, a :: as, ds, g', lg')
      | .err x => .err x
      | .panic x => .panic x
    | none =>
      let tm := e.temp
      let d := g
      match lowerSetJ I db ab (jumpFuel e) (g + 1) lg t mask (tmpVar d tm.tmpTy) tm.tmpExpr with
      | .ok (c1, g1, lg1) => match lowerArgsJ I db ab t mask g1 lg1 es with
        | .ok (c, as, ds, g', lg') => .ok (.base (.alloc d tm.tmpTy) :: c1 ++ c, .loc d tm.readTy :: as, d :: ds, g', lg')
        | .err x => .err x
        | .panic x => .panic x
      | .err x => .err x
      | .panic x => .panic x

/-- `lower_instruction` -/
def lowerCallJ (I : JIntrinsics) (db ab : Nat) (g lg : Nat) (t : Int) (mask : Nat) (opcode : Nat) (args : List SExpr) :
    Outcome (List JStmt × Gen × Nat) :=
  match lowerArgsJ I db ab t mask g lg args with
  | .ok (c, as, ds, g', lg') =>
    .ok (c ++ [.base (.instr ⟨mask, .plain opcode, as⟩)] ++ liftCode (ds.reverse.map .free), g', lg')
  | .err x => .err x
  | .panic x => .panic x

def lowerStmtJ (I : JIntrinsics) (db ab : Nat) (g lg : Nat) (t : Int) (mask : Nat) : JSStmt → Outcome (List JStmt × Gen × Nat)
  | .base (.decl d ty none) => .ok ([.base (.alloc d ty)], g, lg)
  | .base (.decl d ty (some e)) =>
    match lowerAssignJ I db ab g lg t mask ⟨.loc d, none, ty⟩ .set e with
    | .ok (c, g', lg') => .ok (.base (.alloc d ty) :: c, g', lg')
    | .err x => .err x
    | .panic x => .panic x
  | .base (.assign op v e) => lowerAssignJ I db ab g lg t mask v op e
  | .base (.call opcode args) => lowerCallJ I db ab g lg t mask opcode args
  | .base (.scopeEnd d) => .ok ([.base (.free d)], g, lg)
  | .base .other => .err errUnmodelled
  | .label l => .ok ([.label t l], g, lg)
  | .goto tgt => match lowerJmp I mask tgt with
    | .ok c => .ok (c, g, lg)
    | .err x => .err x
    | .panic x => .panic x
  | .condGoto kw c tgt => lowerCondGoto I db ab g lg t mask kw c tgt
  | .wait _ => .ok ([], g, lg)

/-- `lower_sub_ast`; every emitted statement is stamped with the time of its source statement
(`stmt_data.time`: relative time labels add up) -/
def lowerBodyJ (I : JIntrinsics) (db ab : Nat) (mask : Nat) : Gen → Nat → Int → List JSStmt → Outcome (List (Int × JStmt))
  | _, _, _, [] => .ok []
  | g, lg, t, s :: rest =>
    let t' := match s with
      | .wait n => t + n
      | _ => t
    match lowerStmtJ I db ab g lg t' mask s with
    | .ok (c, g', lg') => match lowerBodyJ I db ab mask g' lg' t' rest with
      | .ok c' => .ok (c.map (fun x => (t', x)) ++ c')
      | .err x => .err x
      | .panic x => .panic x
    | .err x => .err x
    | .panic x => .panic x

/-! ## from the lowered stream to instructions -/

/-- `abi_parts::JumpArgOrder` -/
inductive JumpOrder where
  | locTime | timeLoc | loc
deriving Repr, DecidableEq

/-- `populate_time_args` -/
def jumpArgs (o : JumpOrder) (l : Nat) (time : Option Int) : List Arg :=
  let la := Arg.label l
  let ta := match time with
    | some t => Arg.imm (.int (Int32.ofInt t))
    | none => Arg.timeOf l
  match o with
  | .locTime => [la, ta]
  | .timeLoc => [ta, la]
  | .loc => [la]

def CountKind.op : CountKind → BinOp
  | .ne => .ne
  | .gt => .gt

/-- `IntrinsicBuilder::into_vec` for the signatures of the generated test languages: the jump arguments come
last, after the plain arguments / the output -/
def toRegsStmtJ (I : JIntrinsics) (order : JumpOrder) (time : Int) : JStmt → Regs.Stmt
  | .base (.alloc d _) => .alloc d
  | .base (.free d) => .free d
  | .base (.instr i) => .instr time i.mask ((i.kind.opcode I.base).getD 0) (some i.args)
  | .label t l => .label t l
  | .jmp m l tm => .instr time m (I.jmp.getD 0) (some (jumpArgs order l tm))
  | .condJmp m op ty a b l tm => .instr time m ((I.condJmp op ty).getD 0) (some ([a, b] ++ jumpArgs order l tm))
  | .cmp m ty a b => .instr time m ((I.cmp ty).getD 0) (some [a, b])
  | .cmpJmp m op l tm => .instr time m ((I.cmpJmp op).getD 0) (some (jumpArgs order l tm))
  | .countJmp m k x l tm => .instr time m ((I.countJmp k).getD 0) (some ([x] ++ jumpArgs order l tm))

def typeTableJ : List (Int × JStmt) → List (Def × RTy)
  | [] => []
  | (_, .base (.alloc d ty)) :: rest => (d, ty) :: typeTableJ rest
  | _ :: rest => typeTableJ rest

/-- `gather_label_info`: position (number of instructions before it) and time of every label; a label
defined twice is an error -/
def gatherLabels : List Regs.Stmt → Nat → List (Nat × Nat × Int) → Outcome (List (Nat × Nat × Int))
  | [], _, acc => .ok acc
  | .label t l :: rest, k, acc =>
    if acc.any (fun e => e.1 == l) then .err "duplicate label" else gatherLabels rest k (acc ++ [(l, k, t)])
  | .instr _ _ _ _ :: rest, k, acc => gatherLabels rest (k + 1) acc
  | _ :: rest, k, acc => gatherLabels rest k acc

def lookupLabel (tbl : List (Nat × Nat × Int)) (l : Nat) : Option (Nat × Int) :=
  match tbl.find? (fun e => e.1 == l) with
  | some e => some e.2
  | none => none

/-- `encode_labels` on one argument: `Label` becomes the position of the target, `TimeOf` its time -/
def encodeLabelArg (tbl : List (Nat × Nat × Int)) : Arg → Outcome Arg
  | .label l => match lookupLabel tbl l with
    | some (k, _) => .ok (.label k)
    | none => .err "undefined label"
  | .timeOf l => match lookupLabel tbl l with
    | some (_, t) => .ok (.imm (.int (Int32.ofInt t)))
    | none => .err "undefined label"
  | a => .ok a

def encodeLabelArgs (tbl : List (Nat × Nat × Int)) : List Arg → Outcome (List Arg)
  | [] => .ok []
  | a :: as => match encodeLabelArg tbl a with
    | .ok a' => match encodeLabelArgs tbl as with
      | .ok as' => .ok (a' :: as')
      | .err x => .err x
      | .panic x => .panic x
    | .err x => .err x
    | .panic x => .panic x

def encodeLabels (tbl : List (Nat × Nat × Int)) : List Regs.Stmt → Outcome (List Regs.Stmt)
  | [] => .ok []
  | .instr t m op (some args) :: rest => match encodeLabelArgs tbl args with
    | .ok args' => match encodeLabels tbl rest with
      | .ok rest' => .ok (.instr t m op (some args') :: rest')
      | .err x => .err x
      | .panic x => .panic x
    | .err x => .err x
    | .panic x => .panic x
  | s :: rest => match encodeLabels tbl rest with
    | .ok rest' => .ok (s :: rest')
    | .err x => .err x
    | .panic x => .panic x

/-- the whole pipeline on one body with jumps: lower, assign registers, elaborate switches, resolve labels -/
def compileJ (I : JIntrinsics) (order : JumpOrder) (db ab : Nat) (mode : ExplicitMode) (h : Hooks) (firstTemp firstLabel : Nat)
    (body : List JSStmt) : Outcome (Regs.Result × List Regs.Stmt) :=
  match lowerBodyJ I db ab 255 firstTemp firstLabel 0 body with
  | .ok code =>
    let stream := code.map (fun x => toRegsStmtJ I order x.1 x.2)
    match assign mode h (tyOfTable (typeTableJ code)) [] stream with
    | .ok res =>
      let flat := res.stream.flatMap (elaborateStmt db ab)
      match gatherLabels flat 0 [] with
      | .ok tbl => match encodeLabels tbl flat with
        | .ok out => .ok (res, out)
        | .err x => .err x
        | .panic x => .panic x
      | .err x => .err x
      | .panic x => .panic x
    | .err x => .err x
    | .panic x => .panic x
  | .err x => .err x
  | .panic x => .panic x

/-! ## semantics of lowered streams with jumps -/

/-- the machine plus the hidden compare register of two-part conditional jumps -/
structure JM where
  m : Machine
  cmp : Option (Value × Value)

inductive Flow where
  | next
  | jump (l : Nat) (time : Option Int)
deriving Repr, DecidableEq

def CountKind.test : CountKind → Int32 → Bool
  | .ne, x => x != 0
  | .gt, x => decide (0 < x)

/-- jump iff the comparison yields a non-zero integer -/
def cmpFlow (F : FloatOps) (op : BinOp) (va vb : Value) (l : Nat) (time : Option Int) : Outcome Flow :=
  match binop F op va vb with
  | .ok (.int r) => .ok (if r = 0 then .next else .jump l time)
  | .ok _ => .panic "type error"
  | .err c => .err c
  | .panic p => .panic p

/-- one statement of the lowered stream -/
def stepJ (F : FloatOps) (diff : Nat) (s : JM) : JStmt → Outcome (JM × Flow)
  | .base st => match execStmt F diff s.m st with
    | .ok m' => .ok ({ s with m := m' }, .next)
    | .err c => .err c
    | .panic p => .panic p
  | .label _ _ => .ok (s, .next)
  | .jmp mask l time => if !maskOn mask diff then .ok (s, .next) else .ok (s, .jump l time)
  | .condJmp mask op _ a b l time =>
    if !maskOn mask diff then .ok (s, .next) else
    match readArg F diff s.m.store a, readArg F diff s.m.store b with
    | .ok va, .ok vb => match cmpFlow F op va vb l time with
      | .ok f => .ok (s, f)
      | .err c => .err c
      | .panic p => .panic p
    | .err c, _ => .err c
    | .panic p, _ => .panic p
    | _, .err c => .err c
    | _, .panic p => .panic p
  | .cmp mask _ a b =>
    if !maskOn mask diff then .ok (s, .next) else
    match readArg F diff s.m.store a, readArg F diff s.m.store b with
    | .ok va, .ok vb => .ok ({ s with cmp := some (va, vb) }, .next)
    | .err c, _ => .err c
    | .panic p, _ => .panic p
    | _, .err c => .err c
    | _, .panic p => .panic p
  | .cmpJmp mask op l time =>
    if !maskOn mask diff then .ok (s, .next) else
    match s.cmp with
    | none => .panic "compare register not set"
    | some (va, vb) => match cmpFlow F op va vb l time with
      | .ok f => .ok (s, f)
      | .err c => .err c
      | .panic p => .panic p
  | .countJmp mask k x l time =>
    if !maskOn mask diff then .ok (s, .next) else
    match argVar x, readArg F diff s.m.store x with
    | some name, .ok (.int n) =>
      let n' := n - 1     -- `i32::wrapping_add(old, -1)`
      .ok ({ s with m := { s.m with store := upd s.m.store name (.int n') } }, if k.test n' then .jump l time else .next)
    | none, _ => .panic "bad destination"
    | _, .ok _ => .panic "type error"
    | _, .err c => .err c
    | _, .panic p => .panic p

def JM.setTime (s : JM) (t : Int) : JM := { s with m := { s.m with time := t } }

/-- index and time of the first label `l` (`AstVm::try_goto`) -/
def findLabelJ : List JStmt → Nat → Nat → Option (Nat × Int)
  | [], _, _ => none
  | .label t l' :: rest, l, k => if l' = l then some (k, t) else findLabelJ rest l (k + 1)
  | _ :: rest, l, k => findLabelJ rest l (k + 1)

/-- one step of the whole-program machine: new program counter and state -/
def stepPc (F : FloatOps) (diff : Nat) (P : List JStmt) (pc : Nat) (s : JM) : Outcome (Option (Nat × JM)) :=
  match P[pc]? with
  | none => .ok none
  | some st => match stepJ F diff s st with
    | .ok (s', .next) => .ok (some (pc + 1, s'))
    | .ok (s', .jump l time) => match findLabelJ P l 0 with
      | none => .panic "jump to undefined label"
      | some (i, tl) => .ok (some (i, s'.setTime (time.getD tl)))
    | .err c => .err c
    | .panic p => .panic p

/-- **execJ**: the whole lowered stream from program counter `pc`, until it runs off the end -/
def execJ (F : FloatOps) (diff : Nat) (P : List JStmt) : Nat → Nat → JM → Outcome JM
  | 0, _, _ => .panic "out of fuel"
  | fuel + 1, pc, s => match stepPc F diff P pc s with
    | .ok none => .ok s
    | .ok (some (pc', s')) => execJ F diff P fuel pc' s'
    | .err c => .err c
    | .panic p => .panic p

/-- how a code fragment is left -/
inductive Exit where
  | fall
  | jump (l : Nat) (time : Option Int)
deriving Repr, DecidableEq

inductive FragMode where
  | run
  | seek (l : Nat) (time : Option Int)
deriving Repr, DecidableEq

/-- **execFrag**: structural execution of a code fragment all of whose jumps go forward within the fragment
or out of it: after a jump the statements up to the label are skipped; if the label does not follow, the
fragment is left by that jump -/
def execFrag (F : FloatOps) (diff : Nat) : FragMode → List JStmt → JM → Outcome (Exit × JM)
  | .run, [], s => .ok (.fall, s)
  | .seek l time, [], s => .ok (.jump l time, s)
  | .seek l time, .label t l' :: rest, s =>
    if l' = l then execFrag F diff .run rest (s.setTime (time.getD t)) else execFrag F diff (.seek l time) rest s
  | .seek l time, _ :: rest, s => execFrag F diff (.seek l time) rest s
  | .run, st :: rest, s => match stepJ F diff s st with
    | .ok (s', .next) => execFrag F diff .run rest s'
    | .ok (s', .jump l time) => execFrag F diff (.seek l time) rest s'
    | .err c => .err c
    | .panic p => .panic p

/-! ## source semantics of the jump statements (`AstVm::_run`, `CondJump` arm; `eval` of `--x`) -/

/-- does `if|unless (c) goto` jump?  Returns the store after the condition was evaluated (`--x` writes). -/
def evalCond (F : FloatOps) (diff : Nat) (σ : Store) : JCond → Outcome (Bool × Store)
  | .expr e => match evalS F diff σ e with
    | .ok (.int v) => .ok (v != 0, σ)
    | .ok _ => .panic "type error"
    | .err c => .err c
    | .panic p => .panic p
  | .predec v k => match evalS F diff σ (.var v) with
    | .ok (.int n) =>
      let n' := n - 1
      .ok (k.test n', upd σ v.name (.int n'))
    | .ok _ => .panic "type error"
    | .err c => .err c
    | .panic p => .panic p

/-- `self.eval_cond(cond) == (keyword == if)` -/
def Kw.takes (kw : Kw) (b : Bool) : Bool :=
  match kw with
  | .kif => b
  | .kunless => !b

end TruthModel.Lower
