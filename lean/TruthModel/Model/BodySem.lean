import TruthModel.Model.LowerJumps
/-
Whole flat bodies (C02, composition): the two machines `lowerBody_sound` (Props/C02.lean) relates.

* SOURCE: `AstVm::_run` (`src/vm.rs`) on a flat statement list as `desugar_blocks` leaves it (assignments,
  declarations, calls, labels, `goto`, `if|unless (c) goto`, counting jumps, relative time labels, scope ends):
  a program counter over the statement list; before every statement the VM "waits" until the statement's time
  (`stmt_data[..].time` from `time_and_difficulty`: relative time labels add up and already carry the new time);
  `time` and `real_time` grow together while waiting; a jump goes to the FIRST definition of the label
  (`try_goto`) and sets `time` (never `real_time`) to the time of the jump or of the label; every logged call
  carries the `real_time` at which it was made; the iteration limit is the fuel.
  `runJS` is structurally the same function as `execJ` (Model/LowerJumps.lean).
  This semantics is compared with the real `AstVm` by the `srcvm` cases of the C02 check.

* TARGET: the output of `lowerBodyJ` (every emitted statement stamped with the time of its source statement) run
  the way the VM runs the raised compiled script: the same program-counter machine as `execJ` (`stepJ` per
  statement) plus the waiting rule in front of every instruction (`RegAlloc` / `RegFree` markers and labels are
  not instructions and do not wait) and the `real_time` stamps of the log.  Compared with the real VM on
  `raise(lower(source))` by the `tgtvm` cases.
-/
namespace TruthModel.Lower
open TruthModel TruthModel.Regs

/-! ## the VM state both machines share -/

/-- `AstVm`: store / `instr_log` (opcode, argument values) / `time` in `m`, plus `real_time` and the `real_time`
recorded with every logged call -/
structure VM where
  m : Machine
  real : Int
  stamps : List Int

/-- "wait until this statement's time": `time` and `real_time` advance together, never backwards -/
def VM.waitTo (s : VM) (t : Int) : VM :=
  if s.m.time < t then ⟨{ s.m with time := t }, s.real + (t - s.m.time), s.stamps⟩ else s

/-- the state after a step that took the machine to `m'`: calls logged by the step carry the current `real_time` -/
def VM.after (s : VM) (m' : Machine) : VM :=
  ⟨m', s.real, s.stamps ++ List.replicate (m'.log.length - s.m.log.length) s.real⟩

/-- a jump sets `time` only -/
def VM.setTime (s : VM) (t : Int) : VM := { s with m := { s.m with time := t } }

/-! ## source -/

/-- `AstVm::_run`, arms without control flow (`Props/C02.lean` calls the same function `runStmt`) -/
def runStmtS (F : FloatOps) (diff : Nat) (m : Machine) : SStmt → Outcome Machine
  | .decl _ _ none => .ok m
  | .decl d ty (some e) => runAssign F diff m ⟨.loc d, none, ty⟩ .set e
  | .assign op v e => runAssign F diff m v op e
  | .call opcode args => runCall F diff m opcode args
  | .scopeEnd _ => .ok m
  | .other => .err errUnmodelled

/-- one statement of a flat body: the machine after it and, if it jumps, where to -/
def runStmtJ (F : FloatOps) (diff : Nat) (m : Machine) : JSStmt → Outcome (Machine × Option Goto)
  | .base s => match runStmtS F diff m s with
    | .ok m' => .ok (m', none)
    | .err c => .err c
    | .panic p => .panic p
  | .label _ => .ok (m, none)
  | .goto g => .ok (m, some g)
  | .condGoto kw c g => match evalCond F diff m.store c with
    | .ok (b, σ') => .ok ({ m with store := σ' }, if kw.takes b then some g else none)
    | .err c => .err c
    | .panic p => .panic p
  | .wait _ => .ok (m, none)

/-- `stmt_data[..].time`: a relative time label changes the time of itself and of what follows -/
def stmtTime (t : Int) : JSStmt → Int
  | .wait n => t + n
  | _ => t

/-- the body with the time of every statement (`time_and_difficulty::run`) -/
def stampBody : Int → List JSStmt → List (Int × JSStmt)
  | _, [] => []
  | t, s :: rest => (stmtTime t s, s) :: stampBody (stmtTime t s) rest

/-- the time at the end of the body -/
def endTime : Int → List JSStmt → Int
  | t, [] => t
  | t, s :: rest => endTime (stmtTime t s) rest

/-- index and time of the first definition of label `l` (`AstVm::try_goto`) -/
def findLabelS : List (Int × JSStmt) → Nat → Nat → Option (Nat × Int)
  | [], _, _ => none
  | (t, .label l') :: rest, l, k => if l' = l then some (k, t) else findLabelS rest l (k + 1)
  | _ :: rest, l, k => findLabelS rest l (k + 1)

/-- one iteration of the loop of `_run` -/
def stepS (F : FloatOps) (diff : Nat) (B : List (Int × JSStmt)) (pc : Nat) (s : VM) : Outcome (Option (Nat × VM)) :=
  match B[pc]? with
  | none => .ok none
  | some (t, st) =>
    let s1 := s.waitTo t
    match runStmtJ F diff s1.m st with
    | .ok (m', none) => .ok (some (pc + 1, s1.after m'))
    | .ok (m', some g) => match findLabelS B g.l 0 with
      | none => .panic "jump to undefined label"
      | some (i, tl) => .ok (some (i, (s1.after m').setTime (g.time.getD tl)))
    | .err c => .err c
    | .panic p => .panic p

/-- **runJS**: the source machine from statement `pc`, until it runs off the end of the body -/
def runJS (F : FloatOps) (diff : Nat) (B : List (Int × JSStmt)) : Nat → Nat → VM → Outcome VM
  | 0, _, _ => .panic "out of fuel"
  | fuel + 1, pc, s => match stepS F diff B pc s with
    | .ok none => .ok s
    | .ok (some (pc', s')) => runJS F diff B fuel pc' s'
    | .err c => .err c
    | .panic p => .panic p

/-! ## target -/

/-- the VM state plus the hidden compare register of two-part conditional jumps -/
structure TVM where
  vm : VM
  cmp : Option (Value × Value)

/-- `RegAlloc` / `RegFree` markers and labels are positions in the lowered stream, not instructions: the script
never waits for them (a label at the very end of a script has no instruction whose time could be waited for) -/
def JStmt.isMarker : JStmt → Bool
  | .base (.alloc _ _) => true
  | .base (.free _) => true
  | .label _ _ => true
  | _ => false

/-- one step of the compiled script: wait until the time of the instruction, then `stepJ` -/
def stepT (F : FloatOps) (diff : Nat) (P : List (Int × JStmt)) (pc : Nat) (s : TVM) : Outcome (Option (Nat × TVM)) :=
  match P[pc]? with
  | none => .ok none
  | some (t, st) =>
    let v1 := if st.isMarker then s.vm else s.vm.waitTo t
    match stepJ F diff ⟨v1.m, s.cmp⟩ st with
    | .ok (j', .next) => .ok (some (pc + 1, ⟨v1.after j'.m, j'.cmp⟩))
    | .ok (j', .jump l time) => match findLabelJ (P.map (·.2)) l 0 with
      | none => .panic "jump to undefined label"
      | some (i, tl) => .ok (some (i, ⟨(v1.after j'.m).setTime (time.getD tl), j'.cmp⟩))
    | .err c => .err c
    | .panic p => .panic p

/-- **execT**: the compiled script from program counter `pc`, until it runs off the end -/
def execT (F : FloatOps) (diff : Nat) (P : List (Int × JStmt)) : Nat → Nat → TVM → Outcome TVM
  | 0, _, _ => .panic "out of fuel"
  | fuel + 1, pc, s => match stepT F diff P pc s with
    | .ok none => .ok s
    | .ok (some (pc', s')) => execT F diff P fuel pc' s'
    | .err c => .err c
    | .panic p => .panic p

end TruthModel.Lower
