/-
The script table of a MSG file and what the debug info says about it (`src/formats/msg.rs`):

* `SparseScriptTable` — the table as the `meta` writes it: explicit entries by index, a `default`
  entry for the gaps, an optional `table_len` (`from_fields`, `sparse_table_implicit_len`);
* `densify` — the table that is written to the file;
* `get_script_table_indices_by_name` — per script, the entries of the *dense* table that name it;
  this list becomes `exported-as.indices` of the script in the debug info (`compile`);
* the written table: per entry the offset of the named script (0 for `script: 0`) and the flags
  (`write_msg`).

Script names are natural numbers here (the harness names script `k` `s<k>`); the meta parser rejects a
table with two entries of one key before any of this runs, so `table` has distinct keys.
-/
namespace TruthModel.MsgTable

/-- one table entry: `script = none` is `script: 0` (no script) -/
structure Entry where
  script : Option Nat
  flags : Nat
deriving DecidableEq, Repr, Inhabited

structure Sparse where
  /-- explicit `table_len` of the meta, if any -/
  tableLen : Option Nat
  table : List (Nat × Entry)
  default : Entry
deriving Repr

/-- `sparse_table_implicit_len`: one past the largest explicit key -/
def implicitLen : List (Nat × Entry) → Nat
  | [] => 0
  | kv :: rest => max (kv.1 + 1) (implicitLen rest)

def Sparse.len (s : Sparse) : Nat := s.tableLen.getD (implicitLen s.table)

/-- the entry of index `i`: the explicit one, else the default -/
def Sparse.entryAt (s : Sparse) (i : Nat) : Entry := (s.table.lookup i).getD s.default

/-- `SparseScriptTable::densify` -/
def Sparse.densify (s : Sparse) : List Entry := (List.range s.len).map s.entryAt

/-- `get_script_table_indices_by_name`, for one name: a pass over the dense table with a running index -/
def indicesFrom (n : Nat) : Nat → List Entry → List Nat
  | _, [] => []
  | k, e :: es => if e.script = some n then k :: indicesFrom n (k + 1) es else indicesFrom n (k + 1) es

def indicesOf (dense : List Entry) (n : Nat) : List Nat := indicesFrom n 0 dense

/-- the export list of the debug info: the scripts of the source, in source order, that the dense table
names at least once (`script_table_indices_by_name.get(name)` is `None` for the others) -/
def exports (dense : List Entry) (scripts : List Nat) : List (Nat × List Nat) :=
  scripts.filterMap fun n => match indicesOf dense n with
    | [] => none
    | is => some (n, is)

/-- the table of the written file: script offset (0 = none) and flags of every entry -/
def written (off : Nat → Nat) (dense : List Entry) : List (Nat × Nat) :=
  dense.map fun e => ((match e.script with | none => 0 | some n => off n), e.flags)

end TruthModel.MsgTable
