import TruthModel.Model.InstrIO
import TruthModel.Model.Abi
/-
Container level of the binary formats: whole files, i.e. headers, counts, offset tables,
fixed-size strings and the scripts inside them.

* MSG           `read_msg` / `write_msg`                       (src/formats/msg.rs)
* STD           `read_std` / `write_std`, both header layouts  (src/formats/std.rs)
* mission MSG   `read_mission_msg` / `write_mission_msg`       (src/formats/mission.rs)

(old ECL: `Model/FilesEcl.lean`.)  The code mirrored is the repaired code of the working tree.

Conventions
* A file being read is the whole byte string; `seek_to(start_pos + off)` is `file.drop off`
  (a `Cursor` may be positioned past the end; every read there reports end of file).
* **Panics are values** (site string `"<source file>: <panic message>"`): every `assert!`, `unreachable!`, `unwrap`, index, subtraction and `+ 1`
  on data the caller or the file controls is an explicit `.panic` arm.  `as` casts to a narrower
  type are modelled as what they do (`u16 n`/`u32 n` keep the low bits of an unbounded `Nat`), so
  a silent truncation is visible as a written value that differs from the requested one.
* Fields whose in-memory Rust type already has the on-disk width are `UInt8/16/32` here, floats
  are their bit patterns (`UInt32`).  Names (`Ident`s: script, object names) are `Nat`s: only
  equality of names matters to readers and writers; the reader's generated names `scriptN`,
  `objectN` are the number `N`.
* Text is the already encoded byte string; whether `Encoded::decode` accepts a byte string is the
  parameter `decOk` (Shift-JIS is validated by C15).
* Warnings are not modelled (they do not change the result).
* Loops whose trip count comes from the file are tail recursive with an accumulator; `while`
  loops take fuel and `Props/C16Files.lean` proves the fuel handed in is never exhausted.
-/
namespace TruthModel.Files
open TruthModel TruthModel.InstrIO

/-- `?` on a primitive read: a short read is the diagnostic "unexpected EOF" -/
def need {α} : Option α → Outcome α
  | some a => .ok a
  | none => .err eofErr

/-- `seek_to(off)` on a cursor over the whole file -/
def seek (file : Bytes) (off : Nat) : Bytes := file.drop off

/-! ### `llir::read_instrs` with an end offset -/

def readPastEnd : String := "script read past expected end at offset"

inductive EndCheck where
  | go | stop | past
deriving DecidableEq, Repr

/-- `match cur_offset.cmp(&end_offset)` at the top of each iteration -/
def endCheck : Option Nat → Nat → EndCheck
  | none, _ => .go
  | some e, cur => if cur < e then .go else if cur = e then .stop else .past

def commit (pending : Option Instr) (acc : List Instr) : List Instr :=
  match pending with | some p => p :: acc | none => acc

/-- `llir::read_instrs(reader, .., starting_offset = cur, end_offset)`; with `endOff = none` this is
`InstrIO.readInstrsAux` (`readInstrsEndAux_none`). -/
def readInstrsEndAux (f : Fmt) (endOff : Option Nat) :
    Nat → Option Instr → List Instr → Nat → Bytes → Outcome (List Instr)
  | 0, _, _, _, _ => .err "fuel"
  | fuel + 1, pending, acc, cur, bs =>
    match endCheck endOff cur with
    | .stop => .ok acc.reverse
    | .past => .err readPastEnd
    | .go =>
      match readInstr f bs with
      | .ok (.eof, _) => .ok acc.reverse
      | .ok (.terminal, _) => .ok acc.reverse
      | .ok (.instr i, r) =>
        readInstrsEndAux f endOff fuel none (i :: commit pending acc) (cur + instrSize f i) r
      | .ok (.maybeTerminal i, r) =>
        readInstrsEndAux f endOff fuel (some i) (commit pending acc) (cur + instrSize f i) r
      | .err c => .err c
      | .panic s => .panic s

def readInstrsEnd (f : Fmt) (endOff : Option Nat) (start : Nat) (bs : Bytes) : Outcome (List Instr) :=
  readInstrsEndAux f endOff (bs.length + 1) none [] start bs

/-- `collect_with_recovery`: every item is evaluated; the first error is reported after all of
them ran (so a panic in a later item is still a panic). -/
def collectRecover {α} : List (Outcome α) → Outcome (List α)
  | [] => .ok []
  | x :: xs =>
    match x with
    | .panic s => .panic s
    | .err c =>
      match collectRecover xs with
      | .panic s => .panic s
      | _ => .err c
    | .ok a =>
      match collectRecover xs with
      | .panic s => .panic s
      | .err c => .err c
      | .ok as => .ok (a :: as)

/-! ### small list helpers -/

/-- insertion into a strictly increasing list (`BTreeSet::insert`) -/
def insertU (x : Nat) : List Nat → List Nat
  | [] => [x]
  | y :: ys => if x < y then x :: y :: ys else if x = y then y :: ys else y :: insertU x ys

/-- `collect::<BTreeSet<_>>()` followed by iteration: sorted, duplicates removed -/
def sortU (l : List Nat) : List Nat := l.foldr insertU []

/-- index of the first occurrence (`get_first_indices`); `l.length` if absent -/
def firstIdx (x : Nat) : List Nat → Nat
  | [] => 0
  | y :: ys => if x = y then 0 else firstIdx x ys + 1

def lookupNat {β} (k : Nat) : List (Nat × β) → Option β
  | [] => none
  | (k', v) :: r => if k = k' then some v else lookupNat k r

def nodupNat : List Nat → Bool
  | [] => true
  | x :: xs => !xs.contains x && nodupNat xs

def u32s (xs : List Nat) : Bytes := xs.flatMap u32

/-- `read_u32s(n)` (tail recursive; the count comes from the file) -/
def rdU32sAux : Nat → List Nat → Bytes → Option (List Nat × Bytes)
  | 0, acc, bs => some (acc.reverse, bs)
  | n + 1, acc, bs =>
    match rdU32 bs with
    | none => none
    | some (v, r) => rdU32sAux n (v :: acc) r

def rdU32s (n : Nat) (bs : Bytes) : Option (List Nat × Bytes) := rdU32sAux n [] bs

/-! ## MSG -/

structure MsgEntry where
  /-- `ScriptTableOffset`: `none` = `Zero`, `some n` = `Name(n)` -/
  script : Option Nat
  flags : UInt32
deriving DecidableEq, Repr, Inhabited

structure MsgFile where
  table : List MsgEntry
  /-- `IndexMap<Ident, RawScript>` in insertion order -/
  scripts : List (Nat × List Instr)
deriving DecidableEq, Repr, Inhabited

def invalidScript : String := "invalid script"

/-- the script loop of `write_msg`: bytes of all scripts and the offset of each, `pos` = offset of
the next script from the start of the file -/
def writeScripts (f : Fmt) : Nat → List (Nat × List Instr) → Outcome (Bytes × List (Nat × Nat))
  | _, [] => .ok ([], [])
  | pos, (name, is) :: rest =>
    match writeInstrs f is with
    | .ok b =>
      match writeScripts f (pos + b.length) rest with
      | .ok (bs, offs) => .ok (b ++ bs, (name, pos) :: offs)
      | .err c => .err c
      | .panic s => .panic s
    | .err c => .err c
    | .panic s => .panic s

/-- the offset written for one table entry -/
def msgEntryOffset (offs : List (Nat × Nat)) (e : MsgEntry) : Outcome Nat :=
  match e.script with
  | none => .ok 0
  | some n =>
    match lookupNat n offs with
    | some o => .ok o
    | none => .err invalidScript

def msgEntryBytes (hasFlags : Bool) (off : Nat) (e : MsgEntry) : Bytes :=
  u32 off ++ (if hasFlags then u32 e.flags.toNat else [])

/-- second pass of `write_msg` over the table; `script_offset as u32` keeps the low 32 bits -/
def writeMsgTable (hasFlags : Bool) (offs : List (Nat × Nat)) : List MsgEntry → Outcome Bytes
  | [] => .ok []
  | e :: es =>
    match msgEntryOffset offs e with
    | .ok o =>
      match writeMsgTable hasFlags offs es with
      | .ok bs => .ok (msgEntryBytes hasFlags o e ++ bs)
      | .err c => .err c
      | .panic s => .panic s
    | .err c => .err c
    | .panic s => .panic s

def msgEntrySize (hasFlags : Bool) : Nat := if hasFlags then 8 else 4

def msgHeaderLen (hasFlags : Bool) (m : MsgFile) : Nat := 4 + msgEntrySize hasFlags * m.table.length

/-- `write_msg`.  `hasFlags` = `table_has_flags()` (TH09 and later). -/
def writeMsg (hasFlags : Bool) (m : MsgFile) : Outcome Bytes :=
  match writeScripts .msg (msgHeaderLen hasFlags m) m.scripts with
  | .ok (scriptBytes, offs) =>
    -- `assert_eq!(script_offsets.len(), msg.scripts.len())`: the BTreeMap lost a duplicate name
    if !nodupNat (m.scripts.map (·.1)) then .panic "src/formats/msg.rs: assertion `left == right` failed" else
    match writeMsgTable hasFlags offs m.table with
    | .ok tableBytes => .ok (u32 m.table.length ++ tableBytes ++ scriptBytes)
    | .err c => .err c
    | .panic s => .panic s
  | .err c => .err c
  | .panic s => .panic s

/-- the table loop of `read_msg`: `(offset, flags)` per entry -/
def readMsgTableAux (hasFlags : Bool) : Nat → List (Nat × Nat) → Bytes → Outcome (List (Nat × Nat))
  | 0, acc, _ => .ok acc.reverse
  | n + 1, acc, bs =>
    match rdU32 bs with
    | none => .err eofErr
    | some (off, r) =>
      if hasFlags then
        match rdU32 r with
        | none => .err eofErr
        | some (fl, r) => readMsgTableAux hasFlags n ((off, fl) :: acc) r
      else readMsgTableAux hasFlags n ((off, 0) :: acc) r

/-- every sorted offset with the next one (`end_offsets`), `none` for the last -/
def withEnds : List Nat → List (Nat × Option Nat)
  | [] => []
  | [a] => [(a, none)]
  | a :: b :: r => (a, some b) :: withEnds (b :: r)

/-- the nonzero offsets of the raw table, in table order -/
def nzOffsets (raw : List (Nat × Nat)) : List Nat := (raw.map (·.1)).filter (· ≠ 0)

/-- `generate_script_names`: an offset is named after the index of its first occurrence among the
nonzero offsets -/
def msgName (nz : List Nat) (off : Nat) : Nat := firstIdx off nz

/-- one script of `read_msg`: from its offset to the next larger offset (or the end of the file) -/
def readMsgScript (file : Bytes) (nz : List Nat) (x : Nat × Option Nat) : Outcome (Nat × List Instr) :=
  match readInstrsEnd .msg x.2 x.1 (seek file x.1) with
  | .ok is => .ok (msgName nz x.1, is)
  | .err c => .err c
  | .panic s => .panic s

def readMsgScripts (file : Bytes) (nz : List Nat) : Outcome (List (Nat × List Instr)) :=
  collectRecover ((withEnds (sortU nz)).map (readMsgScript file nz))

def msgTableOf (nz : List Nat) (raw : List (Nat × Nat)) : List MsgEntry :=
  raw.map fun (off, fl) => { script := if off = 0 then none else some (msgName nz off), flags := UInt32.ofNat fl }

/-- `read_msg` -/
def readMsg (hasFlags : Bool) (file : Bytes) : Outcome MsgFile :=
  match rdU32 file with
  | none => .err eofErr
  | some (len, r) =>
  match readMsgTableAux hasFlags len [] r with
  | .err c => .err c
  | .panic s => .panic s
  | .ok raw =>
    match readMsgScripts file (nzOffsets raw) with
    | .err c => .err c
    | .panic s => .panic s
    | .ok scripts => .ok { table := msgTableOf (nzOffsets raw) raw, scripts }

/-! ## STD -/

structure F2 where
  x : UInt32
  y : UInt32
deriving DecidableEq, Repr, Inhabited

structure F3 where
  x : UInt32
  y : UInt32
  z : UInt32
deriving DecidableEq, Repr, Inhabited

def wF2 (v : F2) : Bytes := u32 v.x.toNat ++ u32 v.y.toNat
def wF3 (v : F3) : Bytes := u32 v.x.toNat ++ u32 v.y.toNat ++ u32 v.z.toNat

def rdF2 (bs : Bytes) : Option (F2 × Bytes) :=
  match rdU32 bs with
  | none => none
  | some (x, r) =>
  match rdU32 r with
  | none => none
  | some (y, r) => some (⟨UInt32.ofNat x, UInt32.ofNat y⟩, r)

def rdF3 (bs : Bytes) : Option (F3 × Bytes) :=
  match rdU32 bs with
  | none => none
  | some (x, r) =>
  match rdU32 r with
  | none => none
  | some (y, r) =>
  match rdU32 r with
  | none => none
  | some (z, r) => some (⟨UInt32.ofNat x, UInt32.ofNat y, UInt32.ofNat z⟩, r)

inductive Quad where
  | rect (anm : UInt16) (pos : F3) (size : F2)
  | strip (anm : UInt16) (start : F3) (stop : F3) (width : UInt32)
deriving DecidableEq, Repr, Inhabited

structure Object where
  layer : UInt16
  pos : F3
  size : F3
  quads : List Quad
deriving DecidableEq, Repr, Inhabited

structure Instance where
  /-- name of the object -/
  object : Nat
  unknown : UInt16
  pos : F3
deriving DecidableEq, Repr, Inhabited

inductive StdExtra where
  /-- `bgm: [Std06Bgm; 4]`: names and paths -/
  | th06 (stage : Bytes) (n0 n1 n2 n3 p0 p1 p2 p3 : Bytes)
  | th10 (anmPath : Bytes)
deriving DecidableEq, Repr, Inhabited

structure StdFile where
  unknown : UInt32
  /-- `IndexMap<Sp<Ident>, Object>` in insertion order -/
  objects : List (Nat × Object)
  instances : List Instance
  script : List Instr
  extra : StdExtra
deriving DecidableEq, Repr, Inhabited

/-- `FileFormat06` (EoSD-PoFV) or `FileFormat10` (StB and later) -/
inductive StdFmt where
  | f06 | f10
deriving DecidableEq, Repr, Inhabited

def StdFmt.instr : StdFmt → Fmt
  | .f06 => .std06
  | .f10 => .std10

def strTooLong : String := "string is too long"
def tooManyObjects : String := "too many objects or quads for the STD format"
def noObjectNamed : String := "no object named"
def objectIndexTooLarge : String := "object index too large"
def badQuadSize : String := "unexpected size for type"
def unknownQuadType : String := "unknown quad type"
def undecodable : String := "could not read string using encoding"

/-- `write_string_128` on encoded text: `encode_fixed_size(.., 128)` -/
def writeStr (n : Nat) (s : Bytes) : Outcome Bytes :=
  if s.length ≥ n then .err strTooLong else .ok (s ++ Abi.zeros (n - s.length))

/-- `read_cstring_exact(n)` + `decode` -/
def readStr (decOk : Bytes → Bool) (n : Nat) (bs : Bytes) : Outcome (Bytes × Bytes) :=
  match rdBytes n bs with
  | none => .err eofErr
  | some (buf, r) =>
    if decOk (Abi.trimFirstNul buf true).1 then .ok ((Abi.trimFirstNul buf true).1, r) else .err undecodable

def writeStrs (n : Nat) : List Bytes → Outcome Bytes
  | [] => .ok []
  | s :: ss =>
    match writeStr n s with
    | .ok b => match writeStrs n ss with
      | .ok bs => .ok (b ++ bs)
      | .err c => .err c
      | .panic p => .panic p
    | .err c => .err c
    | .panic p => .panic p

def readStrs (decOk : Bytes → Bool) (n : Nat) : Nat → Bytes → Outcome (List Bytes × Bytes)
  | 0, bs => .ok ([], bs)
  | k + 1, bs =>
    match readStr decOk n bs with
    | .ok (s, r) => match readStrs decOk n k r with
      | .ok (ss, r) => .ok (s :: ss, r)
      | .err c => .err c
      | .panic p => .panic p
    | .err c => .err c
    | .panic p => .panic p

/-- `write_extra`; a variant of the other layout is `unreachable!()` -/
def writeExtra (fmt : StdFmt) (x : StdExtra) : Outcome Bytes :=
  match fmt, x with
  | .f06, .th06 stage n0 n1 n2 n3 p0 p1 p2 p3 => writeStrs 128 [stage, n0, n1, n2, n3, p0, p1, p2, p3]
  | .f10, .th10 p => writeStrs 128 [p]
  | _, _ => .panic "src/formats/std.rs: internal error: entered unreachable code"

def readExtra (decOk : Bytes → Bool) (fmt : StdFmt) (bs : Bytes) : Outcome (StdExtra × Bytes) :=
  match fmt with
  | .f06 =>
    match readStrs decOk 128 9 bs with
    | .ok ([stage, n0, n1, n2, n3, p0, p1, p2, p3], r) => .ok (.th06 stage n0 n1 n2 n3 p0 p1 p2 p3, r)
    | .ok _ => .panic "src/formats/std.rs: called `Option::unwrap()` on a `None` value"   -- `bgms.next().unwrap()`
    | .err c => .err c
    | .panic p => .panic p
  | .f10 =>
    match readStrs decOk 128 1 bs with
    | .ok ([p], r) => .ok (.th10 p, r)
    | .ok _ => .panic "src/formats/std.rs: called `Option::unwrap()` on a `None` value"
    | .err c => .err c
    | .panic p => .panic p

def writeQuad : Quad → Bytes
  | .rect anm pos size => i16 0 ++ u16 0x1c ++ u16 anm.toNat ++ u16 0 ++ wF3 pos ++ wF2 size
  | .strip anm a b w => i16 1 ++ u16 0x24 ++ u16 anm.toNat ++ u16 0 ++ wF3 a ++ wF3 b ++ u32 w.toNat

def terminalQuad : Bytes := i16 (-1) ++ u16 4

/-- `write_object`; `id as u16` -/
def writeObject (id : Nat) (o : Object) : Bytes :=
  u16 id ++ u16 o.layer.toNat ++ wF3 o.pos ++ wF3 o.size ++ o.quads.flatMap writeQuad ++ terminalQuad

/-- `read_quad`: `none` = the end marker -/
def readQuad (bs : Bytes) : Outcome (Option Quad × Bytes) :=
  match rdI16 bs with
  | none => .err eofErr
  | some (kind, r) =>
  match rdU16 r with
  | none => .err eofErr
  | some (size, r) =>
  if kind = -1 ∧ size = 4 then .ok (none, r) else
  if (kind = 0 ∧ size = 0x1c) ∨ (kind = 1 ∧ size = 0x24) then
    match rdU16 r with
    | none => .err eofErr
    | some (anm, r) =>
    match rdU16 r with
    | none => .err eofErr
    | some (_, r) =>
    if kind = 0 then
      match rdF3 r with
      | none => .err eofErr
      | some (pos, r) =>
      match rdF2 r with
      | none => .err eofErr
      | some (size, r) => .ok (some (.rect (UInt16.ofNat anm) pos size), r)
    else if kind = 1 then
      match rdF3 r with
      | none => .err eofErr
      | some (a, r) =>
      match rdF3 r with
      | none => .err eofErr
      | some (b, r) =>
      match rdU32 r with
      | none => .err eofErr
      | some (w, r) => .ok (some (.strip (UInt16.ofNat anm) a b (UInt32.ofNat w)), r)
    else .panic "src/formats/std.rs: internal error: entered unreachable code"
  else if kind = -1 ∨ kind = 0 ∨ kind = 1 then .err badQuadSize
  else .err unknownQuadType

/-- `while let Some(quad) = read_quad(..)?` -/
def readQuads : Nat → List Quad → Bytes → Outcome (List Quad × Bytes)
  | 0, _, _ => .err "fuel"
  | fuel + 1, acc, bs =>
    match readQuad bs with
    | .ok (none, r) => .ok (acc.reverse, r)
    | .ok (some q, r) => readQuads fuel (q :: acc) r
    | .err c => .err c
    | .panic p => .panic p

/-- `read_object` (the id is only compared for a warning) -/
def readObject (bs : Bytes) : Outcome Object :=
  match rdU16 bs with
  | none => .err eofErr
  | some (_, r) =>
  match rdU16 r with
  | none => .err eofErr
  | some (layer, r) =>
  match rdF3 r with
  | none => .err eofErr
  | some (pos, r) =>
  match rdF3 r with
  | none => .err eofErr
  | some (size, r) =>
  match readQuads (r.length + 1) [] r with
  | .ok (quads, _) => .ok { layer := UInt16.ofNat layer, pos, size, quads }
  | .err c => .err c
  | .panic p => .panic p

/-- the object loop of `read_std`: object `i` is read at `object_offsets[i]` and named `i` -/
def readObjectsAux (file : Bytes) : Nat → List Nat → List (Nat × Object) → Outcome (List (Nat × Object))
  | _, [], acc => .ok acc.reverse
  | i, off :: offs, acc =>
    match readObject (seek file off) with
    | .ok o => readObjectsAux file (i + 1) offs ((i, o) :: acc)
    | .err c => .err c
    | .panic p => .panic p

def indexOfName (n : Nat) : List (Nat × Object) → Option Nat
  | [] => none
  | (k, _) :: r => if n = k then some 0 else (indexOfName n r).map (· + 1)

/-- `write_instance`; `object_index as u16` -/
def writeInstance (objects : List (Nat × Object)) (x : Instance) : Outcome Bytes :=
  match indexOfName x.object objects with
  | none => .err noObjectNamed
  | some idx => .ok (u16 idx ++ u16 x.unknown.toNat ++ wF3 x.pos)

def writeInstances (objects : List (Nat × Object)) : List Instance → Outcome Bytes
  | [] => .ok []
  | x :: xs =>
    match writeInstance objects x with
    | .ok b => match writeInstances objects xs with
      | .ok bs => .ok (b ++ bs)
      | .err c => .err c
      | .panic p => .panic p
    | .err c => .err c
    | .panic p => .panic p

def terminalInstance : Bytes := i32 (-1) ++ i32 (-1) ++ i32 (-1) ++ i32 (-1)

/-- `read_instance`: `none` = the end marker (object id 0xffff) -/
def readInstance (objects : List (Nat × Object)) (bs : Bytes) : Outcome (Option Instance × Bytes) :=
  match rdU16 bs with
  | none => .err eofErr
  | some (id, r) =>
  match rdU16 r with
  | none => .err eofErr
  | some (unknown, r) =>
  if id = 0xffff then .ok (none, r) else
  match objects[id]? with
  | none => .err objectIndexTooLarge
  | some (name, _) =>
  match rdF3 r with
  | none => .err eofErr
  | some (pos, r) => .ok (some { object := name, unknown := UInt16.ofNat unknown, pos }, r)

def readInstances (objects : List (Nat × Object)) : Nat → List Instance → Bytes → Outcome (List Instance)
  | 0, _, _ => .err "fuel"
  | fuel + 1, acc, bs =>
    match readInstance objects bs with
    | .ok (none, _) => .ok acc.reverse
    | .ok (some x, r) => readInstances objects fuel (x :: acc) r
    | .err c => .err c
    | .panic p => .panic p

/-- offsets of consecutive blocks starting at `base` -/
def offsetsFrom : Nat → List Nat → List Nat
  | _, [] => []
  | base, l :: ls => base :: offsetsFrom (base + l) ls

def numQuads (objects : List (Nat × Object)) : Nat := (objects.map (·.2.quads.length)).sum

def writeObjects : Nat → List (Nat × Object) → List Bytes
  | _, [] => []
  | i, (_, o) :: r => writeObject i o :: writeObjects (i + 1) r

/-- offset of the first object: header, extra, offset table -/
def stdBase (extraLen nobj : Nat) : Nat := 16 + extraLen + 4 * nobj

/-- the file given its already encoded parts; the three kinds of offsets are cast with `as u32`
(low 32 bits) -/
def stdAssemble (s : StdFile) (extra insts script : Bytes) : Bytes :=
  let objs := writeObjects 0 s.objects
  let base := stdBase extra.length s.objects.length
  let instOff := base + objs.flatten.length
  let scriptOff := instOff + insts.length + 16
  u16 s.objects.length ++ u16 (numQuads s.objects) ++ u32 instOff ++ u32 scriptOff ++ u32 s.unknown.toNat ++ extra
    ++ u32s (offsetsFrom base (objs.map List.length)) ++ objs.flatten ++ insts ++ terminalInstance ++ script

/-- `write_std` -/
def writeStd (fmt : StdFmt) (s : StdFile) : Outcome Bytes :=
  if s.objects.length > 0xffff ∨ numQuads s.objects > 0xffff then .err tooManyObjects else
  match writeExtra fmt s.extra with
  | .err c => .err c
  | .panic p => .panic p
  | .ok extra =>
  match writeInstances s.objects s.instances with
  | .err c => .err c
  | .panic p => .panic p
  | .ok insts =>
  match writeInstrs fmt.instr s.script with
  | .err c => .err c
  | .panic p => .panic p
  | .ok script => .ok (stdAssemble s extra insts script)

/-- `read_std` -/
def readStd (decOk : Bytes → Bool) (fmt : StdFmt) (file : Bytes) : Outcome StdFile :=
  match rdU16 file with
  | none => .err eofErr
  | some (numObjects, r) =>
  match rdU16 r with
  | none => .err eofErr
  | some (_numQuads, r) =>
  match rdU32 r with
  | none => .err eofErr
  | some (instOff, r) =>
  match rdU32 r with
  | none => .err eofErr
  | some (scriptOff, r) =>
  match rdU32 r with
  | none => .err eofErr
  | some (unknown, r) =>
  match readExtra decOk fmt r with
  | .err c => .err c
  | .panic p => .panic p
  | .ok (extra, r) =>
  match rdU32s numObjects r with
  | none => .err eofErr
  | some (offs, _) =>
  match readObjectsAux file 0 offs [] with
  | .err c => .err c
  | .panic p => .panic p
  | .ok objects =>
  match readInstances objects ((seek file instOff).length + 1) [] (seek file instOff) with
  | .err c => .err c
  | .panic p => .panic p
  | .ok instances =>
  match readInstrs fmt.instr (seek file scriptOff) with
  | .err c => .err c
  | .panic p => .panic p
  | .ok script => .ok { unknown := UInt32.ofNat unknown, objects, instances, script, extra }

/-! ## mission MSG (TH095, TH125) -/

inductive MissionFmt where
  | th095 | th125
deriving DecidableEq, Repr, Inhabited

/-- `Entry095` and `Entry125` in one record: the TH125-only fields are unused for TH095.
`text` is `[Sp<String>; 3]` resp. `[Sp<String>; 6]`. -/
structure MissionEntry where
  stage : UInt16
  scene : UInt16
  player : UInt16 := 0
  unknown1 : UInt8 := 0
  unknown2 : UInt8 := 0
  /-- `face`/`point` (TH095), `point_1`/`point_2` (TH125) -/
  a : UInt32
  b : UInt32
  furigana : List UInt32 := []
  text : List Bytes
deriving DecidableEq, Repr, Inhabited

def MissionFmt.lines : MissionFmt → Nat
  | .th095 => 3
  | .th125 => 6

def MissionFmt.entrySize : MissionFmt → Nat
  | .th095 => 2 + 2 + 4 + 4 + 64 * 3
  | .th125 => 40 + 64 * 6

/-- `ZunMissionCipher::bytes_for_line(line)` for 64 bytes; `line as u8 + 1` overflows for a line
number that is 255 mod 256 (unreachable: the arrays have 3 resp. 6 lines) -/
def missionCipher (stage scene player : UInt16) (line : Nat) : Outcome Bytes :=
  if line % 256 = 255 then .panic "src/formats/mission.rs: attempt to add with overflow" else
  let mask : UInt8 := 7 * stage.toUInt8 + 11 * scene.toUInt8 + 13 * player.toUInt8 + 58
  let vel : UInt8 := 23 * (UInt8.ofNat (line % 256) + 1)
  .ok (Abi.maskStream ⟨mask, vel, 1⟩ 64)

/-- `write_mission_text_lines` -/
def writeMissionLines (stage scene player : UInt16) : Nat → List Bytes → Outcome Bytes
  | _, [] => .ok []
  | line, s :: ss =>
    match writeStr 64 s with
    | .err c => .err c
    | .panic p => .panic p
    | .ok buf =>
    match missionCipher stage scene player line with
    | .err c => .err c
    | .panic p => .panic p
    | .ok cipher =>
    match writeMissionLines stage scene player (line + 1) ss with
    | .ok bs => .ok (Abi.subCipher buf cipher ++ bs)
    | .err c => .err c
    | .panic p => .panic p

/-- one deciphered line, trimmed at the first NUL -/
def missionLineText (buf cipher : Bytes) : Bytes := (Abi.trimFirstNul (Abi.addCipher buf cipher) true).1

/-- `read_mission_text_lines::<N>`: `n` lines starting at line number `line` -/
def readMissionLines (decOk : Bytes → Bool) (stage scene player : UInt16) :
    Nat → Nat → Bytes → Outcome (List Bytes × Bytes)
  | 0, _, bs => .ok ([], bs)
  | n + 1, line, bs =>
    match rdBytes 64 bs with
    | none => .err eofErr
    | some (buf, r) =>
    match missionCipher stage scene player line with
    | .err c => .err c
    | .panic p => .panic p
    | .ok cipher =>
    if !decOk (missionLineText buf cipher) then .err undecodable else
    match readMissionLines decOk stage scene player n (line + 1) r with
    | .ok (ss, r) => .ok (missionLineText buf cipher :: ss, r)
    | .err c => .err c
    | .panic p => .panic p

def u32sOf (xs : List UInt32) : Bytes := xs.flatMap fun x => u32 x.toNat

/-- `Entry::write` -/
def writeMissionEntry (fmt : MissionFmt) (e : MissionEntry) : Outcome Bytes :=
  match fmt with
  | .th095 =>
    match writeMissionLines e.stage e.scene 0 0 e.text with
    | .ok t => .ok (u16 e.stage.toNat ++ u16 e.scene.toNat ++ u32 e.a.toNat ++ u32 e.b.toNat ++ t)
    | .err c => .err c
    | .panic p => .panic p
  | .th125 =>
    match writeMissionLines e.stage e.scene e.player 0 e.text with
    | .ok t => .ok (u16 e.stage.toNat ++ u16 e.scene.toNat ++ u16 e.player.toNat ++ u8 e.unknown1.toNat
        ++ u8 e.unknown2.toNat ++ u32 e.a.toNat ++ u32 e.b.toNat ++ u32sOf e.furigana ++ t)
    | .err c => .err c
    | .panic p => .panic p

def writeMissionEntries (fmt : MissionFmt) : List MissionEntry → Outcome Bytes
  | [] => .ok []
  | e :: es =>
    match writeMissionEntry fmt e with
    | .ok b => match writeMissionEntries fmt es with
      | .ok bs => .ok (b ++ bs)
      | .err c => .err c
      | .panic p => .panic p
    | .err c => .err c
    | .panic p => .panic p

/-- `entry_offsets::<E>(n)` -/
def missionOffsets (fmt : MissionFmt) (n : Nat) : List Nat :=
  (List.range n).map fun i => 4 + 4 * n + fmt.entrySize * i

/-- `write_mission_msg`; `len() as u32`, `offset as u32` -/
def writeMission (fmt : MissionFmt) (es : List MissionEntry) : Outcome Bytes :=
  match writeMissionEntries fmt es with
  | .ok bs => .ok (u32 es.length ++ u32s (missionOffsets fmt es.length) ++ bs)
  | .err c => .err c
  | .panic p => .panic p

/-- `Entry::read` -/
def readMissionEntry (decOk : Bytes → Bool) (fmt : MissionFmt) (bs : Bytes) : Outcome (MissionEntry × Bytes) :=
  match rdU16 bs with
  | none => .err eofErr
  | some (stage, r) =>
  match rdU16 r with
  | none => .err eofErr
  | some (scene, r) =>
  match fmt with
  | .th095 =>
    match rdU32 r with
    | none => .err eofErr
    | some (a, r) =>
    match rdU32 r with
    | none => .err eofErr
    | some (b, r) =>
    match readMissionLines decOk (UInt16.ofNat stage) (UInt16.ofNat scene) 0 3 0 r with
    | .ok (text, r) =>
      let e : MissionEntry := { stage := UInt16.ofNat stage, scene := UInt16.ofNat scene,
                                a := UInt32.ofNat a, b := UInt32.ofNat b, text := text }
      .ok (e, r)
    | .err c => .err c
    | .panic p => .panic p
  | .th125 =>
    match rdU16 r with
    | none => .err eofErr
    | some (player, r) =>
    match rdU8 r with
    | none => .err eofErr
    | some (u1, r) =>
    match rdU8 r with
    | none => .err eofErr
    | some (u2, r) =>
    match rdU32 r with
    | none => .err eofErr
    | some (a, r) =>
    match rdU32 r with
    | none => .err eofErr
    | some (b, r) =>
    match rdU32s 6 r with
    | none => .err eofErr
    | some (fur, r) =>
    match readMissionLines decOk (UInt16.ofNat stage) (UInt16.ofNat scene) (UInt16.ofNat player) 6 0 r with
    | .ok (text, r) =>
      let e : MissionEntry := { stage := UInt16.ofNat stage, scene := UInt16.ofNat scene,
                                player := UInt16.ofNat player, unknown1 := UInt8.ofNat u1,
                                unknown2 := UInt8.ofNat u2, a := UInt32.ofNat a, b := UInt32.ofNat b,
                                furigana := fur.map UInt32.ofNat, text := text }
      .ok (e, r)
    | .err c => .err c
    | .panic p => .panic p

def readMissionEntriesAux (decOk : Bytes → Bool) (fmt : MissionFmt) :
    Nat → List MissionEntry → Bytes → Outcome (List MissionEntry)
  | 0, acc, _ => .ok acc.reverse
  | n + 1, acc, bs =>
    match readMissionEntry decOk fmt bs with
    | .ok (e, r) => readMissionEntriesAux decOk fmt n (e :: acc) r
    | .err c => .err c
    | .panic p => .panic p

/-- `read_mission_msg`: the offset table is read (and only compared for a warning), the entries
follow it sequentially -/
def readMission (decOk : Bytes → Bool) (fmt : MissionFmt) (file : Bytes) : Outcome (List MissionEntry) :=
  match rdU32 file with
  | none => .err eofErr
  | some (n, r) =>
  match rdU32s n r with
  | none => .err eofErr
  | some (_, r) => readMissionEntriesAux decOk fmt n [] r

end TruthModel.Files
