import TruthModel.Model.Lower
/-
Semantics for the statements of C02: the source side is `AstVm::eval` / the assignment and call
arms of `AstVm::_run` (`src/vm.rs`), the target side executes the lowered three-address stream
(locals and temporaries are still variables; register assignment is C05).  The machine state is the
store, the instruction log and the script time (straight-line code never changes the time).
-/
namespace TruthModel.Lower
open TruthModel TruthModel.Regs

abbrev Store := VarName → Value

def upd (σ : Store) (x : VarName) (v : Value) : Store := fun y => if y = x then v else σ y

structure Machine where
  store : Store
  /-- `instr_log`: opcode and argument values -/
  log : List (Nat × List Value)
  time : Int

def toSigil : RTy → Sigil
  | .int => .int
  | .float => .float

/-- `ScalarValue::cast_by_ty_sigil(Some(ty))`, as a read through a sigil -/
def readAs (F : FloatOps) (v : Value) (ty : RTy) : Outcome Value :=
  match castBySigil F v (some (toSigil ty)) with
  | some w => .ok w
  | none => .panic "cannot cast"

/-! ### source: `AstVm::eval` -/

mutual
def evalS (F : FloatOps) (diff : Nat) (σ : Store) : SExpr → Outcome Value
  | .litI v => .ok (.int v)
  | .litF b => .ok (.float b)
  | .var v => match v.sigil with
    | some s => readAs F (σ v.name) s
    | none => .ok (σ v.name)
  | .unop op e =>
    match evalS F diff σ e with
    | .ok x => match castSigil op, op with
      | some s, .sigI => readAs F x s
      | some s, .sigF => readAs F x s
      | _, _ => match unop F op x with
        | .ok (some w) => .ok w
        | .ok none => .panic "vm cannot evaluate unop"
        | .err c => .err c
        | .panic p => .panic p
    | .err c => .err c
    | .panic p => .panic p
  | .binop op a b =>
    match evalS F diff σ a with
    | .ok va => match evalS F diff σ b with
      | .ok vb => binop F op va vb
      | .err c => .err c
      | .panic p => .panic p
    | .err c => .err c
    | .panic p => .panic p
  | .ternary c l r =>
    match evalS F diff σ c with
    | .ok (.int v) => if v = 0 then evalS F diff σ r else evalS F diff σ l
    | .ok _ => .panic "type error"
    | .err c => .err c
    | .panic p => .panic p
  | .switch cs => evalCases F diff σ cs diff (.panic "there's always an easy value")
  | .omitted => .panic "omitted case evaluated"
/-- `select_diff_switch_case` + evaluation: the case at index `k`, or the nearest explicit one before
it.  `acc` is the value of the nearest explicit case so far; cases have no side effects, and the outcome
of a case that is not selected is dropped, so this is the lazy selection of the VM. -/
def evalCases (F : FloatOps) (diff : Nat) (σ : Store) : List SExpr → Nat → Outcome Value → Outcome Value
  | [], _, _ => .panic "difficulty out of range"
  | c :: cs, k, acc =>
    let acc' := match c with
      | .omitted => acc
      | c => evalS F diff σ c
    match k with
    | 0 => acc'
    | k + 1 => evalCases F diff σ cs k acc'
end

/-! ### target: the lowered stream -/

def argVar : Arg → Option VarName
  | .raw r _ => some (.reg r)
  | .loc d _ => some (.loc d)
  | _ => none

/-- value of an argument of an emitted instruction -/
def readArg (F : FloatOps) (diff : Nat) (σ : Store) (a : Arg) : Outcome Value :=
  match selectArg 8 diff a with
  | .raw r ty => readAs F (σ (.reg r)) ty
  | .loc d ty => readAs F (σ (.loc d)) ty
  | .imm v => .ok v
  | _ => .panic "unresolved argument"

def readArgs (F : FloatOps) (diff : Nat) (σ : Store) : List Arg → Outcome (List Value)
  | [] => .ok []
  | a :: as => match readArg F diff σ a with
    | .ok v => match readArgs F diff σ as with
      | .ok vs => .ok (v :: vs)
      | .err c => .err c
      | .panic p => .panic p
    | .err c => .err c
    | .panic p => .panic p

def maskOn (mask diff : Nat) : Bool := mask.testBit diff

/-- one emitted instruction, as the VM runs the statement it is raised to -/
def execInstr (F : FloatOps) (diff : Nat) (m : Machine) (i : LInstr) : Outcome Machine :=
  if !maskOn i.mask diff then .ok m else
  match i.kind, i.args with
  | .assignOp .set _, [dst, src] =>
    match argVar dst, readArg F diff m.store src with
    | some x, .ok v => .ok { m with store := upd m.store x v }
    | none, _ => .panic "bad destination"
    | _, .err c => .err c
    | _, .panic p => .panic p
  | .assignOp op _, [dst, src] =>
    match argVar dst, op.binop, readArg F diff m.store dst, readArg F diff m.store src with
    | some x, some b, .ok va, .ok vb => match binop F b va vb with
      | .ok v => .ok { m with store := upd m.store x v }
      | .err c => .err c
      | .panic p => .panic p
    | _, _, .err c, _ => .err c
    | _, _, _, .err c => .err c
    | _, _, _, _ => .panic "bad assignment instruction"
  | .binOp op _, [dst, a, b] =>
    match argVar dst, readArg F diff m.store a, readArg F diff m.store b with
    | some x, .ok va, .ok vb => match binop F op va vb with
      | .ok v => .ok { m with store := upd m.store x v }
      | .err c => .err c
      | .panic p => .panic p
    | _, .err c, _ => .err c
    | _, _, .err c => .err c
    | _, _, _ => .panic "bad binary instruction"
  | .unOp op _, [dst, a] =>
    match argVar dst, readArg F diff m.store a with
    | some x, .ok va => match unop F op va with
      | .ok (some v) => .ok { m with store := upd m.store x v }
      | .ok none => .panic "vm cannot evaluate unop"
      | .err c => .err c
      | .panic p => .panic p
    | _, .err c => .err c
    | _, _ => .panic "bad unary instruction"
  | .plain opcode, args =>
    match readArgs F diff m.store args with
    | .ok vs => .ok { m with log := m.log ++ [(opcode, vs)] }
    | .err c => .err c
    | .panic p => .panic p
  | _, _ => .panic "bad instruction"

def execStmt (F : FloatOps) (diff : Nat) (m : Machine) : LStmt → Outcome Machine
  | .alloc _ _ => .ok m
  | .free _ => .ok m
  | .instr i => execInstr F diff m i

def exec (F : FloatOps) (diff : Nat) : Machine → List LStmt → Outcome Machine
  | m, [] => .ok m
  | m, s :: rest => match execStmt F diff m s with
    | .ok m' => exec F diff m' rest
    | .err c => .err c
    | .panic p => .panic p

/-! ### source statements (`AstVm::_run`, assignment / declaration / call arms) -/

def evalArgs (F : FloatOps) (diff : Nat) (σ : Store) : List SExpr → Outcome (List Value)
  | [] => .ok []
  | e :: es => match evalS F diff σ e with
    | .ok v => match evalArgs F diff σ es with
      | .ok vs => .ok (v :: vs)
      | .err c => .err c
      | .panic p => .panic p
    | .err c => .err c
    | .panic p => .panic p

def runAssign (F : FloatOps) (diff : Nat) (m : Machine) (v : VarRef) (op : AssignOp) (e : SExpr) : Outcome Machine :=
  match op.binop with
  | none => match evalS F diff m.store e with
    | .ok x => .ok { m with store := upd m.store v.name x }
    | .err c => .err c
    | .panic p => .panic p
  | some b =>
    -- `read_var_by_ast(var)` then `eval(value)`
    match evalS F diff m.store (.var v), evalS F diff m.store e with
    | .ok va, .ok vb => match binop F b va vb with
      | .ok x => .ok { m with store := upd m.store v.name x }
      | .err c => .err c
      | .panic p => .panic p
    | .err c, _ => .err c
    | .panic p, _ => .panic p
    | _, .err c => .err c
    | _, .panic p => .panic p

def runCall (F : FloatOps) (diff : Nat) (m : Machine) (opcode : Nat) (args : List SExpr) : Outcome Machine :=
  match evalArgs F diff m.store args with
  | .ok vs => .ok { m with log := m.log ++ [(opcode, vs)] }
  | .err c => .err c
  | .panic p => .panic p

end TruthModel.Lower
