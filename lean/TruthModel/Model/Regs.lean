import TruthModel.Model.Ops
/-
Model of register assignment in languages without a stack:
`assign_registers`, `get_explicitly_used_regs`, `each_lower_arg`, `PersistentState::finish`
(`src/llir/lower/stackless.rs`) over the `LowerStmt` stream of `src/llir/lower.rs`.

The model mirrors the code that exists.  `ExplicitMode.topLevel` is `get_explicitly_used_regs` as
written at the pinned commit (only top-level `Raw` arguments are looked at); `ExplicitMode.deep`
is the repaired behaviour (recursing into difficulty switches like `each_lower_arg` does).
`mentioned` is the specification: every register that occurs syntactically in any argument.
-/
namespace TruthModel.Regs
open TruthModel

abbrev Reg := Int
abbrev Def := Nat

inductive RTy where
  | int | float
deriving Repr, DecidableEq, Inhabited

/-- `LowerArg`.  `switch` is `DiffSwitch(Vec<Option<Sp<LowerArg>>>)`; an omitted case is `absent`. -/
inductive Arg where
  /-- `Raw(SimpleArg { is_reg: true, .. })` read as `ty` -/
  | raw (r : Reg) (ty : RTy)
  /-- `Raw` immediate -/
  | imm (v : Value)
  /-- `Local { def_id, storage_ty }` -/
  | loc (d : Def) (ty : RTy)
  | switch (cases : List Arg)
  | absent
  | label (l : Nat)
  | timeOf (l : Nat)
deriving Repr, Inhabited

inductive Stmt where
  /-- `RegAlloc { def_id }` -/
  | alloc (d : Def)
  /-- `RegFree { def_id }` -/
  | free (d : Def)
  /-- `Instr`; `none` = `LowerArgs::Unknown` (a `@blob`) -/
  | instr (time : Int) (mask : Nat) (opcode : Nat) (args : Option (List Arg))
  | label (time : Int) (l : Nat)
deriving Repr, Inhabited

inductive Badness where
  | thisFunction | waterElf
deriving Repr, DecidableEq

/-- the part of `LanguageHooks` that register assignment consults -/
structure Hooks where
  general : RTy → List Reg
  antiScratch : Nat → Option Badness

/-- `this_sub_info.param_registers(..)`: optional name, register, type -/
structure Param where
  name : Option Def
  reg : Reg
  ty : RTy
deriving Repr

inductive ExplicitMode where
  | topLevel | deep
deriving Repr, DecidableEq

/-- THE SWITCH: which behaviour of `get_explicitly_used_regs` the tree under test has.  `topLevel` is the
code at the pinned commit (2348c84); `deep` is the code after the repair (the scan recurses into
difficulty switches), for which `C05.assign_result_deep` is the theorem about the code.  The
correspondence check compares the model under this mode with the working tree. -/
def currentMode : ExplicitMode := .deep

/-! ### registers occurring in arguments -/

mutual
/-- every register occurring in the argument, at any depth (`each_lower_arg`) -/
def Arg.regs : Arg → List Reg
  | .raw r _ => [r]
  | .switch cs => regsList cs
  | _ => []
def regsList : List Arg → List Reg
  | [] => []
  | a :: as => a.regs ++ regsList as
end

/-- what `get_explicitly_used_regs` looks at in one argument -/
def Arg.topRegs : Arg → List Reg
  | .raw r _ => [r]
  | _ => []

def Arg.explicitRegs : ExplicitMode → Arg → List Reg
  | .topLevel, a => a.topRegs
  | .deep, a => a.regs

def Stmt.args : Stmt → List Arg
  | .instr _ _ _ (some as) => as
  | _ => []

/-- SPEC: all registers syntactically occurring in any argument of the stream -/
def mentioned (s : List Stmt) : List Reg := s.flatMap fun st => st.args.flatMap Arg.regs

/-- `get_explicitly_used_regs` -/
def explicit (m : ExplicitMode) (s : List Stmt) : List Reg :=
  s.flatMap fun st => st.args.flatMap (Arg.explicitRegs m)

/-! ### the fold -/

structure LocalInfo where
  d : Def
  ty : RTy
  reg : Reg
deriving Repr, DecidableEq

structure State where
  /-- `remaining_scratch_regs_by_ty`; the head is the Rust vector's last element (next to be popped) -/
  poolInt : List Reg
  poolFloat : List Reg
  /-- `local_regs` -/
  live : List (Def × Reg)
  usedScratch : Bool
  antiLocal : Bool
  antiGlobal : Bool
  /-- debug info, most recent first -/
  locals : List LocalInfo
  /-- emitted statements, most recent first -/
  out : List Stmt
deriving Repr

def State.pool (st : State) : RTy → List Reg
  | .int => st.poolInt
  | .float => st.poolFloat

def State.setPool (st : State) (ty : RTy) (p : List Reg) : State :=
  match ty with
  | .int => { st with poolInt := p }
  | .float => { st with poolFloat := p }

def paramRegs (ps : List Param) : List Reg := ps.map (·.reg)
def paramDefs (ps : List Param) : List Def := ps.filterMap (·.name)

def initPool (h : Hooks) (ex : List Reg) (ps : List Param) (ty : RTy) : List Reg :=
  (h.general ty).filter fun r => !ex.contains r && !(paramRegs ps).contains r

def initLive : List Param → List (Def × Reg)
  | [] => []
  | p :: ps => match p.name with
    | some d => (d, p.reg) :: initLive ps
    | none => initLive ps

def initLocals : List Param → List LocalInfo
  | [] => []
  | p :: ps => match p.name with
    | some d => ⟨d, p.ty, p.reg⟩ :: initLocals ps
    | none => initLocals ps

def init (h : Hooks) (ex : List Reg) (ps : List Param) : State where
  poolInt := initPool h ex ps .int
  poolFloat := initPool h ex ps .float
  live := (initLive ps).reverse
  usedScratch := false
  antiLocal := false
  antiGlobal := false
  locals := (initLocals ps).reverse
  out := []

def lookup (live : List (Def × Reg)) (d : Def) : Option Reg :=
  match live with
  | [] => none
  | (d', r) :: rest => if d' = d then some r else lookup rest d

def remove (live : List (Def × Reg)) (d : Def) : List (Def × Reg) :=
  live.filter fun e => e.1 ≠ d

mutual
/-- replacement of `Local` arguments by the register recorded for them; `none` = the index
`local_regs[&def_id]` panics -/
def Arg.rewrite (live : List (Def × Reg)) : Arg → Option Arg
  | .loc d ty => match lookup live d with
    | some r => some (.raw r ty)
    | none => none
  | .switch cs => match rewriteList live cs with
    | some cs' => some (.switch cs')
    | none => none
  | a => some a
def rewriteList (live : List (Def × Reg)) : List Arg → Option (List Arg)
  | [] => some []
  | a :: as => match a.rewrite live with
    | some a' => match rewriteList live as with
      | some as' => some (a' :: as')
      | none => none
    | none => none
end

def errTooComplex : String := "script too complex to compile"
def errDisabled : String := "scratch registers are disabled in this script"
def errDisabledFile : String := "scratch registers are disabled in this entire file"

/-- registers that already have a name (`clashing_names_for_regs`) -/
def clashing (ex : List Reg) (ps : List Param) : List Reg :=
  ex ++ (ps.filter (·.name.isSome)).map (·.reg)

/-- one iteration of the loop over the statements -/
def step (h : Hooks) (tyOf : Def → RTy) (clash : List Reg) (st : State) : Stmt → Outcome State
  | .alloc d =>
    let ty := tyOf d
    match st.pool ty with
    | [] => .err errTooComplex
    | r :: rest =>
      if (lookup st.live d).isSome then .panic "assertion failed: local_regs.insert(def_id, reg).is_none()"
      else if clash.contains r then .panic "assertion failed: !clashing_names_for_regs.contains_key(&reg)"
      else .ok { (st.setPool ty rest) with
        live := (d, r) :: st.live, usedScratch := true,
        locals := ⟨d, ty, r⟩ :: st.locals, out := .alloc d :: st.out }
  | .free d =>
    match lookup st.live d with
    | none => .panic "(bug!) RegFree without RegAlloc!"
    | some r =>
      let ty := tyOf d
      .ok { (st.setPool ty (r :: st.pool ty)) with live := remove st.live d, out := .free d :: st.out }
  | .instr t m op args =>
    let st1 := match h.antiScratch op with
      | some .thisFunction => { st with antiLocal := true }
      | some .waterElf => { st with antiGlobal := true }
      | none => st
    match args with
    | none => .ok { st1 with out := .instr t m op none :: st1.out }
    | some as => match rewriteList st.live as with
      | some as' => .ok { st1 with out := .instr t m op (some as') :: st1.out }
      | none => .panic "index out of bounds: local_regs[&def_id]"
  | .label t l => .ok { st with out := .label t l :: st.out }

def run (h : Hooks) (tyOf : Def → RTy) (clash : List Reg) : State → List Stmt → Outcome State
  | st, [] => .ok st
  | st, s :: rest => match step h tyOf clash st s with
    | .ok st' => run h tyOf clash st' rest
    | .err c => .err c
    | .panic p => .panic p

structure Result where
  stream : List Stmt
  /-- debug info `locals`, in allocation order -/
  locals : List LocalInfo
  usedScratch : Bool
  antiGlobal : Bool
deriving Repr

/-- `assign_registers` -/
def assign (m : ExplicitMode) (h : Hooks) (tyOf : Def → RTy) (ps : List Param) (s : List Stmt) : Outcome Result :=
  let ex := explicit m s
  match run h tyOf (clashing ex ps) (init h ex ps) s with
  | .ok st =>
    if st.antiLocal && st.usedScratch then .err errDisabled
    else .ok ⟨st.out.reverse, st.locals.reverse, st.usedScratch, st.antiGlobal⟩
  | .err c => .err c
  | .panic p => .panic p

/-- `PersistentState::finish` over the subs of one file -/
def finish (subs : List Result) : Outcome Unit :=
  if subs.any (·.antiGlobal) && subs.any (·.usedScratch) then .err errDisabledFile else .ok ()

end TruthModel.Regs
