import TruthModel.Model.Time
import TruthModel.Model.Expr
/-
C13 x C11: the delta of a relative time label `+EXPR:` is whatever `const_simplify` leaves of EXPR
when that is an integer literal (`RelTimeLabel { delta }.as_const_int()` in
`TimeAndDifficultyHelper::visit_stmt_shallow`); anything else is the "const evaluation error in
time label" diagnostic.
-/
namespace TruthModel.Time.X

def deltaStmt (F : FloatOps) (cs : Consts) (e : Expr) : Stmt :=
  match simplify F cs e with
  | .ok (.litI v) => .rel v
  | _ => .relBad

end TruthModel.Time.X
