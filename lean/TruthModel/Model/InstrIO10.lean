import TruthModel.Model.Files
/-
The instruction format of stack ECL (TH10 and later): `impl InstrFormat for ModernEclHooks`
(src/formats/ecl/ecl_10.rs), a 16-byte header

    i32 time, u16 opcode, u16 size, u16 param_mask, u8 difficulty, u8 arg_count, u8 pop, 3 x u8 padding

followed by `size - 16` argument bytes, and the script loops `llir::write_instrs` / `llir::read_instrs`
for a format WITHOUT an end-of-script marker (`has_terminal_instr() = false`): a script ends where the
caller says it ends (`end_offset`).

Conventions of `Model/InstrIO.lean`: header fields are unbounded `Int` / `Nat` so that "does not fit
the on-disk field" is expressible; the little-endian primitives, `fitsU` / `fitsI`, `tooLarge`,
`eofErr`, `badSize` are the ones defined there; `endCheck` / `readPastEnd` are those of `Model/Files.lean`.
Nothing defined there is changed.
-/
namespace TruthModel.InstrIO
open TruthModel TruthModel.Files

/-- `RawInstr` as far as this format stores it (`extra_arg` is neither written nor read: `None`) -/
structure Instr10 where
  time : Int
  opcode : Nat
  mask : Nat := 0
  difficulty : Nat := 255
  argCount : Nat := 0
  pop : Nat := 0
  blob : Bytes := []
deriving Repr, DecidableEq, Inhabited

/-- `instr_header_size()` -/
def headerSize10 : Nat := 16

/-- `instr_size(instr)` -/
def instrSize10 (i : Instr10) : Nat := headerSize10 + i.blob.length

/-- what the header can store.  In the Rust types only the size (`usize` -> `u16`, through
`fit_header_field`) can fail; the other fields already have their on-disk width. -/
def fits10 (i : Instr10) : Bool :=
  fitsI 32 i.time && fitsU 16 i.opcode && fitsU 16 (instrSize10 i) && fitsU 16 i.mask &&
  fitsU 8 i.difficulty && fitsU 8 i.argCount && fitsU 8 i.pop

/-- `write_instr` -/
def writeInstr10 (i : Instr10) : Outcome Bytes :=
  if !fits10 i then .err tooLarge else
  .ok (i32 i.time ++ u16 i.opcode ++ u16 (instrSize10 i) ++ u16 i.mask ++ u8 i.difficulty ++ u8 i.argCount ++ u8 i.pop
        ++ [0, 0, 0] ++ i.blob)

/-- `read_instr`: the whole header is read first (every short read is "unexpected EOF"), then
`size.checked_sub(16)` (a diagnostic, not an underflow), then `read_byte_vec(size - 16)` (which does
not allocate `size - 16` bytes up front).  Always `ReadInstr::Instr`: the format has no end marker and
no end-of-file result. -/
def readInstr10 (bs : Bytes) : Outcome (Instr10 × Bytes) :=
  match rdI32 bs with
  | none => .err eofErr
  | some (time, r) =>
  match rdU16 r with
  | none => .err eofErr
  | some (opcode, r) =>
  match rdU16 r with
  | none => .err eofErr
  | some (size, r) =>
  match rdU16 r with
  | none => .err eofErr
  | some (mask, r) =>
  match rdU8 r with
  | none => .err eofErr
  | some (difficulty, r) =>
  match rdU8 r with
  | none => .err eofErr
  | some (argCount, r) =>
  match rdU8 r with
  | none => .err eofErr
  | some (pop, r) =>
  match rdBytes 3 r with      -- three padding bytes, read one by one; nonzero values only warn
  | none => .err eofErr
  | some (_, r) =>
  if size < 16 then .err badSize else
  match rdBytes (size - 16) r with
  | none => .err eofErr
  | some (blob, r) => .ok ({ time, opcode, mask, difficulty, argCount, pop, blob }, r)

/-- `llir::write_instrs` (no terminal instruction) -/
def writeInstrs10 : List Instr10 → Outcome Bytes
  | [] => .ok []
  | i :: is =>
    match writeInstr10 i with
    | .ok b => match writeInstrs10 is with
      | .ok bs => .ok (b ++ bs)
      | .err c => .err c
      | .panic s => .panic s
    | .err c => .err c
    | .panic s => .panic s

/-- `llir::read_instrs(reader, .., starting_offset = cur, end_offset)` for this format.  `fuel`
bounds the number of iterations; `Props/C16Ecl10.lean` shows `bs.length + 1` always suffices. -/
def readInstrs10Aux (endOff : Option Nat) : Nat → List Instr10 → Nat → Bytes → Outcome (List Instr10)
  | 0, _, _, _ => .err "fuel"
  | fuel + 1, acc, cur, bs =>
    match endCheck endOff cur with
    | .stop => .ok acc.reverse
    | .past => .err readPastEnd
    | .go =>
      match readInstr10 bs with
      | .ok (i, r) => readInstrs10Aux endOff fuel (i :: acc) (cur + instrSize10 i) r
      | .err c => .err c
      | .panic s => .panic s

def readInstrs10 (endOff : Option Nat) (start : Nat) (bs : Bytes) : Outcome (List Instr10) :=
  readInstrs10Aux endOff (bs.length + 1) [] start bs

end TruthModel.InstrIO
