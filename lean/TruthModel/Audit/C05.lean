import TruthModel.Props.C05
open TruthModel.C05
#print axioms inv_init
#print axioms assign_inv
#print axioms assign_result
#print axioms assign_locals
#print axioms assign_result_deep
#print axioms assign_result_topLevel_partial
#print axioms topLevel_violates
#print axioms C05_full_topLevel_false
#print axioms assign_no_reuse_empty
#print axioms assign_no_reuse_anti
#print axioms assign_anti_is_err
#print axioms finish_anti
#print axioms rewrite_total
#print axioms mem_mentioned_iff
