import TruthModel.Props.C17
open TruthModel.C17
#print axioms rgb565_lossless
#print axioms rgb565_pack_no_overflow
#print axioms argb4444_lossless
#print axioms argb4444_pack_no_overflow
#print axioms gray8_lossless
#print axioms argb8888_identity
#print axioms argb8888_components
#print axioms transcode_roundtrip
#print axioms transcode_odd_length_panics
#print axioms extract_then_load_texture
#print axioms anm_source_verbatim
#print axioms crop_pad
#print axioms pad_length
#print axioms load_extracted
#print axioms explicit_survives
#print axioms soft_last_wins
#print axioms default_only_if_missing
#print axioms get_build
#print axioms same_path_in_order
#print axioms applySource_spec
#print axioms last_source_wins
#print axioms explicit_has_data_kept
