import TruthModel.Props.C15
open TruthModel.C15
#print axioms string_arg_roundtrip
#print axioms string_arg_accepted
#print axioms fixed_size_roundtrip
#print axioms fixed128_roundtrip
#print axioms fixed_size_accepted
#print axioms sub_add_cipher
#print axioms mission_line_roundtrip
#print axioms unencodable_or_oversize_is_error
#print axioms cstring_block_roundtrip_partial
#print axioms readCStringBlockwise_padded
#print axioms nullPad_shape
#print axioms cstring_block_roundtrip
#print axioms cstring_nul_truncates
