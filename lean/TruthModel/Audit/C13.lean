import TruthModel.Props.C13
open TruthModel.C13
#print axioms visitor_eq_spec
#print axioms visitor_no_panic
#print axioms block_transparent
#print axioms emit_reproduces
#print axioms times_emitAll
#print axioms recompile_emitAll
#print axioms emitLabels_spec
#print axioms labelAt_time
#print axioms label_always_placed
#print axioms raise_times
#print axioms rlabel_time
#print axioms raise_no_panic
#print axioms label_names
#print axioms labelFor_time
#print axioms labelFor_name
