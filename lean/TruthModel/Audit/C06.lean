import TruthModel.Props.C06
open TruthModel.C06
#print axioms desugar_sound_partial
#print axioms desugar_sound_pipeline_partial
#print axioms desugar_sound_break
#print axioms desugar_times
#print axioms desugar_labels_unique
#print axioms desugar_flat
#print axioms C06_full_false
#print axioms runS_sound
#print axioms desugar_sound_exec_partial
