import TruthModel.Props.C20
open TruthModel.C20
#print axioms gather_eq_write
#print axioms writeEntries_flatten
#print axioms sprite_const_eq_written
#print axioms writeSprites_spec
#print axioms strip_then_write
#print axioms indexOf?_of_get
#print axioms gatherScriptIds_ok
#print axioms gatherScriptIds_numbers
#print axioms gatherScriptIds_max_is_error
#print axioms gatherScriptIds_no_panic
#print axioms groupScripts_flatten
#print axioms compileAnm_ok
#print axioms script_ref_is_position
#print axioms equalityCheck_consistent
#print axioms sprite_slot
#print axioms dup_name_two_values_is_error
#print axioms sprite_ref_eq_written
#print axioms unknown_name_is_error
#print axioms compileEcl_ok
#print axioms sub_ref_is_position
#print axioms timeline_indices_ok
#print axioms msgScriptOffsets_spec
#print axioms msg_entry_offset
#print axioms msg_unknown_is_error
#print axioms std_instance_index
#print axioms std_too_many_is_error
