import TruthModel.Props.C16
open TruthModel.C16
#print axioms readInstr_shape
#print axioms readInstr_no_panic
#print axioms readInstr_err
#print axioms readInstr_consumes
#print axioms readInstr_alloc_bound
#print axioms readInstrsAux_fuel
#print axioms readInstrs_fuel_suffices
#print axioms readInstrsAux_no_panic
#print axioms readInstrs_no_panic
#print axioms readInstrsAux_err
#print axioms readInstrs_total
