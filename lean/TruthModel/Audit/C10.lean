import TruthModel.Props.C10
open TruthModel.C10
#print axioms ribs_eq_spec
#print axioms ribs_eq_spec_block
#print axioms each_ident_visited_once
#print axioms each_ident_resolved_once
#print axioms rename_invariant
#print axioms rename_invariant_block
#print axioms initial_ribs_stacks
#print axioms global_var_precedence
#print axioms global_func_precedence
#print axioms enum_const_shadows_builtin_and_alias
#print axioms builtin_shadows_alias
#print axioms alias_invisible_in_const_context
#print axioms alias_only_of_own_language
#print axioms declaration_shadows_globals
#print axioms func_body_stacks
#print axioms body_item_shadows_param
#print axioms param_visible_unless_body_item
#print axioms excess_args_skipped
#print axioms args_without_signature
#print axioms funcDecl_declares_only_its_name
#print axioms times_clobber_is_a_use
