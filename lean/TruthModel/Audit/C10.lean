import TruthModel.Props.C10
open TruthModel.C10
#print axioms ribs_eq_spec
#print axioms ribs_eq_spec_block
#print axioms each_ident_visited_once
#print axioms each_ident_resolved_once
#print axioms rename_invariant
#print axioms rename_invariant_block
