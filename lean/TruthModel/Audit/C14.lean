import TruthModel.Props.C14
open TruthModel.C14
#print axioms label_parse
#print axioms inv_default
#print axioms defineFlag_inv
#print axioms inv_not_preserved
#print axioms inv_not_preserved_digit
#print axioms ranges_cover
#print axioms selArg_flat
#print axioms expand_exactly_one
#print axioms expand_exactly_one_checked
#print axioms checkLens_ok
#print axioms nested_switch_wrong
#print axioms expand_exactly_one_full_false
#print axioms explicitCases_spec
#print axioms assign_exactly_one
