import TruthModel.Props.C14
open TruthModel.C14
#print axioms label_parse
#print axioms inv_default
#print axioms defineFlag_inv
#print axioms defineFromMapfile_inv
#print axioms reachable_inv
#print axioms label_parse_reachable
#print axioms label_parse_mapfile
#print axioms dup_name_rejected
#print axioms ranges_cover
#print axioms selArg_flat
#print axioms selArg_ok
#print axioms selArg_stable
#print axioms metaArg_spec
#print axioms expand_exactly_one
#print axioms checkLens_ok
#print axioms expand_exactly_one_full
#print axioms explicitCases_spec
#print axioms assign_exactly_one
