import TruthModel.Props.C09
open TruthModel.C09
#print axioms check_sound
#print axioms check_complete
#print axioms check_accepts_iff_hasType
#print axioms hasType_functional
#print axioms computeTy_agrees
#print axioms debug_assert_never_fires
#print axioms check_never_panics
#print axioms stmts_accept_iff_welltyped
#print axioms assign_to_const_rejected
#print axioms stmts_accept_iff_welltyped_for_cfg
#print axioms stmts_accept_iff_welltyped_fixed
#print axioms stmts_accept_iff_welltyped_blocks_walked
#print axioms stmts_accept_iff_welltyped_status
#print axioms stmts_accept_iff_welltyped_false_while_blocks_skipped
#print axioms type_preservation
#print axioms checked_type_is_dynamic_type
#print axioms welltyped_eval_never_panics
#print axioms free_block_accepted
#print axioms interrupt_label_accepted
#print axioms rel_time_label_accepted
#print axioms const_decl_accepted
#print axioms padding_witness
#print axioms check_sound_needs_sigsOk
#print axioms return_outside_function_rejected
