import TruthModel.Props.C04
/-! Axiom audit for the C04 property theorems (parsed by `check`). -/
#print axioms TruthModel.C04.fail_token_honest
#print axioms TruthModel.C04.error_implies_fail
#print axioms TruthModel.C04.exit_iff_error
#print axioms TruthModel.C04.warnings_never_fail
#print axioms TruthModel.C04.collect_reports_every_error
#print axioms TruthModel.C04.warning_as_error_fails_silently
#print axioms TruthModel.C04.empty_emit_fails_silently
#print axioms TruthModel.C04.dropped_flag_succeeds_after_error
#print axioms TruthModel.C04.exit_iff_error_needs_discipline
#print axioms TruthModel.C04.built_spans_valid
#print axioms TruthModel.C04.merge_ok
#print axioms TruthModel.C04.join_ok
#print axioms TruthModel.C04.render_panics_iff
#print axioms TruthModel.C04.built_spans_render
#print axioms TruthModel.C04.renderDiag_panics_iff
#print axioms TruthModel.C04.null_span_renders
#print axioms TruthModel.C04.renderDiag_ok
#print axioms TruthModel.C04.checkStmts_np
#print axioms TruthModel.C04.simpE_typed
#print axioms TruthModel.C04.evalConst_typed
#print axioms TruthModel.C04.progress_partial
#print axioms TruthModel.C04.stops_at_typecheck_iff
