import TruthModel.Props.C18
import TruthModel.Props.C18Msg
import TruthModel.Props.C18MsgFile
open TruthModel.C18
#print axioms dummy_same_size
#print axioms offsets_stable
#print axioms end_is_length
#print axioms instr_count
#print axioms label_on_boundary
#print axioms label_time
#print axioms label_args_use_recorded
#print axioms written_layout
#print axioms encodeLabels_no_panic
#print axioms second_pass_reports
#print axioms index20_no_assert
#print axioms dummy_float_local_panics
#print axioms resolveLocals_no_loc
#print axioms real_ok_of_dummy_ok
#print axioms second_pass_ok_of_wide
#print axioms no_panic_after_gather
#print axioms msg_export_indices
#print axioms mem_indicesOf
#print axioms indices_sorted
#print axioms default_entry_listed
#print axioms entry_beyond_len_not_listed
#print axioms exports_complete
#print axioms exports_sound
#print axioms implicitLen_covers
#print axioms msg_export_indices_written
#print axioms writeScripts_msg_offsets
#print axioms lookupNat_offsets_inj
