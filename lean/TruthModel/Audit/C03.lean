import TruthModel.Props.C03
open TruthModel.C03
#print axioms write_err_iff_not_fits
#print axioms write_ok_iff_fits
#print axioms write_no_panic
