import TruthModel.Props.C02
open TruthModel.C02
#print axioms neg_one_mul
#print axioms neg_one_sub
#print axioms alternatives_sound
#print axioms assignAlt_viaBinOp
#print axioms soundAt
#print axioms lowerSet_sound
#print axioms lowerAssign_sound_partial
#print axioms lowerArgs_sound
#print axioms lowerCall_sound_partial
