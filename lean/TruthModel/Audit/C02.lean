import TruthModel.Props.C02
open TruthModel.C02
#print axioms neg_one_mul
#print axioms neg_one_sub
#print axioms alternatives_sound
#print axioms assignAlt_viaBinOp
#print axioms soundAt
#print axioms lowerSet_sound
#print axioms lowerAssign_sound_partial
#print axioms lowerArgs_sound
#print axioms lowerCall_sound_partial
#print axioms lowerSetJ_eq
#print axioms TruthModel.Lower.execFrag_append
#print axioms TruthModel.Lower.execFrag_reach
#print axioms TruthModel.Lower.execJ_of_reach
#print axioms negateCmp_int
#print axioms cmp_sound
#print axioms condSoundAt
#print axioms lowerCountJmp_sound
#print axioms lowerCondJump_sound
#print axioms lowerCondJump_reach
#print axioms lowerTernarySet_sound
#print axioms lowerTernary_sound
#print axioms nan_negation_witness
#print axioms loc_order_drops_time
