import TruthModel.Props.C12
open TruthModel.C12
#print axioms decode_encode
#print axioms encode_ok
#print axioms encode_decode_image
#print axioms encode_decode_partial
#print axioms mask_bit_on_immediate_lost
#print axioms overpadded_string_normalised
#print axioms encode_decode_full_false
#print axioms mask_bits_positions
#print axioms decLoop_reg_bits
#print axioms decFlags_getD
#print axioms xor_involutive
#print axioms mask_preserves_length
#print axioms trim_after_pad
#print axioms pascal_length
#print axioms int_misfit_silently_truncated
#print axioms zero_block_size_panics
#print axioms misfit_diagnosed_full_false
#print axioms furibug_after_nulless_changes_text
#print axioms reg_flag_lost_beyond_16
#print axioms arg0_shifts_mask
#print axioms misfit_diagnosed_partial
#print axioms const_position_rejects_register
#print axioms imm_register_warns
#print axioms validAbi_accepts_zero_block
