import TruthModel.Props.C01
open TruthModel.C01
#print axioms reread_rewrite
#print axioms emitted_bytes_determine_script
