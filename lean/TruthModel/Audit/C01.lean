import TruthModel.Props.C01
open TruthModel.C01
#print axioms reread_rewrite
#print axioms emitted_bytes_determine_script
#print axioms lower_raise_flat
#print axioms lower_raise_flat_no_warning
#print axioms blob_roundtrip
#print axioms canonical_of_compiled
#print axioms canonical_of_fixed_width
#print axioms noncanonical_warns
#print axioms raiseFlat_warns
#print axioms silent_register_bit_on_immediate
#print axioms silent_float_register
#print axioms silent_overpadded_string
#print axioms blob_not_dwords_does_not_recompile
#print axioms extra_zero_same_bytes
