import TruthModel.Props.C19
open TruthModel.C19
#print axioms any_perm_invariant
#print axioms all_perm_invariant
#print axioms count_perm_invariant
#print axioms ins_comm
#print axioms sorted_consumer_perm_invariant
#print axioms min_perm_invariant
#print axioms lookup_perm_invariant
#print axioms emit_in_iteration_order_not_invariant
