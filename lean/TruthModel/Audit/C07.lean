import TruthModel.Props.C07
open TruthModel.C07
#print axioms postprocess_observation
#print axioms time_labels_preserved
#print axioms timed_jumps_untouched
#print axioms difficulty_tagged_jumps_untouched
#print axioms difficulty_tagged_jumps_kept
#print axioms labels_not_duplicated
#print axioms labels_with_referrers_survive
#print axioms interrupts_not_captured
#print axioms desugar_postprocess_partial
#print axioms postprocess_resolved
#print axioms C07_sound_partial
#print axioms nobreak_necessary
#print axioms nonneg_time_necessary
#print axioms C07_full_false
