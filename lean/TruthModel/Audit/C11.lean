import TruthModel.Props.C11
open TruthModel.C11
#print axioms simplifyNode_sound
#print axioms simplify_sound
