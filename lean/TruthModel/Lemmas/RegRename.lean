import TruthModel.Props.C05
import TruthModel.Lemmas.BodyVM
/-
C02, composition with register assignment (C05): executing the stream AFTER `assign_registers` replaced every
local / temporary by its register does what executing the stream before does.

* `scanJ`        `Regs.run` (the loop of `assign_registers`) on a lowered stream with jumps, keeping for every
                 statement the state in front of it and the statement with its arguments rewritten
                 (`scanJ_run`: it is the same loop - same success, same output stream);
* `Rel`          the relation between the store before (`σ`: locals are variables) and after (`τ`: locals live in
                 registers): an initialised live local has the value of its register; every register that is not
                 allocatable (mentioned in the script, or not general-purpose) has its own value;
* `InitOK`       what has to be known about the program besides the success of `assign_registers`: an annotation
                 `D pc` of locals that are certainly initialised in front of statement `pc` (every local read is in
                 it; it only grows by what a statement writes; a fresh `alloc` is not in it) that is also consistent
                 along every jump, and scopes that are lexical along every jump (whatever is live at the target of a
                 jump is live, in the same register, at the jump);
* `assign_preserves_execT`   under these hypotheses the timed machine `execT` on the rewritten stream runs in lock
                 step with `execT` on the original stream: same log with the same `real_time` stamps, same time, and
                 `Rel` at the end, so every mentioned register and every non-general-purpose register ends with the
                 same value.  The two facts of C05 that carry the proof: no two live locals share a register
                 (`Inv.inj`) and no register that is handed out is mentioned anywhere (`Inv.liveGood`,
                 `explicit .deep = mentioned`).
-/
namespace TruthModel.Lower
open TruthModel TruthModel.Regs TruthModel.C05

/-! ## rewriting one statement -/

/-- the arguments of one statement rewritten by the live map (what `assign_registers` does to an instruction) -/
def renameJ (live : List (Def × Reg)) : JStmt → Option JStmt
  | .base (.instr i) => match rewriteList live i.args with
    | some as => some (.base (.instr { i with args := as }))
    | none => none
  | .condJmp m op ty a b l tm => match a.rewrite live, b.rewrite live with
    | some a', some b' => some (.condJmp m op ty a' b' l tm)
    | _, _ => none
  | .cmp m ty a b => match a.rewrite live, b.rewrite live with
    | some a', some b' => some (.cmp m ty a' b')
    | _, _ => none
  | .countJmp m k x l tm => match x.rewrite live with
    | some x' => some (.countJmp m k x' l tm)
    | none => none
  | s => some s

/-- arguments that are a single operand (no difficulty switch) -/
def _root_.TruthModel.Regs.Arg.isAtom : Arg → Bool
  | .switch _ => false
  | _ => true

/-- the operand arguments of a statement -/
def stmtArgs : JStmt → List Arg
  | .base (.instr i) => i.args
  | .condJmp _ _ _ a b _ _ => [a, b]
  | .cmp _ _ a b => [a, b]
  | .countJmp _ _ x _ _ => [x]
  | _ => []

/-! ## the relation between the stores -/

/-- registers `assign_registers` may hand out -/
def Allocatable (h : Hooks) (ex : List Reg) (r : Reg) : Prop :=
  (r ∈ h.general .int ∨ r ∈ h.general .float) ∧ r ∉ ex

structure Rel (h : Hooks) (ex : List Reg) (live : List (Def × Reg)) (D : List Def) (σ τ : Store) : Prop where
  loc : ∀ d r, lookup live d = some r → d ∈ D → τ (.reg r) = σ (.loc d)
  reg : ∀ r, ¬ Allocatable h ex r → τ (.reg r) = σ (.reg r)

/-- the live map is injective and only holds allocatable registers (`C05.Inv` without parameters) -/
structure LiveOK (h : Hooks) (ex : List Reg) (live : List (Def × Reg)) : Prop where
  inj : ∀ e1 ∈ live, ∀ e2 ∈ live, e1.2 = e2.2 → e1.1 = e2.1
  alloc : ∀ e ∈ live, Allocatable h ex e.2

theorem liveOK_of_inv {h : Hooks} {tyOf : Def → RTy} {ex : List Reg} {st : State} (hi : Inv h tyOf ex [] st) :
    LiveOK h ex st.live where
  inj := fun e1 h1 e2 h2 he => hi.inj e1 h1 e2 h2 he (by simp [paramRegs])
  alloc := by
    intro e he
    have := hi.liveGood e he (by simp [paramRegs])
    refine ⟨?_, this.2⟩
    cases hty : tyOf e.1 with
    | int => rw [hty] at this; exact Or.inl this.1
    | float => rw [hty] at this; exact Or.inr this.1

theorem selectArg_atom (k : Nat) {a : Arg} (ha : a.isAtom = true) : selectArg 8 k a = a := by
  cases a <;> simp_all [Arg.isAtom, selectArg]

theorem rewrite_atom {live : List (Def × Reg)} {a a' : Arg} (ha : a.isAtom = true) (h : a.rewrite live = some a') :
    a'.isAtom = true := by
  cases a with
  | loc d ty =>
    simp only [Arg.rewrite] at h
    split at h
    · simp only [Option.some.injEq] at h; subst h; rfl
    · cases h
  | switch cs => simp [Arg.isAtom] at ha
  | _ => simp only [Arg.rewrite, Option.some.injEq] at h; subst h; exact ha

/-- reading an operand after the rewrite, in the store after, is reading it before -/
theorem readArg_rewrite (F : FloatOps) (diff : Nat) {h : Hooks} {ex : List Reg} {live : List (Def × Reg)} {D : List Def}
    {σ τ : Store} (R : Rel h ex live D σ τ) {a a' : Arg} (ha : a.isAtom = true) (hrw : a.rewrite live = some a')
    (hD : ∀ d ty, a = .loc d ty → d ∈ D) (hex : ∀ r ∈ a.regs, r ∈ ex) :
    readArg F diff τ a' = readArg F diff σ a := by
  cases a with
  | raw r ty =>
    simp only [Arg.rewrite, Option.some.injEq] at hrw
    subst hrw
    have hr : r ∈ ex := hex r (by simp [Arg.regs])
    have : τ (.reg r) = σ (.reg r) := R.reg r (fun hal => hal.2 hr)
    simp [readArg, selectArg, this]
  | loc d ty =>
    simp only [Arg.rewrite] at hrw
    cases hl : lookup live d with
    | none => simp [hl] at hrw
    | some r =>
      simp only [hl, Option.some.injEq] at hrw
      subst hrw
      have : τ (.reg r) = σ (.loc d) := R.loc d r hl (hD d ty rfl)
      simp [readArg, selectArg, this]
  | switch cs => simp [Arg.isAtom] at ha
  | imm v => simp only [Arg.rewrite, Option.some.injEq] at hrw; subst hrw; rfl
  | absent => simp only [Arg.rewrite, Option.some.injEq] at hrw; subst hrw; rfl
  | label l => simp only [Arg.rewrite, Option.some.injEq] at hrw; subst hrw; rfl
  | timeOf l => simp only [Arg.rewrite, Option.some.injEq] at hrw; subst hrw; rfl

/-- the variable an operand names, before and after the rewrite -/
inductive WriteTo (live : List (Def × Reg)) (ex : List Reg) : VarName → VarName → List Def → Prop
  | reg (r : Reg) (hr : r ∈ ex) : WriteTo live ex (.reg r) (.reg r) []
  | loc (d : Def) (r : Reg) (hl : lookup live d = some r) : WriteTo live ex (.loc d) (.reg r) [d]

theorem argVar_rewrite {live : List (Def × Reg)} {ex : List Reg} {a a' : Arg} {x : VarName}
    (hrw : a.rewrite live = some a') (hx : argVar a = some x) (hex : ∀ r ∈ a.regs, r ∈ ex) :
    ∃ x' w, argVar a' = some x' ∧ WriteTo live ex x x' w ∧ (∀ d ty, a = .loc d ty → w = [d]) := by
  cases a with
  | raw r ty =>
    simp only [Arg.rewrite, Option.some.injEq] at hrw
    subst hrw
    simp only [argVar, Option.some.injEq] at hx
    subst hx
    exact ⟨.reg r, [], rfl, .reg r (hex r (by simp [Arg.regs])), by simp⟩
  | loc d ty =>
    simp only [Arg.rewrite] at hrw
    cases hl : lookup live d with
    | none => simp [hl] at hrw
    | some r =>
      simp only [hl, Option.some.injEq] at hrw
      subst hrw
      simp only [argVar, Option.some.injEq] at hx
      subst hx
      exact ⟨.reg r, [d], rfl, .loc d r hl, by simp⟩
  | _ => simp [argVar] at hx

/-- writing the same value to a variable before and to its register after keeps the relation; the local counts
as initialised from then on -/
theorem Rel.write {h : Hooks} {ex : List Reg} {live : List (Def × Reg)} {D : List Def} {σ τ : Store}
    (R : Rel h ex live D σ τ) (L : LiveOK h ex live) {x x' : VarName} {w : List Def} (hw : WriteTo live ex x x' w) (v : Value) :
    Rel h ex live (w ++ D) (upd σ x v) (upd τ x' v) := by
  cases hw with
  | reg r hr =>
    refine ⟨?_, ?_⟩
    · intro d r' hl hd
      have hne : r' ≠ r := by
        intro e; subst e
        exact (L.alloc (d, r') (mem_of_lookup hl)).2 hr
      have h1 : upd τ (.reg r) v (.reg r') = τ (.reg r') := by simp [upd, hne]
      have h2 : upd σ (.reg r) v (.loc d) = σ (.loc d) := by simp [upd]
      rw [h1, h2]
      exact R.loc d r' hl (by simpa using hd)
    · intro r' hna
      by_cases e : r' = r
      · subst e; simp [upd]
      · have h1 : upd τ (.reg r) v (.reg r') = τ (.reg r') := by simp [upd, e]
        have h2 : upd σ (.reg r) v (.reg r') = σ (.reg r') := by simp [upd, e]
        rw [h1, h2]; exact R.reg r' hna
  | loc d r hl =>
    refine ⟨?_, ?_⟩
    · intro d' r' hl' hd'
      by_cases e : d' = d
      · subst e
        rw [hl] at hl'
        simp only [Option.some.injEq] at hl'
        subst hl'
        simp [upd]
      · have hne : r' ≠ r := by
          intro e'; subst e'
          exact e (L.inj (d', r') (mem_of_lookup hl') (d, r') (mem_of_lookup hl) rfl)
        have h1 : upd τ (.reg r) v (.reg r') = τ (.reg r') := by simp [upd, hne]
        have h2 : upd σ (.loc d) v (.loc d') = σ (.loc d') := by simp [upd, e]
        rw [h1, h2]
        refine R.loc d' r' hl' ?_
        simp only [List.cons_append, List.nil_append, List.mem_cons] at hd'
        rcases hd' with hd' | hd'
        · exact absurd hd' e
        · exact hd'
    · intro r' hna
      have hne : r' ≠ r := by
        intro e; subst e
        exact hna (L.alloc (d, r') (mem_of_lookup hl))
      have h1 : upd τ (.reg r) v (.reg r') = τ (.reg r') := by simp [upd, hne]
      have h2 : upd σ (.loc d) v (.reg r') = σ (.reg r') := by simp [upd]
      rw [h1, h2]; exact R.reg r' hna

theorem Rel.weaken {h : Hooks} {ex : List Reg} {live live' : List (Def × Reg)} {D D' : List Def} {σ τ : Store}
    (R : Rel h ex live D σ τ) (hl : ∀ d r, lookup live' d = some r → d ∈ D' → lookup live d = some r ∧ d ∈ D) :
    Rel h ex live' D' σ τ :=
  ⟨fun d r h1 h2 => R.loc d r (hl d r h1 h2).1 (hl d r h1 h2).2, R.reg⟩


/-! ## one statement -/

def argLocs : Arg → List Def
  | .loc d _ => [d]
  | _ => []

/-- the difficulty mask of a statement (markers and labels: always on) -/
def stmtMask : JStmt → Nat
  | .base (.instr i) => i.mask
  | .jmp m _ _ => m
  | .condJmp m _ _ _ _ _ _ => m
  | .cmp m _ _ _ => m
  | .cmpJmp m _ _ _ => m
  | .countJmp m _ _ _ _ => m
  | _ => 255

/-- the operands a statement reads -/
def readArgsOf : JStmt → List Arg
  | .base (.instr i) => match i.kind, i.args with
    | .assignOp .set _, [_, src] => [src]
    | .assignOp _ _, [dst, src] => [dst, src]
    | .binOp _ _, [_, a, b] => [a, b]
    | .unOp _ _, [_, a] => [a]
    | .plain _, args => args
    | _, _ => []
  | .condJmp _ _ _ a b _ _ => [a, b]
  | .cmp _ _ a b => [a, b]
  | .countJmp _ _ x _ _ => [x]
  | _ => []

/-- the operand a statement writes -/
def writeArgOf : JStmt → Option Arg
  | .base (.instr i) => match i.kind, i.args with
    | .assignOp _ _, [dst, _] => some dst
    | .binOp _ _, [dst, _, _] => some dst
    | .unOp _ _, [dst, _] => some dst
    | _, _ => none
  | .countJmp _ _ x _ _ => some x
  | _ => none

/-- locals a statement reads / the local it writes on difficulty `diff` -/
def readLocs (s : JStmt) : List Def := (readArgsOf s).flatMap argLocs
def writeLocs (diff : Nat) (s : JStmt) : List Def :=
  if maskOn (stmtMask s) diff then (match writeArgOf s with | some a => argLocs a | none => []) else []

theorem rewriteList_cons_inv {live : List (Def × Reg)} {a : Arg} {as as' : List Arg} (h : rewriteList live (a :: as) = some as') :
    ∃ a' t', as' = a' :: t' ∧ a.rewrite live = some a' ∧ rewriteList live as = some t' := by
  simp only [rewriteList] at h
  cases h1 : a.rewrite live with
  | none => simp [h1] at h
  | some a' =>
    cases h2 : rewriteList live as with
    | none => simp [h1, h2] at h
    | some t' => simp only [h1, h2, Option.some.injEq] at h; exact ⟨a', t', h.symm, rfl, rfl⟩

theorem rewriteList_nil_inv {live : List (Def × Reg)} {as' : List Arg} (h : rewriteList live [] = some as') : as' = [] := by
  simp only [rewriteList, Option.some.injEq] at h; exact h.symm

theorem readArgs_rewrite (F : FloatOps) (diff : Nat) {h : Hooks} {ex : List Reg} {live : List (Def × Reg)} {D : List Def}
    {σ τ : Store} (R : Rel h ex live D σ τ) : ∀ {as as' : List Arg}, (∀ a ∈ as, a.isAtom = true) → rewriteList live as = some as' →
    (∀ a ∈ as, ∀ d ty, a = .loc d ty → d ∈ D) → (∀ a ∈ as, ∀ r ∈ a.regs, r ∈ ex) →
    readArgs F diff τ as' = readArgs F diff σ as
  | [], as', _, hrw, _, _ => by rw [rewriteList_nil_inv hrw]; rfl
  | a :: as, as', hat, hrw, hD, hex => by
    obtain ⟨a', t', rfl, h1, h2⟩ := rewriteList_cons_inv hrw
    have e1 := readArg_rewrite F diff R (hat a (by simp)) h1 (hD a (by simp)) (hex a (by simp))
    have e2 := readArgs_rewrite F diff R (fun x hx => hat x (by simp [hx])) h2 (fun x hx => hD x (by simp [hx]))
      (fun x hx => hex x (by simp [hx]))
    simp only [readArgs, e1, e2]

theorem argLocs_mem {a : Arg} {d : Def} {ty : RTy} (h : a = .loc d ty) : d ∈ argLocs a := by subst h; simp [argLocs]

/-- the write of a statement after the rewrite -/
theorem write_rewrite {h : Hooks} {ex : List Reg} {live : List (Def × Reg)} {D : List Def} {σ τ : Store}
    (R : Rel h ex live D σ τ) (L : LiveOK h ex live) {dst dst' : Arg} {x : VarName} (hrw : dst.rewrite live = some dst')
    (hx : argVar dst = some x) (hex : ∀ r ∈ dst.regs, r ∈ ex) (v : Value) :
    ∃ x', argVar dst' = some x' ∧ Rel h ex live (argLocs dst ++ D) (upd σ x v) (upd τ x' v) := by
  obtain ⟨x', w, hx', hw, hwd⟩ := argVar_rewrite hrw hx hex
  refine ⟨x', hx', ?_⟩
  have := R.write L hw v
  cases hw with
  | reg r hr =>
    cases dst <;> simp [argVar] at hx
    simpa [argLocs] using this
  | loc d r hl =>
    cases dst <;> simp [argVar] at hx
    subst hx
    simpa [argLocs] using this


/-- **execInstr_rename**: one arithmetic / assignment / call instruction with its locals replaced by their registers -/
theorem execInstr_rename (F : FloatOps) (diff : Nat) {h : Hooks} {ex : List Reg} {live : List (Def × Reg)} {D : List Def}
    {σ τ : Store} (R : Rel h ex live D σ τ) (L : LiveOK h ex live) {i : LInstr} {as' : List Arg}
    {log : List (Nat × List Value)} {t : Int} {m1 : Machine}
    (hat : ∀ a ∈ i.args, a.isAtom = true) (hrw : rewriteList live i.args = some as')
    (hD : ∀ d ∈ readLocs (.base (.instr i)), d ∈ D) (hex : ∀ a ∈ i.args, ∀ r ∈ a.regs, r ∈ ex)
    (hrun : execInstr F diff ⟨σ, log, t⟩ i = .ok m1) :
    ∃ τ1, execInstr F diff ⟨τ, log, t⟩ { i with args := as' } = .ok ⟨τ1, m1.log, m1.time⟩ ∧
      Rel h ex live (writeLocs diff (.base (.instr i)) ++ D) m1.store τ1 := by
  obtain ⟨mask, kind, args⟩ := i
  dsimp only at hat hrw hex ⊢
  cases hmb : maskOn mask diff with
  | false =>
    simp only [execInstr, hmb, Bool.not_false, if_true, Outcome.ok.injEq] at hrun ⊢
    subst hrun
    exact ⟨τ, rfl, by simpa [writeLocs, stmtMask, hmb] using R⟩
  | true =>
    have hm : maskOn mask diff = true := hmb
    have hm' : (!maskOn mask diff) = false := by simp [hm]
    cases kind with
    | assignOp op ty =>
      rcases args with _ | ⟨dst, _ | ⟨src, _ | ⟨x3, rest⟩⟩⟩
      · cases op <;> simp [execInstr, hm'] at hrun
      · cases op <;> simp [execInstr, hm'] at hrun
      · obtain ⟨dst', t1, rfl, hdst, h2⟩ := rewriteList_cons_inv hrw
        obtain ⟨src', t2, rfl, hsrc, h3⟩ := rewriteList_cons_inv h2
        have := rewriteList_nil_inv h3
        subst this
        have hexd : ∀ r ∈ dst.regs, r ∈ ex := hex dst (by simp)
        have hexs : ∀ r ∈ src.regs, r ∈ ex := hex src (by simp)
        have hrs : readArg F diff τ src' = readArg F diff σ src :=
          readArg_rewrite F diff R (hat src (by simp)) hsrc
            (fun d ty e => hD d (by subst e; cases op <;> simp [readLocs, readArgsOf, argLocs])) hexs
        cases op with
        | set =>
          simp only [execInstr, hm', Bool.false_eq_true, if_false] at hrun
          cases hx : argVar dst with
          | none => simp [hx] at hrun
          | some x =>
            cases hv : readArg F diff σ src with
            | err c => simp [hx, hv] at hrun
            | panic c => simp [hx, hv] at hrun
            | ok v =>
              simp only [hx, hv, Outcome.ok.injEq] at hrun
              subst hrun
              obtain ⟨x', hx', R'⟩ := write_rewrite R L hdst hx hexd v
              refine ⟨upd τ x' v, by simp [execInstr, hm', hx', hrs, hv], ?_⟩
              simpa [writeLocs, stmtMask, hm, writeArgOf] using R'
        | _ =>
          have hrd : readArg F diff τ dst' = readArg F diff σ dst :=
            readArg_rewrite F diff R (hat dst (by simp)) hdst
              (fun d ty e => hD d (by subst e; simp [readLocs, readArgsOf, argLocs])) hexd
          simp only [execInstr, hm', Bool.false_eq_true, if_false, AssignOp.binop] at hrun
          cases hx : argVar dst with
          | none => cases hva : readArg F diff σ dst <;> cases hvb : readArg F diff σ src <;> simp [hx, hva, hvb] at hrun
          | some x =>
            cases hva : readArg F diff σ dst with
            | err c => cases hvb : readArg F diff σ src <;> simp [hx, hva, hvb] at hrun
            | panic c => cases hvb : readArg F diff σ src <;> simp [hx, hva, hvb] at hrun
            | ok va =>
              cases hvb : readArg F diff σ src with
              | err c => simp [hx, hva, hvb] at hrun
              | panic c => simp [hx, hva, hvb] at hrun
              | ok vb =>
                simp only [hx, hva, hvb] at hrun
                split at hrun
                · rename_i v hb
                  simp only [Outcome.ok.injEq] at hrun
                  subst hrun
                  obtain ⟨x', hx', R'⟩ := write_rewrite R L hdst hx hexd v
                  refine ⟨upd τ x' v, by simp [execInstr, hm', AssignOp.binop, hx', hrs, hrd, hva, hvb, hb], ?_⟩
                  simpa [writeLocs, stmtMask, hm, writeArgOf] using R'
                · cases hrun
                · cases hrun
      · cases op <;> simp [execInstr, hm'] at hrun
    | binOp op ty =>
      rcases args with _ | ⟨dst, _ | ⟨a, _ | ⟨b, _ | ⟨x4, rest⟩⟩⟩⟩
      · simp [execInstr, hm'] at hrun
      · simp [execInstr, hm'] at hrun
      · simp [execInstr, hm'] at hrun
      · obtain ⟨dst', t1, rfl, hdst, h2⟩ := rewriteList_cons_inv hrw
        obtain ⟨a', t2, rfl, ha, h3⟩ := rewriteList_cons_inv h2
        obtain ⟨b', t3, rfl, hb, h4⟩ := rewriteList_cons_inv h3
        have := rewriteList_nil_inv h4
        subst this
        have hexd : ∀ r ∈ dst.regs, r ∈ ex := hex dst (by simp)
        have hra : readArg F diff τ a' = readArg F diff σ a :=
          readArg_rewrite F diff R (hat a (by simp)) ha
            (fun d ty e => hD d (by subst e; simp [readLocs, readArgsOf, argLocs])) (hex a (by simp))
        have hrb : readArg F diff τ b' = readArg F diff σ b :=
          readArg_rewrite F diff R (hat b (by simp)) hb
            (fun d ty e => hD d (by subst e; simp [readLocs, readArgsOf, argLocs])) (hex b (by simp))
        simp only [execInstr, hm', Bool.false_eq_true, if_false] at hrun
        cases hx : argVar dst with
        | none => cases hva : readArg F diff σ a <;> cases hvb : readArg F diff σ b <;> simp [hx, hva, hvb] at hrun
        | some x =>
          cases hva : readArg F diff σ a with
          | err c => cases hvb : readArg F diff σ b <;> simp [hx, hva, hvb] at hrun
          | panic c => cases hvb : readArg F diff σ b <;> simp [hx, hva, hvb] at hrun
          | ok va =>
            cases hvb : readArg F diff σ b with
            | err c => simp [hx, hva, hvb] at hrun
            | panic c => simp [hx, hva, hvb] at hrun
            | ok vb =>
              simp only [hx, hva, hvb] at hrun
              split at hrun
              · rename_i v hbo
                simp only [Outcome.ok.injEq] at hrun
                subst hrun
                obtain ⟨x', hx', R'⟩ := write_rewrite R L hdst hx hexd v
                refine ⟨upd τ x' v, by simp [execInstr, hm', hx', hra, hrb, hva, hvb, hbo], ?_⟩
                simpa [writeLocs, stmtMask, hm, writeArgOf] using R'
              · cases hrun
              · cases hrun
      · simp [execInstr, hm'] at hrun
    | unOp op ty =>
      rcases args with _ | ⟨dst, _ | ⟨a, _ | ⟨x3, rest⟩⟩⟩
      · simp [execInstr, hm'] at hrun
      · simp [execInstr, hm'] at hrun
      · obtain ⟨dst', t1, rfl, hdst, h2⟩ := rewriteList_cons_inv hrw
        obtain ⟨a', t2, rfl, ha, h3⟩ := rewriteList_cons_inv h2
        have := rewriteList_nil_inv h3
        subst this
        have hexd : ∀ r ∈ dst.regs, r ∈ ex := hex dst (by simp)
        have hra : readArg F diff τ a' = readArg F diff σ a :=
          readArg_rewrite F diff R (hat a (by simp)) ha
            (fun d ty e => hD d (by subst e; simp [readLocs, readArgsOf, argLocs])) (hex a (by simp))
        simp only [execInstr, hm', Bool.false_eq_true, if_false] at hrun
        cases hx : argVar dst with
        | none => cases hva : readArg F diff σ a <;> simp [hx, hva] at hrun
        | some x =>
          cases hva : readArg F diff σ a with
          | err c => simp [hx, hva] at hrun
          | panic c => simp [hx, hva] at hrun
          | ok va =>
            simp only [hx, hva] at hrun
            split at hrun
            · rename_i v hu
              simp only [Outcome.ok.injEq] at hrun
              subst hrun
              obtain ⟨x', hx', R'⟩ := write_rewrite R L hdst hx hexd v
              refine ⟨upd τ x' v, by simp [execInstr, hm', hx', hra, hva, hu], ?_⟩
              simpa [writeLocs, stmtMask, hm, writeArgOf] using R'
            · cases hrun
            · cases hrun
            · cases hrun
      · simp [execInstr, hm'] at hrun
    | plain opcode =>
      have hra : readArgs F diff τ as' = readArgs F diff σ args :=
        readArgs_rewrite F diff R hat hrw
          (fun a ha d ty e => hD d (by
            simp only [readLocs, readArgsOf, List.mem_flatMap]
            exact ⟨a, ha, argLocs_mem e⟩)) hex
      simp only [execInstr, hm', Bool.false_eq_true, if_false] at hrun ⊢
      rw [hra]
      cases hv : readArgs F diff σ args with
      | err c => simp [hv] at hrun
      | panic c => simp [hv] at hrun
      | ok vs =>
        simp only [hv, Outcome.ok.injEq] at hrun
        subst hrun
        exact ⟨τ, rfl, by simpa [writeLocs, stmtMask, writeArgOf, hm] using R⟩


theorem Rel.nilWrite {h : Hooks} {ex : List Reg} {live : List (Def × Reg)} {D : List Def} {σ τ : Store}
    (R : Rel h ex live D σ τ) : Rel h ex live ([] ++ D) σ τ := by simpa using R

/-- **stepJ_rename**: one statement of the lowered stream with its locals replaced by their registers -/
theorem stepJ_rename (F : FloatOps) (diff : Nat) {h : Hooks} {ex : List Reg} {live : List (Def × Reg)} {D : List Def}
    {σ τ : Store} (R : Rel h ex live D σ τ) (L : LiveOK h ex live) {s s' : JStmt}
    {log : List (Nat × List Value)} {t : Int} {cmp : Option (Value × Value)} {j1 : JM} {f : Flow}
    (hat : ∀ a ∈ stmtArgs s, a.isAtom = true) (hrn : renameJ live s = some s')
    (hD : ∀ d ∈ readLocs s, d ∈ D) (hex : ∀ a ∈ stmtArgs s, ∀ r ∈ a.regs, r ∈ ex)
    (hrun : stepJ F diff ⟨⟨σ, log, t⟩, cmp⟩ s = .ok (j1, f)) :
    ∃ τ1, stepJ F diff ⟨⟨τ, log, t⟩, cmp⟩ s' = .ok (⟨⟨τ1, j1.m.log, j1.m.time⟩, j1.cmp⟩, f) ∧
      Rel h ex live (writeLocs diff s ++ D) j1.m.store τ1 := by
  cases s with
  | base b =>
    cases b with
    | alloc d ty =>
      simp only [renameJ, Option.some.injEq] at hrn
      subst hrn
      simp only [stepJ, execStmt, Outcome.ok.injEq, Prod.mk.injEq] at hrun ⊢
      obtain ⟨rfl, rfl⟩ := hrun
      exact ⟨τ, ⟨rfl, rfl⟩, by simpa [writeLocs, writeArgOf] using R⟩
    | free d =>
      simp only [renameJ, Option.some.injEq] at hrn
      subst hrn
      simp only [stepJ, execStmt, Outcome.ok.injEq, Prod.mk.injEq] at hrun ⊢
      obtain ⟨rfl, rfl⟩ := hrun
      exact ⟨τ, ⟨rfl, rfl⟩, by simpa [writeLocs, writeArgOf] using R⟩
    | instr i =>
      simp only [renameJ] at hrn
      cases hrw : rewriteList live i.args with
      | none => simp [hrw] at hrn
      | some as' =>
        simp only [hrw, Option.some.injEq] at hrn
        subst hrn
        simp only [stepJ, execStmt] at hrun ⊢
        cases hi : execInstr F diff ⟨σ, log, t⟩ i with
        | err c => simp [hi] at hrun
        | panic c => simp [hi] at hrun
        | ok m1 =>
          simp only [hi, Outcome.ok.injEq, Prod.mk.injEq] at hrun
          obtain ⟨rfl, rfl⟩ := hrun
          obtain ⟨τ1, hτ, R'⟩ := execInstr_rename F diff R L (by simpa [stmtArgs] using hat) hrw hD (by simpa [stmtArgs] using hex) hi
          exact ⟨τ1, by simp [hτ], R'⟩
  | label tl l =>
    simp only [renameJ, Option.some.injEq] at hrn
    subst hrn
    simp only [stepJ, Outcome.ok.injEq, Prod.mk.injEq] at hrun ⊢
    obtain ⟨rfl, rfl⟩ := hrun
    exact ⟨τ, ⟨rfl, rfl⟩, by simpa [writeLocs, writeArgOf] using R⟩
  | jmp m l tm =>
    simp only [renameJ, Option.some.injEq] at hrn
    subst hrn
    simp only [stepJ] at hrun ⊢
    split at hrun <;>
    · simp only [Outcome.ok.injEq, Prod.mk.injEq] at hrun
      obtain ⟨rfl, rfl⟩ := hrun
      exact ⟨τ, by simp_all, by simpa [writeLocs, writeArgOf] using R⟩
  | cmpJmp m op l tm =>
    simp only [renameJ, Option.some.injEq] at hrn
    subst hrn
    simp only [stepJ] at hrun ⊢
    split at hrun
    · simp only [Outcome.ok.injEq, Prod.mk.injEq] at hrun
      obtain ⟨rfl, rfl⟩ := hrun
      exact ⟨τ, by simp_all, by simpa [writeLocs, writeArgOf] using R⟩
    · rename_i hmk
      simp only [hmk]
      cases hc : cmp with
      | none => simp [hc] at hrun
      | some p =>
        obtain ⟨va, vb⟩ := p
        simp only [hc] at hrun ⊢
        cases hfl : cmpFlow F op va vb l tm with
        | err c => simp [hfl] at hrun
        | panic c => simp [hfl] at hrun
        | ok f' =>
          simp only [hfl, Outcome.ok.injEq, Prod.mk.injEq] at hrun
          obtain ⟨rfl, rfl⟩ := hrun
          exact ⟨τ, rfl, by simpa [writeLocs, writeArgOf] using R⟩
  | condJmp m op ty a b l tm =>
    simp only [renameJ] at hrn
    cases ha : a.rewrite live with
    | none => simp [ha] at hrn
    | some a' =>
      cases hb : b.rewrite live with
      | none => simp [ha, hb] at hrn
      | some b' =>
        simp only [ha, hb, Option.some.injEq] at hrn
        subst hrn
        have hra : readArg F diff τ a' = readArg F diff σ a :=
          readArg_rewrite F diff R (hat a (by simp [stmtArgs])) ha
            (fun d ty e => hD d (by subst e; simp [readLocs, readArgsOf, argLocs])) (hex a (by simp [stmtArgs]))
        have hrb : readArg F diff τ b' = readArg F diff σ b :=
          readArg_rewrite F diff R (hat b (by simp [stmtArgs])) hb
            (fun d ty e => hD d (by subst e; simp [readLocs, readArgsOf, argLocs])) (hex b (by simp [stmtArgs]))
        simp only [stepJ, hra, hrb] at hrun ⊢
        split at hrun
        · simp only [Outcome.ok.injEq, Prod.mk.injEq] at hrun
          obtain ⟨rfl, rfl⟩ := hrun
          exact ⟨τ, by simp_all, by simpa [writeLocs, writeArgOf] using R⟩
        · rename_i hmk
          simp only [hmk]
          cases hva : readArg F diff σ a with
          | err c => cases hvb : readArg F diff σ b <;> simp [hva, hvb] at hrun
          | panic c => cases hvb : readArg F diff σ b <;> simp [hva, hvb] at hrun
          | ok va =>
            cases hvb : readArg F diff σ b with
            | err c => simp [hva, hvb] at hrun
            | panic c => simp [hva, hvb] at hrun
            | ok vb =>
              simp only [hva, hvb] at hrun ⊢
              cases hfl : cmpFlow F op va vb l tm with
              | err c => simp [hfl] at hrun
              | panic c => simp [hfl] at hrun
              | ok f' =>
                simp only [hfl, Outcome.ok.injEq, Prod.mk.injEq] at hrun
                obtain ⟨rfl, rfl⟩ := hrun
                exact ⟨τ, rfl, by simpa [writeLocs, writeArgOf] using R⟩
  | cmp m ty a b =>
    simp only [renameJ] at hrn
    cases ha : a.rewrite live with
    | none => simp [ha] at hrn
    | some a' =>
      cases hb : b.rewrite live with
      | none => simp [ha, hb] at hrn
      | some b' =>
        simp only [ha, hb, Option.some.injEq] at hrn
        subst hrn
        have hra : readArg F diff τ a' = readArg F diff σ a :=
          readArg_rewrite F diff R (hat a (by simp [stmtArgs])) ha
            (fun d ty e => hD d (by subst e; simp [readLocs, readArgsOf, argLocs])) (hex a (by simp [stmtArgs]))
        have hrb : readArg F diff τ b' = readArg F diff σ b :=
          readArg_rewrite F diff R (hat b (by simp [stmtArgs])) hb
            (fun d ty e => hD d (by subst e; simp [readLocs, readArgsOf, argLocs])) (hex b (by simp [stmtArgs]))
        simp only [stepJ, hra, hrb] at hrun ⊢
        split at hrun
        · simp only [Outcome.ok.injEq, Prod.mk.injEq] at hrun
          obtain ⟨rfl, rfl⟩ := hrun
          exact ⟨τ, by simp_all, by simpa [writeLocs, writeArgOf] using R⟩
        · rename_i hmk
          simp only [hmk]
          cases hva : readArg F diff σ a with
          | err c => cases hvb : readArg F diff σ b <;> simp [hva, hvb] at hrun
          | panic c => cases hvb : readArg F diff σ b <;> simp [hva, hvb] at hrun
          | ok va =>
            cases hvb : readArg F diff σ b with
            | err c => simp [hva, hvb] at hrun
            | panic c => simp [hva, hvb] at hrun
            | ok vb =>
              simp only [hva, hvb, Outcome.ok.injEq, Prod.mk.injEq] at hrun
              obtain ⟨rfl, rfl⟩ := hrun
              exact ⟨τ, by simp, by simpa [writeLocs, writeArgOf] using R⟩
  | countJmp m k x l tm =>
    simp only [renameJ] at hrn
    cases hx : x.rewrite live with
    | none => simp [hx] at hrn
    | some x' =>
      simp only [hx, Option.some.injEq] at hrn
      subst hrn
      have hexx : ∀ r ∈ x.regs, r ∈ ex := hex x (by simp [stmtArgs])
      have hrx : readArg F diff τ x' = readArg F diff σ x :=
        readArg_rewrite F diff R (hat x (by simp [stmtArgs])) hx
          (fun d ty e => hD d (by subst e; simp [readLocs, readArgsOf, argLocs])) hexx
      simp only [stepJ, hrx] at hrun ⊢
      cases hmb : maskOn m diff with
      | false =>
        simp only [hmb, Bool.not_false, if_true, Outcome.ok.injEq, Prod.mk.injEq] at hrun ⊢
        obtain ⟨rfl, rfl⟩ := hrun
        exact ⟨τ, ⟨rfl, rfl⟩, by simpa [writeLocs, stmtMask, hmb] using R⟩
      | true =>
        simp only [hmb, Bool.not_true, Bool.false_eq_true, if_false] at hrun ⊢
        cases hv : argVar x with
        | none => cases hr : readArg F diff σ x <;> simp [hv, hr] at hrun
        | some name =>
          cases hr : readArg F diff σ x with
          | err c => simp [hv, hr] at hrun
          | panic c => simp [hv, hr] at hrun
          | ok v =>
            cases v with
            | int n =>
              simp only [hv, hr, Outcome.ok.injEq, Prod.mk.injEq] at hrun
              obtain ⟨rfl, rfl⟩ := hrun
              obtain ⟨name', hn', R'⟩ := write_rewrite R L hx hv hexx (.int (n - 1))
              refine ⟨upd τ name' (.int (n - 1)), by simp [hn'], ?_⟩
              simpa [writeLocs, stmtMask, hmb, writeArgOf] using R'
            | float b => simp [hv, hr] at hrun
            | str b => simp [hv, hr] at hrun


/-! ## the loop of `assign_registers` over a stream with jumps -/

/-- `Regs.run` over the stream, keeping the state in front of every statement (and the final one) and the
statements with their arguments rewritten -/
def scanJ (h : Hooks) (tyOf : Def → RTy) (clash : List Reg) (I : JIntrinsics) (order : JumpOrder) :
    State → List (Int × JStmt) → Outcome (List State × List (Int × JStmt))
  | st, [] => .ok ([st], [])
  | st, (t, s) :: rest => match step h tyOf clash st (toRegsStmtJ I order t s), renameJ st.live s with
    | .ok st', some s' => match scanJ h tyOf clash I order st' rest with
      | .ok (sts, P') => .ok (st :: sts, (t, s') :: P')
      | .err c => .err c
      | .panic p => .panic p
    | .ok _, none => .panic "index out of bounds: local_regs[&def_id]"
    | .err c, _ => .err c
    | .panic p, _ => .panic p

theorem scanJ_cons_inv {h : Hooks} {tyOf : Def → RTy} {clash : List Reg} {I : JIntrinsics} {order : JumpOrder} {st : State}
    {t : Int} {s : JStmt} {rest : List (Int × JStmt)} {sts : List State} {P' : List (Int × JStmt)}
    (hs : scanJ h tyOf clash I order st ((t, s) :: rest) = .ok (sts, P')) :
    ∃ st' s' sts' P'', step h tyOf clash st (toRegsStmtJ I order t s) = .ok st' ∧ renameJ st.live s = some s' ∧
      scanJ h tyOf clash I order st' rest = .ok (sts', P'') ∧ sts = st :: sts' ∧ P' = (t, s') :: P'' := by
  simp only [scanJ] at hs
  cases h1 : step h tyOf clash st (toRegsStmtJ I order t s) with
  | err c => simp [h1] at hs
  | panic c => simp [h1] at hs
  | ok st' =>
    cases h2 : renameJ st.live s with
    | none => simp [h1, h2] at hs
    | some s' =>
      simp only [h1, h2] at hs
      cases h3 : scanJ h tyOf clash I order st' rest with
      | err c => simp [h3] at hs
      | panic c => simp [h3] at hs
      | ok r =>
        obtain ⟨sts', P''⟩ := r
        simp only [h3, Outcome.ok.injEq, Prod.mk.injEq] at hs
        exact ⟨st', s', sts', P'', rfl, rfl, h3, hs.1.symm, hs.2.symm⟩

/-- the head of the state list is the initial state -/
theorem scanJ_head {h : Hooks} {tyOf : Def → RTy} {clash : List Reg} {I : JIntrinsics} {order : JumpOrder} :
    ∀ {P : List (Int × JStmt)} {st : State} {sts : List State} {P' : List (Int × JStmt)},
    scanJ h tyOf clash I order st P = .ok (sts, P') → sts[0]? = some st
  | [], st, sts, P', hs => by
    simp only [scanJ, Outcome.ok.injEq, Prod.mk.injEq] at hs; obtain ⟨rfl, _⟩ := hs; rfl
  | (t, s) :: rest, st, sts, P', hs => by
    obtain ⟨_, _, _, _, _, _, _, rfl, _⟩ := scanJ_cons_inv hs; rfl

/-- random access into the scan -/
theorem scanJ_get {h : Hooks} {tyOf : Def → RTy} {clash : List Reg} {I : JIntrinsics} {order : JumpOrder} :
    ∀ {P : List (Int × JStmt)} {st : State} {sts : List State} {P' : List (Int × JStmt)},
    scanJ h tyOf clash I order st P = .ok (sts, P') → P'.length = P.length ∧
    ∀ pc t s, P[pc]? = some (t, s) → ∃ stp stn s', sts[pc]? = some stp ∧ sts[pc + 1]? = some stn ∧
      step h tyOf clash stp (toRegsStmtJ I order t s) = .ok stn ∧ renameJ stp.live s = some s' ∧ P'[pc]? = some (t, s')
  | [], st, sts, P', hs => by
    simp only [scanJ, Outcome.ok.injEq, Prod.mk.injEq] at hs
    obtain ⟨rfl, rfl⟩ := hs
    exact ⟨rfl, fun pc t s hp => by simp at hp⟩
  | (t0, s0) :: rest, st, sts, P', hs => by
    obtain ⟨st', s', sts', P'', h1, h2, h3, rfl, rfl⟩ := scanJ_cons_inv hs
    obtain ⟨hlen, hget⟩ := scanJ_get h3
    refine ⟨by simp [hlen], ?_⟩
    intro pc t s hp
    cases pc with
    | zero =>
      simp only [List.getElem?_cons_zero, Option.some.injEq, Prod.mk.injEq] at hp
      obtain ⟨rfl, rfl⟩ := hp
      exact ⟨st, st', s', rfl, by simpa using scanJ_head h3, h1, h2, rfl⟩
    | succ pc =>
      simp only [List.getElem?_cons_succ] at hp
      obtain ⟨stp, stn, s2, g1, g2, g3, g4, g5⟩ := hget pc t s hp
      exact ⟨stp, stn, s2, by simpa using g1, by simpa using g2, g3, g4, by simpa using g5⟩

/-- every state of the scan satisfies the invariant of C05 -/
theorem scanJ_inv {h : Hooks} {tyOf : Def → RTy} {ex clash : List Reg} {I : JIntrinsics} {order : JumpOrder} :
    ∀ {P : List (Int × JStmt)} {st : State} {sts : List State} {P' : List (Int × JStmt)},
    Inv h tyOf ex [] st → scanJ h tyOf clash I order st P = .ok (sts, P') → ∀ x ∈ sts, Inv h tyOf ex [] x
  | [], st, sts, P', hi, hs => by
    simp only [scanJ, Outcome.ok.injEq, Prod.mk.injEq] at hs
    obtain ⟨rfl, _⟩ := hs
    intro x hx
    simp only [List.mem_cons, List.not_mem_nil, or_false] at hx
    subst hx; exact hi
  | (t0, s0) :: rest, st, sts, P', hi, hs => by
    obtain ⟨st', s', sts', P'', h1, h2, h3, rfl, rfl⟩ := scanJ_cons_inv hs
    have hi' : Inv h tyOf ex [] st' := step_inv hi (by cases s0 <;> (try cases ‹LStmt›) <;> simp [toRegsStmtJ, StmtOk, paramDefs]) h1
    intro x hx
    simp only [List.mem_cons] at hx
    rcases hx with rfl | hx
    · exact hi
    · exact scanJ_inv hi' h3 x hx

/-! ### what a step of the loop does to the live map -/

theorem lookup_remove {live : List (Def × Reg)} {d d' : Def} {r : Reg} (h : lookup (remove live d) d' = some r) :
    lookup live d' = some r := by
  induction live with
  | nil => simp [remove, lookup] at h
  | cons e rest ih =>
    obtain ⟨d0, r0⟩ := e
    have hrem : remove ((d0, r0) :: rest) d = if d0 ≠ d then (d0, r0) :: remove rest d else remove rest d := by
      simp [remove, List.filter_cons]
    rw [hrem] at h
    by_cases hd : d0 = d
    · subst hd
      simp only [ne_eq, not_true_eq_false, if_false] at h
      have h' := ih h
      have hne : d0 ≠ d' := by
        intro e; subst e
        exact (mem_remove.mp (mem_of_lookup h)).2 rfl
      simp only [lookup, hne, if_false]; exact h'
    · simp only [ne_eq, hd, not_false_eq_true, if_true, lookup] at h ⊢
      by_cases e : d0 = d'
      · simp only [e, if_true] at h ⊢; exact h
      · simp only [e, if_false] at h ⊢; exact ih h

theorem step_instr_live {h : Hooks} {tyOf : Def → RTy} {clash : List Reg} {st st' : State} {t : Int} {m op : Nat}
    {args : Option (List Arg)} (hs : step h tyOf clash st (.instr t m op args) = .ok st') : st'.live = st.live := by
  simp only [step] at hs
  cases args with
  | none =>
    simp only [Outcome.ok.injEq] at hs
    subst hs
    cases h.antiScratch op with
    | none => rfl
    | some b => cases b <;> rfl
  | some as =>
    simp only at hs
    split at hs
    · simp only [Outcome.ok.injEq] at hs
      subst hs
      cases h.antiScratch op with
      | none => rfl
      | some b => cases b <;> rfl
    · cases hs

/-- the live map after a statement, in terms of the live map before -/
theorem step_live {h : Hooks} {tyOf : Def → RTy} {clash : List Reg} {I : JIntrinsics} {order : JumpOrder} {st st' : State}
    {t : Int} {s : JStmt} (hs : step h tyOf clash st (toRegsStmtJ I order t s) = .ok st') :
    ∀ d r, lookup st'.live d = some r → lookup st.live d = some r ∨ (∃ ty, s = .base (.alloc d ty)) := by
  intro d r hl
  have instr_case : ∀ {m op : Nat} {args : Option (List Arg)}, step h tyOf clash st (.instr t m op args) = .ok st' →
      lookup st.live d = some r ∨ (∃ ty, s = .base (.alloc d ty)) := by
    intro m op args hs'
    rw [step_instr_live hs'] at hl
    exact Or.inl hl
  cases s with
  | base b =>
    cases b with
    | alloc d0 ty =>
      obtain ⟨r0, rest, _, _, rfl⟩ := step_alloc_ok (by simpa [toRegsStmtJ] using hs)
      simp only [lookup] at hl
      split at hl
      · rename_i e; subst e; exact Or.inr ⟨ty, rfl⟩
      · exact Or.inl (by cases tyOf d0 <;> simpa [State.setPool] using hl)
    | free d0 =>
      simp only [toRegsStmtJ, step] at hs
      split at hs
      · cases hs
      · simp only [Outcome.ok.injEq] at hs
        subst hs
        have : lookup (remove st.live d0) d = some r := by cases tyOf d0 <;> simpa [State.setPool] using hl
        exact Or.inl (lookup_remove this)
    | instr i => exact instr_case (by simpa [toRegsStmtJ] using hs)
  | label tl l => simp only [toRegsStmtJ, step, Outcome.ok.injEq] at hs; subst hs; exact Or.inl hl
  | jmp m l tm => exact instr_case (by simpa [toRegsStmtJ] using hs)
  | condJmp m op ty a b l tm => exact instr_case (by simpa [toRegsStmtJ] using hs)
  | cmp m ty a b => exact instr_case (by simpa [toRegsStmtJ] using hs)
  | cmpJmp m op l tm => exact instr_case (by simpa [toRegsStmtJ] using hs)
  | countJmp m k x l tm => exact instr_case (by simpa [toRegsStmtJ] using hs)


/-! ### the rewritten stream has the same labels, markers and masks -/

theorem renameJ_shape {live : List (Def × Reg)} {s s' : JStmt} (hrn : renameJ live s = some s') :
    s'.isMarker = s.isMarker ∧ jumpOf s' = jumpOf s ∧ (∀ tl l, s = .label tl l ↔ s' = .label tl l) := by
  cases s with
  | base b =>
    cases b with
    | instr i =>
      simp only [renameJ] at hrn
      split at hrn
      · simp only [Option.some.injEq] at hrn; subst hrn; simp [JStmt.isMarker, jumpOf]
      · cases hrn
    | _ => simp only [renameJ, Option.some.injEq] at hrn; subst hrn; simp
  | condJmp m op ty a b l tm =>
    simp only [renameJ] at hrn
    split at hrn
    · simp only [Option.some.injEq] at hrn; subst hrn; simp [JStmt.isMarker, jumpOf]
    · cases hrn
  | cmp m ty a b =>
    simp only [renameJ] at hrn
    split at hrn
    · simp only [Option.some.injEq] at hrn; subst hrn; simp [JStmt.isMarker, jumpOf]
    · cases hrn
  | countJmp m k x l tm =>
    simp only [renameJ] at hrn
    split at hrn
    · simp only [Option.some.injEq] at hrn; subst hrn; simp [JStmt.isMarker, jumpOf]
    · cases hrn
  | _ => simp only [renameJ, Option.some.injEq] at hrn; subst hrn; simp

theorem scanJ_labels {h : Hooks} {tyOf : Def → RTy} {clash : List Reg} {I : JIntrinsics} {order : JumpOrder} :
    ∀ {P : List (Int × JStmt)} {st : State} {sts : List State} {P' : List (Int × JStmt)} (l k : Nat),
    scanJ h tyOf clash I order st P = .ok (sts, P') → findLabelJ (P'.map (·.2)) l k = findLabelJ (P.map (·.2)) l k
  | [], st, sts, P', l, k, hs => by
    simp only [scanJ, Outcome.ok.injEq, Prod.mk.injEq] at hs
    obtain ⟨_, rfl⟩ := hs; rfl
  | (t0, s0) :: rest, st, sts, P', l, k, hs => by
    obtain ⟨st', s', sts', P'', h1, h2, h3, rfl, rfl⟩ := scanJ_cons_inv hs
    have ih := scanJ_labels l (k + 1) h3
    have hsh := (renameJ_shape h2).2.2
    cases s0 with
    | label tl l0 =>
      have : s' = .label tl l0 := (hsh tl l0).mp rfl
      subst this
      simp only [List.map_cons, findLabelJ, ih]
    | _ =>
      cases s' with
      | label tl l0 => exact absurd ((hsh tl l0).mpr rfl) (by simp)
      | _ => simp only [List.map_cons, findLabelJ, ih]

/-- every register an operand of the stream names is `mentioned` (C05's specification of "explicitly used") -/
theorem regs_mentioned {I : JIntrinsics} {order : JumpOrder} {P : List (Int × JStmt)} {pc : Nat} {t : Int} {s : JStmt}
    (hp : P[pc]? = some (t, s)) {a : Arg} (ha : a ∈ stmtArgs s) {r : Reg} (hr : r ∈ a.regs) :
    r ∈ mentioned (P.map (fun x => toRegsStmtJ I order x.1 x.2)) := by
  have hmem : (t, s) ∈ P := List.mem_of_getElem? hp
  simp only [mentioned, List.mem_flatMap, List.mem_map]
  refine ⟨toRegsStmtJ I order t s, ⟨(t, s), hmem, rfl⟩, a, ?_, hr⟩
  cases s with
  | base b =>
    cases b with
    | instr i => simpa [toRegsStmtJ, Stmt.args, stmtArgs] using ha
    | _ => simp [stmtArgs] at ha
  | condJmp m op ty x y l tm =>
    simp only [stmtArgs, List.mem_cons, List.not_mem_nil, or_false] at ha
    simp only [toRegsStmtJ, Stmt.args, List.mem_append, List.mem_cons, List.not_mem_nil, or_false]
    exact Or.inl ha
  | cmp m ty x y => simpa [toRegsStmtJ, Stmt.args, stmtArgs] using ha
  | countJmp m k x l tm =>
    simp only [stmtArgs, List.mem_cons, List.not_mem_nil, or_false] at ha
    simp only [toRegsStmtJ, Stmt.args, List.mem_append, List.mem_cons, List.not_mem_nil, or_false]
    exact Or.inl ha
  | _ => simp [stmtArgs] at ha

/-! ## the whole stream -/

/-- what has to be known about the program besides the success of `assign_registers` (see the header) -/
structure InitOK (diff : Nat) (P : List (Int × JStmt)) (sts : List State) (D : Nat → List Def) : Prop where
  atoms : ∀ (pc : Nat) (t : Int) (s : JStmt), P[pc]? = some (t, s) → ∀ a ∈ stmtArgs s, a.isAtom = true
  reads : ∀ (pc : Nat) (t : Int) (s : JStmt), P[pc]? = some (t, s) → ∀ d ∈ readLocs s, d ∈ D pc
  next : ∀ (pc : Nat) (t : Int) (s : JStmt), P[pc]? = some (t, s) → ∀ d ∈ D (pc + 1), d ∈ writeLocs diff s ∨ d ∈ D pc
  alloc : ∀ (pc : Nat) (t : Int) (d : Def) (ty : RTy), P[pc]? = some (t, JStmt.base (.alloc d ty)) → d ∉ D (pc + 1)
  jump : ∀ (pc : Nat) (t : Int) (s : JStmt) (l : Nat) (tm : Option Int) (i : Nat) (tl : Int), P[pc]? = some (t, s) → jumpOf s = some (l, tm) →
    findLabelJ (P.map (·.2)) l 0 = some (i, tl) →
    (∀ d ∈ D i, d ∈ writeLocs diff s ∨ d ∈ D pc) ∧
    (∀ stp sti, sts[pc]? = some stp → sts[i]? = some sti → ∀ d r, lookup sti.live d = some r → lookup stp.live d = some r)

/-- the live map in front of statement `pc` -/
def liveAt (sts : List State) (pc : Nat) : List (Def × Reg) :=
  match sts[pc]? with
  | some st => st.live
  | none => []

/-- the two timed machines agree on everything but the store, and the stores are related -/
structure RelT (h : Hooks) (ex : List Reg) (live : List (Def × Reg)) (D : List Def) (s u : TVM) : Prop where
  real : u.vm.real = s.vm.real
  stamps : u.vm.stamps = s.vm.stamps
  log : u.vm.m.log = s.vm.m.log
  time : u.vm.m.time = s.vm.m.time
  cmp : u.cmp = s.cmp
  store : Rel h ex live D s.vm.m.store u.vm.m.store

theorem VM.waitTo_eq_of {a b : VM} (t : Int) (ht : b.m.time = a.m.time) (hr : b.real = a.real) (hs : b.stamps = a.stamps)
    (hl : b.m.log = a.m.log) :
    (b.waitTo t).m.time = (a.waitTo t).m.time ∧ (b.waitTo t).real = (a.waitTo t).real ∧
    (b.waitTo t).stamps = (a.waitTo t).stamps ∧ (b.waitTo t).m.log = (a.waitTo t).m.log ∧
    (b.waitTo t).m.store = b.m.store ∧ (a.waitTo t).m.store = a.m.store := by
  unfold VM.waitTo
  rw [ht]
  split
  · exact ⟨rfl, by simp [hr], hs, hl, rfl, rfl⟩
  · exact ⟨ht, hr, hs, hl, rfl, rfl⟩

section whole
variable {F : FloatOps} {diff : Nat} {h : Hooks} {tyOf : Def → RTy} {clash : List Reg} {I : JIntrinsics} {order : JumpOrder}
  {P P' : List (Int × JStmt)} {sts : List State} {st0 : State} {D : Nat → List Def} {ex : List Reg}

/-- one step of the timed machine on the rewritten stream -/
theorem stepT_rename (hscan : scanJ h tyOf clash I order st0 P = .ok (sts, P'))
    (hinv : Inv h tyOf ex [] st0)
    (hexm : ∀ (pc : Nat) (t : Int) (s : JStmt), P[pc]? = some (t, s) → ∀ a ∈ stmtArgs s, ∀ r ∈ a.regs, r ∈ ex)
    (hD : InitOK diff P sts D) {pc : Nat} {s u : TVM}
    (R : RelT h ex (liveAt sts pc) (D pc) s u) :
    (stepT F diff P pc s = .ok none → stepT F diff P' pc u = .ok none) ∧
    (∀ pc' s', stepT F diff P pc s = .ok (some (pc', s')) →
      ∃ u', stepT F diff P' pc u = .ok (some (pc', u')) ∧
        RelT h ex (liveAt sts pc') (D pc') s' u') := by
  obtain ⟨hlen, hget⟩ := scanJ_get hscan
  cases hp : P[pc]? with
  | none =>
    have hp' : P'[pc]? = none := by
      rw [List.getElem?_eq_none_iff] at hp ⊢; omega
    refine ⟨fun _ => by simp [stepT, hp'], fun pc' s' hst => by simp [stepT, hp] at hst⟩
  | some ts =>
    obtain ⟨t, st⟩ := ts
    obtain ⟨stp, stn, st', g1, g2, g3, g4, g5⟩ := hget pc t st hp
    have hlive : liveAt sts pc = stp.live := by simp [liveAt, g1]
    have hliven : liveAt sts (pc + 1) = stn.live := by simp [liveAt, g2]
    have hIstp : Inv h tyOf ex [] stp := scanJ_inv hinv hscan stp (List.mem_of_getElem? g1)
    have L := liveOK_of_inv hIstp
    obtain ⟨hmk, hjo, _⟩ := renameJ_shape g4
    refine ⟨fun hst => by
      simp only [stepT, hp] at hst
      repeat' split at hst
      all_goals simp at hst, ?_⟩
    intro pc' s' hst
    -- both machines wait (or not) alike
    have hw := VM.waitTo_eq_of (a := s.vm) (b := u.vm) t R.time R.real R.stamps R.log
    obtain ⟨v1s, hv1s⟩ : ∃ v, v = (if st.isMarker then s.vm else s.vm.waitTo t) := ⟨_, rfl⟩
    obtain ⟨v1u, hv1u⟩ : ∃ v, v = (if st'.isMarker then u.vm else u.vm.waitTo t) := ⟨_, rfl⟩
    have hv : v1u.m.time = v1s.m.time ∧ v1u.real = v1s.real ∧ v1u.stamps = v1s.stamps ∧ v1u.m.log = v1s.m.log ∧
        v1u.m.store = u.vm.m.store ∧ v1s.m.store = s.vm.m.store := by
      rw [hv1s, hv1u, hmk]
      cases st.isMarker
      · simpa using hw
      · simp [R.time, R.real, R.stamps, R.log]
    simp only [stepT, hp, ← hv1s] at hst
    have hRel : Rel h ex stp.live (D pc) v1s.m.store v1u.m.store := by
      rw [hv.2.2.2.2.1, hv.2.2.2.2.2, ← hlive]; exact R.store
    cases hj : stepJ F diff ⟨v1s.m, s.cmp⟩ st with
    | err c => simp [hj] at hst
    | panic c => simp [hj] at hst
    | ok r =>
      obtain ⟨j1, f⟩ := r
      simp only [hj] at hst
      have hj' : stepJ F diff ⟨⟨v1s.m.store, v1s.m.log, v1s.m.time⟩, s.cmp⟩ st = .ok (j1, f) := hj
      obtain ⟨τ1, hju, R1⟩ := stepJ_rename F diff hRel L (hD.atoms pc t st hp) g4 (hD.reads pc t st hp)
        (hexm pc t st hp) hj'
      have hju' : stepJ F diff ⟨v1u.m, u.cmp⟩ st' = .ok (⟨⟨τ1, j1.m.log, j1.m.time⟩, j1.cmp⟩, f) := by
        have : (⟨v1u.m, u.cmp⟩ : JM) = ⟨⟨v1u.m.store, v1s.m.log, v1s.m.time⟩, s.cmp⟩ := by
          rw [R.cmp, ← hv.1, ← hv.2.2.2.1]
        rw [this]; exact hju
      have hafter : (v1u.after ⟨τ1, j1.m.log, j1.m.time⟩).stamps = (v1s.after j1.m).stamps := by
        simp [VM.after, hv.2.1, hv.2.2.1, hv.2.2.2.1]
      cases f with
      | next =>
        simp only [Outcome.ok.injEq, Option.some.injEq, Prod.mk.injEq] at hst
        obtain ⟨rfl, rfl⟩ := hst
        refine ⟨⟨v1u.after ⟨τ1, j1.m.log, j1.m.time⟩, j1.cmp⟩, by simp [stepT, g5, ← hv1u, hju'], ?_⟩
        refine ⟨by simp [VM.after, hv.2.1], hafter, rfl, rfl, rfl, ?_⟩
        rw [hliven]
        refine R1.weaken ?_
        intro d r hl hd
        rcases step_live g3 d r hl with h1 | ⟨ty, rfl⟩
        · exact ⟨h1, by simpa using hD.next pc t st hp d hd⟩
        · exact absurd hd (hD.alloc pc t d ty hp)
      | jump l tm =>
        simp only at hst
        cases hfl : findLabelJ (P.map (·.2)) l 0 with
        | none => simp [hfl] at hst
        | some r =>
          obtain ⟨i, tl⟩ := r
          simp only [hfl, Outcome.ok.injEq, Option.some.injEq, Prod.mk.injEq] at hst
          obtain ⟨rfl, rfl⟩ := hst
          have hfl' : findLabelJ (P'.map (·.2)) l 0 = some (i, tl) := by rw [scanJ_labels l 0 hscan]; exact hfl
          refine ⟨⟨(v1u.after ⟨τ1, j1.m.log, j1.m.time⟩).setTime (tm.getD tl), j1.cmp⟩, by simp [stepT, g5, ← hv1u, hju', hfl'], ?_⟩
          have hjst : jumpOf st = some (l, tm) := by
            rcases stepJ_flow hj with h1 | ⟨l', tm', h1, h2⟩
            · cases h1
            · simp only [Flow.jump.injEq] at h2; obtain ⟨rfl, rfl⟩ := h2; exact h1
          obtain ⟨hDi, hLi⟩ := hD.jump pc t st l tm i tl hp hjst hfl
          refine ⟨by simp [VM.after, VM.setTime, hv.2.1], by simpa [VM.setTime] using hafter, rfl, rfl, rfl, ?_⟩
          show Rel h ex (liveAt sts i) (D i) j1.m.store τ1
          refine R1.weaken ?_
          intro d r hl hd
          cases hsi : sts[i]? with
          | none => simp [liveAt, hsi, lookup] at hl
          | some sti =>
            have hl' : lookup sti.live d = some r := by simpa [liveAt, hsi] using hl
            exact ⟨hLi stp sti g1 hsi d r hl', by simpa using hDi d hd⟩

/-- **assign_preserves_execT**: the stream with every local replaced by the register `assign_registers` gave it runs
in lock step with the stream before the replacement -/
theorem assign_preserves_execT (hscan : scanJ h tyOf clash I order st0 P = .ok (sts, P'))
    (hinv : Inv h tyOf ex [] st0)
    (hexm : ∀ (pc : Nat) (t : Int) (s : JStmt), P[pc]? = some (t, s) → ∀ a ∈ stmtArgs s, ∀ r ∈ a.regs, r ∈ ex)
    (hD : InitOK diff P sts D) :
    ∀ (fuel pc : Nat) (s u sf : TVM), execT F diff P fuel pc s = .ok sf →
      RelT h ex (liveAt sts pc) (D pc) s u →
      ∃ uf pcf, execT F diff P' fuel pc u = .ok uf ∧
        RelT h ex (liveAt sts pcf) (D pcf) sf uf
  | 0, _, _, _, _, hrun, _ => by simp [execT] at hrun
  | fuel + 1, pc, s, u, sf, hrun, R => by
    obtain ⟨hnone, hsome⟩ := stepT_rename (F := F) hscan hinv hexm hD R
    simp only [execT] at hrun ⊢
    cases hst : stepT F diff P pc s with
    | err c => simp [hst] at hrun
    | panic c => simp [hst] at hrun
    | ok r =>
      cases r with
      | none =>
        simp only [hst, Outcome.ok.injEq] at hrun
        subst hrun
        exact ⟨u, pc, by simp [hnone hst], R⟩
      | some ps =>
        obtain ⟨pc', s'⟩ := ps
        simp only [hst] at hrun
        obtain ⟨u', hu', R'⟩ := hsome pc' s' hst
        obtain ⟨uf, pcf, hf, Rf⟩ := assign_preserves_execT hscan hinv hexm hD fuel pc' s' u' sf hrun R'
        exact ⟨uf, pcf, by simp [hu', hf], Rf⟩

end whole


/-! ## `scanJ` is the loop of `assign_registers` -/

theorem rewriteList_jumpArgs (live : List (Def × Reg)) (order : JumpOrder) (l : Nat) (tm : Option Int) :
    rewriteList live (jumpArgs order l tm) = some (jumpArgs order l tm) := by
  cases order <;> cases tm <;> simp [jumpArgs, rewriteList, Arg.rewrite]

theorem rewriteList_append {live : List (Def × Reg)} : ∀ {as bs as' bs' : List Arg},
    rewriteList live as = some as' → rewriteList live bs = some bs' → rewriteList live (as ++ bs) = some (as' ++ bs')
  | [], bs, as', bs', h1, h2 => by rw [rewriteList_nil_inv h1]; simpa using h2
  | a :: as, bs, as', bs', h1, h2 => by
    obtain ⟨a', t', rfl, ha, ht⟩ := rewriteList_cons_inv h1
    have := rewriteList_append ht h2
    simp [rewriteList, ha, this]

theorem step_instr_out {h : Hooks} {tyOf : Def → RTy} {clash : List Reg} {st : State} {t : Int} {m op : Nat}
    {as as' : List Arg} (hrw : rewriteList st.live as = some as') :
    ∃ st', step h tyOf clash st (.instr t m op (some as)) = .ok st' ∧ st'.out = .instr t m op (some as') :: st.out := by
  simp only [step, hrw]
  cases h.antiScratch op with
  | none => exact ⟨_, rfl, rfl⟩
  | some b => cases b <;> exact ⟨_, rfl, rfl⟩

theorem step_instr_none {h : Hooks} {tyOf : Def → RTy} {clash : List Reg} {st st' : State} {t : Int} {m op : Nat}
    {as : List Arg} (hs : step h tyOf clash st (.instr t m op (some as)) = .ok st') : ∃ as', rewriteList st.live as = some as' := by
  simp only [step] at hs
  cases hrw : rewriteList st.live as with
  | some as' => exact ⟨as', rfl⟩
  | none => simp [hrw] at hs

/-- one statement: the loop succeeds iff the rewrite of the statement does, and emits the rewritten statement -/
theorem step_renameJ {h : Hooks} {tyOf : Def → RTy} {clash : List Reg} {I : JIntrinsics} {order : JumpOrder} {st st' : State}
    {t : Int} {s : JStmt} (hs : step h tyOf clash st (toRegsStmtJ I order t s) = .ok st') :
    ∃ s', renameJ st.live s = some s' ∧ st'.out = toRegsStmtJ I order t s' :: st.out := by
  have instr_case : ∀ {m op : Nat} {as as' : List Arg}, step h tyOf clash st (.instr t m op (some as)) = .ok st' →
      rewriteList st.live as = some as' → st'.out = .instr t m op (some as') :: st.out := by
    intro m op as as' hs' hrw
    obtain ⟨st2, h1, h2⟩ := step_instr_out (h := h) (tyOf := tyOf) (clash := clash) (t := t) (m := m) (op := op) hrw
    rw [h1] at hs'
    simp only [Outcome.ok.injEq] at hs'
    subst hs'
    exact h2
  cases s with
  | base b =>
    cases b with
    | alloc d ty =>
      obtain ⟨r0, rest, _, _, rfl⟩ := step_alloc_ok (by simpa [toRegsStmtJ] using hs)
      exact ⟨_, rfl, rfl⟩
    | free d =>
      simp only [toRegsStmtJ, step] at hs
      split at hs
      · cases hs
      · simp only [Outcome.ok.injEq] at hs
        subst hs
        exact ⟨_, rfl, by cases tyOf d <;> rfl⟩
    | instr i =>
      simp only [toRegsStmtJ] at hs
      obtain ⟨as', hrw⟩ := step_instr_none hs
      exact ⟨.base (.instr { i with args := as' }), by simp [renameJ, hrw], by simpa [toRegsStmtJ] using instr_case hs hrw⟩
  | label tl l => simp only [toRegsStmtJ, step, Outcome.ok.injEq] at hs; subst hs; exact ⟨_, rfl, rfl⟩
  | jmp m l tm =>
    simp only [toRegsStmtJ] at hs
    exact ⟨.jmp m l tm, rfl, by simpa [toRegsStmtJ] using instr_case hs (rewriteList_jumpArgs _ _ _ _)⟩
  | cmpJmp m op l tm =>
    simp only [toRegsStmtJ] at hs
    exact ⟨.cmpJmp m op l tm, rfl, by simpa [toRegsStmtJ] using instr_case hs (rewriteList_jumpArgs _ _ _ _)⟩
  | condJmp m op ty a b l tm =>
    simp only [toRegsStmtJ] at hs
    obtain ⟨as', hrw⟩ := step_instr_none hs
    have hrw0 := hrw
    simp only [List.cons_append, List.nil_append] at hrw
    obtain ⟨a', t1, rfl, ha, h2⟩ := rewriteList_cons_inv hrw
    obtain ⟨b', t2, rfl, hb, h3⟩ := rewriteList_cons_inv h2
    rw [rewriteList_jumpArgs] at h3
    simp only [Option.some.injEq] at h3
    subst h3
    exact ⟨.condJmp m op ty a' b' l tm, by simp [renameJ, ha, hb], by simpa [toRegsStmtJ] using instr_case hs hrw0⟩
  | cmp m ty a b =>
    simp only [toRegsStmtJ] at hs
    obtain ⟨as', hrw⟩ := step_instr_none hs
    obtain ⟨a', t1, rfl, ha, h2⟩ := rewriteList_cons_inv hrw
    obtain ⟨b', t2, rfl, hb, h3⟩ := rewriteList_cons_inv h2
    have := rewriteList_nil_inv h3
    subst this
    exact ⟨.cmp m ty a' b', by simp [renameJ, ha, hb], by simpa [toRegsStmtJ] using instr_case hs hrw⟩
  | countJmp m k x l tm =>
    simp only [toRegsStmtJ] at hs
    obtain ⟨as', hrw⟩ := step_instr_none hs
    have hrw0 := hrw
    simp only [List.cons_append, List.nil_append] at hrw
    obtain ⟨x', t1, rfl, hx, h2⟩ := rewriteList_cons_inv hrw
    rw [rewriteList_jumpArgs] at h2
    simp only [Option.some.injEq] at h2
    subst h2
    exact ⟨.countJmp m k x' l tm, by simp [renameJ, hx], by simpa [toRegsStmtJ] using instr_case hs hrw0⟩

/-- **scanJ_of_run**: whenever the loop of `assign_registers` succeeds on the stream, `scanJ` succeeds, and the
statements it rewrote are exactly what the loop emitted -/
theorem scanJ_of_run {h : Hooks} {tyOf : Def → RTy} {clash : List Reg} {I : JIntrinsics} {order : JumpOrder} :
    ∀ (P : List (Int × JStmt)) (st stf : State),
    run h tyOf clash st (P.map (fun x => toRegsStmtJ I order x.1 x.2)) = .ok stf →
    ∃ sts P', scanJ h tyOf clash I order st P = .ok (sts, P') ∧
      stf.out = (P'.map (fun x => toRegsStmtJ I order x.1 x.2)).reverse ++ st.out
  | [], st, stf, hr => by
    simp only [List.map_nil, run, Outcome.ok.injEq] at hr
    subst hr
    exact ⟨[st], [], rfl, by simp⟩
  | (t, s) :: rest, st, stf, hr => by
    simp only [List.map_cons, run] at hr
    cases h1 : step h tyOf clash st (toRegsStmtJ I order t s) with
    | err c => simp [h1] at hr
    | panic c => simp [h1] at hr
    | ok st' =>
      simp only [h1] at hr
      obtain ⟨s', hrn, hout⟩ := step_renameJ h1
      obtain ⟨sts, P', hsc, hout'⟩ := scanJ_of_run rest st' stf hr
      refine ⟨st :: sts, (t, s') :: P', by simp [scanJ, h1, hrn, hsc], ?_⟩
      rw [hout', hout]
      simp

/-- the same for `assign_registers` as a whole (no parameters, the repaired explicit-register scan) -/
theorem scanJ_of_assign {h : Hooks} {tyOf : Def → RTy} {I : JIntrinsics} {order : JumpOrder} {P : List (Int × JStmt)} {res : Result}
    (ha : assign .deep h tyOf [] (P.map (fun x => toRegsStmtJ I order x.1 x.2)) = .ok res) :
    ∃ sts P', scanJ h tyOf (clashing (mentioned (P.map (fun x => toRegsStmtJ I order x.1 x.2))) []) I order
        (init h (mentioned (P.map (fun x => toRegsStmtJ I order x.1 x.2))) []) P = .ok (sts, P') ∧
      res.stream = P'.map (fun x => toRegsStmtJ I order x.1 x.2) := by
  simp only [assign, explicit_deep_eq_mentioned] at ha
  cases hr : run h tyOf (clashing (mentioned (P.map (fun x => toRegsStmtJ I order x.1 x.2))) [])
      (init h (mentioned (P.map (fun x => toRegsStmtJ I order x.1 x.2))) []) (P.map (fun x => toRegsStmtJ I order x.1 x.2)) with
  | err c => simp [hr] at ha
  | panic c => simp [hr] at ha
  | ok stf =>
    simp only [hr] at ha
    split at ha
    · cases ha
    · simp only [Outcome.ok.injEq] at ha
      subst ha
      obtain ⟨sts, P', hsc, hout⟩ := scanJ_of_run P _ stf hr
      refine ⟨sts, P', hsc, ?_⟩
      simp [hout, init]

/-! ## streams without jumps: the linear initialisation analysis -/

/-- what is certainly initialised after a statement, going through the stream in order -/
def initStep (diff : Nat) (D : List Def) : JStmt → List Def
  | .base (.alloc d _) => D.filter (· ≠ d)
  | s => writeLocs diff s ++ D

/-- what is certainly initialised in front of statement `pc`, going through the stream in order -/
def linD (diff : Nat) (P : List (Int × JStmt)) : Nat → List Def
  | 0 => []
  | pc + 1 => match P[pc]? with
    | some (_, s) => initStep diff (linD diff P pc) s
    | none => linD diff P pc

/-- a stream without jumps in which every operand is a single operand and every local is written before it is read
(in stream order) satisfies `InitOK` with the linear analysis -/
theorem initOK_linear (diff : Nat) (P : List (Int × JStmt)) (sts : List State)
    (hnj : ∀ (pc : Nat) (t : Int) (s : JStmt), P[pc]? = some (t, s) → jumpOf s = none)
    (hat : ∀ (pc : Nat) (t : Int) (s : JStmt), P[pc]? = some (t, s) → ∀ a ∈ stmtArgs s, a.isAtom = true)
    (hrd : ∀ (pc : Nat) (t : Int) (s : JStmt), P[pc]? = some (t, s) → ∀ d ∈ readLocs s, d ∈ linD diff P pc) :
    InitOK diff P sts (linD diff P) where
  atoms := hat
  reads := hrd
  next := by
    intro pc t s hp d hd
    simp only [linD, hp] at hd
    cases s with
    | base b =>
      cases b with
      | alloc d0 ty => simp only [initStep, List.mem_filter] at hd; exact Or.inr hd.1
      | _ => simpa [initStep] using hd
    | _ => simpa [initStep] using hd
  alloc := by
    intro pc t d ty hp hd
    simp only [linD, hp, initStep, List.mem_filter] at hd
    simp at hd
  jump := by
    intro pc t s l tm i tl hp hj
    rw [hnj pc t s hp] at hj
    cases hj

end TruthModel.Lower
