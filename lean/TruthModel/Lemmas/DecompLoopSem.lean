/-
C07, semantic half: `decompile_loop` preserves the resolved code (`decompileLoop_sem`).  A loop step
replaces `l: body; goto l` by `l: loop { body }`; the back jump of the lowered loop goes to the code
index of the loop, which is where `l` stands.
-/
import TruthModel.Lemmas.DecompDen
namespace TruthModel.Decomp
open List

/-- a flat block: `den` is resolution of its leaves -/
theorem denAtom_inv_label {pos : Nat → Option Nat} {f : Nat → Nat} {dl : Option String} {l o : Nat}
    (h : InvS pos f (.atom dl (.label l)) o) : pos l = some o := by simpa using h

theorem clenL_label_cons (dl : Option String) (l : Nat) (b : List Stmt) : clenL (.atom dl (.label l) :: b) = clenL b := by
  simp [clenAtom]

/-- what the loop scan keeps true, in addition to `LInv` -/
structure LSem (pos : Nat → Option Nat) (f : Nat → Nat) (ss : Block) (n : Nat) (st : ScanState) : Prop where
  den : denL pos none st.out 0 = denL pos none (ss.take n) 0
  inv : InvL pos f st.out 0
  nobrk : NoBrkA (atomsL st.out)

theorem LSem.clen {pos f ss n st} (h : LSem pos f ss n st) : clenL st.out = clenL (ss.take n) := by
  have := congrArg List.length h.den
  rwa [length_denL, length_denL] at this

theorem loopStep_sem {pos : Nat → Option Nat} {f : Nat → Nat} {ss : Block} (hf : ∀ c, f c = clenL (ss.take c))
    (hinv0 : InvL pos f ss 0) (hnb : NoBrkA (atomsL ss)) {n : Nat} {st st' : ScanState} {d a}
    (hlinv : LInv ss n st) (hs : ss[n]? = some (.atom d a)) (hsem : LSem pos f ss n st)
    (h : loopStep ss (interruptIndices ss) st n (.atom d a) = .ok st') : LSem pos f ss (n + 1) st' := by
  have htake : ss.take (n + 1) = ss.take n ++ [.atom d a] := take_succ_of_getElem hs
  have hclen := hsem.clen
  -- the scanned statement, as a statement of the original block
  have hsplit : ss = ss.take n ++ (.atom d a :: ss.drop (n + 1)) := by
    have hn : n < ss.length := by
      rcases Nat.lt_or_ge n ss.length with h' | h'
      · exact h'
      · rw [List.getElem?_eq_none h'] at hs; cases hs
    conv => lhs; rw [← List.take_append_drop n ss, List.drop_eq_getElem_cons hn]
    rw [List.getElem?_eq_getElem hn] at hs
    rw [Option.some.inj hs]
  have hatom : InvS pos f (.atom d a) (clenL (ss.take n)) := by
    rw [hsplit, InvL_append, InvL_cons] at hinv0
    simpa using hinv0.2.1
  have hnba : NoBrkA [(d, a)] := by
    intro p hp
    refine hnb p ?_
    rw [hsplit]; simp only [atomsL_append, atomsL_cons, atoms_atom, List.mem_append, List.mem_cons]
    simp only [List.mem_singleton] at hp
    exact .inr (.inl (.inl hp))
  -- the state after pushing the statement
  have hpush : LSem pos f ss (n + 1) ⟨st.out ++ [.atom d a], st.idx ++ [n]⟩ := by
    refine ⟨?_, ?_, ?_⟩
    · rw [htake, denL_append, denL_append, hsem.den]; simp
    · rw [InvL_append]; exact ⟨hsem.inv, by simpa [hclen] using hatom⟩
    · rw [atomsL_append, NoBrkA.append]; exact ⟨hsem.nobrk, by simpa using hnba⟩
  rcases loopStep_shape hlinv hs h with h1 | ⟨pre, dl, l, body, h1, h2⟩
  · exact ⟨by rw [h1]; exact hpush.den, by rw [h1]; exact hpush.inv, by rw [h1]; exact hpush.nobrk⟩
  · -- a loop is folded
    have hi := hsem.inv
    rw [h1, InvL_append, InvL_cons] at hi
    obtain ⟨hi1, hi2, hi3⟩ := hi
    have hposl : pos l = some (clenL pre) := by simpa using hi2
    have hnb' := hsem.nobrk
    rw [h1, atomsL_append, NoBrkA.append, atomsL_cons, NoBrkA.append] at hnb'
    have hnbody : NoBrkA (atomsL body) := hnb'.2.2
    have hfn : clenL pre + clenL body = f n := by
      rw [hf n, ← hclen, h1, clenL_append, clenL_label_cons]
    simp only [clenS_atom, clenAtom, Nat.add_zero] at hi3
    rcases h2 with ⟨rfl, rfl, h3⟩ | ⟨c, rfl, rfl, h3⟩
    · refine ⟨?_, ?_, ?_⟩
      · rw [← hpush.den]
        show denL pos none st'.out 0 = denL pos none (st.out ++ [Stmt.atom none (.jump (.goto l none))]) 0
        rw [h3, h1]
        simp only [denL_append, denL_cons, denL_nil, denS_atom, denS_loop, denAtom, clenS_atom, clenAtom, clenL_append,
          clenL_cons, denJ, rj, hposl, List.append_nil, List.nil_append, Nat.add_zero, Nat.zero_add, List.append_assoc]
        rw [denL_nobrk pos (some (clenL pre + clenL body + 1)) none body _ hnbody]
      · rw [h3, InvL_append]
        refine ⟨hi1, ?_⟩
        simp only [InvL_cons, InvL_nil, InvS_atom, InvS_loop, clenS_atom, clenAtom, Nat.add_zero, and_true]
        exact ⟨by simpa using hi2, by simpa using hfn, by simpa using hi3⟩
      · rw [h3, atomsL_append, NoBrkA.append]
        refine ⟨hnb'.1, ?_⟩
        simp only [atomsL_cons, atoms_atom, atoms_node, atomsL_nil, List.append_nil]
        rw [show [(dl, Atom.label l)] ++ atomsL body = atomsL (Stmt.atom dl (.label l) :: body) by simp]
        rw [atomsL_cons, NoBrkA.append]
        exact hnb'.2
    · refine ⟨?_, ?_, ?_⟩
      · rw [← hpush.den]
        show denL pos none st'.out 0 = denL pos none (st.out ++ [Stmt.atom none (.condJump .if_ c (.goto l none))]) 0
        rw [h3, h1]
        simp only [denL_append, denL_cons, denL_nil, denS_atom, denS_doWhile, denAtom, clenS_atom, clenAtom, clenL_append,
          clenL_cons, denJ, rj, hposl, List.append_nil, List.nil_append, Nat.add_zero, Nat.zero_add, List.append_assoc]
        rw [denL_nobrk pos (some (clenL pre + clenL body + 1)) none body _ hnbody]
        simp [normCond]
      · rw [h3, InvL_append]
        refine ⟨hi1, ?_⟩
        simp only [InvL_cons, InvL_nil, InvS_atom, InvS_doWhile, clenS_atom, clenAtom, Nat.add_zero, and_true]
        exact ⟨by simpa using hi2, by simpa using hfn, by simpa using hi3⟩
      · rw [h3, atomsL_append, NoBrkA.append]
        refine ⟨hnb'.1, ?_⟩
        simp only [atomsL_cons, atoms_atom, atoms_node, atomsL_nil, List.append_nil]
        rw [show [(dl, Atom.label l)] ++ atomsL body = atomsL (Stmt.atom dl (.label l) :: body) by simp]
        rw [atomsL_cons, NoBrkA.append]
        exact hnb'.2

theorem loopScan_prefix_sem {pos : Nat → Option Nat} {f : Nat → Nat} {ss : Block} (hflat : Flat ss)
    (hf : ∀ c, f c = clenL (ss.take c)) (hinv0 : InvL pos f ss 0) (hnb : NoBrkA (atomsL ss)) :
    ∀ (n : Nat) (st : ScanState), n ≤ ss.length →
    loopScan ss (interruptIndices ss) (ss.take n) 0 ⟨[], []⟩ = .ok st → LSem pos f ss n st
  | 0, st, _, h => by
    simp only [List.take_zero, loopScan] at h; cases h
    exact ⟨by simp, by simp, by intro p hp; simp at hp⟩
  | n + 1, st, hn, h => by
    have hlt : n < ss.length := by omega
    have htake : ss.take (n + 1) = ss.take n ++ [ss[n]] := by
      rw [List.take_add_one, List.getElem?_eq_getElem hlt]; rfl
    have h0 := h
    rw [htake, loopScan_append] at h
    split at h
    · rename_i st1 h1
      have ih := loopScan_prefix_sem hflat hf hinv0 hnb n st1 (by omega) h1
      have hl := loopScan_prefix_inv hflat n st1 (by omega) h1
      have hlen : (ss.take n).length = n := by simp [List.length_take]; omega
      simp only [hlen, Nat.zero_add, loopScan] at h
      obtain ⟨d, a, hda⟩ := hflat ss[n] (List.getElem_mem hlt)
      have hs : ss[n]? = some (.atom d a) := by rw [List.getElem?_eq_getElem hlt, hda]
      rw [hda] at h
      split at h
      · rename_i st2 h2
        cases h
        exact loopStep_sem hf hinv0 hnb hl hs ih h2
      · cases h
      · cases h
    · cases h
    · cases h

/-- `decompile_loop` preserves the resolved code and the positions of labels; every loop it makes
ends where its back jump stood -/
theorem decompileLoop_sem {pos : Nat → Option Nat} {f : Nat → Nat} {ss a : Block} (hflat : Flat ss)
    (hf : ∀ c, f c = clenL (ss.take c)) (hinv0 : InvL pos f ss 0) (hnb : NoBrkA (atomsL ss))
    (h : decompileLoop ss = .ok a) :
    denL pos none a 0 = denL pos none ss 0 ∧ InvL pos f a 0 ∧ NoBrkA (atomsL a) := by
  unfold decompileLoop at h
  split at h
  · rename_i st hst
    cases h
    have := loopScan_prefix_sem hflat hf hinv0 hnb ss.length st (Nat.le_refl _) (by rw [List.take_length]; exact hst)
    exact ⟨by simpa using this.den, this.inv, this.nobrk⟩
  · cases h
  · cases h

end TruthModel.Decomp
