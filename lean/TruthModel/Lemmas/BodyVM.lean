import TruthModel.Model.BodySem
import TruthModel.Lemmas.LowerShape
/-
The timed target machine (`Model/BodySem.lean`, `stepT` / `execT`) inside the fragment of one source statement:

* `execFrag_reachT`   the timed version of `execFrag_reach`.  Inside a program `pre ++ code@t ++ post` (every
                      statement of `code` stamped with the time `t`), if the labels of `code` are hygienic, carry
                      the time `t`, and no jump with an explicit time stays inside `code`, then whatever the
                      structural execution `execFrag` computes for `code` from the state "waited until `t`", the
                      timed machine computes from the state that has not waited yet: the first instruction waits,
                      afterwards the script time stays `t` (markers and labels never wait), calls logged on the way
                      carry the `real_time` reached by that one wait.
-/
namespace TruthModel.Lower
open TruthModel TruthModel.Regs

/-! ## the VM state -/

theorem VM.waitTo_of_le {s : VM} {t : Int} (h : t ≤ s.m.time) : s.waitTo t = s := by
  unfold VM.waitTo
  rw [if_neg (by omega)]

theorem VM.waitTo_time_of_le {s : VM} {t : Int} (h : s.m.time ≤ t) : (s.waitTo t).m.time = t := by
  unfold VM.waitTo
  split
  · rfl
  · show s.m.time = t; omega

theorem VM.le_waitTo_time (s : VM) (t : Int) : t ≤ (s.waitTo t).m.time := by
  unfold VM.waitTo
  split
  · exact Int.le_refl _
  · show t ≤ s.m.time; omega

theorem VM.waitTo_store (s : VM) (t : Int) : (s.waitTo t).m.store = s.m.store := by
  unfold VM.waitTo; split <;> rfl

theorem VM.waitTo_log (s : VM) (t : Int) : (s.waitTo t).m.log = s.m.log := by
  unfold VM.waitTo; split <;> rfl

theorem VM.waitTo_stamps (s : VM) (t : Int) : (s.waitTo t).stamps = s.stamps := by
  unfold VM.waitTo; split <;> rfl

theorem VM.waitTo_idem (s : VM) (t : Int) : (s.waitTo t).waitTo t = s.waitTo t :=
  VM.waitTo_of_le (VM.le_waitTo_time s t)

/-- waiting for an earlier time first changes nothing -/
theorem VM.waitTo_waitTo (s : VM) {a b : Int} (h : a ≤ b) : (s.waitTo a).waitTo b = s.waitTo b := by
  unfold VM.waitTo
  by_cases h1 : s.m.time < a
  · have h2 : s.m.time < b := by omega
    simp only [h1, h2, if_true]
    by_cases h3 : a < b
    · simp only [h3, if_true]
      congr 1
      omega
    · have : a = b := by omega
      subst this
      simp
  · simp only [h1, if_false]

theorem VM.after_self (s : VM) : s.after s.m = s := by
  cases s; simp [VM.after]

theorem VM.after_m (s : VM) (m' : Machine) : (s.after m').m = m' := rfl
theorem VM.after_real (s : VM) (m' : Machine) : (s.after m').real = s.real := rfl

/-- steps accumulate: stamping first up to `w` and then up to `m2` is stamping up to `m2` at once -/
theorem VM.after_chain (v w : VM) (m2 : Machine) (hr : w.real = v.real)
    (hs : w.stamps = v.stamps ++ List.replicate (w.m.log.length - v.m.log.length) v.real)
    (h1 : v.m.log.length ≤ w.m.log.length) (h2 : w.m.log.length ≤ m2.log.length) : w.after m2 = v.after m2 := by
  unfold VM.after
  rw [hs, hr, List.append_assoc, List.replicate_append_replicate]
  congr 3
  omega

/-! ## what a step of the lowered stream can change -/

theorem execInstr_frame {F : FloatOps} {diff : Nat} {m m' : Machine} {i : LInstr} (h : execInstr F diff m i = .ok m') :
    m'.time = m.time ∧ m.log.length ≤ m'.log.length := by
  unfold execInstr at h
  repeat' split at h
  all_goals first
    | (cases h; done)
    | (simp only [Outcome.ok.injEq] at h; subst h; exact ⟨rfl, Nat.le_refl _⟩)
    | (simp only [Outcome.ok.injEq] at h; subst h; exact ⟨rfl, by simp⟩)

theorem execStmt_frame {F : FloatOps} {diff : Nat} {m m' : Machine} {s : LStmt} (h : execStmt F diff m s = .ok m') :
    m'.time = m.time ∧ m.log.length ≤ m'.log.length := by
  cases s with
  | alloc _ _ => simp only [execStmt, Outcome.ok.injEq] at h; subst h; exact ⟨rfl, Nat.le_refl _⟩
  | free _ => simp only [execStmt, Outcome.ok.injEq] at h; subst h; exact ⟨rfl, Nat.le_refl _⟩
  | instr i => exact execInstr_frame h

/-- a step never changes the script time and never shortens the log -/
theorem stepJ_frame {F : FloatOps} {diff : Nat} {s s' : JM} {st : JStmt} {f : Flow} (h : stepJ F diff s st = .ok (s', f)) :
    s'.m.time = s.m.time ∧ s.m.log.length ≤ s'.m.log.length := by
  cases st with
  | base b =>
    simp only [stepJ] at h
    cases hb : execStmt F diff s.m b with
    | ok m' =>
      simp only [hb, Outcome.ok.injEq, Prod.mk.injEq] at h
      obtain ⟨rfl, _⟩ := h
      exact execStmt_frame hb
    | err c => simp [hb] at h
    | panic p => simp [hb] at h
  | _ =>
    simp only [stepJ] at h
    repeat' split at h
    all_goals first
      | (cases h; done)
      | (simp only [Outcome.ok.injEq, Prod.mk.injEq] at h; obtain ⟨rfl, _⟩ := h; exact ⟨rfl, Nat.le_refl _⟩)

/-- markers and labels do nothing, whatever the state -/
theorem stepJ_marker (F : FloatOps) (diff : Nat) (s : JM) {st : JStmt} (h : st.isMarker = true) :
    stepJ F diff s st = .ok (s, .next) := by
  cases st with
  | base b => cases b <;> simp_all [JStmt.isMarker, stepJ, execStmt]
  | label _ _ => rfl
  | _ => simp [JStmt.isMarker] at h

/-- target and time of a jump statement -/
def jumpOf : JStmt → Option (Nat × Option Int)
  | .jmp _ l tm => some (l, tm)
  | .condJmp _ _ _ _ _ l tm => some (l, tm)
  | .cmpJmp _ _ l tm => some (l, tm)
  | .countJmp _ _ _ l tm => some (l, tm)
  | _ => none

theorem cmpFlow_flow {F : FloatOps} {op : BinOp} {va vb : Value} {l : Nat} {time : Option Int} {f : Flow}
    (h : cmpFlow F op va vb l time = .ok f) : f = .next ∨ f = .jump l time := by
  unfold cmpFlow at h
  repeat' split at h
  all_goals first
    | (cases h; done)
    | (simp only [Outcome.ok.injEq] at h; subst h; simp)

/-- a step goes on with the next statement or takes the jump its statement names -/
theorem stepJ_flow {F : FloatOps} {diff : Nat} {s s' : JM} {st : JStmt} {f : Flow} (h : stepJ F diff s st = .ok (s', f)) :
    f = .next ∨ ∃ l tm, jumpOf st = some (l, tm) ∧ f = .jump l tm := by
  cases st with
  | base b =>
    simp only [stepJ] at h
    split at h
    · simp only [Outcome.ok.injEq, Prod.mk.injEq] at h; exact Or.inl h.2.symm
    · cases h
    · cases h
  | _ =>
    simp only [stepJ] at h
    repeat' split at h
    all_goals first
      | (cases h; done)
      | (simp only [Outcome.ok.injEq, Prod.mk.injEq] at h; obtain ⟨-, rfl⟩ := h; simp [jumpOf]; done)
      | (simp only [Outcome.ok.injEq, Prod.mk.injEq] at h; obtain ⟨-, rfl⟩ := h; rename_i hc
         rcases cmpFlow_flow hc with rfl | rfl <;> simp [jumpOf])

theorem stepJ_jump_timed {F : FloatOps} {diff : Nat} {s s' : JM} {st : JStmt} {l : Nat} {x : Int}
    (h : stepJ F diff s st = .ok (s', .jump l (some x))) : (l, x) ∈ timedJumps [st] := by
  rcases stepJ_flow h with h1 | ⟨l', tm, hj, hf⟩
  · cases h1
  · simp only [Flow.jump.injEq] at hf
    obtain ⟨rfl, rfl⟩ := hf
    cases st <;> simp_all [jumpOf, timedJumps]

/-! ## the timed machine -/

/-- reflexive-transitive closure of `stepT` -/
inductive ReachT (F : FloatOps) (diff : Nat) (P : List (Int × JStmt)) : Nat → TVM → Nat → TVM → Prop
  | refl (pc : Nat) (s : TVM) : ReachT F diff P pc s pc s
  | step (pc : Nat) (s : TVM) (pc1 : Nat) (s1 : TVM) (pc2 : Nat) (s2 : TVM) :
      stepT F diff P pc s = .ok (some (pc1, s1)) → ReachT F diff P pc1 s1 pc2 s2 → ReachT F diff P pc s pc2 s2

theorem ReachT.trans {F : FloatOps} {diff : Nat} {P : List (Int × JStmt)} {pc pc1 pc2 : Nat} {s s1 s2 : TVM}
    (h1 : ReachT F diff P pc s pc1 s1) (h2 : ReachT F diff P pc1 s1 pc2 s2) : ReachT F diff P pc s pc2 s2 := by
  induction h1 with
  | refl => exact h2
  | step pc s pa sa pb sb hs _ ih => exact .step pc s pa sa pc2 s2 hs (ih h2)

/-- from a state that `ReachT`es the end of the program `execT` returns it -/
theorem execT_of_reachT {F : FloatOps} {diff : Nat} {P : List (Int × JStmt)} {pc : Nat} {s s' : TVM}
    (h : ReachT F diff P pc s P.length s') : ∃ fuel, execT F diff P fuel pc s = .ok s' := by
  generalize hn : P.length = n at h
  induction h with
  | refl pc s =>
    refine ⟨1, ?_⟩
    subst hn
    simp [execT, stepT]
  | step pc s pc1 s1 pc2 s2 hs _ ih =>
    obtain ⟨fuel, hf⟩ := ih hn
    exact ⟨fuel + 1, by simp [execT, hs, hf]⟩

theorem findLabelJ_time_mem : ∀ (c : List JStmt) (l k j : Nat) (tl : Int), findLabelJ c l k = some (j, tl) → tl ∈ labelTimes c
  | [], _, _, _, _, h => by simp [findLabelJ] at h
  | st :: c, l, k, j, tl, h => by
    cases st with
    | label t l' =>
      simp only [findLabelJ] at h
      split at h
      · simp only [Option.some.injEq, Prod.mk.injEq] at h; obtain ⟨_, rfl⟩ := h; simp [labelTimes]
      · simp [labelTimes, findLabelJ_time_mem c l (k + 1) j tl h]
    | _ =>
      simp only [findLabelJ] at h
      simpa [labelTimes] using findLabelJ_time_mem c l (k + 1) j tl h

theorem timedJumps_mem_of_mem {code : List JStmt} {st : JStmt} {p : Nat × Int} (hst : st ∈ code) (hp : p ∈ timedJumps [st]) :
    p ∈ timedJumps code := by
  obtain ⟨a, b, rfl⟩ := List.append_of_mem hst
  rw [timedJumps_append, show st :: b = [st] ++ b from rfl, timedJumps_append]
  simp [hp]

theorem labelTimes_drop_subset (c : List JStmt) (n : Nat) : ∀ x ∈ labelTimes (c.drop n), x ∈ labelTimes c := by
  intro x hx
  have : labelTimes c = labelTimes (c.take n) ++ labelTimes (c.drop n) := by
    rw [← labelTimes_append, List.take_append_drop]
  rw [this]; exact List.mem_append_right _ hx

/-- the structural execution of a fragment never shortens the log -/
theorem execFrag_mono (F : FloatOps) (diff : Nat) : ∀ (c : List JStmt) (mode : FragMode) (s s' : JM) (e : Exit),
    execFrag F diff mode c s = .ok (e, s') → s.m.log.length ≤ s'.m.log.length
  | [], .run, s, s', e, h => by
    simp only [execFrag, Outcome.ok.injEq, Prod.mk.injEq] at h; obtain ⟨_, rfl⟩ := h; exact Nat.le_refl _
  | [], .seek l time, s, s', e, h => by
    simp only [execFrag, Outcome.ok.injEq, Prod.mk.injEq] at h; obtain ⟨_, rfl⟩ := h; exact Nat.le_refl _
  | st :: c, .seek l time, s, s', e, h => by
    cases st with
    | label t l' =>
      simp only [execFrag] at h
      split at h
      · have := execFrag_mono F diff c .run _ s' e h
        simpa [JM.setTime] using this
      · exact execFrag_mono F diff c (.seek l time) s s' e h
    | _ => simp only [execFrag] at h; exact execFrag_mono F diff c (.seek l time) s s' e h
  | st :: c, .run, s, s', e, h => by
    simp only [execFrag] at h
    cases hst : stepJ F diff s st with
    | ok r =>
      obtain ⟨s1, f⟩ := r
      have hf := (stepJ_frame hst).2
      simp only [hst] at h
      cases f with
      | next => exact Nat.le_trans hf (execFrag_mono F diff c .run s1 s' e h)
      | jump l time => exact Nat.le_trans hf (execFrag_mono F diff c (.seek l time) s1 s' e h)
    | err x => simp [hst] at h
    | panic x => simp [hst] at h

/-- `n` steps of the timed machine -/
inductive ReachTn (F : FloatOps) (diff : Nat) (P : List (Int × JStmt)) : Nat → Nat → TVM → Nat → TVM → Prop
  | refl (pc : Nat) (s : TVM) : ReachTn F diff P 0 pc s pc s
  | step (n pc : Nat) (s : TVM) (pc1 : Nat) (s1 : TVM) (pc2 : Nat) (s2 : TVM) :
      stepT F diff P pc s = .ok (some (pc1, s1)) → ReachTn F diff P n pc1 s1 pc2 s2 → ReachTn F diff P (n + 1) pc s pc2 s2

theorem ReachTn.toReachT {F : FloatOps} {diff : Nat} {P : List (Int × JStmt)} {n pc pc' : Nat} {s s' : TVM}
    (h : ReachTn F diff P n pc s pc' s') : ReachT F diff P pc s pc' s' := by
  induction h with
  | refl => exact .refl _ _
  | step n pc s pc1 s1 pc2 s2 hs _ ih => exact .step _ _ _ _ _ _ hs ih

theorem ReachTn.trans {F : FloatOps} {diff : Nat} {P : List (Int × JStmt)} {n m pc pc1 pc2 : Nat} {s s1 s2 : TVM}
    (h1 : ReachTn F diff P n pc s pc1 s1) (h2 : ReachTn F diff P m pc1 s1 pc2 s2) : ReachTn F diff P (n + m) pc s pc2 s2 := by
  induction h1 with
  | refl => simpa using h2
  | step n pc s pa sa pb sb hs _ ih =>
    have := ih h2
    rw [show n + 1 + m = (n + m) + 1 by omega]
    exact .step _ _ _ _ _ _ _ hs this

/-- a machine that can make `n` steps has not stopped with less fuel -/
theorem execT_fuel_of_reachTn {F : FloatOps} {diff : Nat} {P : List (Int × JStmt)} {n pc pc' : Nat} {s s' : TVM}
    (h : ReachTn F diff P n pc s pc' s') : ∀ fuel, fuel ≤ n → execT F diff P fuel pc s = .panic "out of fuel" := by
  induction h with
  | refl pc s => intro fuel hf; have : fuel = 0 := by omega
                 subst this; rfl
  | step n pc s pc1 s1 pc2 s2 hs _ ih =>
    intro fuel hf
    cases fuel with
    | zero => rfl
    | succ fuel => simp only [execT, hs]; exact ih fuel (by omega)

/-- **execFrag_reachTn**: the timed machine inside the fragment of one statement (see the header), with the number of
steps it makes: leaving the fragment by a jump takes at least one step -/
theorem execFrag_reachTn (F : FloatOps) (diff : Nat) (pre post : List (Int × JStmt)) (t : Int) (code : List JStmt)
    (hy : Hygienic (pre.map (·.2)) code) (htimes : ∀ x ∈ labelTimes code, x = t)
    (hjumps : ∀ p ∈ timedJumps code, p.1 ∉ labelsOf code) :
    ∀ (n k : Nat) (u : TVM) (j' : JM) (e : Exit), code.length - k = n → k ≤ code.length →
      execFrag F diff .run (code.drop k) ⟨(u.vm.waitTo t).m, u.cmp⟩ = .ok (e, j') →
      match e with
      | .fall => ∃ c u', ReachTn F diff (pre ++ (code.map (fun x => (t, x)) ++ post)) c (pre.length + k) u (pre.length + code.length) u' ∧
          u'.cmp = j'.cmp ∧ u'.vm.waitTo t = (u.vm.waitTo t).after j'.m
      | .jump l time => ∀ i tl, findLabelJ ((pre ++ (code.map (fun x => (t, x)) ++ post)).map (·.2)) l 0 = some (i, tl) →
          ∃ c, 1 ≤ c ∧ ReachTn F diff (pre ++ (code.map (fun x => (t, x)) ++ post)) c (pre.length + k) u i
            ⟨((u.vm.waitTo t).after j'.m).setTime (time.getD tl), j'.cmp⟩ := by
  have hPj : (pre ++ (code.map (fun x => (t, x)) ++ post)).map (·.2) = pre.map (·.2) ++ code ++ post.map (·.2) := by
    simp [List.map_append, List.map_map, Function.comp_def]
  have hprelen : (pre.map (·.2)).length = pre.length := List.length_map _
  intro n
  induction n using Nat.strongRecOn with
  | _ n ih =>
    intro k u j' e hn hk h
    by_cases hend : k = code.length
    · subst hend
      simp only [List.drop_length, execFrag, Outcome.ok.injEq, Prod.mk.injEq] at h
      obtain ⟨rfl, rfl⟩ := h
      exact ⟨0, u, .refl _ _, rfl, (VM.after_self _).symm⟩
    · have hlt : k < code.length := Nat.lt_of_le_of_ne hk hend
      have hget : (pre ++ (code.map (fun x => (t, x)) ++ post))[pre.length + k]? = some (t, code[k]) := by
        rw [List.getElem?_append_right (Nat.le_add_right _ _)]
        simp [List.getElem?_append_left, hlt]
      have hdrop : code.drop k = code[k] :: code.drop (k + 1) := List.drop_eq_getElem_cons hlt
      have hmemk : code[k] ∈ code := List.getElem_mem hlt
      rw [hdrop] at h
      simp only [execFrag] at h
      by_cases hmk : code[k].isMarker = true
      · -- a marker or a label: no wait, no change
        rw [stepJ_marker F diff _ hmk] at h
        have hstep : stepT F diff (pre ++ (code.map (fun x => (t, x)) ++ post)) (pre.length + k) u = .ok (some (pre.length + k + 1, u)) := by
          simp [stepT, hget, hmk, stepJ_marker F diff _ hmk, VM.after_self]
        have hrec := ih (code.length - (k + 1)) (by omega) (k + 1) u j' e rfl (by omega) h
        cases e with
        | fall =>
          obtain ⟨c, u', hr, hc, hw⟩ := hrec
          exact ⟨c + 1, u', .step _ _ _ _ _ _ _ hstep (by simpa [Nat.add_assoc] using hr), hc, hw⟩
        | jump l time =>
          intro i tl hi
          obtain ⟨c, hc1, hr⟩ := hrec i tl hi
          exact ⟨c + 1, by omega, .step _ _ _ _ _ _ _ hstep (by simpa [Nat.add_assoc] using hr)⟩
      · have hmk' : code[k].isMarker = false := by simpa using hmk
        cases hst : stepJ F diff ⟨(u.vm.waitTo t).m, u.cmp⟩ code[k] with
        | err c => simp [hst] at h
        | panic p => simp [hst] at h
        | ok r =>
          obtain ⟨j1, f⟩ := r
          simp only [hst] at h
          have hfr := stepJ_frame hst
          have hlog1 : (u.vm.waitTo t).m.log.length ≤ j1.m.log.length := hfr.2
          have htime1 : t ≤ j1.m.time := by rw [hfr.1]; exact VM.le_waitTo_time _ _
          cases f with
          | next =>
            dsimp only at h
            have hstep : stepT F diff (pre ++ (code.map (fun x => (t, x)) ++ post)) (pre.length + k) u =
                .ok (some (pre.length + k + 1, ⟨(u.vm.waitTo t).after j1.m, j1.cmp⟩)) := by
              simp [stepT, hget, hmk', hst]
            have hw1 : ((u.vm.waitTo t).after j1.m).waitTo t = (u.vm.waitTo t).after j1.m := VM.waitTo_of_le htime1
            have h' : execFrag F diff .run (code.drop (k + 1))
                ⟨(((u.vm.waitTo t).after j1.m).waitTo t).m, j1.cmp⟩ = .ok (e, j') := by rw [hw1]; exact h
            have hlog2 := execFrag_mono F diff _ _ _ _ _ h
            have hchain : ((u.vm.waitTo t).after j1.m).after j'.m = (u.vm.waitTo t).after j'.m :=
              VM.after_chain _ _ _ rfl rfl hlog1 hlog2
            have hrec := ih (code.length - (k + 1)) (by omega) (k + 1) ⟨(u.vm.waitTo t).after j1.m, j1.cmp⟩ j' e rfl (by omega) h'
            cases e with
            | fall =>
              obtain ⟨c, u', hr, hc, hw⟩ := hrec
              refine ⟨c + 1, u', .step _ _ _ _ _ _ _ hstep (by simpa [Nat.add_assoc] using hr), hc, ?_⟩
              rw [hw, hw1, hchain]
            | jump l time =>
              intro i tl hi
              obtain ⟨c, hc1, this⟩ := hrec i tl hi
              rw [hw1, hchain] at this
              exact ⟨c + 1, by omega, .step _ _ _ _ _ _ _ hstep (by simpa [Nat.add_assoc] using this)⟩
          | jump l time =>
            dsimp only at h
            rw [execFrag_seek] at h
            cases hfl : findLabelJ (code.drop (k + 1)) l 0 with
            | none =>
              simp only [hfl, Outcome.ok.injEq, Prod.mk.injEq] at h
              obtain ⟨rfl, rfl⟩ := h
              intro i tl hi
              have hstep : stepT F diff (pre ++ (code.map (fun x => (t, x)) ++ post)) (pre.length + k) u =
                  .ok (some (i, ⟨((u.vm.waitTo t).after j1.m).setTime (time.getD tl), j1.cmp⟩)) := by
                unfold stepT
                rw [hget]
                simp only [hmk', Bool.false_eq_true, if_false, hst, hi]
              exact ⟨1, Nat.le_refl _, .step _ _ _ _ _ _ _ hstep (.refl _ _)⟩
            | some r =>
              obtain ⟨j, tj⟩ := r
              simp only [hfl] at h
              have hmem : l ∈ labelsOf (code.drop (k + 1)) := findLabelJ_mem _ _ _ _ _ hfl
              have hsplit := labelsOf_take_drop code (k + 1)
              have hnd := hy.nodup
              rw [hsplit] at hnd
              have hnot_take : l ∉ labelsOf (code.take (k + 1)) := fun hm =>
                (List.nodup_append.mp hnd).2.2 l hm l hmem rfl
              have hin : l ∈ labelsOf code := by rw [hsplit]; exact List.mem_append_right _ hmem
              have hnot_pre : l ∉ labelsOf (pre.map (·.2)) := hy.fresh l hin
              -- the jump stays in the fragment: it carries no time, and the label has the time of the fragment
              have htm : time = none := by
                cases time with
                | none => rfl
                | some x => exact absurd hin (hjumps _ (timedJumps_mem_of_mem hmemk (stepJ_jump_timed hst)))
              subst htm
              have htj : tj = t := htimes tj (labelTimes_drop_subset code (k + 1) tj (findLabelJ_time_mem _ _ _ _ _ hfl))
              subst htj
              have hj := findLabelJ_lt _ _ _ _ _ hfl
              simp only [List.length_drop] at hj
              have hfind : findLabelJ ((pre ++ (code.map (fun x => (tj, x)) ++ post)).map (·.2)) l 0 = some (pre.length + (k + 1 + j), tj) := by
                have hcp : code ++ post.map (·.2) = code.take (k + 1) ++ (code.drop (k + 1) ++ post.map (·.2)) := by
                  rw [← List.append_assoc, List.take_append_drop]
                rw [hPj, List.append_assoc, findLabelJ_append _ _ l hnot_pre, hcp, findLabelJ_append _ _ l hnot_take,
                  findLabelJ_append_left_some _ hfl]
                simp only [Option.map_some, List.length_take, Option.some.injEq, Prod.mk.injEq, and_true, hprelen]
                omega
              have hstep : stepT F diff (pre ++ (code.map (fun x => (tj, x)) ++ post)) (pre.length + k) u =
                  .ok (some (pre.length + (k + 1 + j), ⟨((u.vm.waitTo tj).after j1.m).setTime tj, j1.cmp⟩)) := by
                unfold stepT
                rw [hget]
                simp only [hmk', Bool.false_eq_true, if_false, hst, hfind, Option.getD_none]
              have hdd : (code.drop (k + 1)).drop (j + 1) = code.drop (k + 1 + j + 1) := by
                rw [List.drop_drop]; rfl
              rw [hdd] at h
              have hlab : code[k + 1 + j]? = some (.label tj l) := by
                have := findLabelJ_get _ _ _ _ _ hfl
                simpa [List.getElem?_drop] using this
              have hjlt : k + 1 + j < code.length := by omega
              have hdropj : code.drop (k + 1 + j) = .label tj l :: code.drop (k + 1 + j + 1) := by
                rw [List.drop_eq_getElem_cons hjlt]
                congr 1
                have := List.getElem?_eq_getElem hjlt
                rw [this] at hlab
                exact Option.some.inj hlab
              have hw1 : (((u.vm.waitTo tj).after j1.m).setTime tj).waitTo tj = ((u.vm.waitTo tj).after j1.m).setTime tj :=
                VM.waitTo_of_le (Int.le_refl _)
              have h' : execFrag F diff .run (code.drop (k + 1 + j))
                  ⟨((((u.vm.waitTo tj).after j1.m).setTime tj).waitTo tj).m, j1.cmp⟩ = .ok (e, j') := by
                rw [hw1, hdropj]
                simpa [execFrag, stepJ, JM.setTime, VM.setTime, VM.after] using h
              have hlog2 : j1.m.log.length ≤ j'.m.log.length := by
                have := execFrag_mono F diff _ _ _ _ _ h
                simpa [JM.setTime] using this
              have hchain : (((u.vm.waitTo tj).after j1.m).setTime tj).after j'.m = (u.vm.waitTo tj).after j'.m :=
                VM.after_chain _ _ _ rfl rfl hlog1 hlog2
              have hrec := ih (code.length - (k + 1 + j)) (by omega) (k + 1 + j)
                ⟨((u.vm.waitTo tj).after j1.m).setTime tj, j1.cmp⟩ j' e rfl (by omega) h'
              cases e with
              | fall =>
                obtain ⟨c, u', hr, hc, hw⟩ := hrec
                refine ⟨c + 1, u', .step _ _ _ _ _ _ _ hstep hr, hc, ?_⟩
                rw [hw, hw1, hchain]
              | jump l2 time2 =>
                intro i tl hi
                obtain ⟨c, hc1, this⟩ := hrec i tl hi
                rw [hw1, hchain] at this
                exact ⟨c + 1, by omega, .step _ _ _ _ _ _ _ hstep this⟩

/-- **execFrag_reachT**: `execFrag_reachTn` without the step count -/
theorem execFrag_reachT (F : FloatOps) (diff : Nat) (pre post : List (Int × JStmt)) (t : Int) (code : List JStmt)
    (hy : Hygienic (pre.map (·.2)) code) (htimes : ∀ x ∈ labelTimes code, x = t)
    (hjumps : ∀ p ∈ timedJumps code, p.1 ∉ labelsOf code) :
    ∀ (n k : Nat) (u : TVM) (j' : JM) (e : Exit), code.length - k = n → k ≤ code.length →
      execFrag F diff .run (code.drop k) ⟨(u.vm.waitTo t).m, u.cmp⟩ = .ok (e, j') →
      match e with
      | .fall => ∃ u', ReachT F diff (pre ++ (code.map (fun x => (t, x)) ++ post)) (pre.length + k) u (pre.length + code.length) u' ∧
          u'.cmp = j'.cmp ∧ u'.vm.waitTo t = (u.vm.waitTo t).after j'.m
      | .jump l time => ∀ i tl, findLabelJ ((pre ++ (code.map (fun x => (t, x)) ++ post)).map (·.2)) l 0 = some (i, tl) →
          ReachT F diff (pre ++ (code.map (fun x => (t, x)) ++ post)) (pre.length + k) u i
            ⟨((u.vm.waitTo t).after j'.m).setTime (time.getD tl), j'.cmp⟩ := by
  intro n k u j' e hn hk h
  have := execFrag_reachTn F diff pre post t code hy htimes hjumps n k u j' e hn hk h
  cases e with
  | fall => obtain ⟨c, u', hr, hc, hw⟩ := this; exact ⟨u', hr.toReachT, hc, hw⟩
  | jump l time => intro i tl hi; obtain ⟨c, _, hr⟩ := this i tl hi; exact hr.toReachT

end TruthModel.Lower
