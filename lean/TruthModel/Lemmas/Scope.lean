import TruthModel.Model.Scope
/-
Helper lemmas for C10: the rib stack seen as an environment.
-/
namespace TruthModel.Scope

/-! ## The rib stack as an environment -/

/-- what the user-made ribs of the `Vars` stack say about a name -/
def envOf : List Rib → Name → Option VEntry
  | [], _ => none
  | rib :: rest, n =>
    match rib.kind with
    | .barrier ik => (envOf rest n).map (hideEntry ik)
    | .locals => match rib.get n with
      | some d => some (.loc .local d)
      | none => envOf rest n
    | .params => match rib.get n with
      | some d => some (.loc .param d)
      | none => envOf rest n
    | .items => match rib.get n with
      | some d => some (.item d)
      | none => envOf rest n
    | _ => envOf rest n

def fenvOf : List Rib → Name → Option Def
  | [], _ => none
  | rib :: rest, n => match rib.get n with
    | some d => some d
    | none => fenvOf rest n

def UserRib (r : Rib) : Prop :=
  r.kind = .locals ∨ r.kind = .params ∨ r.kind = .items ∨ ∃ ik, r.kind = .barrier ik ∧ r.defs = []

def UserRibs (rs : List Rib) : Prop := ∀ r ∈ rs, UserRib r
def ItemRibs (rs : List Rib) : Prop := ∀ r ∈ rs, r.kind = .items
def NoLocals (rs : List Rib) : Prop := ∀ r ∈ rs, r.kind.holdsLocals = none

def hideOpt (c : Option ItemKind) (e : Option VEntry) : Option VEntry :=
  match c with
  | none => e
  | some ik => e.map (hideEntry ik)

def finishEntry (e : Option VEntry) (fallback : Except ErrClass Def) : Except ErrClass Def :=
  match e with
  | some (.loc _ d) => .ok d
  | some (.item d) => .ok d
  | some (.blocked k ik) => .error (.crossBarrier k ik)
  | none => fallback

theorem hideEntry_hideEntry (a b : ItemKind) (e : VEntry) : hideEntry a (hideEntry b e) = hideEntry a e := by
  cases e <;> rfl

theorem crossed_id (c : Option ItemKind) : (match c with | some x => some x | none => none) = c := by
  cases c <;> rfl

theorem resolve_crossed_irrelevant (l : Option Lang) (n : Name) (rs : List Rib) (h : NoLocals rs) :
    ∀ c, resolve l n c rs = resolve l n none rs := by
  induction rs with
  | nil => intro c; simp [resolve]
  | cons r rest ih =>
    intro c
    have hr : r.kind.holdsLocals = none := h r (by simp)
    have ih' := ih (fun x hx => h x (by simp [hx]))
    simp only [resolve, hr]
    cases hg : r.get n with
    | none => simp only []; rw [ih' _, ih' (RibKind.localBarrierCause r.kind)]
    | some d =>
      simp only []
      cases hk : r.kind <;> simp only [] <;> try rfl
      split
      · rfl
      · rw [ih' _, ih' (RibKind.localBarrierCause _)]

theorem resolve_user (l : Option Lang) (n : Name) (glob : List Rib) (hg : NoLocals glob) :
    ∀ (user : List Rib), UserRibs user → ∀ c,
      resolve l n c (user ++ glob) = finishEntry (hideOpt c (envOf user n)) (resolve l n none glob) := by
  intro user
  induction user with
  | nil =>
    intro _ c
    simp only [List.nil_append, envOf]
    rw [resolve_crossed_irrelevant l n glob hg c]
    cases c <;> rfl
  | cons r rest ih =>
    intro hu c
    have hr : UserRib r := hu r (by simp)
    have ih' := ih (fun x hx => hu x (by simp [hx]))
    obtain ⟨kind, defs⟩ := r
    rcases hr with hk | hk | hk | ⟨ik, hk, hd⟩
    · -- locals
      simp only at hk; subst hk
      simp only [List.cons_append, resolve, envOf, RibKind.localBarrierCause, RibKind.holdsLocals]
      cases hget : Rib.get ⟨.locals, defs⟩ n with
      | none => simp only []; cases c <;> exact ih' _
      | some d => cases c <;> rfl
    · -- params
      simp only at hk; subst hk
      simp only [List.cons_append, resolve, envOf, RibKind.localBarrierCause, RibKind.holdsLocals]
      cases hget : Rib.get ⟨.params, defs⟩ n with
      | none => simp only []; cases c <;> exact ih' _
      | some d => cases c <;> rfl
    · -- items
      simp only at hk; subst hk
      simp only [List.cons_append, resolve, envOf, RibKind.localBarrierCause, RibKind.holdsLocals]
      cases hget : Rib.get ⟨.items, defs⟩ n with
      | none => simp only []; cases c <;> exact ih' _
      | some d => cases c <;> rfl
    · -- barrier
      simp only at hk hd; subst hk; subst hd
      simp only [List.cons_append, resolve, envOf, RibKind.localBarrierCause, Rib.get, List.lookup]
      cases c with
      | none =>
        simp only []
        rw [ih' (some ik)]
        rfl
      | some c0 =>
        simp only []
        rw [ih' (some c0)]
        simp only [hideOpt, Option.map_map]
        congr 2
        funext e
        exact (hideEntry_hideEntry c0 ik e).symm

theorem resolve_fuser (l : Option Lang) (n : Name) (glob : List Rib) :
    ∀ (fuser : List Rib), ItemRibs fuser → ∀ c,
      resolve l n c (fuser ++ glob) =
        (match fenvOf fuser n with
         | some d => .ok d
         | none => resolve l n c glob) := by
  intro fuser
  induction fuser with
  | nil => intro _ c; simp [fenvOf]
  | cons r rest ih =>
    intro hu c
    have hk : r.kind = .items := hu r (by simp)
    have ih' := ih (fun x hx => hu x (by simp [hx]))
    obtain ⟨kind, defs⟩ := r
    simp only at hk; subst hk
    simp only [List.cons_append, resolve, fenvOf, RibKind.localBarrierCause, RibKind.holdsLocals]
    cases hget : Rib.get ⟨.items, defs⟩ n with
    | none => simp only []; cases c <;> exact ih' _
    | some d => rfl

/-! ## The global ribs -/

def lastEntry : List (Name × Def) → Name → Option Def
  | [], _ => none
  | e :: rest, n =>
    match lastEntry rest n with
    | some d => some d
    | none => if e.1 = n then some e.2 else none

theorem insert_get (r : Rib) (a : Name) (d : Def) (n : Name) :
    (r.insert a d).1.get n = if a = n then some d else r.get n := by
  simp only [Rib.insert, Rib.get, List.lookup]
  by_cases h : a = n
  · subst h; simp
  · have : (n == a) = false := by simp [beq_eq_false_iff_ne]; exact fun e => h e.symm
    simp [this, h]

theorem insert_kind (r : Rib) (a : Name) (d : Def) : (r.insert a d).1.kind = r.kind := rfl

theorem foldl_insert_get (es : List (Name × Def)) : ∀ (r : Rib) (n : Name),
    (es.foldl (fun r e => (r.insert e.1 e.2).1) r).get n =
      (match lastEntry es n with
       | some d => some d
       | none => r.get n) := by
  induction es with
  | nil => intro r n; simp [lastEntry]
  | cons e rest ih =>
    intro r n
    simp only [List.foldl_cons, lastEntry]
    rw [ih]
    cases lastEntry rest n with
    | some d => rfl
    | none =>
      simp only [insert_get]
      split <;> rfl

theorem foldl_insert_kind (es : List (Name × Def)) : ∀ (r : Rib),
    (es.foldl (fun r e => (r.insert e.1 e.2).1) r).kind = r.kind := by
  induction es with
  | nil => intro r; rfl
  | cons e rest ih => intro r; simp only [List.foldl_cons]; rw [ih]; rfl

theorem mkRib_get (k : RibKind) (es : List (Name × Def)) (n : Name) : (mkRib k es).get n = lastEntry es n := by
  simp only [mkRib, foldl_insert_get]
  cases lastEntry es n <;> rfl

theorem mkRib_kind (k : RibKind) (es : List (Name × Def)) : (mkRib k es).kind = k := by
  simp only [mkRib, foldl_insert_kind]; rfl

theorem lastEntry_alias (mk : Lang → Int → Def) (as : List (Lang × Name × Int)) (l : Lang) (n : Name) :
    lastEntry ((as.filter (fun a => a.1 == l)).map fun a => (a.2.1, mk l a.2.2)) n =
      (lastAlias as l n).map (mk l) := by
  induction as with
  | nil => rfl
  | cons a rest ih =>
    by_cases hl : a.1 = l
    · have : (a.1 == l) = true := by simp [hl]
      simp only [List.filter_cons, this, if_true, List.map_cons, lastEntry, lastAlias, ih]
      cases lastAlias rest l n with
      | some r => rfl
      | none =>
        simp only [Option.map_none, hl, true_and]
        split <;> rfl
    · have : (a.1 == l) = false := by simp [hl]
      simp only [List.filter_cons, this, lastAlias, Bool.false_eq_true, if_false]
      rw [ih]
      cases lastAlias rest l n with
      | some r => rfl
      | none => simp [hl]

theorem regRib_get (g : Globals) (l : Lang) (n : Name) :
    (g.regRib l).get n = (lastAlias g.regAliases l n).map (Def.regAlias l) := by
  simp only [Globals.regRib, mkRib_get]
  exact lastEntry_alias Def.regAlias g.regAliases l n

theorem insRib_get (g : Globals) (l : Lang) (n : Name) :
    (g.insRib l).get n = (lastAlias g.insAliases l n).map (Def.insAlias l) := by
  simp only [Globals.insRib, mkRib_get]
  exact lastEntry_alias Def.insAlias g.insAliases l n

theorem enumRib_get (g : Globals) (n : Name) :
    g.enumRib.get n = if g.enumConsts.any (fun p => p.2 == n) then some Def.enumDummy else none := by
  simp only [Globals.enumRib, mkRib_get]
  induction g.enumConsts with
  | nil => rfl
  | cons p rest ih =>
    simp only [List.map_cons, lastEntry, ih, List.any_cons]
    by_cases h1 : rest.any (fun p => p.2 == n) = true
    · simp [h1]
    · simp only [h1]
      by_cases h2 : p.2 = n <;> simp [h2]

theorem builtinRib_get (g : Globals) (n : Name) :
    g.builtinRib.get n = if g.builtins.contains n then some (Def.builtin n) else none := by
  simp only [Globals.builtinRib, mkRib_get]
  induction g.builtins with
  | nil => rfl
  | cons p rest ih =>
    simp only [List.map_cons, lastEntry, ih]
    by_cases h1 : n ∈ rest
    · simp [h1]
    · by_cases h2 : p = n
      · subst h2; simp [h1]
      · have : ¬ n = p := fun e => h2 e.symm
        simp [h1, h2, this]

/-- walking the mapfile ribs: only the rib of the use's own language can answer -/
theorem resolve_mapfile_ribs (mkRibOf : Lang → Rib) (look : Lang → Name → Option Def)
    (hk : ∀ l, (mkRibOf l).kind = .mapfile l) (hg : ∀ l n, (mkRibOf l).get n = look l n)
    (lang : Option Lang) (n : Name) : ∀ (ls : List Lang) (c : Option ItemKind),
    resolve lang n c (ls.map mkRibOf ++ [Rib.new .dummyRoot]) =
      (match lang with
       | none => .error .unknown
       | some l =>
         if ls.contains l then
           match look l n with
           | some d => .ok d
           | none => .error .unknown
         else .error .unknown) := by
  intro ls
  induction ls with
  | nil =>
    intro c
    cases lang <;> simp [resolve, Rib.new, Rib.get]
  | cons l' rest ih =>
    intro c
    simp only [List.map_cons, List.cons_append, resolve, hk, hg, RibKind.holdsLocals, RibKind.localBarrierCause]
    cases hlook : look l' n with
    | none =>
      simp only []
      rw [ih]
      cases lang with
      | none => rfl
      | some l =>
        simp only [List.contains_cons]
        by_cases hl : l = l'
        · subst hl; simp [hlook]
        · have : (l == l') = false := by simp [hl]
          simp [this]
    | some d =>
      simp only []
      cases lang with
      | none => simp only [reduceCtorEq, if_false]; rw [ih]
      | some l =>
        by_cases hl : l = l'
        · subst hl; simp [hlook]
        · have h1 : ¬ (some l = some l') := by simpa using hl
          have : (l == l') = false := by simp [hl]
          simp only [h1, if_false, List.contains_cons, this, Bool.false_or]
          rw [ih]

theorem initialVars_noLocals (g : Globals) : NoLocals g.initialVars := by
  intro r hr
  simp only [Globals.initialVars, List.mem_cons, List.mem_append, List.mem_map, List.mem_reverse,
    List.not_mem_nil, or_false] at hr
  rcases hr with h | h | ⟨l, _, h⟩ | h
  · subst h; simp [Globals.enumRib, mkRib_kind, RibKind.holdsLocals]
  · subst h; simp [Globals.builtinRib, mkRib_kind, RibKind.holdsLocals]
  · subst h; simp [Globals.regRib, mkRib_kind, RibKind.holdsLocals]
  · subst h; simp [Rib.new, RibKind.holdsLocals]

theorem initialFuncs_noLocals (g : Globals) : NoLocals g.initialFuncs := by
  intro r hr
  simp only [Globals.initialFuncs, List.mem_append, List.mem_map, List.mem_reverse,
    List.mem_cons, List.not_mem_nil, or_false] at hr
  rcases hr with ⟨l, _, h⟩ | h
  · subst h; simp [Globals.insRib, mkRib_kind, RibKind.holdsLocals]
  · subst h; simp [Rib.new, RibKind.holdsLocals]

theorem resolve_initialVars (g : Globals) (lang : Option Lang) (n : Name) :
    resolve lang n none g.initialVars = g.globalVar lang n := by
  have hk : ∀ l, (g.regRib l).kind = .mapfile l := fun l => by simp [Globals.regRib, mkRib_kind]
  have hke : g.enumRib.kind = .enumConsts := by simp [Globals.enumRib, mkRib_kind]
  have hkb : g.builtinRib.kind = .builtinConsts := by simp [Globals.builtinRib, mkRib_kind]
  have hrest : ∀ c, resolve lang n c (g.langs.reverse.map g.regRib ++ [Rib.new .dummyRoot]) =
      (match lang with
       | none => .error .unknown
       | some l =>
         if g.langs.contains l then
           match lastAlias g.regAliases l n with
           | some r => .ok (.regAlias l r)
           | none => .error .unknown
         else .error .unknown) := by
    intro c
    rw [resolve_mapfile_ribs g.regRib (fun l n => (lastAlias g.regAliases l n).map (Def.regAlias l)) hk
      (regRib_get g)]
    cases lang with
    | none => rfl
    | some l =>
      simp only [List.contains_reverse]
      split
      · cases lastAlias g.regAliases l n <;> rfl
      · rfl
  unfold Globals.initialVars Globals.globalVar
  by_cases h1 : g.enumConsts.any (fun p => p.2 == n) = true
  · simp only [resolve, enumRib_get, h1, if_true, hke, RibKind.holdsLocals]
  · by_cases h2 : g.builtins.contains n = true
    · simp only [resolve, enumRib_get, builtinRib_get, h1, h2, if_true, hkb, RibKind.holdsLocals]
      rfl
    · simp only [resolve, enumRib_get, builtinRib_get, h1, h2]
      exact hrest _

theorem resolve_initialFuncs (g : Globals) (lang : Option Lang) (n : Name) :
    resolve lang n none g.initialFuncs = g.globalFunc lang n := by
  have hk : ∀ l, (g.insRib l).kind = .mapfile l := fun l => by simp [Globals.insRib, mkRib_kind]
  simp only [Globals.initialFuncs, Globals.globalFunc]
  rw [resolve_mapfile_ribs g.insRib (fun l n => (lastAlias g.insAliases l n).map (Def.insAlias l)) hk
    (insRib_get g)]
  cases lang with
  | none => rfl
  | some l =>
    simp only [List.contains_reverse]
    split
    · cases lastAlias g.insAliases l n <;> rfl
    · rfl

/-! ## Agreement of a rib stack with an environment -/

def Agree (g : Globals) (st : Stacks) (env : Env) : Prop :=
  (∀ l n, resolve l n none st.vars = lookupVar g l env n) ∧
  (∀ l n, resolve l n none st.funcs = lookupFunc g l env n)

theorem agree_user (g : Globals) (user fuser : List Rib) (hu : UserRibs user) (hf : ItemRibs fuser) :
    Agree g ⟨user ++ g.initialVars, fuser ++ g.initialFuncs⟩ ⟨envOf user, fenvOf fuser⟩ := by
  constructor
  · intro l n
    simp only [lookupVar]
    rw [resolve_user l n g.initialVars (initialVars_noLocals g) user hu none, resolve_initialVars]
    simp only [hideOpt, finishEntry]
    cases envOf user n with
    | none => rfl
    | some e => cases e <;> rfl
  · intro l n
    simp only [lookupFunc]
    rw [resolve_fuser l n g.initialFuncs fuser hf none, resolve_initialFuncs]
    cases fenvOf fuser n <;> rfl

theorem visitUse_eq (g : Globals) (lang : Option Lang) (st : Stacks) (env : Env) (h : Agree g st env) (u : Use) :
    visitUse g lang st u = specUse g lang env u := by
  unfold visitUse specUse
  cases u.enumQual with
  | some e => rfl
  | none =>
    simp only []
    unfold visitUseScoped specUseScoped
    cases u.ns with
    | vars => simp only []; rw [h.1]
    | funcs => simp only []; rw [h.2]

/-- the two resolvers look every identifier up alike, hence walk every expression alike -/
theorem visitUses_eq (g : Globals) (lang : Option Lang) (st : Stacks) (env : Env) (h : Agree g st env)
    (c : Option Name) (es : List Expr) :
    walkExprs g lang (visitUse g lang st) c es = walkExprs g lang (specUse g lang env) c es := by
  have : visitUse g lang st = specUse g lang env := funext (visitUse_eq g lang st env h)
  rw [this]

/-! ## Adding declarations to the top rib -/

def hereOf (L : List (Name × Def)) : Name → Bool := fun n => (L.lookup n).isSome

theorem lookup_cons_eq (a : Name) (d : Def) (L : List (Name × Def)) (n : Name) :
    List.lookup n ((a, d) :: L) = if n = a then some d else List.lookup n L := by
  simp only [List.lookup]
  by_cases h : n = a
  · subst h; simp
  · have : (n == a) = false := by simp [h]
    simp [this, h]

theorem hereOf_cons (a : Name) (d : Def) (L : List (Name × Def)) :
    hereOf ((a, d) :: L) = fun n => decide (n = a) || hereOf L n := by
  funext n
  simp only [hereOf, lookup_cons_eq]
  by_cases h : n = a <;> simp [h]

theorem hereOf_nil : hereOf [] = fun _ => false := by
  funext n; rfl

theorem addToRib_top (k : RibKind) (ns : Ns) (noun : Noun) (h : ribNoun k ns = some noun)
    (L : List (Name × Def)) (rest : List Rib) (id : Nat) (name : Name) :
    addToRib (⟨k, L⟩ :: rest) k ns id name =
      (⟨k, (name, .decl id) :: L⟩ :: rest, if hereOf L name then [.redef id noun] else []) := by
  simp only [addToRib, ne_eq, not_true_eq_false, if_false, Rib.insert, Rib.get, h]
  congr 1
  have hh : hereOf L name = (List.lookup name L).isSome := rfl
  cases hl : List.lookup name L with
  | none => simp [hh, hl]
  | some v => simp [hh, hl]

theorem envOf_push (k : RibKind) (lk : LocalKind) (hk : (k = .locals ∧ lk = .local) ∨ (k = .params ∧ lk = .param))
    (a : Name) (d : Def) (L : List (Name × Def)) (user : List Rib) :
    envOf (⟨k, (a, d) :: L⟩ :: user) = update (envOf (⟨k, L⟩ :: user)) a (.loc lk d) := by
  funext n
  rcases hk with ⟨h1, h2⟩ | ⟨h1, h2⟩ <;> subst h1 <;> subst h2 <;>
    simp only [envOf, Rib.get, lookup_cons_eq, update] <;>
    by_cases h : n = a <;> simp [h]

theorem userRibs_cons (r : Rib) (user : List Rib) (hr : UserRib r) (hu : UserRibs user) : UserRibs (r :: user) := by
  intro x hx
  simp only [List.mem_cons] at hx
  rcases hx with h | h
  · subst h; exact hr
  · exact hu x h

theorem itemRibs_cons (L : List (Name × Def)) (fuser : List Rib) (hf : ItemRibs fuser) : ItemRibs (⟨.items, L⟩ :: fuser) := by
  intro x hx
  simp only [List.mem_cons] at hx
  rcases hx with h | h
  · subst h; rfl
  · exact hf x h

theorem userRib_locals (L : List (Name × Def)) : UserRib ⟨.locals, L⟩ := Or.inl rfl
theorem userRib_params (L : List (Name × Def)) : UserRib ⟨.params, L⟩ := Or.inr (Or.inl rfl)
theorem userRib_items (L : List (Name × Def)) : UserRib ⟨.items, L⟩ := Or.inr (Or.inr (Or.inl rfl))
theorem userRib_barrier (ik : ItemKind) : UserRib ⟨.barrier ik, []⟩ := Or.inr (Or.inr (Or.inr ⟨ik, rfl, rfl⟩))

/-! ## Local declarations -/

def pushLocals : List DeclVar → List (Name × Def) → List (Name × Def)
  | [], L => L
  | v :: vs, L => pushLocals vs ((v.name, .decl v.id) :: L)

theorem visitDeclVars_eq (g : Globals) (lang : Option Lang) (user fuser : List Rib)
    (hu : UserRibs user) (hf : ItemRibs fuser) :
    ∀ (vars : List DeclVar) (L : List (Name × Def)),
      visitDeclVars g lang ⟨⟨.locals, L⟩ :: (user ++ g.initialVars), fuser ++ g.initialFuncs⟩ vars =
        (⟨⟨.locals, pushLocals vars L⟩ :: (user ++ g.initialVars), fuser ++ g.initialFuncs⟩,
          (specDeclVars g lang ⟨envOf (⟨.locals, L⟩ :: user), fenvOf fuser⟩ (hereOf L) vars).2) ∧
      (specDeclVars g lang ⟨envOf (⟨.locals, L⟩ :: user), fenvOf fuser⟩ (hereOf L) vars).1 =
        (⟨envOf (⟨.locals, pushLocals vars L⟩ :: user), fenvOf fuser⟩, hereOf (pushLocals vars L)) := by
  intro vars
  induction vars with
  | nil => intro L; exact ⟨rfl, rfl⟩
  | cons v vs ih =>
    intro L
    have hag := agree_user g (⟨.locals, L⟩ :: user) fuser (userRibs_cons _ _ (userRib_locals L) hu) hf
    rw [List.cons_append] at hag
    have hpush := envOf_push .locals .local (Or.inl ⟨rfl, rfl⟩) v.name (.decl v.id) L user
    have hhere := hereOf_cons v.name (.decl v.id) L
    obtain ⟨ih1, ih2⟩ := ih ((v.name, .decl v.id) :: L)
    simp only [visitDeclVars, specDeclVars, pushLocals]
    rw [addToRib_top .locals .vars .local rfl]
    simp only []
    rw [← hpush, ← hhere] at *
    rw [ih1, ih2]
    refine ⟨?_, rfl⟩
    rw [visitUses_eq g lang _ _ hag]

/-! ## Parameters -/

def pushParams : List (Nat × Name) → List (Name × Def) → List (Name × Def)
  | [], L => L
  | p :: ps, L => pushParams ps ((p.2, .decl p.1) :: L)

theorem addParams_eq (user1 glob : List Rib) (fs : List Rib) (fenv : Name → Option Def) :
    ∀ (ps : List (Nat × Name)) (P : List (Name × Def)),
      addParams ⟨⟨.params, P⟩ :: (user1 ++ glob), fs⟩ ps =
        (⟨⟨.params, pushParams ps P⟩ :: (user1 ++ glob), fs⟩,
          (specParams ⟨envOf (⟨.params, P⟩ :: user1), fenv⟩ (hereOf P) ps).2) ∧
      (specParams ⟨envOf (⟨.params, P⟩ :: user1), fenv⟩ (hereOf P) ps).1 =
        ⟨envOf (⟨.params, pushParams ps P⟩ :: user1), fenv⟩ := by
  intro ps
  induction ps with
  | nil => intro P; exact ⟨rfl, rfl⟩
  | cons p ps ih =>
    intro P
    have hpush := envOf_push .params .param (Or.inr ⟨rfl, rfl⟩) p.2 (.decl p.1) P user1
    have hhere := hereOf_cons p.2 (.decl p.1) P
    obtain ⟨ih1, ih2⟩ := ih ((p.2, .decl p.1) :: P)
    simp only [addParams, specParams, pushParams]
    rw [addToRib_top .params .vars .param rfl]
    simp only []
    rw [← hpush, ← hhere] at *
    rw [ih1, ih2]
    exact ⟨rfl, rfl⟩

/-! ## Item pre-declaration -/

def pushItems (ns : Ns) : List (Ns × Nat × Name) → List (Name × Def) → List (Name × Def)
  | [], L => L
  | d :: ds, L => pushItems ns ds (if d.1 = ns then (d.2.2, .decl d.2.1) :: L else L)

def seenOf (V F : List (Name × Def)) : Ns → Name → Bool
  | .vars, n => hereOf V n
  | .funcs, n => hereOf F n

theorem seenOf_push_vars (V F : List (Name × Def)) (a : Name) (d : Def) :
    (fun ns' n' => decide (ns' = Ns.vars ∧ n' = a) || seenOf V F ns' n') = seenOf ((a, d) :: V) F := by
  funext ns' n'
  cases ns' <;> simp [seenOf, hereOf_cons]

theorem seenOf_push_funcs (V F : List (Name × Def)) (a : Name) (d : Def) :
    (fun ns' n' => decide (ns' = Ns.funcs ∧ n' = a) || seenOf V F ns' n') = seenOf V ((a, d) :: F) := by
  funext ns' n'
  cases ns' <;> simp [seenOf, hereOf_cons]

theorem pushItems_append (ns : Ns) : ∀ (a b : List (Ns × Nat × Name)) (L : List (Name × Def)),
    pushItems ns (a ++ b) L = pushItems ns b (pushItems ns a L) := by
  intro a
  induction a with
  | nil => intro b L; rfl
  | cons d ds ih => intro b L; simp only [List.cons_append, pushItems]; rw [ih]

def dv (v : DeclVar) : Ns × Nat × Name := (Ns.vars, v.id, v.name)

theorem pushItems_funcs_consts (vars : List DeclVar) : ∀ (F : List (Name × Def)),
    pushItems .funcs (vars.map dv) F = F := by
  induction vars with
  | nil => intro F; rfl
  | cons v vs ih => intro F; simp only [List.map_cons, pushItems, dv, reduceCtorEq, if_false]; exact ih F

theorem addConstVars_eq (vs frest : List Rib) (F : List (Name × Def)) :
    ∀ (vars : List DeclVar) (V : List (Name × Def)) (tail : List (Ns × Nat × Name)),
      (addConstVars ⟨⟨.items, V⟩ :: vs, ⟨.items, F⟩ :: frest⟩ vars).1 =
        ⟨⟨.items, pushItems .vars (vars.map dv) V⟩ :: vs, ⟨.items, F⟩ :: frest⟩ ∧
      (addConstVars ⟨⟨.items, V⟩ :: vs, ⟨.items, F⟩ :: frest⟩ vars).2 ++
          declEvents itemNoun (seenOf (pushItems .vars (vars.map dv) V) F) tail =
        declEvents itemNoun (seenOf V F) (vars.map dv ++ tail) := by
  intro vars
  induction vars with
  | nil => intro V tail; exact ⟨rfl, rfl⟩
  | cons v vs' ih =>
    intro V tail
    obtain ⟨ih1, ih2⟩ := ih ((v.name, .decl v.id) :: V) tail
    simp only [addConstVars, List.map_cons, pushItems, dv, if_true, List.cons_append, declEvents]
    rw [addToRib_top .items .vars .const rfl]
    refine ⟨ih1, ?_⟩
    rw [seenOf_push_vars V F v.name (.decl v.id)]
    rw [← ih2]
    simp [seenOf, itemNoun, List.append_assoc]
    rfl

theorem addItems_eq (vs frest : List Rib) :
    ∀ (b : List Stmt) (V F : List (Name × Def)),
      addItems ⟨⟨.items, V⟩ :: vs, ⟨.items, F⟩ :: frest⟩ b =
        (⟨⟨.items, pushItems .vars (itemDecls b) V⟩ :: vs, ⟨.items, pushItems .funcs (itemDecls b) F⟩ :: frest⟩,
          declEvents itemNoun (seenOf V F) (itemDecls b)) := by
  intro b
  induction b with
  | nil => intro V F; rfl
  | cons s ss ih =>
    intro V F
    cases s with
    | expr us => simp only [addItems, addItemToScope, itemDecls, List.nil_append]; rw [ih]
    | decl vars => simp only [addItems, addItemToScope, itemDecls, List.nil_append]; rw [ih]
    | block b' => simp only [addItems, addItemToScope, itemDecls, List.nil_append]; rw [ih]
    | script b' => simp only [addItems, addItemToScope, itemDecls, List.nil_append]; rw [ih]
    | func id name qual params body =>
      simp only [addItems, addItemToScope, itemDecls, pushItems, reduceCtorEq, if_false, if_true, declEvents]
      rw [addToRib_top .items .funcs .func rfl]
      simp only []
      rw [ih, seenOf_push_funcs V F name (.decl id)]
      simp only [seenOf, itemNoun]
      rfl
    | funcDecl id name qual params =>
      simp only [addItems, addItemToScope, itemDecls, pushItems, reduceCtorEq, if_false, if_true, declEvents]
      rw [addToRib_top .items .funcs .func rfl]
      simp only []
      rw [ih, seenOf_push_funcs V F name (.decl id)]
      simp only [seenOf, itemNoun]
      rfl
    | const vars =>
      obtain ⟨h1, h2⟩ := addConstVars_eq vs frest F vars V (itemDecls ss)
      simp only [addItems, addItemToScope, itemDecls]
      rw [show (fun v : DeclVar => (Ns.vars, v.id, v.name)) = dv from rfl]
      rw [h1, ih, pushItems_append, pushItems_append, pushItems_funcs_consts]
      simp only [Prod.mk.injEq, true_and]
      exact h2

theorem lookup_pushItems (ns : Ns) (n : Name) : ∀ (ds : List (Ns × Nat × Name)) (L : List (Name × Def)),
    List.lookup n (pushItems ns ds L) =
      (match lastDecl ds ns n with
       | some id => some (.decl id)
       | none => List.lookup n L) := by
  intro ds
  induction ds with
  | nil => intro L; rfl
  | cons d ds ih =>
    intro L
    simp only [pushItems, lastDecl]
    rw [ih]
    cases lastDecl ds ns n with
    | some id => rfl
    | none =>
      simp only []
      by_cases h1 : d.1 = ns
      · simp only [h1, if_true, lookup_cons_eq, true_and]
        by_cases h2 : d.2.2 = n
        · simp [h2]
        · have : ¬ n = d.2.2 := fun e => h2 e.symm
          simp [h2, this]
      · simp [h1]

theorem envOf_locals_nil (user : List Rib) : envOf (⟨.locals, []⟩ :: user) = envOf user := by
  funext n; simp [envOf, Rib.get]

theorem withItems_eq (user fuser : List Rib) (ds : List (Ns × Nat × Name)) :
    (Env.withItems ⟨envOf user, fenvOf fuser⟩ ds) =
      ⟨envOf (⟨.locals, []⟩ :: ⟨.items, pushItems .vars ds []⟩ :: user),
        fenvOf (⟨.items, pushItems .funcs ds []⟩ :: fuser)⟩ := by
  simp only [Env.withItems, envOf_locals_nil]
  congr 1
  · funext n
    simp only [envOf, Rib.get, lookup_pushItems]
    cases lastDecl ds .vars n <;> rfl
  · funext n
    simp only [fenvOf, Rib.get, lookup_pushItems]
    cases lastDecl ds .funcs n <;> rfl

/-! ## The visitor computes the specification -/

theorem visitBlock_def (g : Globals) (lang : Option Lang) (st : Stacks) (b : List Stmt) :
    visitBlock g lang st b = (enterBlock st b).2 ++ visitStmts g lang (enterBlock st b).1 b := rfl

theorem specBlock_def (g : Globals) (lang : Option Lang) (env : Env) (b : List Stmt) :
    specBlock g lang env b = declEvents itemNoun (fun _ _ => false) (itemDecls b) ++
      specStmts g lang (env.withItems (itemDecls b)) (fun _ => false) b := rfl

/-- the statement-list property at one list -/
def StmtsOK (g : Globals) (ss : List Stmt) : Prop :=
  ∀ (lang : Option Lang) (user fuser : List Rib) (L : List (Name × Def)), UserRibs user → ItemRibs fuser →
    visitStmts g lang ⟨⟨.locals, L⟩ :: (user ++ g.initialVars), fuser ++ g.initialFuncs⟩ ss =
      specStmts g lang ⟨envOf (⟨.locals, L⟩ :: user), fenvOf fuser⟩ (hereOf L) ss

theorem visitBlock_of_stmts (g : Globals) (b : List Stmt) (h : StmtsOK g b)
    (lang : Option Lang) (user fuser : List Rib) (hu : UserRibs user) (hf : ItemRibs fuser) :
    visitBlock g lang ⟨user ++ g.initialVars, fuser ++ g.initialFuncs⟩ b =
      specBlock g lang ⟨envOf user, fenvOf fuser⟩ b := by
  unfold visitBlock specBlock enterBlock
  simp only [Rib.new]
  rw [addItems_eq]
  have h' := h lang (⟨.items, pushItems .vars (itemDecls b) []⟩ :: user)
    (⟨.items, pushItems .funcs (itemDecls b) []⟩ :: fuser) []
    (userRibs_cons _ _ (userRib_items _) hu) (itemRibs_cons _ _ hf)
  simp only [List.cons_append] at h'
  rw [h', withItems_eq, hereOf_nil]
  congr 1
  show declEvents itemNoun (seenOf [] []) (itemDecls b) = _
  congr 1
  funext ns n
  cases ns <;> rfl

/-- the statement property: the rib stacks afterwards describe the environment afterwards -/
def StmtOK (g : Globals) (s : Stmt) : Prop :=
  ∀ (lang : Option Lang) (user fuser : List Rib) (L : List (Name × Def)), UserRibs user → ItemRibs fuser →
    ∃ L', visitStmt g lang ⟨⟨.locals, L⟩ :: (user ++ g.initialVars), fuser ++ g.initialFuncs⟩ s =
        (⟨⟨.locals, L'⟩ :: (user ++ g.initialVars), fuser ++ g.initialFuncs⟩,
          (specStmt g lang ⟨envOf (⟨.locals, L⟩ :: user), fenvOf fuser⟩ (hereOf L) s).2) ∧
      (specStmt g lang ⟨envOf (⟨.locals, L⟩ :: user), fenvOf fuser⟩ (hereOf L) s).1 =
        (⟨envOf (⟨.locals, L'⟩ :: user), fenvOf fuser⟩, hereOf L')

/-- statements that do not declare a local: they work on any stack of user ribs and leave it alone -/
def FreeStmtOK (g : Globals) (s : Stmt) : Prop :=
  ∀ (lang : Option Lang) (user fuser : List Rib) (here : Name → Bool), UserRibs user → ItemRibs fuser →
    visitStmt g lang ⟨user ++ g.initialVars, fuser ++ g.initialFuncs⟩ s =
        (⟨user ++ g.initialVars, fuser ++ g.initialFuncs⟩,
          (specStmt g lang ⟨envOf user, fenvOf fuser⟩ here s).2) ∧
      (specStmt g lang ⟨envOf user, fenvOf fuser⟩ here s).1 = (⟨envOf user, fenvOf fuser⟩, here)

theorem stmtOK_of_free (g : Globals) (s : Stmt) (h : FreeStmtOK g s) : StmtOK g s := by
  intro lang user fuser L hu hf
  obtain ⟨h1, h2⟩ := h lang (⟨.locals, L⟩ :: user) fuser (hereOf L) (userRibs_cons _ _ (userRib_locals L) hu) hf
  rw [List.cons_append] at h1
  exact ⟨L, h1, h2⟩

theorem freeOK_funcDecl (g : Globals) (id : Nat) (name : Name) (qual : FuncQual) (params : List (Nat × Name)) :
    FreeStmtOK g (.funcDecl id name qual params) := by
  intro lang user fuser here hu hf
  exact ⟨by simp only [visitStmt, specStmt], by simp only [specStmt]⟩

theorem freeOK_expr (g : Globals) (us : List Expr) : FreeStmtOK g (.expr us) := by
  intro lang user fuser here hu hf
  have hag := agree_user g user fuser hu hf
  refine ⟨?_, by simp only [specStmt]⟩
  simp only [visitStmt, specStmt]
  rw [visitUses_eq g lang _ _ hag]

theorem stmtOK_decl (g : Globals) (vars : List DeclVar) : StmtOK g (.decl vars) := by
  intro lang user fuser L hu hf
  obtain ⟨h1, h2⟩ := visitDeclVars_eq g lang user fuser hu hf vars L
  exact ⟨pushLocals vars L, by simp only [visitStmt, specStmt]; exact h1, by simp only [specStmt]; exact h2⟩

theorem freeOK_block (g : Globals) (b : List Stmt) (h : StmtsOK g b) : FreeStmtOK g (.block b) := by
  intro lang user fuser here hu hf
  refine ⟨?_, by simp only [specStmt]⟩
  simp only [visitStmt, specStmt, ← visitBlock_def, ← specBlock_def]
  rw [visitBlock_of_stmts g b h lang user fuser hu hf]

theorem freeOK_script (g : Globals) (b : List Stmt) (h : StmtsOK g b) : FreeStmtOK g (.script b) := by
  intro lang user fuser here hu hf
  refine ⟨?_, by simp only [specStmt]⟩
  simp only [visitStmt, specStmt, ← visitBlock_def, ← specBlock_def]
  rw [visitBlock_of_stmts g b h (some g.scriptsLang) user fuser hu hf]

theorem flatMap_congr_mem {α β} (l : List α) (f g : α → List β) (h : ∀ a ∈ l, f a = g a) :
    l.flatMap f = l.flatMap g := by
  induction l with
  | nil => rfl
  | cons a l ih =>
    simp only [List.flatMap_cons]
    rw [h a (by simp), ih (fun x hx => h x (by simp [hx]))]

theorem freeOK_const (g : Globals) (vars : List DeclVar) : FreeStmtOK g (.const vars) := by
  intro lang user fuser here hu hf
  refine ⟨?_, by simp only [specStmt]⟩
  have hag := agree_user g (⟨.barrier .const, []⟩ :: user) fuser
    (userRibs_cons _ _ (userRib_barrier .const) hu) hf
  simp only [List.cons_append] at hag
  have henv : (Env.hide .const ⟨envOf user, fenvOf fuser⟩) =
      ⟨envOf (⟨.barrier .const, []⟩ :: user), fenvOf fuser⟩ := by
    simp only [Env.hide]
    congr 1
  simp only [visitStmt, specStmt, Rib.new]
  rw [henv]
  congr 1
  apply flatMap_congr_mem
  intro v _
  exact visitUses_eq g none _ _ hag none v.init

theorem freeOK_func (g : Globals) (id : Nat) (name : Name) (qual : FuncQual) (params : List (Nat × Name))
    (body : List Stmt) (h : StmtsOK g body) : FreeStmtOK g (.func id name qual params body) := by
  intro lang user fuser here hu hf
  refine ⟨?_, by simp only [specStmt]⟩
  let user1 : List Rib := ⟨.barrier .function, []⟩ :: user
  have hu1 : UserRibs user1 := userRibs_cons _ _ (userRib_barrier .function) hu
  obtain ⟨hp1, hp2⟩ := addParams_eq user1 g.initialVars (fuser ++ g.initialFuncs) (fenvOf fuser) params []
  have henv : (Env.hide .function ⟨envOf user, fenvOf fuser⟩) =
      ⟨envOf (⟨.params, []⟩ :: user1), fenvOf fuser⟩ := by
    simp only [Env.hide]
    congr 1
  have hblock := visitBlock_of_stmts g body h (funcLang g qual) (⟨.params, pushParams params []⟩ :: user1) fuser
    (userRibs_cons _ _ (userRib_params _) hu1) hf
  simp only [visitStmt, specStmt, Rib.new, ← visitBlock_def, ← specBlock_def]
  rw [henv, hereOf_nil.symm]
  simp only [user1, List.cons_append] at hp1 hp2 hblock ⊢
  rw [hp1, hp2]
  simp only []
  rw [hblock]

mutual
theorem visitStmt_eq (g : Globals) : ∀ (s : Stmt), StmtOK g s
  | .expr us => stmtOK_of_free g _ (freeOK_expr g us)
  | .decl vars => stmtOK_decl g vars
  | .block b => stmtOK_of_free g _ (freeOK_block g b (visitStmts_eq g b))
  | .func id name qual params body =>
    stmtOK_of_free g _ (freeOK_func g id name qual params body (visitStmts_eq g body))
  | .const vars => stmtOK_of_free g _ (freeOK_const g vars)
  | .script b => stmtOK_of_free g _ (freeOK_script g b (visitStmts_eq g b))
  | .funcDecl id name qual params => stmtOK_of_free g _ (freeOK_funcDecl g id name qual params)
theorem visitStmts_eq (g : Globals) : ∀ (ss : List Stmt), StmtsOK g ss
  | [] => by intro lang user fuser L _ _; simp [visitStmts, specStmts]
  | s :: ss => by
    intro lang user fuser L hu hf
    obtain ⟨L', h1, h2⟩ := visitStmt_eq g s lang user fuser L hu hf
    have h3 := visitStmts_eq g ss lang user fuser L' hu hf
    simp only [visitStmts, specStmts]
    rw [h1, h2]
    simp only []
    rw [h3]
end

theorem visitBlock_eq (g : Globals) (b : List Stmt) (lang : Option Lang) (user fuser : List Rib)
    (hu : UserRibs user) (hf : ItemRibs fuser) :
    visitBlock g lang ⟨user ++ g.initialVars, fuser ++ g.initialFuncs⟩ b =
      specBlock g lang ⟨envOf user, fenvOf fuser⟩ b :=
  visitBlock_of_stmts g b (visitStmts_eq g b) lang user fuser hu hf

def Stmt.isDecl : Stmt → Bool
  | .decl _ => true
  | _ => false

theorem freeOK_of_not_decl (g : Globals) (s : Stmt) (h : s.isDecl = false) : FreeStmtOK g s := by
  cases s with
  | expr us => exact freeOK_expr g us
  | decl vars => simp [Stmt.isDecl] at h
  | block b => exact freeOK_block g b (visitStmts_eq g b)
  | func id name qual params body => exact freeOK_func g id name qual params body (visitStmts_eq g body)
  | const vars => exact freeOK_const g vars
  | script b => exact freeOK_script g b (visitStmts_eq g b)
  | funcDecl id name qual params => exact freeOK_funcDecl g id name qual params

/-- a list of statements without local declarations, on any stack of user ribs (the file level) -/
theorem visitStmts_free (g : Globals) : ∀ (ss : List Stmt), (∀ s ∈ ss, s.isDecl = false) →
    ∀ (lang : Option Lang) (user fuser : List Rib) (here : Name → Bool), UserRibs user → ItemRibs fuser →
      visitStmts g lang ⟨user ++ g.initialVars, fuser ++ g.initialFuncs⟩ ss =
        specStmts g lang ⟨envOf user, fenvOf fuser⟩ here ss := by
  intro ss
  induction ss with
  | nil => intro _ lang user fuser here _ _; simp [visitStmts, specStmts]
  | cons s ss ih =>
    intro hd lang user fuser here hu hf
    obtain ⟨h1, h2⟩ := freeOK_of_not_decl g s (hd s (by simp)) lang user fuser here hu hf
    have h3 := ih (fun x hx => hd x (by simp [hx])) lang user fuser here hu hf
    simp only [visitStmts, specStmts]
    rw [h1, h2]
    simp only []
    rw [h3]

end TruthModel.Scope
