import TruthModel.Model.Types
/-
Helper lemmas for C09 (`Props/C09.lean`): each executable check succeeds exactly when the
corresponding declarative rule applies; the mutual inductions over expressions / argument lists.
-/
namespace TruthModel.C09
open TruthModel TruthModel.Types
set_option linter.unusedSimpArgs false

theorem bind_eq_ok {α β} (x : Outcome α) (f : α → Outcome β) (b : β) :
    (x >>= f) = .ok b ↔ ∃ a, x = .ok a ∧ f a = .ok b := by
  cases x <;> simp

theorem checkVar_ok_iff (inh : VarTy) (sig : Option Sigil) (t : Ty) :
    checkVar inh sig = .ok t ↔ ReadTy inh sig t := by
  cases sig with
  | none =>
    cases inh with
    | untyped => simp [checkVar, readTy, ReadTy]
    | typed u => cases u <;> simp [checkVar, readTy, ReadTy, eq_comm]
  | some s =>
    cases inh with
    | untyped => simp [checkVar, readTy, ReadTy, eq_comm]
    | typed u => cases u <;> simp [checkVar, readTy, ReadTy, eq_comm]

theorem checkVar_readTy {inh : VarTy} {sig : Option Sigil} {t : Ty}
    (h : checkVar inh sig = .ok t) : readTy inh sig = .typed t := by
  cases sig with
  | none =>
    cases inh with
    | untyped => simp [checkVar, readTy] at h
    | typed u => cases u <;> simp_all [checkVar, readTy]
  | some s =>
    cases inh with
    | untyped => simp_all [checkVar, readTy]
    | typed u => cases u <;> simp_all [checkVar, readTy]

theorem binopCheck_ok_iff (op : BinOp) (a b : Ty) :
    binopCheck op a b = .ok () ↔ (a = b ∧ ∃ t', BinopTy op a t') := by
  cases op <;> cases a <;> cases b <;>
    simp [binopCheck, BinOp.cls, requireNumeric, requireExact, requireSame, BinopTy, Numeric]

theorem unopCheck_ok_iff (op : UnOp) (t : Ty) :
    unopCheck op t = .ok () ↔ ∃ t', UnopTy op t t' := by
  cases op <;> cases t <;> simp [unopCheck, requireNumeric, requireExact, UnopTy, Numeric]

theorem binopTyWith_iff (op : BinOp) (a t' : Ty) (h : ∃ u, BinopTy op a u) :
    binopTyWith op (fun _ => .ok a) = .ok t' ↔ BinopTy op a t' := by
  cases op <;> cases a <;> cases t' <;> simp_all [binopTyWith, BinOp.cls, BinopTy, Numeric]

theorem unopTyWith_iff (op : UnOp) (a t' : Ty) (h : ∃ u, UnopTy op a u) :
    unopTyWith op (fun _ => .ok a) = .ok t' ↔ UnopTy op a t' := by
  cases op <;> cases a <;> cases t' <;> simp_all [unopTyWith, UnopTy, Numeric]

theorem checkAssignable_ok_iff (Γ : Ctx) (v : VarRef) :
    checkAssignable Γ v = .ok () ↔ Assignable Γ v := by
  unfold checkAssignable Assignable
  cases v.isReg <;> cases Γ.isConst v.id <;> simp

theorem requireExact_ok_iff' (t u : Ty) : requireExact t u = .ok () ↔ t = u := by
  unfold requireExact; split <;> simp_all

theorem checkValue_ok (Γ : Ctx) (a : TExpr) (t : Ty) :
    (check Γ a >>= requireValue) = .ok t ↔ check Γ a = .ok (.value t) := by
  rw [bind_eq_ok]
  constructor
  · rintro ⟨e, he, hv⟩
    cases e <;> simp_all [requireValue]
  · intro h; exact ⟨_, h, rfl⟩


theorem minArgs_all_optional (ps : List Param) (h : ps.all (·.optional) = true) : minArgs ps = 0 := by
  induction ps with
  | nil => rfl
  | cons p ps ih => simp_all [minArgs]

theorem required_of_minArgs_zero (ps : List Param) (h : minArgs ps = 0) : required ps = [] := by
  induction ps with
  | nil => rfl
  | cons p ps ih =>
    simp only [minArgs] at h
    by_cases hp : p.optional
    · simp_all [required]
    · simp [hp] at h

theorem paramCheck_ok_iff (p : Param) (t : Ty) : paramCheck p t = .ok () ↔ ParamAccepts p t := by
  unfold paramCheck ParamAccepts
  cases hp : p.ty with
  | untyped => simp
  | typed u => by_cases h : t = u <;> simp [h, eq_comm]

/-! ### `compute_ty` on accepted expressions -/

theorem mem_subsE_self : (e : TExpr) → e ∈ subsE e
  | .litI _ | .litF _ | .litS _ | .reg _ _ | .var _ _ | .unop _ _ | .binop _ _ _ | .ternary _ _ _
  | .call _ _ | .diffSwitch _ _ | .xcrement _ _ _ | .enumConst _ _ | .labelProp _ | .callx _ _ _ _ => by
    simp [subsE]

/-- `check_expr` can only accept a write to a constant through `++` / `--`, and only while it does
not look at the operand's assignability: either it does (switch on, the code since e098828), or no
`++` / `--` among the expressions `L` has a constant operand -/
def XOk (Γ : Ctx) (L : List TExpr) : Prop :=
  checksXcrementTarget = true ∨ ∀ pre inc v, .xcrement pre inc v ∈ L → Assignable Γ v

theorem XOk.mono {Γ : Ctx} {L L' : List TExpr} (h : XOk Γ L) (hs : ∀ y, y ∈ L' → y ∈ L) : XOk Γ L' :=
  h.imp id (fun hn pre inc v hm => hn pre inc v (hs _ hm))

/-- `compute_ty` and `check_expr` can only disagree at a qualified constant of a string enum:
either `compute_ty` asks `enum_ty` (switch off), or no such constant occurs in `e` -/
def EnumOk (Γ : Ctx) (e : TExpr) : Prop := computeTyEnumIsInt = false ∨ NoStrEnumConst Γ e

theorem EnumOk.sub {Γ : Ctx} {e x : TExpr} (h : EnumOk Γ e) (hs : ∀ y, y ∈ subsE x → y ∈ subsE e) :
    EnumOk Γ x :=
  h.imp id (fun hn en n hm => hn en n (hs _ hm))

theorem unopTyWith_computeTy (Γ : Ctx) (op : UnOp) (x : TExpr) (tx : Ty)
    (hu : unopCheck op tx = .ok ()) (hc : tx ≠ .str → computeTy Γ x = .ok (.value tx)) :
    unopTyWith op (fun _ => expectValue (computeTy Γ x)) = unopTyWith op (fun _ => .ok tx) := by
  cases op <;> simp only [unopTyWith]
  cases tx <;> simp [unopCheck, requireNumeric] at hu <;> simp [hc, expectValue]

theorem binopTyWith_computeTy (Γ : Ctx) (op : BinOp) (a : TExpr) (ta tb : Ty)
    (hu : binopCheck op ta tb = .ok ()) (hc : ta ≠ .str → computeTy Γ a = .ok (.value ta)) :
    binopTyWith op (fun _ => expectValue (computeTy Γ a)) = binopTyWith op (fun _ => .ok ta) := by
  cases op <;> simp only [binopTyWith, BinOp.cls] <;>
    cases ta <;> simp [binopCheck, BinOp.cls, requireNumeric] at hu <;> simp [hc, expectValue]

/-- `compute_ty` agrees with `check_expr` on every accepted expression whose type is not `string`,
and on every accepted expression in which no qualified constant of a string enum occurs (no
hypothesis on the signatures is needed). -/
theorem computeTy_of_check_gen (Γ : Ctx) : (e : TExpr) → (t : ETy) → check Γ e = .ok t →
    (EnumOk Γ e ∨ t ≠ .value .str) → computeTy Γ e = .ok t
  | .litI v, t, h, _ => by simp only [check] at h; cases h; rfl
  | .litF v, t, h, _ => by simp only [check] at h; cases h; rfl
  | .litS v, t, h, _ => by simp only [check] at h; cases h; rfl
  | .reg r sig, t, h, _ => by
    simp only [check] at h
    split at h <;> cases h
    rename_i u hu _
    simp [computeTy, checkVar_readTy hu]
  | .var n sig, t, h, _ => by
    simp only [check] at h
    split at h <;> cases h
    rename_i u hu _
    simp [computeTy, checkVar_readTy hu]
  | .unop op x, t, h, _ => by
    -- the checker's answer IS `unop_ty(op, &x.value, ctx)`, the expression `compute_ty` evaluates
    simp only [check] at h
    split at h
    · split at h
      · simp only [computeTy]; exact h
      · cases h
      · cases h
    · cases h
    · cases h
  | .binop op a b, t, h, _ => by
    simp only [check] at h
    split at h
    · split at h
      · split at h
        · simp only [computeTy]; exact h
        · cases h
        · cases h
      · cases h
      · cases h
    · cases h
    · cases h
  | .ternary c l r, t, h, hE => by
    simp only [check] at h
    split at h
    · rename_i tl hl
      rw [checkValue_ok] at hl
      split at h
      · split at h
        · split at h
          · split at h
            · rename_i u hs
              cases h
              simp only [requireSame] at hs
              split at hs <;> cases hs
              have := computeTy_of_check_gen Γ l _ hl
                (hE.imp (fun h => h.sub (by intro y hy; simp [subsE, hy])) id)
              simpa [computeTy] using this
            · cases h
            · cases h
          · cases h
          · cases h
        · cases h
        · cases h
      · cases h
      · cases h
    · cases h
    · cases h
  | .call f args, t, h, _ => by
    simp only [check] at h
    split at h
    · cases h
    · rename_i ps hps
      split at h
      · split at h <;> cases h
        simp [computeTy, hps]
      · cases h
  | .diffSwitch first rest, t, h, hE => by
    simp only [check] at h
    split at h
    · rename_i tf hf
      rw [checkValue_ok] at hf
      split at h
      · cases h
        have := computeTy_of_check_gen Γ first _ hf
          (hE.imp (fun h => h.sub (by intro y hy; simp [subsE, hy])) id)
        simpa [computeTy] using this
      · cases h
      · cases h
    · cases h
    · cases h
  | .xcrement pre inc v, t, h, _ => by
    simp only [check] at h
    split at h
    · split at h
      · split at h
        · rename_i hi
          cases h
          rw [requireExact_ok_iff'] at hi
          subst hi; rfl
        · cases h
        · cases h
      · cases h
      · cases h
    · cases h
    · cases h
  | .enumConst en n, t, h, hE => by
    simp only [check] at h; cases h
    simp only [computeTy]
    rcases hE with hE | hE
    · rcases hE with hE | hE
      · simp [hE]
      · have := hE en n (mem_subsE_self _)
        simp [Ctx.enumTy, this]
    · cases hs : Γ.enumStr en <;> simp_all [Ctx.enumTy]
  | .labelProp l, t, h, _ => by simp only [check] at h; cases h; rfl
  | .callx user f pseudos args, t, h, _ => by
    simp only [check] at h
    split at h
    · split at h
      · cases h
      · split at h
        · rename_i hb
          split at h <;> cases h
          simp [computeTy, hb]
        · rename_i hb
          split at h
          · cases h
          · rename_i ps rt hsig
            split at h
            · split at h <;> cases h
              simp [computeTy, hb, hsig]
            · cases h
    · cases h
    · cases h

theorem length_of_argsTyped (Γ : Ctx) : (as : TArgs) → (ps : List Param) → ArgsTyped Γ as ps →
    as.length = ps.length
  | .nil, _, h => by cases h; rfl
  | .cons a as, _, h => by
    cases h with
    | cons _ _ hr => simp [TArgs.length, length_of_argsTyped Γ as _ hr]

theorem minArgs_eq_required (ps : List Param) : minArgs ps = (required ps).length := by
  induction ps with
  | nil => rfl
  | cons p ps ih => by_cases hp : p.optional <;> simp [minArgs, required, hp, ih]; omega

theorem pseudoCheck_ok_iff (k : PseudoKind) (t : Ty) : pseudoCheck k t = .ok () ↔ PseudoTy k = t := by
  cases k <;> cases t <;> simp [pseudoCheck, PseudoTy]

/-- user-defined functions have no optional parameters -/
theorem fparams_trailing (Γ : Ctx) (f : Nat) : trailingOptional (Γ.fparams f) = true := by
  unfold Ctx.fparams
  induction (Γ.fsig f).1 with
  | nil => rfl
  | cons p ps ih => simpa [trailingOptional] using ih

theorem fparams_required (Γ : Ctx) (f : Nat) : required (Γ.fparams f) = Γ.fparams f := by
  unfold Ctx.fparams
  induction (Γ.fsig f).1 with
  | nil => rfl
  | cons p ps ih => simpa [required] using ih

/-- the signatures `calleeSig` returns are as well-formed as the instruction signatures -/
theorem calleeSig_trailing (Γ : Ctx) (hΓ : SigsOk Γ) (user : Bool) (f : Nat) (ps : List Param)
    (rt : ETy) (h : Γ.calleeSig user f = some (ps, rt)) : trailingOptional ps = true := by
  unfold Ctx.calleeSig at h
  cases user with
  | true => simp at h; rw [← h.1]; exact fparams_trailing Γ f
  | false =>
    simp only [Bool.false_eq_true, if_false] at h
    cases hs : Γ.sig f with
    | none => simp [hs] at h
    | some qs => simp [hs] at h; rw [← h.1]; exact hΓ f qs hs

mutual
theorem check_sound_aux (Γ : Ctx) (hΓ : SigsOk Γ) : (e : TExpr) → (t : ETy) → check Γ e = .ok t →
    XOk Γ (subsE e) → HasType Γ e t
  | .litI v, t, h, _ => by
    simp only [check] at h; cases h; exact .litI v
  | .litF v, t, h, _ => by
    simp only [check] at h; cases h; exact .litF v
  | .litS v, t, h, _ => by
    simp only [check] at h; cases h; exact .litS v
  | .reg r sig, t, h, _hX => by
    simp only [check] at h
    split at h <;> cases h
    rename_i u hu
    exact .reg ((checkVar_ok_iff _ _ _).mp hu)
  | .var n sig, t, h, _hX => by
    simp only [check] at h
    split at h <;> cases h
    rename_i u hu
    exact .var ((checkVar_ok_iff _ _ _).mp hu)
  | .unop op x, t, h, hX => by
    simp only [check] at h
    split at h
    · rename_i tx hx
      rw [checkValue_ok] at hx
      have htx := check_sound_aux Γ hΓ x _ hx (hX.mono (by intro y hy; simp [subsE, subsA, subsC, subsP, hy]))
      split at h
      · rename_i hu
        rw [unopTyWith_computeTy Γ op x tx hu
          (fun hne => computeTy_of_check_gen Γ x _ hx (Or.inr (by simpa using hne)))] at h
        rw [unopCheck_ok_iff] at hu
        split at h <;> cases h
        rename_i t' ht'
        rw [unopTyWith_iff _ _ _ hu] at ht'
        exact .unop ht' htx
      · cases h
      · cases h
    · cases h
    · cases h
  | .binop op a b, t, h, hX => by
    simp only [check] at h
    split at h
    · rename_i ta ha
      rw [checkValue_ok] at ha
      have hta := check_sound_aux Γ hΓ a _ ha (hX.mono (by intro y hy; simp [subsE, subsA, subsC, subsP, hy]))
      split at h
      · rename_i tb hb
        rw [checkValue_ok] at hb
        have htb := check_sound_aux Γ hΓ b _ hb (hX.mono (by intro y hy; simp [subsE, subsA, subsC, subsP, hy]))
        split at h
        · rename_i hu
          rw [binopTyWith_computeTy Γ op a ta tb hu
            (fun hne => computeTy_of_check_gen Γ a _ ha (Or.inr (by simpa using hne)))] at h
          rw [binopCheck_ok_iff] at hu
          obtain ⟨hab, hu⟩ := hu
          subst hab
          split at h <;> cases h
          rename_i t' ht'
          rw [binopTyWith_iff _ _ _ hu] at ht'
          exact .binop ht' hta htb
        · cases h
        · cases h
      · cases h
      · cases h
    · cases h
    · cases h
  | .ternary c l r, t, h, hX => by
    simp only [check] at h
    split at h
    · rename_i tl hl
      rw [checkValue_ok] at hl
      have htl := check_sound_aux Γ hΓ l _ hl (hX.mono (by intro y hy; simp [subsE, subsA, subsC, subsP, hy]))
      split at h
      · rename_i tr hr
        rw [checkValue_ok] at hr
        have htr := check_sound_aux Γ hΓ r _ hr (hX.mono (by intro y hy; simp [subsE, subsA, subsC, subsP, hy]))
        split at h
        · rename_i tc hc
          rw [checkValue_ok] at hc
          have htc := check_sound_aux Γ hΓ c _ hc (hX.mono (by intro y hy; simp [subsE, subsA, subsC, subsP, hy]))
          split at h
          · rename_i hi
            split at h
            · rename_i u hs
              cases h
              simp only [requireExact] at hi
              split at hi <;> cases hi
              simp only [requireSame] at hs
              split at hs <;> cases hs
              subst_vars
              exact .ternary htc htl htr
            · cases h
            · cases h
          · cases h
          · cases h
        · cases h
        · cases h
      · cases h
      · cases h
    · cases h
    · cases h
  | .call f args, t, h, hX => by
    simp only [check] at h
    split at h
    · cases h
    · rename_i ps hps
      split at h
      · rename_i hlen
        split at h <;> cases h
        rename_i hargs
        have hl : args.length = minArgs ps := by simp only [maxArgs] at hlen; omega
        exact .call hps (checkArgs_sound_aux Γ hΓ args ps (hΓ f ps hps) hl hargs (hX.mono (by intro y hy; simp [subsE, subsA, subsC, subsP, hy])))
      · cases h
  | .diffSwitch first rest, t, h, hX => by
    simp only [check] at h
    split at h
    · rename_i tf hf
      rw [checkValue_ok] at hf
      have htf := check_sound_aux Γ hΓ first _ hf (hX.mono (by intro y hy; simp [subsE, subsA, subsC, subsP, hy]))
      split at h
      · rename_i hc
        cases h
        exact .diffSwitch htf (checkCases_sound_aux Γ hΓ tf rest hc (hX.mono (by intro y hy; simp [subsE, subsA, subsC, subsP, hy])))
      · cases h
      · cases h
    · cases h
    · cases h
  | .xcrement pre inc v, t, h, hX => by
    simp only [check] at h
    split at h
    · rename_i tv hv
      split at h
      · rename_i ha
        split at h
        · rename_i hi
          cases h
          rw [requireExact_ok_iff'] at hi
          subst hi
          refine .xcrement ((checkVar_ok_iff _ _ _).mp hv) ?_
          rcases hX with hX | hX
          · simp only [hX, if_true] at ha
            exact (checkAssignable_ok_iff Γ v).mp ha
          · exact hX pre inc v (by simp [subsE])
        · cases h
        · cases h
      · cases h
      · cases h
    · cases h
    · cases h
  | .enumConst en n, t, h, _ => by
    simp only [check] at h; cases h; exact .enumConst en n
  | .labelProp l, t, h, _ => by
    simp only [check] at h; cases h; exact .labelProp l
  | .callx user f pseudos args, t, h, hX => by
    simp only [check] at h
    split at h
    · rename_i hps
      have hpt := checkPseudos_sound_aux Γ hΓ pseudos hps (hX.mono (by intro y hy; simp [subsE, subsA, subsC, subsP, hy]))
      split at h
      · cases h
      · rename_i hnu
        split at h
        · rename_i hb
          split at h
          · rename_i hn
            cases h
            cases args with
            | cons _ _ => simp [TArgs.isNil] at hn
            | nil =>
              cases user with
              | false => exact .callBlob hpt hb
              | true =>
                -- a user call with a blob has pseudo-arguments: excluded by `hnu`
                exfalso; apply hnu
                cases pseudos with
                | nil => simp [TPseudos.hasBlob] at hb
                | cons _ _ _ => simp [TPseudos.isNil]
          · cases h
        · rename_i hb
          split at h
          · cases h
          · rename_i ps rt hsig
            split at h
            · rename_i hlen
              split at h <;> cases h
              rename_i hargs
              have hl : args.length = minArgs ps := by simp only [maxArgs] at hlen; omega
              have hat := checkArgs_sound_aux Γ hΓ args ps
                (calleeSig_trailing Γ hΓ user f ps _ hsig) hl hargs (hX.mono (by intro y hy; simp [subsE, subsA, subsC, subsP, hy]))
              cases user with
              | false =>
                unfold Ctx.calleeSig at hsig
                simp only [Bool.false_eq_true, if_false] at hsig
                cases hs : Γ.sig f with
                | none => simp [hs] at hsig
                | some qs =>
                  simp [hs] at hsig
                  obtain ⟨rfl, rfl⟩ := hsig
                  exact .callIns hpt (by simpa using hb) hs hat
              | true =>
                unfold Ctx.calleeSig at hsig
                simp at hsig
                obtain ⟨rfl, rfl⟩ := hsig
                rw [fparams_required] at hat
                have hn : pseudos = .nil := by
                  cases pseudos with
                  | nil => rfl
                  | cons _ _ _ => exfalso; apply hnu; simp [TPseudos.isNil]
                subst hn
                exact .callUser hat
            · cases h
    · cases h
    · cases h
theorem checkArgs_sound_aux (Γ : Ctx) (hΓ : SigsOk Γ) : (as : TArgs) → (ps : List Param) →
    trailingOptional ps = true → as.length = minArgs ps → checkArgs Γ as ps = .ok () →
    XOk Γ (subsA as) → ArgsTyped Γ as (required ps)
  | .nil, ps, _, hl, _, _ => by
    simp only [TArgs.length] at hl
    rw [required_of_minArgs_zero ps hl.symm]
    exact .nil
  | .cons a as, [], _, hl, _, _ => by
    simp [TArgs.length, minArgs] at hl
  | .cons a as, p :: ps, htr, hl, h, hX => by
    by_cases hp : p.optional
    · simp only [trailingOptional, hp, if_true] at htr
      simp [TArgs.length, minArgs, hp, minArgs_all_optional ps htr] at hl
    · simp only [trailingOptional, hp] at htr
      simp only [TArgs.length, minArgs, hp] at hl
      simp only [checkArgs] at h
      split at h
      · rename_i t ha
        rw [checkValue_ok] at ha
        have hta := check_sound_aux Γ hΓ a _ ha (hX.mono (by intro y hy; simp [subsE, subsA, subsC, subsP, hy]))
        split at h
        · rename_i hpc
          rw [paramCheck_ok_iff] at hpc
          simp only [required, hp]
          exact .cons hta hpc (checkArgs_sound_aux Γ hΓ as ps (by simpa using htr) (by simp at hl; omega) h (hX.mono (by intro y hy; simp [subsE, subsA, subsC, subsP, hy])))
        · cases h
        · cases h
      · cases h
      · cases h
theorem checkCases_sound_aux (Γ : Ctx) (hΓ : SigsOk Γ) (t : Ty) : (cs : TCases) →
    checkCases Γ t cs = .ok () → XOk Γ (subsC cs) → CasesTyped Γ t cs
  | .nil, _, _ => .nil
  | .blank cs, h, hX => by
    simp only [checkCases] at h
    exact .blank (checkCases_sound_aux Γ hΓ t cs h (hX.mono (by intro y hy; simp [subsE, subsA, subsC, subsP, hy])))
  | .case e cs, h, hX => by
    simp only [checkCases] at h
    split at h
    · rename_i t' he
      rw [checkValue_ok] at he
      have hte := check_sound_aux Γ hΓ e _ he (hX.mono (by intro y hy; simp [subsE, subsA, subsC, subsP, hy]))
      split at h
      · rename_i u hs
        simp only [requireSame] at hs
        split at hs <;> cases hs
        subst_vars
        exact .case hte (checkCases_sound_aux Γ hΓ _ cs h (hX.mono (by intro y hy; simp [subsE, subsA, subsC, subsP, hy])))
      · cases h
      · cases h
    · cases h
    · cases h
theorem checkPseudos_sound_aux (Γ : Ctx) (hΓ : SigsOk Γ) : (ps : TPseudos) →
    checkPseudos Γ ps = .ok () → XOk Γ (subsP ps) → PseudosTyped Γ ps
  | .nil, _, _ => .nil
  | .cons k e ps, h, hX => by
    simp only [checkPseudos] at h
    split at h
    · rename_i t he
      rw [checkValue_ok] at he
      have hte := check_sound_aux Γ hΓ e _ he (hX.mono (by intro y hy; simp [subsE, subsA, subsC, subsP, hy]))
      split at h
      · rename_i hk
        rw [pseudoCheck_ok_iff] at hk
        exact .cons hte hk (checkPseudos_sound_aux Γ hΓ ps h (hX.mono (by intro y hy; simp [subsE, subsA, subsC, subsP, hy])))
      · cases h
      · cases h
    · cases h
    · cases h
end

mutual
theorem check_complete_aux (Γ : Ctx) (hΓ : SigsOk Γ) : (e : TExpr) → (t : ETy) → HasType Γ e t →
    check Γ e = .ok t
  | .litI v, t, h => by cases h; rfl
  | .litF v, t, h => by cases h; rfl
  | .litS v, t, h => by cases h; rfl
  | .reg r sig, t, h => by
    cases h with
    | reg hr => simp [check, (checkVar_ok_iff _ _ _).mpr hr]
  | .var n sig, t, h => by
    cases h with
    | var hr => simp [check, (checkVar_ok_iff _ _ _).mpr hr]
  | .unop op x, t, h => by
    cases h with
    | unop hu hx =>
      rename_i tx t'
      have cx := check_complete_aux Γ hΓ x _ hx
      have hck := (unopCheck_ok_iff op tx).mpr ⟨_, hu⟩
      have hrw := unopTyWith_computeTy Γ op x tx hck
        (fun hne => computeTy_of_check_gen Γ x _ cx (Or.inr (by simpa using hne)))
      simp only [check, (checkValue_ok _ _ _).mpr cx, hck, hrw,
        (unopTyWith_iff _ _ _ ⟨_, hu⟩).mpr hu]
  | .binop op a b, t, h => by
    cases h with
    | binop hu ha hb =>
      rename_i tx t'
      have ca := check_complete_aux Γ hΓ a _ ha
      have cb := check_complete_aux Γ hΓ b _ hb
      have hck := (binopCheck_ok_iff op tx tx).mpr ⟨rfl, _, hu⟩
      have hrw := binopTyWith_computeTy Γ op a tx tx hck
        (fun hne => computeTy_of_check_gen Γ a _ ca (Or.inr (by simpa using hne)))
      simp only [check, (checkValue_ok _ _ _).mpr ca, (checkValue_ok _ _ _).mpr cb,
        hck, hrw, (binopTyWith_iff _ _ _ ⟨_, hu⟩).mpr hu]
  | .ternary c l r, t, h => by
    cases h with
    | ternary hc hl hr =>
      have cc := check_complete_aux Γ hΓ c _ hc
      have cl := check_complete_aux Γ hΓ l _ hl
      have cr := check_complete_aux Γ hΓ r _ hr
      simp [check, (checkValue_ok _ _ _).mpr cc, (checkValue_ok _ _ _).mpr cl,
        (checkValue_ok _ _ _).mpr cr, requireExact, requireSame]
  | .call f args, t, h => by
    cases h with
    | call hps hargs =>
      rename_i ps
      have hlen := length_of_argsTyped Γ _ _ hargs
      rw [← minArgs_eq_required] at hlen
      have := checkArgs_complete_aux Γ hΓ args ps (hΓ f ps hps) hargs
      simp [check, hps, maxArgs, hlen, this]
  | .diffSwitch first rest, t, h => by
    cases h with
    | diffSwitch hf hr =>
      have cf := check_complete_aux Γ hΓ first _ hf
      have cr := checkCases_complete_aux Γ hΓ _ rest hr
      simp [check, (checkValue_ok _ _ _).mpr cf, cr]
  | .xcrement pre inc v, t, h => by
    cases h with
    | xcrement hr ha =>
      -- for every setting of the switch: an assignable operand passes `check_var_is_assignable`
      have hca := (checkAssignable_ok_iff Γ v).mpr ha
      cases hsw : checksXcrementTarget <;>
        simp [check, hsw, hca, (checkVar_ok_iff _ _ _).mpr hr, requireExact]
  | .enumConst en n, t, h => by cases h; rfl
  | .labelProp l, t, h => by cases h; rfl
  | .callx user f pseudos args, t, h => by
    cases h with
    | callIns hp hb hps hargs =>
      rename_i ps
      have hlen := length_of_argsTyped Γ _ _ hargs
      rw [← minArgs_eq_required] at hlen
      have ha := checkArgs_complete_aux Γ hΓ args ps (hΓ f ps hps) hargs
      have hcp := checkPseudos_complete_aux Γ hΓ pseudos hp
      simp [check, hcp, hb, Ctx.calleeSig, hps, maxArgs, hlen, ha]
    | callBlob hp hb =>
      have hcp := checkPseudos_complete_aux Γ hΓ pseudos hp
      simp [check, hcp, hb, TArgs.isNil]
    | callUser hargs =>
      have hlen := length_of_argsTyped Γ _ _ hargs
      have hreq := fparams_required Γ f
      have hargs' : ArgsTyped Γ args (required (Γ.fparams f)) := by rw [hreq]; exact hargs
      have hmin : minArgs (Γ.fparams f) = (Γ.fparams f).length := by
        rw [minArgs_eq_required, hreq]
      have ha := checkArgs_complete_aux Γ hΓ args _ (fparams_trailing Γ f) hargs'
      simp [check, checkPseudos, TPseudos.isNil, TPseudos.hasBlob, Ctx.calleeSig, maxArgs, hmin,
        hlen, ha]
theorem checkArgs_complete_aux (Γ : Ctx) (hΓ : SigsOk Γ) : (as : TArgs) → (ps : List Param) →
    trailingOptional ps = true → ArgsTyped Γ as (required ps) → checkArgs Γ as ps = .ok ()
  | .nil, ps, _, _ => by simp [checkArgs]
  | .cons a as, [], _, h => by simp only [required] at h; cases h
  | .cons a as, p :: ps, htr, h => by
    by_cases hp : p.optional
    · simp only [trailingOptional, hp, if_true] at htr
      have := required_of_minArgs_zero ps (minArgs_all_optional ps htr)
      simp only [required, hp, if_true, this] at h
      cases h
    · simp only [trailingOptional, hp] at htr
      simp only [required, hp] at h
      cases h with
      | cons ha hpa hr =>
        have ca := check_complete_aux Γ hΓ a _ ha
        have := checkArgs_complete_aux Γ hΓ as ps (by simpa using htr) hr
        simp [checkArgs, (checkValue_ok _ _ _).mpr ca, (paramCheck_ok_iff _ _).mpr hpa, this]
theorem checkCases_complete_aux (Γ : Ctx) (hΓ : SigsOk Γ) (t : Ty) : (cs : TCases) →
    CasesTyped Γ t cs → checkCases Γ t cs = .ok ()
  | .nil, _ => by simp [checkCases]
  | .blank cs, h => by
    cases h with
    | blank hr => simp [checkCases, checkCases_complete_aux Γ hΓ t cs hr]
  | .case e cs, h => by
    cases h with
    | case he hr =>
      have ce := check_complete_aux Γ hΓ e _ he
      simp [checkCases, (checkValue_ok _ _ _).mpr ce, requireSame,
        checkCases_complete_aux Γ hΓ t cs hr]
theorem checkPseudos_complete_aux (Γ : Ctx) (hΓ : SigsOk Γ) : (ps : TPseudos) →
    PseudosTyped Γ ps → checkPseudos Γ ps = .ok ()
  | .nil, _ => by simp [checkPseudos]
  | .cons k e ps, h => by
    cases h with
    | cons he hk hr =>
      have ce := check_complete_aux Γ hΓ e _ he
      simp [checkPseudos, (checkValue_ok _ _ _).mpr ce, (pseudoCheck_ok_iff _ _).mpr hk,
        checkPseudos_complete_aux Γ hΓ ps hr]
end



theorem check_iff (Γ : Ctx) (hΓ : SigsOk Γ) (e : TExpr) (t : ETy) :
    check Γ e = .ok t ↔ HasType Γ e t :=
  -- `rfl`: `checksXcrementTarget` is on in Model/Types.lean (e098828)
  ⟨fun h => check_sound_aux Γ hΓ e t h (Or.inl rfl), check_complete_aux Γ hΓ e t⟩

theorem andThen_ok_iff (a b : Outcome Unit) :
    a.andThen b = .ok () ↔ a = .ok () ∧ b = .ok () := by
  cases a <;> cases b <;> simp [Outcome.andThen]

theorem requireExact_ok_iff (t u : Ty) : requireExact t u = .ok () ↔ t = u :=
  requireExact_ok_iff' t u

theorem requireSame_ok_iff (t u v : Ty) : requireSame t u = .ok v ↔ (t = u ∧ v = t) := by
  unfold requireSame; split <;> simp_all [eq_comm]

theorem checkCond_ok_iff (Γ : Ctx) (hΓ : SigsOk Γ) (c : TExpr) :
    checkCond Γ c = .ok () ↔ HasType Γ c (.value .int) := by
  unfold checkCond
  constructor
  · intro h
    split at h
    · rename_i t ht
      rw [checkValue_ok, check_iff Γ hΓ] at ht
      rw [requireExact_ok_iff] at h
      subst h; exact ht
    · cases h
    · cases h
  · intro h
    rw [← check_iff Γ hΓ, ← checkValue_ok] at h
    simp [h, requireExact]

theorem checkExprStmt_ok_iff (Γ : Ctx) (hΓ : SigsOk Γ) (e : TExpr) :
    checkExprStmt Γ e = .ok () ↔ HasType Γ e .void := by
  unfold checkExprStmt
  constructor
  · intro h
    split at h
    · rename_i t ht
      cases t with
      | void => exact (check_iff Γ hΓ _ _).mp ht
      | value u => simp [requireVoid] at h
    · cases h
    · cases h
  · intro h
    rw [← check_iff Γ hΓ] at h
    simp [h, requireVoid]

theorem checkAssignable_cases (Γ : Ctx) (v : VarRef) :
    checkAssignable Γ v = .ok () ∨ checkAssignable Γ v = .err constAssignErr := by
  unfold checkAssignable
  split <;> simp

theorem checkAssignTyped_ok_iff (Γ : Ctx) (hΓ : SigsOk Γ) (v : VarRef) (op : AssignOp) (e : TExpr) :
    checkAssignTyped Γ v op e = .ok () ↔
      ∃ t, ReadTy (Γ.refTy v) v.sig t ∧ HasType Γ e (.value t) ∧ AssignTy op t := by
  unfold checkAssignTyped AssignTy
  constructor
  · intro h
    split at h
    · rename_i tv hv
      rw [checkVar_ok_iff] at hv
      split at h
      · rename_i te he
        rw [checkValue_ok, check_iff Γ hΓ] at he
        split at h
        · rename_i hop
          split at h
          · rename_i u hs
            rw [requireSame_ok_iff] at hs
            obtain ⟨rfl, _⟩ := hs
            exact ⟨tv, hv, he, by simp⟩
          · cases h
          · cases h
        · rename_i b hop
          rw [binopCheck_ok_iff] at h
          obtain ⟨rfl, hb⟩ := h
          exact ⟨tv, hv, he, by simpa [hop] using hb⟩
      · cases h
      · cases h
    · cases h
    · cases h
  · rintro ⟨t, hv, he, hop⟩
    rw [← checkVar_ok_iff] at hv
    rw [← check_iff Γ hΓ, ← checkValue_ok] at he
    simp only [hv, he]
    cases hb : op.binop with
    | none => simp [requireSame]
    | some b =>
      simp only [hb] at hop
      simpa using (binopCheck_ok_iff b t t).mpr ⟨rfl, hop⟩

theorem checkAssign_ok_iff (Γ : Ctx) (hΓ : SigsOk Γ) (v : VarRef) (op : AssignOp) (e : TExpr) :
    checkAssign Γ v op e = .ok () ↔
      (Assignable Γ v ∧
        ∃ t, ReadTy (Γ.refTy v) v.sig t ∧ HasType Γ e (.value t) ∧ AssignTy op t) := by
  unfold checkAssign
  rw [← checkAssignable_ok_iff, ← checkAssignTyped_ok_iff Γ hΓ]
  rcases checkAssignable_cases Γ v with h | h <;> simp [h]

theorem checkClobber_ok_iff (Γ : Ctx) (v : VarRef) (tc : Ty) :
    checkClobber Γ v tc = .ok () ↔ (Assignable Γ v ∧ ReadTy (Γ.refTy v) v.sig tc) := by
  unfold checkClobber
  rw [← checkAssignable_ok_iff, ← checkVar_ok_iff]
  rcases checkAssignable_cases Γ v with h | h
  · simp only [h, true_and]
    cases hv : checkVar (Γ.refTy v) v.sig with
    | ok tv => by_cases ht : tv = tc <;> simp [requireSame, ht]
    | err c => simp
    | panic s => simp
  · simp [h]

theorem checkTimes_ok_iff (Γ : Ctx) (hΓ : SigsOk Γ) (cl : Option VarRef) (count : TExpr) :
    checkTimes Γ cl count = .ok () ↔
      (HasType Γ count (.value .int) ∧
        (match cl with
          | none => True
          | some v => Assignable Γ v ∧ ReadTy (Γ.refTy v) v.sig .int)) := by
  unfold checkTimes
  constructor
  · intro h
    split at h
    · rename_i tc hc
      rw [checkValue_ok, check_iff Γ hΓ] at hc
      split at h
      · rename_i hi
        rw [requireExact_ok_iff] at hi
        subst hi
        refine ⟨hc, ?_⟩
        cases cl with
        | none => trivial
        | some v =>
          simp only at h ⊢
          exact (checkClobber_ok_iff Γ v _).mp h
      · cases h
      · cases h
    · cases h
    · cases h
  · rintro ⟨hc, hcl⟩
    rw [← check_iff Γ hΓ, ← checkValue_ok] at hc
    simp only [hc, requireExact, if_true]
    cases cl with
    | none => rfl
    | some v =>
      simp only at hcl ⊢
      exact (checkClobber_ok_iff Γ v _).mpr hcl

theorem checkDecl_ok_iff (Γ : Ctx) (hΓ : SigsOk Γ) (x : Nat) (e : TExpr) :
    checkDecl Γ x (some e) = .ok () ↔ ∃ t, Γ.varTy x = .typed t ∧ HasType Γ e (.value t) := by
  unfold checkDecl
  constructor
  · intro h
    simp only at h
    split at h
    · rename_i tv hv
      rw [checkVar_ok_iff] at hv
      split at h
      · rename_i te he
        rw [checkValue_ok, check_iff Γ hΓ] at he
        rw [requireExact_ok_iff] at h
        subst h
        exact ⟨te, hv, he⟩
      · cases h
      · cases h
    · cases h
    · cases h
  · rintro ⟨t, hv, he⟩
    have hv' : checkVar (Γ.varTy x) none = .ok t := (checkVar_ok_iff _ _ _).mpr hv
    rw [← check_iff Γ hΓ, ← checkValue_ok] at he
    simp [hv', he, requireExact]

theorem checkReturn_ok_iff (Γ : Ctx) (hΓ : SigsOk Γ) (ρ : Option ETy) (e : Option TExpr) :
    checkReturn Γ ρ e = .ok () ↔ WellTypedStmt Γ ρ (.ret e) := by
  unfold checkReturn
  cases ρ with
  | none => cases e <;> simp [WellTypedStmt, returnOutsideFunction]
  | some rt =>
    cases e with
    | none =>
      simp only [WellTypedStmt]
      constructor
      · intro h; split at h <;> simp_all
      · intro h; simp_all
    | some v =>
      simp only [WellTypedStmt]
      constructor
      · intro h
        split at h
        · rename_i t ht
          rw [checkValue_ok, check_iff Γ hΓ] at ht
          split at h
          · rename_i heq; exact ⟨t, ht, by rw [heq]⟩
          · cases h
        · cases h
        · cases h
      · rintro ⟨t, ht, hρ⟩
        rw [← check_iff Γ hΓ, ← checkValue_ok] at ht
        simp only [Option.some.injEq] at hρ
        simp [ht, hρ]



theorem lit_hasType (Γ : Ctx) (e : TExpr) (t : Ty) (h : litTy e = some t) : HasType Γ e (.value t) := by
  cases e <;> simp [litTy] at h <;> subst h <;> constructor

theorem lit_check (Γ : Ctx) (e : TExpr) (t : Ty) (h : litTy e = some t) : check Γ e = .ok (.value t) := by
  cases e <;> simp [litTy] at h <;> subst h <;> rfl

theorem hasType_unique (Γ : Ctx) (hΓ : SigsOk Γ) (e : TExpr) (t u : ETy)
    (h1 : HasType Γ e t) (h2 : HasType Γ e u) : t = u := by
  rw [← check_iff Γ hΓ] at h1 h2
  rw [h1] at h2; cases h2; rfl

theorem checkConstDecl_ok_iff (cfg : Cfg) (Γ : Ctx) (hΓ : SigsOk Γ) (x : Nat) (e : TExpr)
    (hc : Covered cfg Γ (.constDecl x e)) :
    checkConstDecl cfg Γ x e = .ok () ↔ WellTypedStmt Γ ρ (.constDecl x e) := by
  simp only [WellTypedStmt]
  unfold checkConstDecl
  by_cases hcfg : cfg.checksConstDeclTy = true
  · simp only [hcfg, if_true]
    exact checkDecl_ok_iff Γ hΓ x e
  · simp only [Covered] at hc
    obtain ⟨t, hl, hx⟩ := hc.resolve_left hcfg
    simp only [hcfg]
    constructor
    · intro _; exact ⟨t, hx, lit_hasType Γ e t hl⟩
    · intro _; simp [lit_check Γ e t hl]

theorem checkLabel_ok_iff (cfg : Cfg) (Γ : Ctx) (hΓ : SigsOk Γ) (e : TExpr)
    (hc : cfg.checksLabelExprs = true ∨ litTy e = some .int) :
    (if cfg.checksLabelExprs then checkCond Γ e else .ok ()) = .ok () ↔ HasType Γ e (.value .int) := by
  by_cases hcfg : cfg.checksLabelExprs = true
  · simp only [hcfg, if_true]; exact checkCond_ok_iff Γ hΓ e
  · have hc := hc.resolve_left hcfg
    simp only [hcfg]
    constructor
    · intro _; exact lit_hasType Γ e _ hc
    · intro _; rfl

theorem checkDecl_ok_iff' (Γ : Ctx) (hΓ : SigsOk Γ) (x : Nat) (init : Option TExpr) :
    checkDecl Γ x init = .ok () ↔ DeclOk Γ x init := by
  cases init with
  | none => simp [checkDecl, DeclOk]
  | some e => simpa [DeclOk] using checkDecl_ok_iff Γ hΓ x e

theorem checkDecls_ok_iff (Γ : Ctx) (hΓ : SigsOk Γ) : (ds : List (Nat × Option TExpr)) →
    (checkDecls Γ ds = .ok () ↔ ∀ p ∈ ds, DeclOk Γ p.1 p.2)
  | [] => by simp [checkDecls]
  | (x, init) :: rest => by
    simp only [checkDecls, andThen_ok_iff, checkDecl_ok_iff' Γ hΓ, checkDecls_ok_iff Γ hΓ rest,
      List.mem_cons, forall_eq_or_imp]

theorem checkConstDecls_ok_iff (cfg : Cfg) (Γ : Ctx) (hΓ : SigsOk Γ) (ρ : Option ETy) :
    (ds : List (Nat × TExpr)) →
    (cfg.checksConstDeclTy = true ∨ ∀ p ∈ ds, ∃ t, litTy p.2 = some t ∧ Γ.varTy p.1 = .typed t) →
    (checkConstDecls cfg Γ ds = .ok () ↔ ∀ p ∈ ds, DeclOk Γ p.1 (some p.2))
  | [], _ => by simp [checkConstDecls]
  | (x, e) :: rest, hc => by
    have h1 : Covered cfg Γ (.constDecl x e) := by
      simp only [Covered]
      exact hc.imp id (fun h => h (x, e) (by simp))
    have h2 : cfg.checksConstDeclTy = true ∨
        ∀ p ∈ rest, ∃ t, litTy p.2 = some t ∧ Γ.varTy p.1 = .typed t :=
      hc.imp id (fun h p hp => h p (by simp [hp]))
    have := checkConstDecl_ok_iff (ρ := ρ) cfg Γ hΓ x e h1
    simp only [WellTypedStmt] at this
    simp only [checkConstDecls, andThen_ok_iff, this, checkConstDecls_ok_iff cfg Γ hΓ ρ rest h2,
      List.mem_cons, forall_eq_or_imp, DeclOk]

mutual
theorem checkStmt_iff (cfg : Cfg) (Γ : Ctx) (hΓ : SigsOk Γ) : (ρ : Option ETy) → (s : Stmt) →
    Covered cfg Γ s → (checkStmt cfg Γ ρ s = .ok () ↔ WellTypedStmt Γ ρ s)
  | ρ, .exprStmt e, _ => by simp only [checkStmt, WellTypedStmt]; exact checkExprStmt_ok_iff Γ hΓ e
  | ρ, .assign v op e, _ => by simp only [checkStmt, WellTypedStmt]; exact checkAssign_ok_iff Γ hΓ v op e
  | ρ, .decl x none, _ => by simp [checkStmt, WellTypedStmt, checkDecl]
  | ρ, .decl x (some e), _ => by simp only [checkStmt, WellTypedStmt]; exact checkDecl_ok_iff Γ hΓ x e
  | ρ, .constDecl x e, hc => by simp only [checkStmt]; exact checkConstDecl_ok_iff cfg Γ hΓ x e hc
  | ρ, .ite c t e, hc => by
    simp only [Covered] at hc
    simp only [checkStmt, WellTypedStmt, andThen_ok_iff, checkCond_ok_iff Γ hΓ,
      checkStmts_iff cfg Γ hΓ ρ t hc.1, checkStmts_iff cfg Γ hΓ ρ e hc.2]
  | ρ, .while_ c body, hc => by
    simp only [Covered] at hc
    simp only [checkStmt, WellTypedStmt, andThen_ok_iff, checkCond_ok_iff Γ hΓ,
      checkStmts_iff cfg Γ hΓ ρ body hc]
    exact And.comm
  | ρ, .doWhile c body, hc => by
    simp only [Covered] at hc
    simp only [checkStmt, WellTypedStmt, andThen_ok_iff, checkCond_ok_iff Γ hΓ,
      checkStmts_iff cfg Γ hΓ ρ body hc]
  | ρ, .loop body, hc => by
    simp only [Covered] at hc
    simp only [checkStmt, WellTypedStmt, checkStmts_iff cfg Γ hΓ ρ body hc]
  | ρ, .times cl count body, hc => by
    simp only [Covered] at hc
    simp only [checkStmt, WellTypedStmt, andThen_ok_iff, checkTimes_ok_iff Γ hΓ,
      checkStmts_iff cfg Γ hΓ ρ body hc, and_assoc]
    exact Iff.rfl
  | ρ, .condJump c, _ => by simp only [checkStmt, WellTypedStmt]; exact checkCond_ok_iff Γ hΓ c
  | ρ, .inert, _ => by simp [checkStmt, WellTypedStmt]
  | ρ, .block body, hc => by
    simp only [Covered] at hc
    simp only [checkStmt, WellTypedStmt, hc.1, if_true, checkStmts_iff cfg Γ hΓ ρ body hc.2]
  | ρ, .ret e, _ => by simp only [checkStmt]; exact checkReturn_ok_iff Γ hΓ ρ e
  | ρ, .func rt body, hc => by
    simp only [Covered] at hc
    simp only [checkStmt, WellTypedStmt, checkStmts_iff cfg Γ hΓ (some rt) body hc]
  | ρ, .script body, hc => by
    simp only [Covered] at hc
    simp only [checkStmt, WellTypedStmt, checkStmts_iff cfg Γ hΓ ρ body hc]
  | ρ, .interruptLabel e, hc => by
    simp only [Covered] at hc
    simp only [checkStmt, WellTypedStmt]; exact checkLabel_ok_iff cfg Γ hΓ e hc
  | ρ, .relTimeLabel e, hc => by
    simp only [Covered] at hc
    simp only [checkStmt, WellTypedStmt]; exact checkLabel_ok_iff cfg Γ hΓ e hc
  | ρ, .decls ds, _ => by
    simp only [checkStmt, WellTypedStmt]; exact checkDecls_ok_iff Γ hΓ ds
  | ρ, .constDecls ds, hc => by
    simp only [Covered] at hc
    simp only [checkStmt, WellTypedStmt]; exact checkConstDecls_ok_iff cfg Γ hΓ ρ ds hc
theorem checkStmts_iff (cfg : Cfg) (Γ : Ctx) (hΓ : SigsOk Γ) : (ρ : Option ETy) → (ss : Stmts) →
    CoveredS cfg Γ ss → (checkStmts cfg Γ ρ ss = .ok () ↔ WellTypedStmts Γ ρ ss)
  | ρ, .nil, _ => by simp [checkStmts, WellTypedStmts]
  | ρ, .cons s ss, hc => by
    simp only [CoveredS] at hc
    simp only [checkStmts, WellTypedStmts, andThen_ok_iff, checkStmt_iff cfg Γ hΓ ρ s hc.1,
      checkStmts_iff cfg Γ hΓ ρ ss hc.2]
end


theorem castBySigil_ty (F : FloatOps) (v : Value) (sig : Option Sigil) (t : Ty)
    (h : ReadTy (.typed v.ty) sig t) : ∃ w, castBySigil F v sig = some w ∧ w.ty = t := by
  cases sig with
  | none =>
    simp only [ReadTy, VarTy.typed.injEq] at h
    exact ⟨v, rfl, h⟩
  | some s =>
    obtain ⟨rfl, hn⟩ := h
    cases s <;> cases v <;> simp_all [castBySigil, Value.ty, sigilTy]

theorem binop_ty (F : FloatOps) (op : BinOp) (va vb : Value) (t t' : Ty)
    (ha : va.ty = t) (hb : vb.ty = t) (hop : BinopTy op t t') :
    (∀ w, binop F op va vb = .ok w → w.ty = t') ∧ (∀ s, binop F op va vb ≠ .panic s) := by
  cases va <;> cases vb <;> simp only [Value.ty] at ha hb <;> subst ha <;> try (cases hb)
  · -- int, int
    cases op <;> simp_all [BinopTy, Numeric, binop, binopInt, Value.ty] <;>
      (try split) <;> simp_all
  · -- float, float
    cases op <;> simp_all [BinopTy, Numeric, binop, binopFloat, Value.ty]
  · -- str, str
    cases op <;> simp_all [BinopTy, Numeric]

theorem unop_ty (F : FloatOps) (op : UnOp) (v : Value) (t t' : Ty)
    (hv : v.ty = t) (hop : UnopTy op t t') (hs : sigilOfUnop op = none) :
    ∃ w, unop F op v = .ok (some w) ∧ w.ty = t' := by
  cases v <;> simp only [Value.ty] at hv <;> subst hv <;>
    cases op <;> simp_all [UnopTy, Numeric, unop, sigilOfUnop, Value.ty]

theorem unop_sigil_ty (F : FloatOps) (op : UnOp) (s : Sigil) (v : Value) (t t' : Ty)
    (hv : v.ty = t) (hop : UnopTy op t t') (hs : sigilOfUnop op = some s) :
    ∃ w, castBySigil F v (some s) = some w ∧ w.ty = t' := by
  cases v <;> simp only [Value.ty] at hv <;> subst hv <;>
    cases op <;> simp [sigilOfUnop] at hs <;> subst hs <;>
    simp_all [UnopTy, Numeric, castBySigil, Value.ty]

theorem ty_int_cases (v : Value) (h : v.ty = .int) : ∃ x, v = .int x := by
  cases v <;> simp_all [Value.ty]

/-- what type preservation says about one evaluation: a value has the static type, and no
"type error" panic is reached -/
def ValOk (t : Ty) (o : Outcome Value) : Prop := (∀ v, o = .ok v → v.ty = t) ∧ (∀ s, o ≠ .panic s)

theorem readVar_valOk (F : FloatOps) (Γ : Ctx) (cs : Consts) (env : Env) (hE : EnvOk Γ cs env)
    (n : Nat) (sig : Option Sigil) (t : Ty) (hr : ReadTy (Γ.varTy n) sig t) :
    ValOk t (match cs n with
      | some c => match castBySigil F c sig with
        | some w => Outcome.ok w
        | none => .panic "cannot cast"
      | none => .ok (env.loc n sig)) := by
  cases hc : cs n with
  | none =>
    refine ⟨?_, by simp⟩
    intro v hv; simp at hv; subst hv; exact hE.loc n sig t hc hr
  | some c =>
    have hty := hE.const n c hc
    rw [hty] at hr
    obtain ⟨w, hw, hwt⟩ := castBySigil_ty F c sig t hr
    refine ⟨?_, by simp [hw]⟩
    intro v hv; simp [hw] at hv; subst hv; exact hwt

mutual
theorem preservationT_aux (F : FloatOps) (Γ : Ctx) (cs : Consts) (env : Env) (hE : EnvOk Γ cs env)
    (x : XEnv) (hX : XEnvOk Γ x) :
    (e : TExpr) → (t : Ty) → HasType Γ e (.value t) → ValOk t (evalT F cs env x e)
  | .litI i, t, h => by
    cases h; exact ⟨by intro v hv; simp [evalT] at hv; subst hv; rfl, by simp [evalT]⟩
  | .litF i, t, h => by
    cases h; exact ⟨by intro v hv; simp [evalT] at hv; subst hv; rfl, by simp [evalT]⟩
  | .litS i, t, h => by
    cases h; exact ⟨by intro v hv; simp [evalT] at hv; subst hv; rfl, by simp [evalT]⟩
  | .reg r sig, t, h => by
    cases h with
    | reg hr =>
      refine ⟨?_, by simp [evalT]⟩
      intro v hv; simp [evalT] at hv; subst hv; exact hE.reg r sig t hr
  | .var n sig, t, h => by
    cases h with
    | var hr => simp only [evalT]; exact readVar_valOk F Γ cs env hE n sig t hr
  | .unop op a, t, h => by
    cases h with
    | unop hop hx =>
      rename_i tx
      obtain ⟨hty, hnp⟩ := preservationT_aux F Γ cs env hE x hX a tx hx
      constructor
      · intro v hv
        simp only [evalT] at hv
        cases hev : evalT F cs env x a with
        | ok vx =>
          have hvx := hty vx hev
          simp only [hev] at hv
          cases hs : sigilOfUnop op with
          | none =>
            obtain ⟨w, hw, hwt⟩ := unop_ty F op vx tx t hvx hop hs
            simp [hs, hw] at hv; subst hv; exact hwt
          | some s =>
            obtain ⟨w, hw, hwt⟩ := unop_sigil_ty F op s vx tx t hvx hop hs
            simp [hs, hw] at hv; subst hv; exact hwt
        | err c => simp [hev] at hv
        | panic s => simp [hev] at hv
      · intro s
        simp only [evalT]
        cases hev : evalT F cs env x a with
        | ok vx =>
          have hvx := hty vx hev
          cases hs : sigilOfUnop op with
          | none =>
            obtain ⟨w, hw, _⟩ := unop_ty F op vx tx t hvx hop hs
            simp [hw]
          | some s' =>
            obtain ⟨w, hw, _⟩ := unop_sigil_ty F op s' vx tx t hvx hop hs
            simp [hw]
        | err c => simp
        | panic s' => exact absurd hev (hnp s')
  | .binop op a b, t, h => by
    cases h with
    | binop hop ha hb =>
      rename_i tx
      obtain ⟨htya, hnpa⟩ := preservationT_aux F Γ cs env hE x hX a tx ha
      obtain ⟨htyb, hnpb⟩ := preservationT_aux F Γ cs env hE x hX b tx hb
      constructor
      · intro v hv
        simp only [evalT] at hv
        cases hea : evalT F cs env x a with
        | ok va =>
          cases heb : evalT F cs env x b with
          | ok vb =>
            simp only [hea, heb] at hv
            exact (binop_ty F op va vb tx t (htya va hea) (htyb vb heb) hop).1 v hv
          | err c => simp [hea, heb] at hv
          | panic s => simp [hea, heb] at hv
        | err c => simp [hea] at hv
        | panic s => simp [hea] at hv
      · intro s
        simp only [evalT]
        cases hea : evalT F cs env x a with
        | ok va =>
          cases heb : evalT F cs env x b with
          | ok vb => exact (binop_ty F op va vb tx t (htya va hea) (htyb vb heb) hop).2 s
          | err c => simp
          | panic s' => exact absurd heb (hnpb s')
        | err c => simp
        | panic s' => exact absurd hea (hnpa s')
  | .ternary c l r, t, h => by
    cases h with
    | ternary hc hl hr =>
      obtain ⟨htyc, hnpc⟩ := preservationT_aux F Γ cs env hE x hX c .int hc
      obtain ⟨htyl, hnpl⟩ := preservationT_aux F Γ cs env hE x hX l t hl
      obtain ⟨htyr, hnpr⟩ := preservationT_aux F Γ cs env hE x hX r t hr
      constructor
      · intro v hv
        simp only [evalT] at hv
        cases hec : evalT F cs env x c with
        | ok vc =>
          obtain ⟨i, rfl⟩ := ty_int_cases vc (htyc vc hec)
          simp only [hec] at hv
          split at hv
          · exact htyr v hv
          · exact htyl v hv
        | err e => simp [hec] at hv
        | panic s => simp [hec] at hv
      · intro s
        simp only [evalT]
        cases hec : evalT F cs env x c with
        | ok vc =>
          obtain ⟨i, rfl⟩ := ty_int_cases vc (htyc vc hec)
          simp only
          split
          · exact hnpr s
          · exact hnpl s
        | err e => simp
        | panic s' => exact absurd hec (hnpc s')
  | .call f args, t, h => by cases h
  | .diffSwitch first rest, t, h => by
    cases h with
    | diffSwitch hf hr =>
      simp only [evalT]
      exact preservationCases_aux F Γ cs env hE x hX rest t hr x.diff _
        (preservationT_aux F Γ cs env hE x hX first t hf)
  | .xcrement pre inc v, t, h => by
    cases h with
    | xcrement hr _ =>
      -- reading the operand gives an int
      have hread : ValOk .int (if v.isReg then Outcome.ok (env.reg v.id v.sig) else
            match cs v.id with
            | some c => match castBySigil F c v.sig with
              | some w => Outcome.ok w
              | none => .panic "cannot cast"
            | none => .ok (env.loc v.id v.sig)) := by
        unfold Ctx.refTy at hr
        cases hreg : v.isReg with
        | true =>
          simp only [hreg, if_true] at hr ⊢
          exact ⟨by intro w hw; cases hw; exact hE.reg _ _ _ hr, by simp⟩
        | false =>
          simp only [hreg, Bool.false_eq_true, if_false] at hr ⊢
          exact readVar_valOk F Γ cs env hE v.id v.sig .int hr
      simp only [evalT]
      generalize (if v.isReg then Outcome.ok (env.reg v.id v.sig) else
            match cs v.id with
            | some c => match castBySigil F c v.sig with
              | some w => Outcome.ok w
              | none => .panic "cannot cast"
            | none => .ok (env.loc v.id v.sig)) = o at hread ⊢
      cases o with
      | ok w =>
        obtain ⟨i, rfl⟩ := ty_int_cases w (hread.1 w rfl)
        exact ⟨by intro u hu; simp at hu; subst hu; rfl, by simp⟩
      | err c => exact ⟨by simp, by simp⟩
      | panic s => exact absurd rfl (hread.2 s)
  | .enumConst en n, t, h => by
    cases h
    exact ⟨by intro v hv; simp [evalT] at hv; subst hv; exact hX.enum en n, by simp [evalT]⟩
  | .labelProp l, t, h => by
    cases h; exact ⟨by intro v hv; simp [evalT] at hv; subst hv; rfl, by simp [evalT]⟩
  | .callx user f ps args, t, h => by
    exact ⟨by simp [evalT], by simp [evalT]⟩
theorem preservationCases_aux (F : FloatOps) (Γ : Ctx) (cs : Consts) (env : Env)
    (hE : EnvOk Γ cs env) (x : XEnv) (hX : XEnvOk Γ x) :
    (rest : TCases) → (t : Ty) → CasesTyped Γ t rest → (d : Nat) → (cur : Unit → Outcome Value) →
    ValOk t (cur ()) → ValOk t (evalCaseT F cs env x d cur rest)
  | rest, t, _, 0, cur, hc => by cases rest <;> simpa [evalCaseT] using hc
  | .nil, t, _, d + 1, cur, hc => by exact ⟨by simp [evalCaseT], by simp [evalCaseT]⟩
  | .blank rest, t, h, d + 1, cur, hc => by
    cases h with
    | blank hr =>
      simp only [evalCaseT]
      exact preservationCases_aux F Γ cs env hE x hX rest t hr d cur hc
  | .case e rest, t, h, d + 1, cur, hc => by
    cases h with
    | case he hr =>
      simp only [evalCaseT]
      exact preservationCases_aux F Γ cs env hE x hX rest t hr d _
        (preservationT_aux F Γ cs env hE x hX e t he)
end

/-- on the expressions of the C11 model `evalT` is the VM model `eval` -/
theorem evalT_erase (F : FloatOps) (cs : Consts) (env : Env) (x : XEnv) :
    (e : TExpr) → (e' : Expr) → e.erase = some e' → evalT F cs env x e = eval F cs env e'
  | .litI _, e', h | .litF _, e', h | .litS _, e', h | .reg _ _, e', h | .var _ _, e', h => by
    simp only [TExpr.erase, Option.some.injEq] at h; subst h; simp only [evalT, eval] <;> rfl
  | .unop op a, e', h => by
    simp only [TExpr.erase] at h
    cases ha : a.erase with
    | none => simp [ha] at h
    | some a' =>
      simp [ha] at h; subst h
      simp only [evalT, eval, evalT_erase F cs env x a a' ha]; rfl
  | .binop op a b, e', h => by
    simp only [TExpr.erase] at h
    cases ha : a.erase with
    | none => simp [ha] at h
    | some a' =>
      cases hb : b.erase with
      | none => simp [ha, hb] at h
      | some b' =>
        simp [ha, hb] at h; subst h
        simp only [evalT, eval, evalT_erase F cs env x a a' ha, evalT_erase F cs env x b b' hb]; rfl
  | .ternary c l r, e', h => by
    simp only [TExpr.erase] at h
    cases hc : c.erase with
    | none => simp [hc] at h
    | some c' =>
      cases hl : l.erase with
      | none => simp [hc, hl] at h
      | some l' =>
        cases hr : r.erase with
        | none => simp [hc, hl, hr] at h
        | some r' =>
          simp [hc, hl, hr] at h; subst h
          simp only [evalT, eval, evalT_erase F cs env x c c' hc, evalT_erase F cs env x l l' hl,
            evalT_erase F cs env x r r' hr]; rfl
  | .call _ _, e', h | .diffSwitch _ _, e', h | .xcrement _ _ _, e', h | .enumConst _ _, e', h
  | .labelProp _, e', h | .callx _ _ _ _, e', h => by simp [TExpr.erase] at h

/-- the C11 form: whenever a value-typed expression is an expression of the VM model -/
theorem preservation_aux (F : FloatOps) (Γ : Ctx) (cs : Consts) (env : Env) (hE : EnvOk Γ cs env)
    (e : TExpr) (t : Ty) (h : HasType Γ e (.value t)) (e' : Expr) (he : e.erase = some e') :
    (∀ v, eval F cs env e' = .ok v → v.ty = t) ∧ (∀ s, eval F cs env e' ≠ .panic s) := by
  let x : XEnv := ⟨0, fun en _ => if Γ.enumStr en then .str "" else .int 0, fun _ => 0⟩
  have hX : XEnvOk Γ x := ⟨by intro en n; simp only [x, Ctx.enumTy]; split <;> rfl⟩
  have := preservationT_aux F Γ cs env hE x hX e t h
  rw [evalT_erase F cs env x e e' he] at this
  exact this


/-- `compute_ty` agrees with `check_expr` on every accepted expression in which no qualified
constant of a string enum occurs (no hypothesis on the signatures is needed). -/
theorem computeTy_of_check (Γ : Ctx) (e : TExpr) (t : ETy) (h : check Γ e = .ok t)
    (hE : EnumOk Γ e) : computeTy Γ e = .ok t :=
  computeTy_of_check_gen Γ e t h (Or.inl hE)

theorem bind_requireValue_ne_panic {x : Outcome ETy} {s : String}
    (h : ∀ s, x ≠ .panic s) : (x >>= requireValue) ≠ .panic s := by
  cases x with
  | ok e => cases e <;> simp [requireValue]
  | err c => simp
  | panic s' => exact absurd rfl (h s')

theorem binopCheck_ne_panic (op : BinOp) (a b : Ty) (s : String) : binopCheck op a b ≠ .panic s := by
  cases op <;> cases a <;> cases b <;>
    simp [binopCheck, BinOp.cls, requireNumeric, requireExact, requireSame]

theorem unopCheck_ne_panic (op : UnOp) (a : Ty) (s : String) : unopCheck op a ≠ .panic s := by
  cases op <;> cases a <;> simp [unopCheck, requireNumeric, requireExact]

theorem binopTyWith_ok_ne_panic (op : BinOp) (a : Ty) (s : String) :
    binopTyWith op (fun _ => .ok a) ≠ .panic s := by
  cases op <;> simp [binopTyWith, BinOp.cls]

theorem unopTyWith_ok_ne_panic (op : UnOp) (a : Ty) (s : String) :
    unopTyWith op (fun _ => .ok a) ≠ .panic s := by
  cases op <;> simp [unopTyWith]

theorem checkVar_ne_panic (inh : VarTy) (sig : Option Sigil) (s : String) :
    checkVar inh sig ≠ .panic s := by
  cases inh with
  | untyped => cases sig <;> simp [checkVar, readTy]
  | typed u => cases sig <;> cases u <;> simp [checkVar, readTy]

theorem checkAssignable_ne_panic (Γ : Ctx) (v : VarRef) (s : String) :
    checkAssignable Γ v ≠ .panic s := by
  unfold checkAssignable; split <;> simp

mutual
/-- The type checker has no panic of its own on any expression (the `expect`s inside
`compute_ty` are only reached for operands that were already accepted). -/
theorem check_ne_panic (Γ : Ctx) : (e : TExpr) → (s : String) → check Γ e ≠ .panic s
  | .litI v, s => by simp [check]
  | .litF v, s => by simp [check]
  | .litS v, s => by simp [check]
  | .reg r sig, s => by
    simp only [check]
    cases hr : Γ.regTy r with
    | untyped => cases sig <;> simp [checkVar, readTy]
    | typed u => cases sig <;> cases u <;> simp [checkVar, readTy]
  | .var n sig, s => by
    simp only [check]
    cases hr : Γ.varTy n with
    | untyped => cases sig <;> simp [checkVar, readTy]
    | typed u => cases sig <;> cases u <;> simp [checkVar, readTy]
  | .unop op x, s => by
    simp only [check]
    intro h
    split at h
    · rename_i tx hx
      rw [checkValue_ok] at hx
      split at h
      · rename_i hu
        rw [unopTyWith_computeTy Γ op x tx hu
          (fun hne => computeTy_of_check_gen Γ x _ hx (Or.inr (by simpa using hne)))] at h
        split at h <;> try (cases h)
        rename_i s' hs'
        exact unopTyWith_ok_ne_panic _ _ _ hs'
      · cases h
      · rename_i s' hs'; exact unopCheck_ne_panic _ _ _ hs'
    · cases h
    · rename_i s' hs'
      exact bind_requireValue_ne_panic (fun s => check_ne_panic Γ x s) hs'
  | .binop op a b, s => by
    simp only [check]
    intro h
    split at h
    · rename_i ta ha
      rw [checkValue_ok] at ha
      split at h
      · split at h
        · rename_i hu
          rw [binopTyWith_computeTy Γ op a ta _ hu
            (fun hne => computeTy_of_check_gen Γ a _ ha (Or.inr (by simpa using hne)))] at h
          split at h <;> try (cases h)
          rename_i s' hs'
          exact binopTyWith_ok_ne_panic _ _ _ hs'
        · cases h
        · rename_i s' hs'; exact binopCheck_ne_panic _ _ _ _ hs'
      · cases h
      · rename_i s' hs'
        exact bind_requireValue_ne_panic (fun s => check_ne_panic Γ b s) hs'
    · cases h
    · rename_i s' hs'
      exact bind_requireValue_ne_panic (fun s => check_ne_panic Γ a s) hs'
  | .ternary c l r, s => by
    simp only [check]
    intro h
    split at h
    · split at h
      · split at h
        · split at h
          · split at h <;> try (cases h)
            rename_i s' hs'
            simp only [requireSame] at hs'
            split at hs' <;> cases hs'
          · cases h
          · rename_i s' hs'
            simp only [requireExact] at hs'
            split at hs' <;> cases hs'
        · cases h
        · rename_i s' hs'
          exact bind_requireValue_ne_panic (fun s => check_ne_panic Γ c s) hs'
      · cases h
      · rename_i s' hs'
        exact bind_requireValue_ne_panic (fun s => check_ne_panic Γ r s) hs'
    · cases h
    · rename_i s' hs'
      exact bind_requireValue_ne_panic (fun s => check_ne_panic Γ l s) hs'
  | .call f args, s => by
    simp only [check]
    intro h
    split at h
    · cases h
    · rename_i ps hps
      split at h
      · split at h
        · cases h
        · cases h
        · rename_i s' hs'; exact checkArgs_ne_panic Γ args ps s' hs'
      · cases h
  | .diffSwitch first rest, s => by
    simp only [check]
    intro h
    split at h
    · split at h
      · cases h
      · cases h
      · rename_i s' hs'; exact checkCases_ne_panic Γ _ rest s' hs'
    · cases h
    · rename_i s' hs'
      exact bind_requireValue_ne_panic (fun s => check_ne_panic Γ first s) hs'
  | .xcrement pre inc v, s => by
    simp only [check]
    intro h
    split at h
    · split at h
      · split at h
        · cases h
        · cases h
        · rename_i s' hs'
          simp only [requireExact] at hs'
          split at hs' <;> cases hs'
      · cases h
      · rename_i s' hs'
        split at hs'
        · exact checkAssignable_ne_panic Γ v s' hs'
        · cases hs'
    · cases h
    · rename_i s' hs'
      exact checkVar_ne_panic _ _ _ hs'
  | .enumConst en n, s => by simp [check]
  | .labelProp l, s => by simp [check]
  | .callx user f pseudos args, s => by
    simp only [check]
    intro h
    split at h
    · split at h
      · cases h
      · split at h
        · split at h <;> cases h
        · split at h
          · cases h
          · split at h
            · split at h
              · cases h
              · cases h
              · rename_i s' hs'; exact checkArgs_ne_panic Γ args _ s' hs'
            · cases h
    · cases h
    · rename_i s' hs'; exact checkPseudos_ne_panic Γ pseudos s' hs'
theorem checkArgs_ne_panic (Γ : Ctx) : (as : TArgs) → (ps : List Param) → (s : String) →
    checkArgs Γ as ps ≠ .panic s
  | .nil, ps, s => by simp [checkArgs]
  | .cons a as, [], s => by
    simp only [checkArgs]
    intro h
    split at h
    · exact checkArgs_ne_panic Γ as [] s h
    · cases h
    · rename_i s' hs'; exact check_ne_panic Γ a s' hs'
  | .cons a as, p :: ps, s => by
    simp only [checkArgs]
    intro h
    split at h
    · split at h
      · exact checkArgs_ne_panic Γ as ps s h
      · cases h
      · rename_i s' hs'
        simp only [paramCheck] at hs'
        split at hs'
        · split at hs' <;> cases hs'
        · cases hs'
    · cases h
    · rename_i s' hs'
      exact bind_requireValue_ne_panic (fun s => check_ne_panic Γ a s) hs'
theorem checkCases_ne_panic (Γ : Ctx) (t : Ty) : (cs : TCases) → (s : String) →
    checkCases Γ t cs ≠ .panic s
  | .nil, s => by simp [checkCases]
  | .blank cs, s => by simp only [checkCases]; exact checkCases_ne_panic Γ t cs s
  | .case e cs, s => by
    simp only [checkCases]
    intro h
    split at h
    · split at h
      · exact checkCases_ne_panic Γ t cs s h
      · cases h
      · rename_i s' hs'
        simp only [requireSame] at hs'
        split at hs' <;> cases hs'
    · cases h
    · rename_i s' hs'
      exact bind_requireValue_ne_panic (fun s => check_ne_panic Γ e s) hs'
theorem checkPseudos_ne_panic (Γ : Ctx) : (ps : TPseudos) → (s : String) →
    checkPseudos Γ ps ≠ .panic s
  | .nil, s => by simp [checkPseudos]
  | .cons k e ps, s => by
    simp only [checkPseudos]
    intro h
    split at h
    · split at h
      · exact checkPseudos_ne_panic Γ ps s h
      · cases h
      · rename_i s' hs'
        cases k <;> simp only [pseudoCheck] at hs' <;> split at hs' <;> cases hs'
    · cases h
    · rename_i s' hs'
      exact bind_requireValue_ne_panic (fun s => check_ne_panic Γ e s) hs'
end

mutual
theorem subs_accepted (Γ : Ctx) : (e : TExpr) → (t : ETy) → check Γ e = .ok t →
    ∀ e' ∈ subsE e, ∃ t', check Γ e' = .ok t'
  | .litI v, t, h => by simp only [subsE, List.mem_singleton]; rintro e' rfl; exact ⟨t, h⟩
  | .litF v, t, h => by simp only [subsE, List.mem_singleton]; rintro e' rfl; exact ⟨t, h⟩
  | .litS v, t, h => by simp only [subsE, List.mem_singleton]; rintro e' rfl; exact ⟨t, h⟩
  | .reg r s, t, h => by simp only [subsE, List.mem_singleton]; rintro e' rfl; exact ⟨t, h⟩
  | .var r s, t, h => by simp only [subsE, List.mem_singleton]; rintro e' rfl; exact ⟨t, h⟩
  | .unop op x, t, h => by
    intro e' he'
    simp only [subsE, List.mem_cons] at he'
    rcases he' with rfl | he'
    · exact ⟨t, h⟩
    · simp only [check] at h
      split at h
      · rename_i tx hx
        rw [checkValue_ok] at hx
        exact subs_accepted Γ x _ hx e' he'
      · cases h
      · cases h
  | .binop op a b, t, h => by
    intro e' he'
    simp only [subsE, List.mem_cons, List.mem_append] at he'
    rcases he' with rfl | he' | he'
    · exact ⟨t, h⟩
    all_goals
      simp only [check] at h
      split at h
      · rename_i ta ha
        rw [checkValue_ok] at ha
        split at h
        · rename_i tb hb
          rw [checkValue_ok] at hb
          first
            | exact subs_accepted Γ a _ ha e' he'
            | exact subs_accepted Γ b _ hb e' he'
        · cases h
        · cases h
      · cases h
      · cases h
  | .ternary c l r, t, h => by
    intro e' he'
    simp only [subsE, List.mem_cons, List.mem_append] at he'
    rcases he' with rfl | (he' | he') | he'
    · exact ⟨t, h⟩
    all_goals
      simp only [check] at h
      split at h
      · rename_i tl hl
        rw [checkValue_ok] at hl
        split at h
        · rename_i tr hr
          rw [checkValue_ok] at hr
          split at h
          · rename_i tc hc
            rw [checkValue_ok] at hc
            first
              | exact subs_accepted Γ c _ hc e' he'
              | exact subs_accepted Γ l _ hl e' he'
              | exact subs_accepted Γ r _ hr e' he'
          · cases h
          · cases h
        · cases h
        · cases h
      · cases h
      · cases h
  | .call f args, t, h => by
    intro e' he'
    simp only [subsE, List.mem_cons] at he'
    rcases he' with rfl | he'
    · exact ⟨t, h⟩
    · simp only [check] at h
      split at h
      · cases h
      · rename_i ps hps
        split at h
        · split at h
          · rename_i hargs
            exact args_subs_accepted Γ args ps hargs e' he'
          · cases h
          · cases h
        · cases h
  | .diffSwitch first rest, t, h => by
    intro e' he'
    simp only [subsE, List.mem_cons, List.mem_append] at he'
    rcases he' with rfl | he' | he'
    · exact ⟨t, h⟩
    all_goals
      simp only [check] at h
      split at h
      · rename_i tf hf
        rw [checkValue_ok] at hf
        split at h
        · rename_i hc
          first
            | exact subs_accepted Γ first _ hf e' he'
            | exact cases_subs_accepted Γ _ rest hc e' he'
        · cases h
        · cases h
      · cases h
      · cases h
  | .xcrement pre inc v, t, h => by
    simp only [subsE, List.mem_singleton]; rintro e' rfl; exact ⟨t, h⟩
  | .enumConst en n, t, h => by
    simp only [subsE, List.mem_singleton]; rintro e' rfl; exact ⟨t, h⟩
  | .labelProp l, t, h => by
    simp only [subsE, List.mem_singleton]; rintro e' rfl; exact ⟨t, h⟩
  | .callx user f pseudos args, t, h => by
    intro e' he'
    simp only [subsE, List.mem_cons, List.mem_append] at he'
    rcases he' with rfl | he' | he'
    · exact ⟨t, h⟩
    · simp only [check] at h
      split at h
      · rename_i hp
        exact pseudos_subs_accepted Γ pseudos hp e' he'
      · cases h
      · cases h
    · simp only [check] at h
      split at h
      · split at h
        · cases h
        · split at h
          · split at h
            · rename_i hn
              cases args with
              | nil => simp [subsA] at he'
              | cons _ _ => simp [TArgs.isNil] at hn
            · cases h
          · split at h
            · cases h
            · split at h
              · split at h
                · rename_i hargs
                  exact args_subs_accepted Γ args _ hargs e' he'
                · cases h
                · cases h
              · cases h
      · cases h
      · cases h
theorem args_subs_accepted (Γ : Ctx) : (as : TArgs) → (ps : List Param) →
    checkArgs Γ as ps = .ok () → ∀ e' ∈ subsA as, ∃ t', check Γ e' = .ok t'
  | .nil, ps, h => by simp [subsA]
  | .cons a as, [], h => by
    intro e' he'
    simp only [subsA, List.mem_append] at he'
    simp only [checkArgs] at h
    split at h
    · rename_i ta ha
      rcases he' with he' | he'
      · exact subs_accepted Γ a _ ha e' he'
      · exact args_subs_accepted Γ as [] h e' he'
    · cases h
    · cases h
  | .cons a as, p :: ps, h => by
    intro e' he'
    simp only [subsA, List.mem_append] at he'
    simp only [checkArgs] at h
    split at h
    · rename_i ta ha
      rw [checkValue_ok] at ha
      split at h
      · rcases he' with he' | he'
        · exact subs_accepted Γ a _ ha e' he'
        · exact args_subs_accepted Γ as ps h e' he'
      · cases h
      · cases h
    · cases h
    · cases h
theorem cases_subs_accepted (Γ : Ctx) (t : Ty) : (cs : TCases) →
    checkCases Γ t cs = .ok () → ∀ e' ∈ subsC cs, ∃ t', check Γ e' = .ok t'
  | .nil, h => by simp [subsC]
  | .blank cs, h => by
    simp only [checkCases] at h
    simp only [subsC]; exact cases_subs_accepted Γ t cs h
  | .case e cs, h => by
    intro e' he'
    simp only [subsC, List.mem_append] at he'
    simp only [checkCases] at h
    split at h
    · rename_i te he
      rw [checkValue_ok] at he
      split at h
      · rcases he' with he' | he'
        · exact subs_accepted Γ e _ he e' he'
        · exact cases_subs_accepted Γ t cs h e' he'
      · cases h
      · cases h
    · cases h
    · cases h
theorem pseudos_subs_accepted (Γ : Ctx) : (ps : TPseudos) →
    checkPseudos Γ ps = .ok () → ∀ e' ∈ subsP ps, ∃ t', check Γ e' = .ok t'
  | .nil, h => by simp [subsP]
  | .cons k e ps, h => by
    intro e' he'
    simp only [subsP, List.mem_append] at he'
    simp only [checkPseudos] at h
    split at h
    · rename_i te he
      rw [checkValue_ok] at he
      split at h
      · rcases he' with he' | he'
        · exact subs_accepted Γ e _ he e' he'
        · exact pseudos_subs_accepted Γ ps h e' he'
      · cases h
      · cases h
    · cases h
    · cases h
end

mutual
/-- subexpressions of subexpressions are subexpressions -/
theorem subsE_trans : (e : TExpr) → ∀ e' ∈ subsE e, ∀ y ∈ subsE e', y ∈ subsE e
  | .litI _ | .litF _ | .litS _ | .reg _ _ | .var _ _ | .xcrement _ _ _ | .enumConst _ _
  | .labelProp _ => by
    intro e' he' y hy
    simp only [subsE, List.mem_singleton] at he'
    subst he'; exact hy
  | .unop op x => by
    intro e' he' y hy
    simp only [subsE, List.mem_cons] at he'
    rcases he' with rfl | he'
    · exact hy
    · simp only [subsE, List.mem_cons]; exact Or.inr (subsE_trans x e' he' y hy)
  | .binop op a b => by
    intro e' he' y hy
    simp only [subsE, List.mem_cons, List.mem_append] at he'
    rcases he' with rfl | he' | he'
    · exact hy
    · simp only [subsE, List.mem_cons, List.mem_append]
      exact Or.inr (Or.inl (subsE_trans a e' he' y hy))
    · simp only [subsE, List.mem_cons, List.mem_append]
      exact Or.inr (Or.inr (subsE_trans b e' he' y hy))
  | .ternary c l r => by
    intro e' he' y hy
    simp only [subsE, List.mem_cons, List.mem_append] at he'
    rcases he' with rfl | (he' | he') | he'
    · exact hy
    · simp only [subsE, List.mem_cons, List.mem_append]
      exact Or.inr (Or.inl (Or.inl (subsE_trans c e' he' y hy)))
    · simp only [subsE, List.mem_cons, List.mem_append]
      exact Or.inr (Or.inl (Or.inr (subsE_trans l e' he' y hy)))
    · simp only [subsE, List.mem_cons, List.mem_append]
      exact Or.inr (Or.inr (subsE_trans r e' he' y hy))
  | .call f args => by
    intro e' he' y hy
    simp only [subsE, List.mem_cons] at he'
    rcases he' with rfl | he'
    · exact hy
    · simp only [subsE, List.mem_cons]; exact Or.inr (subsA_trans args e' he' y hy)
  | .diffSwitch first rest => by
    intro e' he' y hy
    simp only [subsE, List.mem_cons, List.mem_append] at he'
    rcases he' with rfl | he' | he'
    · exact hy
    · simp only [subsE, List.mem_cons, List.mem_append]
      exact Or.inr (Or.inl (subsE_trans first e' he' y hy))
    · simp only [subsE, List.mem_cons, List.mem_append]
      exact Or.inr (Or.inr (subsC_trans rest e' he' y hy))
  | .callx u f ps args => by
    intro e' he' y hy
    simp only [subsE, List.mem_cons, List.mem_append] at he'
    rcases he' with rfl | he' | he'
    · exact hy
    · simp only [subsE, List.mem_cons, List.mem_append]
      exact Or.inr (Or.inl (subsP_trans ps e' he' y hy))
    · simp only [subsE, List.mem_cons, List.mem_append]
      exact Or.inr (Or.inr (subsA_trans args e' he' y hy))
theorem subsA_trans : (as : TArgs) → ∀ e' ∈ subsA as, ∀ y ∈ subsE e', y ∈ subsA as
  | .nil => by simp [subsA]
  | .cons a as => by
    intro e' he' y hy
    simp only [subsA, List.mem_append] at he' ⊢
    rcases he' with he' | he'
    · exact Or.inl (subsE_trans a e' he' y hy)
    · exact Or.inr (subsA_trans as e' he' y hy)
theorem subsC_trans : (cs : TCases) → ∀ e' ∈ subsC cs, ∀ y ∈ subsE e', y ∈ subsC cs
  | .nil => by simp [subsC]
  | .blank cs => by simp only [subsC]; exact subsC_trans cs
  | .case e cs => by
    intro e' he' y hy
    simp only [subsC, List.mem_append] at he' ⊢
    rcases he' with he' | he'
    · exact Or.inl (subsE_trans e e' he' y hy)
    · exact Or.inr (subsC_trans cs e' he' y hy)
theorem subsP_trans : (ps : TPseudos) → ∀ e' ∈ subsP ps, ∀ y ∈ subsE e', y ∈ subsP ps
  | .nil => by simp [subsP]
  | .cons k e ps => by
    intro e' he' y hy
    simp only [subsP, List.mem_append] at he' ⊢
    rcases he' with he' | he'
    · exact Or.inl (subsE_trans e e' he' y hy)
    · exact Or.inr (subsP_trans ps e' he' y hy)
end

theorem EnumOk.of_mem {Γ : Ctx} {e e' : TExpr} (h : EnumOk Γ e) (he' : e' ∈ subsE e) : EnumOk Γ e' :=
  h.sub (fun y hy => subsE_trans e e' he' y hy)

end TruthModel.C09
