import TruthModel.Model.Types
/-
Helper lemmas for C09 (`Props/C09.lean`): each executable check succeeds exactly when the
corresponding declarative rule applies; the mutual inductions over expressions / argument lists.
-/
namespace TruthModel.C09
open TruthModel TruthModel.Types

theorem bind_eq_ok {α β} (x : Outcome α) (f : α → Outcome β) (b : β) :
    (x >>= f) = .ok b ↔ ∃ a, x = .ok a ∧ f a = .ok b := by
  cases x <;> simp

theorem checkVar_ok_iff (inh : VarTy) (sig : Option Sigil) (t : Ty) :
    checkVar inh sig = .ok t ↔ ReadTy inh sig t := by
  cases sig with
  | none =>
    cases inh with
    | untyped => simp [checkVar, readTy, ReadTy]
    | typed u => cases u <;> simp [checkVar, readTy, ReadTy, eq_comm]
  | some s =>
    cases inh with
    | untyped => simp [checkVar, readTy, ReadTy, eq_comm]
    | typed u => cases u <;> simp [checkVar, readTy, ReadTy, eq_comm]

theorem checkVar_readTy {inh : VarTy} {sig : Option Sigil} {t : Ty}
    (h : checkVar inh sig = .ok t) : readTy inh sig = .typed t := by
  cases sig with
  | none =>
    cases inh with
    | untyped => simp [checkVar, readTy] at h
    | typed u => cases u <;> simp_all [checkVar, readTy]
  | some s =>
    cases inh with
    | untyped => simp_all [checkVar, readTy]
    | typed u => cases u <;> simp_all [checkVar, readTy]

theorem binopCheck_ok_iff (op : BinOp) (a b : Ty) :
    binopCheck op a b = .ok () ↔ (a = b ∧ ∃ t', BinopTy op a t') := by
  cases op <;> cases a <;> cases b <;>
    simp [binopCheck, BinOp.cls, requireNumeric, requireExact, requireSame, BinopTy, Numeric]

theorem unopCheck_ok_iff (op : UnOp) (t : Ty) :
    unopCheck op t = .ok () ↔ ∃ t', UnopTy op t t' := by
  cases op <;> cases t <;> simp [unopCheck, requireNumeric, requireExact, UnopTy, Numeric]

theorem binopTyWith_iff (op : BinOp) (a t' : Ty) (h : ∃ u, BinopTy op a u) :
    binopTyWith op (fun _ => .ok a) = .ok t' ↔ BinopTy op a t' := by
  cases op <;> cases a <;> cases t' <;> simp_all [binopTyWith, BinOp.cls, BinopTy, Numeric]

theorem unopTyWith_iff (op : UnOp) (a t' : Ty) (h : ∃ u, UnopTy op a u) :
    unopTyWith op (fun _ => .ok a) = .ok t' ↔ UnopTy op a t' := by
  cases op <;> cases a <;> cases t' <;> simp_all [unopTyWith, UnopTy, Numeric]

theorem checkValue_ok (Γ : Ctx) (a : TExpr) (t : Ty) :
    (check Γ a >>= requireValue) = .ok t ↔ check Γ a = .ok (.value t) := by
  rw [bind_eq_ok]
  constructor
  · rintro ⟨e, he, hv⟩
    cases e <;> simp_all [requireValue]
  · intro h; exact ⟨_, h, rfl⟩


theorem minArgs_all_optional (ps : List Param) (h : ps.all (·.optional) = true) : minArgs ps = 0 := by
  induction ps with
  | nil => rfl
  | cons p ps ih => simp_all [minArgs]

theorem required_of_minArgs_zero (ps : List Param) (h : minArgs ps = 0) : required ps = [] := by
  induction ps with
  | nil => rfl
  | cons p ps ih =>
    simp only [minArgs] at h
    by_cases hp : p.optional
    · simp_all [required]
    · simp [hp] at h

theorem paramCheck_ok_iff (p : Param) (t : Ty) : paramCheck p t = .ok () ↔ ParamAccepts p t := by
  unfold paramCheck ParamAccepts
  cases hp : p.ty with
  | untyped => simp
  | typed u => by_cases h : t = u <;> simp [h, eq_comm]

mutual
theorem check_sound_aux (Γ : Ctx) (hΓ : SigsOk Γ) : (e : TExpr) → (t : ETy) → check Γ e = .ok t →
    HasType Γ e t ∧ computeTy Γ e = .ok t
  | .litI v, t, h => by
    simp only [check] at h; cases h; exact ⟨.litI v, rfl⟩
  | .litF v, t, h => by
    simp only [check] at h; cases h; exact ⟨.litF v, rfl⟩
  | .litS v, t, h => by
    simp only [check] at h; cases h; exact ⟨.litS v, rfl⟩
  | .reg r sig, t, h => by
    simp only [check] at h
    split at h <;> cases h
    rename_i u hu
    exact ⟨.reg ((checkVar_ok_iff _ _ _).mp hu), by simp [computeTy, checkVar_readTy hu]⟩
  | .var n sig, t, h => by
    simp only [check] at h
    split at h <;> cases h
    rename_i u hu
    exact ⟨.var ((checkVar_ok_iff _ _ _).mp hu), by simp [computeTy, checkVar_readTy hu]⟩
  | .unop op x, t, h => by
    simp only [check] at h
    split at h
    · rename_i tx hx
      rw [checkValue_ok] at hx
      have ⟨htx, hcx⟩ := check_sound_aux Γ hΓ x _ hx
      split at h
      · rename_i hu
        rw [unopCheck_ok_iff] at hu
        simp only [hcx, expectValue] at h
        split at h <;> cases h
        rename_i t' ht'
        rw [unopTyWith_iff _ _ _ hu] at ht'
        refine ⟨.unop ht' htx, ?_⟩
        simp only [computeTy, hcx, expectValue]
        rw [(unopTyWith_iff _ _ _ hu).mpr ht']
      · cases h
      · cases h
    · cases h
    · cases h
  | .binop op a b, t, h => by
    simp only [check] at h
    split at h
    · rename_i ta ha
      rw [checkValue_ok] at ha
      have ⟨hta, hca⟩ := check_sound_aux Γ hΓ a _ ha
      split at h
      · rename_i tb hb
        rw [checkValue_ok] at hb
        have ⟨htb, _⟩ := check_sound_aux Γ hΓ b _ hb
        split at h
        · rename_i hu
          rw [binopCheck_ok_iff] at hu
          obtain ⟨hab, hu⟩ := hu
          subst hab
          simp only [hca, expectValue] at h
          split at h <;> cases h
          rename_i t' ht'
          rw [binopTyWith_iff _ _ _ hu] at ht'
          refine ⟨.binop ht' hta htb, ?_⟩
          simp only [computeTy, hca, expectValue]
          rw [(binopTyWith_iff _ _ _ hu).mpr ht']
        · cases h
        · cases h
      · cases h
      · cases h
    · cases h
    · cases h
  | .ternary c l r, t, h => by
    simp only [check] at h
    split at h
    · rename_i tl hl
      rw [checkValue_ok] at hl
      have ⟨htl, hcl⟩ := check_sound_aux Γ hΓ l _ hl
      split at h
      · rename_i tr hr
        rw [checkValue_ok] at hr
        have ⟨htr, _⟩ := check_sound_aux Γ hΓ r _ hr
        split at h
        · rename_i tc hc
          rw [checkValue_ok] at hc
          have ⟨htc, _⟩ := check_sound_aux Γ hΓ c _ hc
          split at h
          · rename_i hi
            split at h
            · rename_i u hs
              cases h
              simp only [requireExact] at hi
              split at hi <;> cases hi
              simp only [requireSame] at hs
              split at hs <;> cases hs
              subst_vars
              exact ⟨.ternary htc htl htr, by simpa [computeTy] using hcl⟩
            · cases h
            · cases h
          · cases h
          · cases h
        · cases h
        · cases h
      · cases h
      · cases h
    · cases h
    · cases h
  | .call f args, t, h => by
    simp only [check] at h
    split at h
    · cases h
    · rename_i ps hps
      split at h
      · rename_i hlen
        split at h <;> cases h
        rename_i hargs
        have hl : args.length = minArgs ps := by simp only [maxArgs] at hlen; omega
        exact ⟨.call hps (checkArgs_sound_aux Γ hΓ args ps (hΓ f ps hps) hl hargs), by simp [computeTy, hps]⟩
      · cases h
theorem checkArgs_sound_aux (Γ : Ctx) (hΓ : SigsOk Γ) : (as : TArgs) → (ps : List Param) →
    trailingOptional ps = true → as.length = minArgs ps → checkArgs Γ as ps = .ok () →
    ArgsTyped Γ as (required ps)
  | .nil, ps, _, hl, _ => by
    simp only [TArgs.length] at hl
    rw [required_of_minArgs_zero ps hl.symm]
    exact .nil
  | .cons a as, [], _, hl, _ => by
    simp [TArgs.length, minArgs] at hl
  | .cons a as, p :: ps, htr, hl, h => by
    by_cases hp : p.optional
    · simp only [trailingOptional, hp, if_true] at htr
      simp [TArgs.length, minArgs, hp, minArgs_all_optional ps htr] at hl
    · simp only [trailingOptional, hp] at htr
      simp only [TArgs.length, minArgs, hp] at hl
      simp only [checkArgs] at h
      split at h
      · rename_i t ha
        rw [checkValue_ok] at ha
        have ⟨hta, _⟩ := check_sound_aux Γ hΓ a _ ha
        split at h
        · rename_i hpc
          rw [paramCheck_ok_iff] at hpc
          simp only [required, hp]
          exact .cons hta hpc (checkArgs_sound_aux Γ hΓ as ps (by simpa using htr) (by simp at hl; omega) h)
        · cases h
        · cases h
      · cases h
      · cases h
end


theorem length_of_argsTyped (Γ : Ctx) : (as : TArgs) → (ps : List Param) → ArgsTyped Γ as ps →
    as.length = ps.length
  | .nil, _, h => by cases h; rfl
  | .cons a as, _, h => by
    cases h with
    | cons _ _ hr => simp [TArgs.length, length_of_argsTyped Γ as _ hr]

theorem minArgs_eq_required (ps : List Param) : minArgs ps = (required ps).length := by
  induction ps with
  | nil => rfl
  | cons p ps ih => by_cases hp : p.optional <;> simp [minArgs, required, hp, ih]; omega

mutual
theorem check_complete_aux (Γ : Ctx) (hΓ : SigsOk Γ) : (e : TExpr) → (t : ETy) → HasType Γ e t →
    check Γ e = .ok t
  | .litI v, t, h => by cases h; rfl
  | .litF v, t, h => by cases h; rfl
  | .litS v, t, h => by cases h; rfl
  | .reg r sig, t, h => by
    cases h with
    | reg hr => simp [check, (checkVar_ok_iff _ _ _).mpr hr]
  | .var n sig, t, h => by
    cases h with
    | var hr => simp [check, (checkVar_ok_iff _ _ _).mpr hr]
  | .unop op x, t, h => by
    cases h with
    | unop hu hx =>
      have cx := check_complete_aux Γ hΓ x _ hx
      have ccx := (check_sound_aux Γ hΓ x _ cx).2
      simp only [check, (checkValue_ok _ _ _).mpr cx, (unopCheck_ok_iff _ _).mpr ⟨_, hu⟩, ccx,
        expectValue, (unopTyWith_iff _ _ _ ⟨_, hu⟩).mpr hu]
  | .binop op a b, t, h => by
    cases h with
    | binop hu ha hb =>
      have ca := check_complete_aux Γ hΓ a _ ha
      have cb := check_complete_aux Γ hΓ b _ hb
      have cca := (check_sound_aux Γ hΓ a _ ca).2
      simp only [check, (checkValue_ok _ _ _).mpr ca, (checkValue_ok _ _ _).mpr cb,
        (binopCheck_ok_iff _ _ _).mpr ⟨rfl, _, hu⟩, cca, expectValue,
        (binopTyWith_iff _ _ _ ⟨_, hu⟩).mpr hu]
  | .ternary c l r, t, h => by
    cases h with
    | ternary hc hl hr =>
      have cc := check_complete_aux Γ hΓ c _ hc
      have cl := check_complete_aux Γ hΓ l _ hl
      have cr := check_complete_aux Γ hΓ r _ hr
      simp [check, (checkValue_ok _ _ _).mpr cc, (checkValue_ok _ _ _).mpr cl,
        (checkValue_ok _ _ _).mpr cr, requireExact, requireSame]
  | .call f args, t, h => by
    cases h with
    | call hps hargs =>
      rename_i ps
      have hlen := length_of_argsTyped Γ _ _ hargs
      rw [← minArgs_eq_required] at hlen
      have := checkArgs_complete_aux Γ hΓ args ps (hΓ f ps hps) hargs
      simp [check, hps, maxArgs, hlen, this]
theorem checkArgs_complete_aux (Γ : Ctx) (hΓ : SigsOk Γ) : (as : TArgs) → (ps : List Param) →
    trailingOptional ps = true → ArgsTyped Γ as (required ps) → checkArgs Γ as ps = .ok ()
  | .nil, ps, _, _ => by simp [checkArgs]
  | .cons a as, [], _, h => by simp only [required] at h; cases h
  | .cons a as, p :: ps, htr, h => by
    by_cases hp : p.optional
    · simp only [trailingOptional, hp, if_true] at htr
      have := required_of_minArgs_zero ps (minArgs_all_optional ps htr)
      simp only [required, hp, if_true, this] at h
      cases h
    · simp only [trailingOptional, hp] at htr
      simp only [required, hp] at h
      cases h with
      | cons ha hpa hr =>
        have ca := check_complete_aux Γ hΓ a _ ha
        have := checkArgs_complete_aux Γ hΓ as ps (by simpa using htr) hr
        simp [checkArgs, (checkValue_ok _ _ _).mpr ca, (paramCheck_ok_iff _ _).mpr hpa, this]
end



theorem check_iff (Γ : Ctx) (hΓ : SigsOk Γ) (e : TExpr) (t : ETy) :
    check Γ e = .ok t ↔ HasType Γ e t :=
  ⟨fun h => (check_sound_aux Γ hΓ e t h).1, check_complete_aux Γ hΓ e t⟩

theorem andThen_ok_iff (a b : Outcome Unit) :
    a.andThen b = .ok () ↔ a = .ok () ∧ b = .ok () := by
  cases a <;> cases b <;> simp [Outcome.andThen]

theorem requireExact_ok_iff (t u : Ty) : requireExact t u = .ok () ↔ t = u := by
  unfold requireExact; split <;> simp_all

theorem requireSame_ok_iff (t u v : Ty) : requireSame t u = .ok v ↔ (t = u ∧ v = t) := by
  unfold requireSame; split <;> simp_all [eq_comm]

theorem checkCond_ok_iff (Γ : Ctx) (hΓ : SigsOk Γ) (c : TExpr) :
    checkCond Γ c = .ok () ↔ HasType Γ c (.value .int) := by
  unfold checkCond
  constructor
  · intro h
    split at h
    · rename_i t ht
      rw [checkValue_ok, check_iff Γ hΓ] at ht
      rw [requireExact_ok_iff] at h
      subst h; exact ht
    · cases h
    · cases h
  · intro h
    rw [← check_iff Γ hΓ, ← checkValue_ok] at h
    simp [h, requireExact]

theorem checkExprStmt_ok_iff (Γ : Ctx) (hΓ : SigsOk Γ) (e : TExpr) :
    checkExprStmt Γ e = .ok () ↔ HasType Γ e .void := by
  unfold checkExprStmt
  constructor
  · intro h
    split at h
    · rename_i t ht
      cases t with
      | void => exact (check_iff Γ hΓ _ _).mp ht
      | value u => simp [requireVoid] at h
    · cases h
    · cases h
  · intro h
    rw [← check_iff Γ hΓ] at h
    simp [h, requireVoid]

theorem checkAssignable_ok_iff (Γ : Ctx) (v : VarRef) :
    checkAssignable Γ v = .ok () ↔ Assignable Γ v := by
  unfold checkAssignable Assignable
  cases v.isReg <;> cases Γ.isConst v.id <;> simp

theorem checkAssignable_cases (Γ : Ctx) (v : VarRef) :
    checkAssignable Γ v = .ok () ∨ checkAssignable Γ v = .err constAssignErr := by
  unfold checkAssignable
  split <;> simp

theorem checkAssignTyped_ok_iff (Γ : Ctx) (hΓ : SigsOk Γ) (v : VarRef) (op : AssignOp) (e : TExpr) :
    checkAssignTyped Γ v op e = .ok () ↔
      ∃ t, ReadTy (Γ.refTy v) v.sig t ∧ HasType Γ e (.value t) ∧ AssignTy op t := by
  unfold checkAssignTyped AssignTy
  constructor
  · intro h
    split at h
    · rename_i tv hv
      rw [checkVar_ok_iff] at hv
      split at h
      · rename_i te he
        rw [checkValue_ok, check_iff Γ hΓ] at he
        split at h
        · rename_i hop
          split at h
          · rename_i u hs
            rw [requireSame_ok_iff] at hs
            obtain ⟨rfl, _⟩ := hs
            exact ⟨tv, hv, he, by simp⟩
          · cases h
          · cases h
        · rename_i b hop
          rw [binopCheck_ok_iff] at h
          obtain ⟨rfl, hb⟩ := h
          exact ⟨tv, hv, he, by simpa [hop] using hb⟩
      · cases h
      · cases h
    · cases h
    · cases h
  · rintro ⟨t, hv, he, hop⟩
    rw [← checkVar_ok_iff] at hv
    rw [← check_iff Γ hΓ, ← checkValue_ok] at he
    simp only [hv, he]
    cases hb : op.binop with
    | none => simp [requireSame]
    | some b =>
      simp only [hb] at hop
      simpa using (binopCheck_ok_iff b t t).mpr ⟨rfl, hop⟩

theorem checkAssign_ok_iff (Γ : Ctx) (hΓ : SigsOk Γ) (v : VarRef) (op : AssignOp) (e : TExpr) :
    checkAssign Γ v op e = .ok () ↔
      (Assignable Γ v ∧
        ∃ t, ReadTy (Γ.refTy v) v.sig t ∧ HasType Γ e (.value t) ∧ AssignTy op t) := by
  unfold checkAssign
  rw [← checkAssignable_ok_iff, ← checkAssignTyped_ok_iff Γ hΓ]
  rcases checkAssignable_cases Γ v with h | h <;> simp [h]

theorem checkClobber_ok_iff (Γ : Ctx) (v : VarRef) (tc : Ty) :
    checkClobber Γ v tc = .ok () ↔ (Assignable Γ v ∧ ReadTy (Γ.refTy v) v.sig tc) := by
  unfold checkClobber
  rw [← checkAssignable_ok_iff, ← checkVar_ok_iff]
  rcases checkAssignable_cases Γ v with h | h
  · simp only [h, true_and]
    cases hv : checkVar (Γ.refTy v) v.sig with
    | ok tv => by_cases ht : tv = tc <;> simp [requireSame, ht]
    | err c => simp
    | panic s => simp
  · simp [h]

theorem checkTimes_ok_iff (Γ : Ctx) (hΓ : SigsOk Γ) (cl : Option VarRef) (count : TExpr) :
    checkTimes Γ cl count = .ok () ↔
      (HasType Γ count (.value .int) ∧
        (match cl with
          | none => True
          | some v => Assignable Γ v ∧ ReadTy (Γ.refTy v) v.sig .int)) := by
  unfold checkTimes
  constructor
  · intro h
    split at h
    · rename_i tc hc
      rw [checkValue_ok, check_iff Γ hΓ] at hc
      split at h
      · rename_i hi
        rw [requireExact_ok_iff] at hi
        subst hi
        refine ⟨hc, ?_⟩
        cases cl with
        | none => trivial
        | some v =>
          simp only at h ⊢
          exact (checkClobber_ok_iff Γ v _).mp h
      · cases h
      · cases h
    · cases h
    · cases h
  · rintro ⟨hc, hcl⟩
    rw [← check_iff Γ hΓ, ← checkValue_ok] at hc
    simp only [hc, requireExact, if_true]
    cases cl with
    | none => rfl
    | some v =>
      simp only at hcl ⊢
      exact (checkClobber_ok_iff Γ v _).mpr hcl

theorem checkDecl_ok_iff (Γ : Ctx) (hΓ : SigsOk Γ) (x : Nat) (e : TExpr) :
    checkDecl Γ x (some e) = .ok () ↔ ∃ t, Γ.varTy x = .typed t ∧ HasType Γ e (.value t) := by
  unfold checkDecl
  constructor
  · intro h
    simp only at h
    split at h
    · rename_i tv hv
      rw [checkVar_ok_iff] at hv
      split at h
      · rename_i te he
        rw [checkValue_ok, check_iff Γ hΓ] at he
        rw [requireExact_ok_iff] at h
        subst h
        exact ⟨te, hv, he⟩
      · cases h
      · cases h
    · cases h
    · cases h
  · rintro ⟨t, hv, he⟩
    have hv' : checkVar (Γ.varTy x) none = .ok t := (checkVar_ok_iff _ _ _).mpr hv
    rw [← check_iff Γ hΓ, ← checkValue_ok] at he
    simp [hv', he, requireExact]

theorem checkReturn_ok_iff (Γ : Ctx) (hΓ : SigsOk Γ) (ρ : Option ETy) (e : Option TExpr) :
    checkReturn Γ ρ e = .ok () ↔ WellTypedStmt Γ ρ (.ret e) := by
  unfold checkReturn
  cases ρ with
  | none => cases e <;> simp [WellTypedStmt, returnOutsideFunction]
  | some rt =>
    cases e with
    | none =>
      simp only [WellTypedStmt]
      constructor
      · intro h; split at h <;> simp_all
      · intro h; simp_all
    | some v =>
      simp only [WellTypedStmt]
      constructor
      · intro h
        split at h
        · rename_i t ht
          rw [checkValue_ok, check_iff Γ hΓ] at ht
          split at h
          · rename_i heq; exact ⟨t, ht, by rw [heq]⟩
          · cases h
        · cases h
        · cases h
      · rintro ⟨t, ht, hρ⟩
        rw [← check_iff Γ hΓ, ← checkValue_ok] at ht
        simp only [Option.some.injEq] at hρ
        simp [ht, hρ]



theorem lit_hasType (Γ : Ctx) (e : TExpr) (t : Ty) (h : litTy e = some t) : HasType Γ e (.value t) := by
  cases e <;> simp [litTy] at h <;> subst h <;> constructor

theorem lit_check (Γ : Ctx) (e : TExpr) (t : Ty) (h : litTy e = some t) : check Γ e = .ok (.value t) := by
  cases e <;> simp [litTy] at h <;> subst h <;> rfl

theorem hasType_unique (Γ : Ctx) (hΓ : SigsOk Γ) (e : TExpr) (t u : ETy)
    (h1 : HasType Γ e t) (h2 : HasType Γ e u) : t = u := by
  rw [← check_iff Γ hΓ] at h1 h2
  rw [h1] at h2; cases h2; rfl

theorem checkConstDecl_ok_iff (cfg : Cfg) (Γ : Ctx) (hΓ : SigsOk Γ) (x : Nat) (e : TExpr)
    (hc : Covered cfg Γ (.constDecl x e)) :
    checkConstDecl cfg Γ x e = .ok () ↔ WellTypedStmt Γ ρ (.constDecl x e) := by
  simp only [WellTypedStmt]
  unfold checkConstDecl
  by_cases hcfg : cfg.checksConstDeclTy = true
  · simp only [hcfg, if_true]
    exact checkDecl_ok_iff Γ hΓ x e
  · simp only [Covered] at hc
    obtain ⟨t, hl, hx⟩ := hc.resolve_left hcfg
    simp only [hcfg]
    constructor
    · intro _; exact ⟨t, hx, lit_hasType Γ e t hl⟩
    · intro _; simp [lit_check Γ e t hl]

theorem checkLabel_ok_iff (cfg : Cfg) (Γ : Ctx) (hΓ : SigsOk Γ) (e : TExpr)
    (hc : cfg.checksLabelExprs = true ∨ litTy e = some .int) :
    (if cfg.checksLabelExprs then checkCond Γ e else .ok ()) = .ok () ↔ HasType Γ e (.value .int) := by
  by_cases hcfg : cfg.checksLabelExprs = true
  · simp only [hcfg, if_true]; exact checkCond_ok_iff Γ hΓ e
  · have hc := hc.resolve_left hcfg
    simp only [hcfg]
    constructor
    · intro _; exact lit_hasType Γ e _ hc
    · intro _; rfl

mutual
theorem checkStmt_iff (cfg : Cfg) (Γ : Ctx) (hΓ : SigsOk Γ) : (ρ : Option ETy) → (s : Stmt) →
    Covered cfg Γ s → (checkStmt cfg Γ ρ s = .ok () ↔ WellTypedStmt Γ ρ s)
  | ρ, .exprStmt e, _ => by simp only [checkStmt, WellTypedStmt]; exact checkExprStmt_ok_iff Γ hΓ e
  | ρ, .assign v op e, _ => by simp only [checkStmt, WellTypedStmt]; exact checkAssign_ok_iff Γ hΓ v op e
  | ρ, .decl x none, _ => by simp [checkStmt, WellTypedStmt, checkDecl]
  | ρ, .decl x (some e), _ => by simp only [checkStmt, WellTypedStmt]; exact checkDecl_ok_iff Γ hΓ x e
  | ρ, .constDecl x e, hc => by simp only [checkStmt]; exact checkConstDecl_ok_iff cfg Γ hΓ x e hc
  | ρ, .ite c t e, hc => by
    simp only [Covered] at hc
    simp only [checkStmt, WellTypedStmt, andThen_ok_iff, checkCond_ok_iff Γ hΓ,
      checkStmts_iff cfg Γ hΓ ρ t hc.1, checkStmts_iff cfg Γ hΓ ρ e hc.2]
  | ρ, .while_ c body, hc => by
    simp only [Covered] at hc
    simp only [checkStmt, WellTypedStmt, andThen_ok_iff, checkCond_ok_iff Γ hΓ,
      checkStmts_iff cfg Γ hΓ ρ body hc]
    exact And.comm
  | ρ, .doWhile c body, hc => by
    simp only [Covered] at hc
    simp only [checkStmt, WellTypedStmt, andThen_ok_iff, checkCond_ok_iff Γ hΓ,
      checkStmts_iff cfg Γ hΓ ρ body hc]
  | ρ, .loop body, hc => by
    simp only [Covered] at hc
    simp only [checkStmt, WellTypedStmt, checkStmts_iff cfg Γ hΓ ρ body hc]
  | ρ, .times cl count body, hc => by
    simp only [Covered] at hc
    simp only [checkStmt, WellTypedStmt, andThen_ok_iff, checkTimes_ok_iff Γ hΓ,
      checkStmts_iff cfg Γ hΓ ρ body hc, and_assoc]
    exact Iff.rfl
  | ρ, .condJump c, _ => by simp only [checkStmt, WellTypedStmt]; exact checkCond_ok_iff Γ hΓ c
  | ρ, .inert, _ => by simp [checkStmt, WellTypedStmt]
  | ρ, .block body, hc => by
    simp only [Covered] at hc
    simp only [checkStmt, WellTypedStmt, hc.1, if_true, checkStmts_iff cfg Γ hΓ ρ body hc.2]
  | ρ, .ret e, _ => by simp only [checkStmt]; exact checkReturn_ok_iff Γ hΓ ρ e
  | ρ, .func rt body, hc => by
    simp only [Covered] at hc
    simp only [checkStmt, WellTypedStmt, checkStmts_iff cfg Γ hΓ (some rt) body hc]
  | ρ, .script body, hc => by
    simp only [Covered] at hc
    simp only [checkStmt, WellTypedStmt, checkStmts_iff cfg Γ hΓ ρ body hc]
  | ρ, .interruptLabel e, hc => by
    simp only [Covered] at hc
    simp only [checkStmt, WellTypedStmt]; exact checkLabel_ok_iff cfg Γ hΓ e hc
  | ρ, .relTimeLabel e, hc => by
    simp only [Covered] at hc
    simp only [checkStmt, WellTypedStmt]; exact checkLabel_ok_iff cfg Γ hΓ e hc
theorem checkStmts_iff (cfg : Cfg) (Γ : Ctx) (hΓ : SigsOk Γ) : (ρ : Option ETy) → (ss : Stmts) →
    CoveredS cfg Γ ss → (checkStmts cfg Γ ρ ss = .ok () ↔ WellTypedStmts Γ ρ ss)
  | ρ, .nil, _ => by simp [checkStmts, WellTypedStmts]
  | ρ, .cons s ss, hc => by
    simp only [CoveredS] at hc
    simp only [checkStmts, WellTypedStmts, andThen_ok_iff, checkStmt_iff cfg Γ hΓ ρ s hc.1,
      checkStmts_iff cfg Γ hΓ ρ ss hc.2]
end


theorem castBySigil_ty (F : FloatOps) (v : Value) (sig : Option Sigil) (t : Ty)
    (h : ReadTy (.typed v.ty) sig t) : ∃ w, castBySigil F v sig = some w ∧ w.ty = t := by
  cases sig with
  | none =>
    simp only [ReadTy, VarTy.typed.injEq] at h
    exact ⟨v, rfl, h⟩
  | some s =>
    obtain ⟨rfl, hn⟩ := h
    cases s <;> cases v <;> simp_all [castBySigil, Value.ty, sigilTy]

theorem binop_ty (F : FloatOps) (op : BinOp) (va vb : Value) (t t' : Ty)
    (ha : va.ty = t) (hb : vb.ty = t) (hop : BinopTy op t t') :
    (∀ w, binop F op va vb = .ok w → w.ty = t') ∧ (∀ s, binop F op va vb ≠ .panic s) := by
  cases va <;> cases vb <;> simp only [Value.ty] at ha hb <;> subst ha <;> try (cases hb)
  · -- int, int
    cases op <;> simp_all [BinopTy, Numeric, binop, binopInt, Value.ty] <;>
      (try split) <;> simp_all
  · -- float, float
    cases op <;> simp_all [BinopTy, Numeric, binop, binopFloat, Value.ty]
  · -- str, str
    cases op <;> simp_all [BinopTy, Numeric]

theorem unop_ty (F : FloatOps) (op : UnOp) (v : Value) (t t' : Ty)
    (hv : v.ty = t) (hop : UnopTy op t t') (hs : sigilOfUnop op = none) :
    ∃ w, unop F op v = .ok (some w) ∧ w.ty = t' := by
  cases v <;> simp only [Value.ty] at hv <;> subst hv <;>
    cases op <;> simp_all [UnopTy, Numeric, unop, sigilOfUnop, Value.ty]

theorem unop_sigil_ty (F : FloatOps) (op : UnOp) (s : Sigil) (v : Value) (t t' : Ty)
    (hv : v.ty = t) (hop : UnopTy op t t') (hs : sigilOfUnop op = some s) :
    ∃ w, castBySigil F v (some s) = some w ∧ w.ty = t' := by
  cases v <;> simp only [Value.ty] at hv <;> subst hv <;>
    cases op <;> simp [sigilOfUnop] at hs <;> subst hs <;>
    simp_all [UnopTy, Numeric, castBySigil, Value.ty]

theorem ty_int_cases (v : Value) (h : v.ty = .int) : ∃ x, v = .int x := by
  cases v <;> simp_all [Value.ty]

theorem preservation_aux (F : FloatOps) (Γ : Ctx) (cs : Consts) (env : Env) (hE : EnvOk Γ cs env) :
    (e : TExpr) → (t : Ty) → HasType Γ e (.value t) →
    ∃ e', e.erase = some e' ∧ (∀ v, eval F cs env e' = .ok v → v.ty = t) ∧
      (∀ s, eval F cs env e' ≠ .panic s)
  | .litI x, t, h => by
    cases h; exact ⟨_, rfl, by intro v hv; simp [eval] at hv; subst hv; rfl, by simp [eval]⟩
  | .litF x, t, h => by
    cases h; exact ⟨_, rfl, by intro v hv; simp [eval] at hv; subst hv; rfl, by simp [eval]⟩
  | .litS x, t, h => by
    cases h; exact ⟨_, rfl, by intro v hv; simp [eval] at hv; subst hv; rfl, by simp [eval]⟩
  | .reg r sig, t, h => by
    cases h with
    | reg hr =>
      refine ⟨_, rfl, ?_, by simp [eval]⟩
      intro v hv; simp [eval] at hv; subst hv; exact hE.reg r sig t hr
  | .var n sig, t, h => by
    cases h with
    | var hr =>
      refine ⟨_, rfl, ?_, ?_⟩
      · intro v hv
        simp only [eval] at hv
        cases hc : cs n with
        | none => simp [hc] at hv; subst hv; exact hE.loc n sig t hc hr
        | some c =>
          have hty := hE.const n c hc
          rw [hty] at hr
          obtain ⟨w, hw, hwt⟩ := castBySigil_ty F c sig t hr
          simp [hc, hw] at hv; subst hv; exact hwt
      · intro s
        simp only [eval]
        cases hc : cs n with
        | none => simp
        | some c =>
          have hty := hE.const n c hc
          rw [hty] at hr
          obtain ⟨w, hw, _⟩ := castBySigil_ty F c sig t hr
          simp [hw]
  | .unop op x, t, h => by
    cases h with
    | unop hop hx =>
      rename_i tx
      obtain ⟨x', hx', hty, hnp⟩ := preservation_aux F Γ cs env hE x tx hx
      refine ⟨.unop op x', by simp [TExpr.erase, hx'], ?_, ?_⟩
      · intro v hv
        simp only [eval] at hv
        cases hev : eval F cs env x' with
        | ok vx =>
          have hvx := hty vx hev
          simp only [hev] at hv
          cases hs : sigilOfUnop op with
          | none =>
            obtain ⟨w, hw, hwt⟩ := unop_ty F op vx tx t hvx hop hs
            simp [hs, hw] at hv; subst hv; exact hwt
          | some s =>
            obtain ⟨w, hw, hwt⟩ := unop_sigil_ty F op s vx tx t hvx hop hs
            simp [hs, hw] at hv; subst hv; exact hwt
        | err c => simp [hev] at hv
        | panic s => simp [hev] at hv
      · intro s
        simp only [eval]
        cases hev : eval F cs env x' with
        | ok vx =>
          have hvx := hty vx hev
          cases hs : sigilOfUnop op with
          | none =>
            obtain ⟨w, hw, _⟩ := unop_ty F op vx tx t hvx hop hs
            simp [hw]
          | some s' =>
            obtain ⟨w, hw, _⟩ := unop_sigil_ty F op s' vx tx t hvx hop hs
            simp [hw]
        | err c => simp
        | panic s' => exact absurd hev (hnp s')
  | .binop op a b, t, h => by
    cases h with
    | binop hop ha hb =>
      rename_i tx
      obtain ⟨a', ha', htya, hnpa⟩ := preservation_aux F Γ cs env hE a tx ha
      obtain ⟨b', hb', htyb, hnpb⟩ := preservation_aux F Γ cs env hE b tx hb
      refine ⟨.binop op a' b', by simp [TExpr.erase, ha', hb'], ?_, ?_⟩
      · intro v hv
        simp only [eval] at hv
        cases hea : eval F cs env a' with
        | ok va =>
          cases heb : eval F cs env b' with
          | ok vb =>
            simp only [hea, heb] at hv
            exact (binop_ty F op va vb tx t (htya va hea) (htyb vb heb) hop).1 v hv
          | err c => simp [hea, heb] at hv
          | panic s => simp [hea, heb] at hv
        | err c => simp [hea] at hv
        | panic s => simp [hea] at hv
      · intro s
        simp only [eval]
        cases hea : eval F cs env a' with
        | ok va =>
          cases heb : eval F cs env b' with
          | ok vb => exact (binop_ty F op va vb tx t (htya va hea) (htyb vb heb) hop).2 s
          | err c => simp
          | panic s' => exact absurd heb (hnpb s')
        | err c => simp
        | panic s' => exact absurd hea (hnpa s')
  | .ternary c l r, t, h => by
    cases h with
    | ternary hc hl hr =>
      obtain ⟨c', hc', htyc, hnpc⟩ := preservation_aux F Γ cs env hE c .int hc
      obtain ⟨l', hl', htyl, hnpl⟩ := preservation_aux F Γ cs env hE l t hl
      obtain ⟨r', hr', htyr, hnpr⟩ := preservation_aux F Γ cs env hE r t hr
      refine ⟨.ternary c' l' r', by simp [TExpr.erase, hc', hl', hr'], ?_, ?_⟩
      · intro v hv
        simp only [eval] at hv
        cases hec : eval F cs env c' with
        | ok vc =>
          obtain ⟨x, rfl⟩ := ty_int_cases vc (htyc vc hec)
          simp only [hec] at hv
          split at hv
          · exact htyr v hv
          · exact htyl v hv
        | err e => simp [hec] at hv
        | panic s => simp [hec] at hv
      · intro s
        simp only [eval]
        cases hec : eval F cs env c' with
        | ok vc =>
          obtain ⟨x, rfl⟩ := ty_int_cases vc (htyc vc hec)
          simp only
          split
          · exact hnpr s
          · exact hnpl s
        | err e => simp
        | panic s' => exact absurd hec (hnpc s')
  | .call f args, t, h => by cases h


/-- `compute_ty` agrees with `check_expr` on every accepted expression (no hypothesis on the
signatures is needed for this direction). -/
theorem computeTy_of_check (Γ : Ctx) : (e : TExpr) → (t : ETy) → check Γ e = .ok t →
    computeTy Γ e = .ok t
  | .litI v, t, h => by simp only [check] at h; cases h; rfl
  | .litF v, t, h => by simp only [check] at h; cases h; rfl
  | .litS v, t, h => by simp only [check] at h; cases h; rfl
  | .reg r sig, t, h => by
    simp only [check] at h
    split at h <;> cases h
    rename_i u hu
    simp [computeTy, checkVar_readTy hu]
  | .var n sig, t, h => by
    simp only [check] at h
    split at h <;> cases h
    rename_i u hu
    simp [computeTy, checkVar_readTy hu]
  | .unop op x, t, h => by
    simp only [check] at h
    split at h
    · rename_i tx hx
      rw [checkValue_ok] at hx
      have hcx := computeTy_of_check Γ x _ hx
      split at h
      · simp only [hcx, expectValue] at h
        simp only [computeTy, hcx, expectValue]
        exact h
      · cases h
      · cases h
    · cases h
    · cases h
  | .binop op a b, t, h => by
    simp only [check] at h
    split at h
    · rename_i ta ha
      rw [checkValue_ok] at ha
      have hca := computeTy_of_check Γ a _ ha
      split at h
      · split at h
        · simp only [hca, expectValue] at h
          simp only [computeTy, hca, expectValue]
          exact h
        · cases h
        · cases h
      · cases h
      · cases h
    · cases h
    · cases h
  | .ternary c l r, t, h => by
    simp only [check] at h
    split at h
    · rename_i tl hl
      rw [checkValue_ok] at hl
      have hcl := computeTy_of_check Γ l _ hl
      split at h
      · split at h
        · split at h
          · split at h
            · rename_i u hs
              cases h
              simp only [requireSame] at hs
              split at hs <;> cases hs
              simpa [computeTy] using hcl
            · cases h
            · cases h
          · cases h
          · cases h
        · cases h
        · cases h
      · cases h
      · cases h
    · cases h
    · cases h
  | .call f args, t, h => by
    simp only [check] at h
    split at h
    · cases h
    · rename_i ps hps
      split at h
      · split at h <;> cases h
        simp [computeTy, hps]
      · cases h

theorem bind_requireValue_ne_panic {x : Outcome ETy} {s : String}
    (h : ∀ s, x ≠ .panic s) : (x >>= requireValue) ≠ .panic s := by
  cases x with
  | ok e => cases e <;> simp [requireValue]
  | err c => simp
  | panic s' => exact absurd rfl (h s')

theorem binopCheck_ne_panic (op : BinOp) (a b : Ty) (s : String) : binopCheck op a b ≠ .panic s := by
  cases op <;> cases a <;> cases b <;>
    simp [binopCheck, BinOp.cls, requireNumeric, requireExact, requireSame]

theorem unopCheck_ne_panic (op : UnOp) (a : Ty) (s : String) : unopCheck op a ≠ .panic s := by
  cases op <;> cases a <;> simp [unopCheck, requireNumeric, requireExact]

theorem binopTyWith_ok_ne_panic (op : BinOp) (a : Ty) (s : String) :
    binopTyWith op (fun _ => .ok a) ≠ .panic s := by
  cases op <;> simp [binopTyWith, BinOp.cls]

theorem unopTyWith_ok_ne_panic (op : UnOp) (a : Ty) (s : String) :
    unopTyWith op (fun _ => .ok a) ≠ .panic s := by
  cases op <;> simp [unopTyWith]

mutual
/-- The type checker has no panic of its own on any expression (the `expect`s inside
`compute_ty` are only reached for operands that were already accepted). -/
theorem check_ne_panic (Γ : Ctx) : (e : TExpr) → (s : String) → check Γ e ≠ .panic s
  | .litI v, s => by simp [check]
  | .litF v, s => by simp [check]
  | .litS v, s => by simp [check]
  | .reg r sig, s => by
    simp only [check]
    cases hr : Γ.regTy r with
    | untyped => cases sig <;> simp [checkVar, readTy]
    | typed u => cases sig <;> cases u <;> simp [checkVar, readTy]
  | .var n sig, s => by
    simp only [check]
    cases hr : Γ.varTy n with
    | untyped => cases sig <;> simp [checkVar, readTy]
    | typed u => cases sig <;> cases u <;> simp [checkVar, readTy]
  | .unop op x, s => by
    simp only [check]
    intro h
    split at h
    · rename_i tx hx
      rw [checkValue_ok] at hx
      have hcx := computeTy_of_check Γ x _ hx
      split at h
      · simp only [hcx, expectValue] at h
        split at h <;> try (cases h)
        rename_i s' hs'
        exact unopTyWith_ok_ne_panic _ _ _ hs'
      · cases h
      · rename_i s' hs'; exact unopCheck_ne_panic _ _ _ hs'
    · cases h
    · rename_i s' hs'
      exact bind_requireValue_ne_panic (fun s => check_ne_panic Γ x s) hs'
  | .binop op a b, s => by
    simp only [check]
    intro h
    split at h
    · rename_i ta ha
      rw [checkValue_ok] at ha
      have hca := computeTy_of_check Γ a _ ha
      split at h
      · split at h
        · simp only [hca, expectValue] at h
          split at h <;> try (cases h)
          rename_i s' hs'
          exact binopTyWith_ok_ne_panic _ _ _ hs'
        · cases h
        · rename_i s' hs'; exact binopCheck_ne_panic _ _ _ _ hs'
      · cases h
      · rename_i s' hs'
        exact bind_requireValue_ne_panic (fun s => check_ne_panic Γ b s) hs'
    · cases h
    · rename_i s' hs'
      exact bind_requireValue_ne_panic (fun s => check_ne_panic Γ a s) hs'
  | .ternary c l r, s => by
    simp only [check]
    intro h
    split at h
    · split at h
      · split at h
        · split at h
          · split at h <;> try (cases h)
            rename_i s' hs'
            simp only [requireSame] at hs'
            split at hs' <;> cases hs'
          · cases h
          · rename_i s' hs'
            simp only [requireExact] at hs'
            split at hs' <;> cases hs'
        · cases h
        · rename_i s' hs'
          exact bind_requireValue_ne_panic (fun s => check_ne_panic Γ c s) hs'
      · cases h
      · rename_i s' hs'
        exact bind_requireValue_ne_panic (fun s => check_ne_panic Γ r s) hs'
    · cases h
    · rename_i s' hs'
      exact bind_requireValue_ne_panic (fun s => check_ne_panic Γ l s) hs'
  | .call f args, s => by
    simp only [check]
    intro h
    split at h
    · cases h
    · rename_i ps hps
      split at h
      · split at h
        · cases h
        · cases h
        · rename_i s' hs'; exact checkArgs_ne_panic Γ args ps s' hs'
      · cases h
theorem checkArgs_ne_panic (Γ : Ctx) : (as : TArgs) → (ps : List Param) → (s : String) →
    checkArgs Γ as ps ≠ .panic s
  | .nil, ps, s => by simp [checkArgs]
  | .cons a as, [], s => by
    simp only [checkArgs]
    intro h
    split at h
    · exact checkArgs_ne_panic Γ as [] s h
    · cases h
    · rename_i s' hs'; exact check_ne_panic Γ a s' hs'
  | .cons a as, p :: ps, s => by
    simp only [checkArgs]
    intro h
    split at h
    · split at h
      · exact checkArgs_ne_panic Γ as ps s h
      · cases h
      · rename_i s' hs'
        simp only [paramCheck] at hs'
        split at hs'
        · split at hs' <;> cases hs'
        · cases hs'
    · cases h
    · rename_i s' hs'
      exact bind_requireValue_ne_panic (fun s => check_ne_panic Γ a s) hs'
end

mutual
theorem subs_accepted (Γ : Ctx) : (e : TExpr) → (t : ETy) → check Γ e = .ok t →
    ∀ e' ∈ subsE e, ∃ t', check Γ e' = .ok t'
  | .litI v, t, h => by simp only [subsE, List.mem_singleton]; rintro e' rfl; exact ⟨t, h⟩
  | .litF v, t, h => by simp only [subsE, List.mem_singleton]; rintro e' rfl; exact ⟨t, h⟩
  | .litS v, t, h => by simp only [subsE, List.mem_singleton]; rintro e' rfl; exact ⟨t, h⟩
  | .reg r s, t, h => by simp only [subsE, List.mem_singleton]; rintro e' rfl; exact ⟨t, h⟩
  | .var r s, t, h => by simp only [subsE, List.mem_singleton]; rintro e' rfl; exact ⟨t, h⟩
  | .unop op x, t, h => by
    intro e' he'
    simp only [subsE, List.mem_cons] at he'
    rcases he' with rfl | he'
    · exact ⟨t, h⟩
    · simp only [check] at h
      split at h
      · rename_i tx hx
        rw [checkValue_ok] at hx
        exact subs_accepted Γ x _ hx e' he'
      · cases h
      · cases h
  | .binop op a b, t, h => by
    intro e' he'
    simp only [subsE, List.mem_cons, List.mem_append] at he'
    rcases he' with rfl | he' | he'
    · exact ⟨t, h⟩
    all_goals
      simp only [check] at h
      split at h
      · rename_i ta ha
        rw [checkValue_ok] at ha
        split at h
        · rename_i tb hb
          rw [checkValue_ok] at hb
          first
            | exact subs_accepted Γ a _ ha e' he'
            | exact subs_accepted Γ b _ hb e' he'
        · cases h
        · cases h
      · cases h
      · cases h
  | .ternary c l r, t, h => by
    intro e' he'
    simp only [subsE, List.mem_cons, List.mem_append] at he'
    rcases he' with rfl | (he' | he') | he'
    · exact ⟨t, h⟩
    all_goals
      simp only [check] at h
      split at h
      · rename_i tl hl
        rw [checkValue_ok] at hl
        split at h
        · rename_i tr hr
          rw [checkValue_ok] at hr
          split at h
          · rename_i tc hc
            rw [checkValue_ok] at hc
            first
              | exact subs_accepted Γ c _ hc e' he'
              | exact subs_accepted Γ l _ hl e' he'
              | exact subs_accepted Γ r _ hr e' he'
          · cases h
          · cases h
        · cases h
        · cases h
      · cases h
      · cases h
  | .call f args, t, h => by
    intro e' he'
    simp only [subsE, List.mem_cons] at he'
    rcases he' with rfl | he'
    · exact ⟨t, h⟩
    · simp only [check] at h
      split at h
      · cases h
      · rename_i ps hps
        split at h
        · split at h
          · rename_i hargs
            exact args_subs_accepted Γ args ps hargs e' he'
          · cases h
          · cases h
        · cases h
theorem args_subs_accepted (Γ : Ctx) : (as : TArgs) → (ps : List Param) →
    checkArgs Γ as ps = .ok () → ∀ e' ∈ subsA as, ∃ t', check Γ e' = .ok t'
  | .nil, ps, h => by simp [subsA]
  | .cons a as, [], h => by
    intro e' he'
    simp only [subsA, List.mem_append] at he'
    simp only [checkArgs] at h
    split at h
    · rename_i ta ha
      rcases he' with he' | he'
      · exact subs_accepted Γ a _ ha e' he'
      · exact args_subs_accepted Γ as [] h e' he'
    · cases h
    · cases h
  | .cons a as, p :: ps, h => by
    intro e' he'
    simp only [subsA, List.mem_append] at he'
    simp only [checkArgs] at h
    split at h
    · rename_i ta ha
      rw [checkValue_ok] at ha
      split at h
      · rcases he' with he' | he'
        · exact subs_accepted Γ a _ ha e' he'
        · exact args_subs_accepted Γ as ps h e' he'
      · cases h
      · cases h
    · cases h
    · cases h
end


end TruthModel.C09
