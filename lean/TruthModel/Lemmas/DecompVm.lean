/-
C07, semantic half, layer 1: the flat machine `Decomp.run` only depends on the *resolved code* of a
program: the non-label statements in order, every jump resolved to the code index its label stands
in front of, `unless (a op b)` normalised to `if (a negop b)`.  Two programs with the same resolved
code run identically (`run_congr`).
-/
import TruthModel.Model.DecompSem
namespace TruthModel.Decomp
open List

/-! ### resolved code -/

def labOf : Leaf → Option Nat
  | (_, .label l) => some l
  | _ => none

def isLab (x : Leaf) : Bool := (labOf x).isSome

/-- the statements that are not label definitions -/
def code (p : List Leaf) : List Leaf := p.filter (fun x => !isLab x)

/-- code index of the first definition of `l` (counting from `k`) -/
def ctgtFrom (l : Nat) : List Leaf → Nat → Option Nat
  | [], _ => none
  | x :: rest, k =>
    match labOf x with
    | some l' => if l = l' then some k else ctgtFrom l rest k
    | none => ctgtFrom l rest (k + 1)

def ctgt (p : List Leaf) (l : Nat) : Option Nat := ctgtFrom l p 0

/-- the running time after a statement -/
def timeStep : Leaf → Int → Int
  | (_, .absTime t), _ => t
  | (_, .relTime d), c => c + d
  | _, c => c

def curAfter : List Leaf → Int → Int
  | [], c => c
  | x :: rest, c => curAfter rest (timeStep x c)

def bump (t : Int) (st : VmState) : VmState :=
  if st.time < t then { st with time := t, realTime := st.realTime + (t - st.time) } else st

def tagOff (env : VmEnv) (tag : Option String) : Bool :=
  match tag with | some s => !env.tagOn s | none => false

/-- what `step` does to a statement that is switched on, the jump action abstracted -/
def execOn (env : VmEnv) (jmp : VmState → Jump → StepResult) (pc : Nat) (a : Atom) (st : VmState) : StepResult :=
  match a with
  | .jump j => jmp st j
  | .condJump kw c j =>
    if ((evalExpr env st c).1 != 0) == (kw == .if_) then jmp (evalExpr env st c).2 j
    else .next (pc + 1) (evalExpr env st c).2
  | .ins op args =>
    .next (pc + 1) { (evalArgs env st args).2 with
      log := (evalArgs env st args).2.log ++ [((evalArgs env st args).2.realTime, op, (evalArgs env st args).1)] }
  | .set r e =>
    .next (pc + 1) { (evalExpr env st e).2 with
      regs := fun x => if x = r then (evalExpr env st e).1 else (evalExpr env st e).2.regs x }
  | _ => .next (pc + 1) st

/-- what `step` does after the time bump -/
def exec (env : VmEnv) (jmp : VmState → Jump → StepResult) (pc : Nat) (x : Leaf) (st : VmState) : StepResult :=
  if tagOff env x.1 then .next (pc + 1) st else execOn env jmp pc x.2 st

theorem exec_mk (env : VmEnv) (jmp : VmState → Jump → StepResult) (pc : Nat) (tag : Option String) (a : Atom)
    (st : VmState) : exec env jmp pc (tag, a) st =
      if tagOff env tag then .next (pc + 1) st else execOn env jmp pc a st := rfl

theorem step_eq (env : VmEnv) (prog : List Leaf) (times : List Int) (pc : Nat) (st : VmState) :
    step env prog times pc st =
      match prog[pc]? with
      | none => .stuck
      | some x => exec env (fun st j => doJump prog times st pc j) pc x (bump (times.getD pc 0) st) := by
  unfold step
  cases h : prog[pc]? with
  | none => rfl
  | some x =>
    obtain ⟨tag, a⟩ := x
    cases a <;> cases tag <;> rfl

/-- a jump in resolved code: the destination is a code index -/
def doJumpR (code : List Leaf) (st : VmState) : Jump → StepResult
  | .brk => .stuck
  | .goto k t => .next k (bump (curAfter (code.take k) 0) { st with time := t.getD (curAfter (code.take k) 0) })

def stepR (env : VmEnv) (code : List Leaf) (pc : Nat) (st : VmState) : StepResult :=
  match code[pc]? with
  | none => .stuck
  | some x => exec env (doJumpR code) pc x (bump (timeStep x (curAfter (code.take pc) 0)) st)

/-- the machine on resolved code -/
def runR (env : VmEnv) (code : List Leaf) : Nat → Nat → VmState → Option VmState
  | 0, _, _ => none
  | fuel + 1, pc, st =>
    if pc ≥ code.length then some st else
    match stepR env code pc st with
    | .stuck => none
    | .next pc' st' => runR env code fuel pc' st'

def rj (tgt : Nat → Option Nat) : Jump → Jump
  | .goto l t => match tgt l with | some k => .goto k t | none => .brk
  | .brk => .brk

/-- `unless (a op b)` is `if (a negop b)` -/
def normCond : Kw → Expr → Kw × Expr
  | .unless, .bin op a b =>
    match op.negate with
    | some nop => (.if_, .bin nop a b)
    | none => (.unless, .bin op a b)
  | kw, c => (kw, c)

def rAtom (tgt : Nat → Option Nat) : Atom → Atom
  | .jump j => .jump (rj tgt j)
  | .condJump kw c j => .condJump (normCond kw c).1 (normCond kw c).2 (rj tgt j)
  | a => a

def rLeaf (tgt : Nat → Option Nat) (x : Leaf) : Leaf := (x.1, rAtom tgt x.2)

/-- the resolved code of a flat program -/
def resolve (p : List Leaf) : List Leaf := (code p).map (rLeaf (ctgt p))

/-! ### basic facts -/

theorem isLab_label (d : Option String) (l : Nat) : isLab (d, .label l) = true := rfl

theorem timeStep_lab {x : Leaf} (h : isLab x = true) (c : Int) : timeStep x c = c := by
  obtain ⟨d, a⟩ := x
  cases a <;> first | rfl | (simp [isLab, labOf] at h)

theorem timeStep_rLeaf (tgt : Nat → Option Nat) (x : Leaf) (c : Int) : timeStep (rLeaf tgt x) c = timeStep x c := by
  obtain ⟨d, a⟩ := x
  cases a <;> rfl

theorem isLab_rLeaf (tgt : Nat → Option Nat) (x : Leaf) : isLab (rLeaf tgt x) = isLab x := by
  obtain ⟨d, a⟩ := x
  cases a <;> rfl

@[simp] theorem code_nil : code [] = [] := rfl
theorem code_append (p q : List Leaf) : code (p ++ q) = code p ++ code q := by simp [code]
theorem code_cons_lab {x : Leaf} (h : isLab x = true) (p : List Leaf) : code (x :: p) = code p := by
  simp [code, h]
theorem code_cons_code {x : Leaf} (h : isLab x = false) (p : List Leaf) : code (x :: p) = x :: code p := by
  simp [code, h]

theorem curAfter_append (p q : List Leaf) (c : Int) : curAfter (p ++ q) c = curAfter q (curAfter p c) := by
  induction p generalizing c with
  | nil => rfl
  | cons x xs ih => simp [curAfter, ih]

theorem curAfter_code (p : List Leaf) (c : Int) : curAfter (code p) c = curAfter p c := by
  induction p generalizing c with
  | nil => rfl
  | cons x xs ih =>
    cases h : isLab x with
    | true => rw [code_cons_lab h, curAfter, timeStep_lab h, ih]
    | false => rw [code_cons_code h, curAfter, curAfter, ih]

theorem curAfter_map_rLeaf (tgt : Nat → Option Nat) (p : List Leaf) (c : Int) :
    curAfter (p.map (rLeaf tgt)) c = curAfter p c := by
  induction p generalizing c with
  | nil => rfl
  | cons x xs ih => simp [curAfter, timeStep_rLeaf, ih]

theorem stmtTimes_cons (x : Leaf) (rest : List Leaf) (c : Int) :
    stmtTimes (x :: rest) c = timeStep x c :: stmtTimes rest (timeStep x c) := by
  obtain ⟨d, a⟩ := x
  cases a <;> rfl

theorem stmtTimes_getD : ∀ (p : List Leaf) (c : Int) (i : Nat) (x : Leaf), p[i]? = some x →
    (stmtTimes p c).getD i 0 = timeStep x (curAfter (p.take i) c)
  | [], _, _, _, h => by simp at h
  | y :: ys, c, 0, x, h => by
    simp at h; subst h
    simp [stmtTimes_cons, curAfter]
  | y :: ys, c, i + 1, x, h => by
    have := stmtTimes_getD ys (timeStep y c) i x (by simpa using h)
    simpa [stmtTimes_cons, curAfter] using this

/-- `(code p).take (number of code statements before i) = code (p.take i)` -/
theorem code_take (p : List Leaf) (i : Nat) : (code p).take (code (p.take i)).length = code (p.take i) := by
  conv => lhs; rw [← List.take_append_drop i p, code_append]
  simp

theorem code_getElem {p : List Leaf} {i : Nat} {x : Leaf} (h : p[i]? = some x) (hx : isLab x = false) :
    (code p)[(code (p.take i)).length]? = some x := by
  have hi : i < p.length := by
    rcases Nat.lt_or_ge i p.length with h' | h'
    · exact h'
    · rw [List.getElem?_eq_none h'] at h; cases h
  have hd : p.drop i = x :: p.drop (i + 1) := by
    rw [List.drop_eq_getElem_cons hi]
    congr 1
    rw [List.getElem?_eq_getElem hi] at h
    exact Option.some.inj h
  have hp : code p = code (p.take i) ++ x :: code (p.drop (i + 1)) := by
    conv => lhs; rw [← List.take_append_drop i p, code_append, hd, code_cons_code hx]
  rw [hp]; simp

theorem take_succ_of_getElem {α} {p : List α} {i : Nat} {x : α} (h : p[i]? = some x) : p.take (i + 1) = p.take i ++ [x] := by
  rw [List.take_add_one, h]; rfl

theorem findLabel_cons (l : Nat) (x : Leaf) (rest : List Leaf) (i : Nat) :
    findLabel l (x :: rest) i =
      match labOf x with
      | some l' => if l = l' then some i else findLabel l rest (i + 1)
      | none => findLabel l rest (i + 1) := by
  obtain ⟨d, a⟩ := x
  cases a <;> rfl

/-- `findLabel` and `ctgtFrom` find the same definition -/
theorem findLabel_ctgt (l : Nat) : ∀ (p : List Leaf) (j k : Nat),
    (findLabel l p j = none → ctgtFrom l p k = none) ∧
    (∀ i, findLabel l p j = some i → j ≤ i ∧ (∃ x, p[i - j]? = some x ∧ isLab x = true) ∧
        ctgtFrom l p k = some (k + (code (p.take (i - j))).length))
  | [], j, k => ⟨fun _ => rfl, fun i h => by simp [findLabel] at h⟩
  | x :: rest, j, k => by
    rw [findLabel_cons]
    cases hx : labOf x with
    | some l' =>
      have hlab : isLab x = true := by simp [isLab, hx]
      have hc : ctgtFrom l (x :: rest) k = if l = l' then some k else ctgtFrom l rest k := by
        simp [ctgtFrom, hx]
      rw [hc]
      dsimp only
      obtain ⟨ih0, ih1⟩ := findLabel_ctgt l rest (j + 1) k
      by_cases hl : l = l'
      · simp only [hl, if_true]
        refine ⟨fun h => (by cases h), fun i h => ?_⟩
        cases h
        exact ⟨Nat.le_refl _, ⟨x, by simp, hlab⟩, by simp⟩
      · simp only [hl, if_false]
        refine ⟨ih0, fun i h => ?_⟩
        obtain ⟨h1, ⟨y, h2, h3⟩, h4⟩ := ih1 i h
        have e : i - j = (i - (j + 1)) + 1 := by omega
        refine ⟨by omega, ⟨y, by rw [e]; simpa using h2, h3⟩, ?_⟩
        rw [h4, e, List.take_succ_cons, code_cons_lab hlab]
    | none =>
      have hlab : isLab x = false := by simp [isLab, hx]
      have hc : ctgtFrom l (x :: rest) k = ctgtFrom l rest (k + 1) := by
        simp [ctgtFrom, hx]
      rw [hc]
      dsimp only
      obtain ⟨ih0, ih1⟩ := findLabel_ctgt l rest (j + 1) (k + 1)
      refine ⟨ih0, fun i h => ?_⟩
      obtain ⟨h1, ⟨y, h2, h3⟩, h4⟩ := ih1 i h
      have e : i - j = (i - (j + 1)) + 1 := by omega
      refine ⟨by omega, ⟨y, by rw [e]; simpa using h2, h3⟩, ?_⟩
      rw [h4, e, List.take_succ_cons, code_cons_code hlab]
      simp; omega

/-! ### evaluation does not touch the time -/

theorem evalOperand_time (env : VmEnv) (st : VmState) (a : Operand) :
    (evalOperand env st a).2.time = st.time ∧ (evalOperand env st a).2.realTime = st.realTime ∧
    (evalOperand env st a).2.log = st.log := by
  cases a <;> exact ⟨rfl, rfl, rfl⟩

theorem evalExpr_time (env : VmEnv) (st : VmState) (e : Expr) :
    (evalExpr env st e).2.time = st.time := by
  cases e with
  | val a => exact (evalOperand_time env st a).1
  | bin op a b =>
    simp only [evalExpr]
    rw [(evalOperand_time env _ b).1, (evalOperand_time env st a).1]

theorem evalArgs_time (env : VmEnv) : ∀ (st : VmState) (as : List Operand), (evalArgs env st as).2.time = st.time
  | st, [] => rfl
  | st, a :: as => by
    simp only [evalArgs]
    rw [evalArgs_time env _ as, (evalOperand_time env st a).1]

/-! ### `unless (a op b)` = `if (a negop b)` -/

theorem b2i_ne_zero (b : Bool) : (b2i b != 0) = b := by cases b <;> rfl

theorem negate_sound {op nop : BinOp} (h : op.negate = some nop) (x y : Int32) :
    (evalBin nop x y != 0) = !(evalBin op x y != 0) := by
  cases op <;> simp only [BinOp.negate, Option.some.injEq, reduceCtorEq] at h <;> subst h <;>
    simp only [evalBin, b2i_ne_zero]
  · simp [bne]
  · simp [bne]
  · rw [← decide_not]; congr 1; simp [Int32.not_lt]
  · rw [← decide_not]; congr 1; simp [Int32.not_le]
  · rw [← decide_not]; congr 1; simp [Int32.not_lt]
  · rw [← decide_not]; congr 1; simp [Int32.not_le]

theorem normCond_if (c : Expr) : normCond .if_ c = (.if_, c) := by
  unfold normCond; split <;> first | rfl | (rename_i h; cases h)

theorem negate_negate {op nop : BinOp} (h : op.negate = some nop) : nop.negate = some op := by
  cases op <;> simp only [BinOp.negate, Option.some.injEq, reduceCtorEq] at h <;> subst h <;> rfl

theorem normCond_unless_neg {op nop : BinOp} (h : op.negate = some nop) (a b : Operand) :
    normCond .unless (.bin nop a b) = (.if_, .bin op a b) := by
  simp only [normCond, negate_negate h]

theorem normCond_sound (env : VmEnv) (st : VmState) (kw : Kw) (c : Expr) :
    (evalExpr env st (normCond kw c).2).2 = (evalExpr env st c).2 ∧
    (((evalExpr env st (normCond kw c).2).1 != 0) == ((normCond kw c).1 == .if_)) =
      (((evalExpr env st c).1 != 0) == (kw == .if_)) := by
  unfold normCond
  split
  · rename_i op a b
    split
    · rename_i nop hneg
      simp only [evalExpr]
      refine ⟨trivial, ?_⟩
      rw [negate_sound hneg]
      cases (evalBin op (evalOperand env st a).1 (evalOperand env (evalOperand env st a).2 b).1 != 0) <;> rfl
    · exact ⟨rfl, rfl⟩
  · exact ⟨rfl, rfl⟩

/-! ### the flat machine and the machine on resolved code simulate each other -/

theorem bump_of_le {t : Int} {st : VmState} (h : t ≤ st.time) : bump t st = st := by
  unfold bump; rw [if_neg (by omega)]

theorem bump_time_ge (t : Int) (st : VmState) : t ≤ (bump t st).time := by
  unfold bump; split
  · exact Int.le_refl _
  · omega

theorem bump_idem (t : Int) (st : VmState) : bump t (bump t st) = bump t st := bump_of_le (bump_time_ge t st)

/-- configurations of the two machines that correspond -/
def Rel (prog : List Leaf) (pc : Nat) (st : VmState) (k : Nat) (st' : VmState) : Prop :=
  k = (code (prog.take pc)).length ∧ st' = bump (curAfter (prog.take pc) 0) st ∧
  ((∃ x, prog[pc]? = some x ∧ isLab x = true) ∨ curAfter (prog.take pc) 0 ≤ st.time)

def RelRes (prog : List Leaf) : StepResult → StepResult → Prop
  | .stuck, .stuck => True
  | .next pc st, .next k st' => Rel prog pc st k st'
  | _, _ => False

theorem resolve_length (p : List Leaf) : (resolve p).length = (code p).length := by simp [resolve]

theorem resolve_take (p : List Leaf) (i : Nat) :
    (resolve p).take (code (p.take i)).length = (code (p.take i)).map (rLeaf (ctgt p)) := by
  unfold resolve
  rw [← List.map_take, code_take]

theorem resolve_cur (p : List Leaf) (i : Nat) :
    curAfter ((resolve p).take (code (p.take i)).length) 0 = curAfter (p.take i) 0 := by
  rw [resolve_take, curAfter_map_rLeaf, curAfter_code]

theorem resolve_getElem {p : List Leaf} {i : Nat} {x : Leaf} (h : p[i]? = some x) (hx : isLab x = false) :
    (resolve p)[(code (p.take i)).length]? = some (rLeaf (ctgt p) x) := by
  unfold resolve
  rw [List.getElem?_map, code_getElem h hx]; rfl

theorem next_rel {prog : List Leaf} {pc : Nat} {x : Leaf} (hx : prog[pc]? = some x) (hc : isLab x = false)
    {s : VmState} (hs : timeStep x (curAfter (prog.take pc) 0) ≤ s.time) :
    Rel prog (pc + 1) s ((code (prog.take pc)).length + 1) s := by
  have ht := take_succ_of_getElem hx
  have hcur : curAfter (prog.take (pc + 1)) 0 = timeStep x (curAfter (prog.take pc) 0) := by
    rw [ht, curAfter_append]; rfl
  refine ⟨?_, ?_, .inr ?_⟩
  · rw [ht, code_append, code_cons_code hc]; simp
  · rw [hcur, bump_of_le hs]
  · rw [hcur]; exact hs

theorem jump_rel (prog : List Leaf) (pc : Nat) (s : VmState) (j : Jump) :
    RelRes prog (doJump prog (stmtTimes prog 0) s pc j) (doJumpR (resolve prog) s (rj (ctgt prog) j)) := by
  cases j with
  | brk => trivial
  | goto l t =>
    obtain ⟨h0, h1⟩ := findLabel_ctgt l prog 0 0
    cases hf : findLabel l prog 0 with
    | none =>
      have : ctgt prog l = none := h0 hf
      simp only [doJump, hf, rj, this, doJumpR]
      trivial
    | some i =>
      obtain ⟨_, ⟨y, hy, hlab⟩, hc⟩ := h1 i hf
      simp only [Nat.sub_zero, Nat.zero_add] at hy hc
      have : ctgt prog l = some (code (prog.take i)).length := hc
      simp only [doJump, hf, rj, this, doJumpR, RelRes]
      have ht : (stmtTimes prog 0).getD i 0 = curAfter (prog.take i) 0 := by
        rw [stmtTimes_getD prog 0 i y hy, timeStep_lab hlab]
      rw [resolve_cur, ht]
      exact ⟨rfl, rfl, .inl ⟨y, hy, hlab⟩⟩

theorem exec_rel (env : VmEnv) (prog : List Leaf) {pc : Nat} {x : Leaf} (hx : prog[pc]? = some x)
    (hc : isLab x = false) (s : VmState) (hs : timeStep x (curAfter (prog.take pc) 0) ≤ s.time) :
    RelRes prog (exec env (fun st j => doJump prog (stmtTimes prog 0) st pc j) pc x s)
      (exec env (doJumpR (resolve prog)) (code (prog.take pc)).length (rLeaf (ctgt prog) x) s) := by
  obtain ⟨tag, a⟩ := x
  rw [show rLeaf (ctgt prog) (tag, a) = (tag, rAtom (ctgt prog) a) from rfl, exec_mk, exec_mk]
  by_cases ht : tagOff env tag = true
  · rw [if_pos ht, if_pos ht]; exact next_rel hx hc hs
  · rw [if_neg ht, if_neg ht]
    cases a with
    | label l => simp [isLab, labOf] at hc
    | jump j => exact jump_rel prog pc s j
    | condJump kw c j =>
      simp only [rAtom, execOn]
      obtain ⟨e1, e2⟩ := normCond_sound env s kw c
      rw [e1, e2]
      split
      · exact jump_rel prog pc _ j
      · exact next_rel hx hc (by rw [evalExpr_time]; exact hs)
    | ins op args => exact next_rel hx hc (by simp only [evalArgs_time]; exact hs)
    | set r e => exact next_rel hx hc (by simp only [evalExpr_time]; exact hs)
    | interrupt n => exact next_rel hx hc hs
    | absTime t => exact next_rel hx hc hs
    | relTime d => exact next_rel hx hc hs

theorem rel_lab_step {prog : List Leaf} {pc k : Nat} {st st' : VmState} {x : Leaf} (hx : prog[pc]? = some x)
    (hl : isLab x = true) (h : Rel prog pc st k st') (env : VmEnv) :
    step env prog (stmtTimes prog 0) pc st = .next (pc + 1) (bump (curAfter (prog.take pc) 0) st) ∧
    Rel prog (pc + 1) (bump (curAfter (prog.take pc) 0) st) k st' := by
  obtain ⟨hk, hst, _⟩ := h
  have ht := take_succ_of_getElem hx
  have hcur : curAfter (prog.take (pc + 1)) 0 = curAfter (prog.take pc) 0 := by
    rw [ht, curAfter_append]; simp [curAfter, timeStep_lab hl]
  constructor
  · rw [step_eq, hx]
    dsimp only
    rw [stmtTimes_getD prog 0 pc x hx, timeStep_lab hl]
    obtain ⟨tag, a⟩ := x
    cases a <;> first | (simp [isLab, labOf] at hl; done) | skip
    unfold exec
    split <;> rfl
  · refine ⟨?_, ?_, .inr ?_⟩
    · rw [ht, code_append, code_cons_lab hl]; simpa using hk
    · rw [hcur, bump_idem]; exact hst
    · rw [hcur]; exact bump_time_ge _ _

theorem rel_code_step {prog : List Leaf} {pc k : Nat} {st st' : VmState} {x : Leaf} (hx : prog[pc]? = some x)
    (hl : isLab x = false) (h : Rel prog pc st k st') (env : VmEnv) :
    st' = st ∧ k < (resolve prog).length ∧
    RelRes prog (step env prog (stmtTimes prog 0) pc st) (stepR env (resolve prog) k st') := by
  obtain ⟨hk, hst, hor⟩ := h
  have hle : curAfter (prog.take pc) 0 ≤ st.time := by
    rcases hor with ⟨y, hy, hyl⟩ | h
    · rw [hx] at hy; cases hy; rw [hl] at hyl; cases hyl
    · exact h
  have hst' : st' = st := by rw [hst, bump_of_le hle]
  have hg := resolve_getElem hx hl
  rw [← hk] at hg
  refine ⟨hst', ?_, ?_⟩
  · rcases Nat.lt_or_ge k (resolve prog).length with h | h
    · exact h
    · rw [List.getElem?_eq_none h] at hg; cases hg
  · rw [step_eq, hx, stepR, hg, hst']
    dsimp only
    rw [timeStep_rLeaf, stmtTimes_getD prog 0 pc x hx, hk, resolve_cur]
    exact exec_rel env prog hx hl _ (bump_time_ge _ _)

theorem rel_end {prog : List Leaf} {pc k : Nat} {st st' : VmState} (hpc : pc ≥ prog.length) (h : Rel prog pc st k st') :
    st' = st ∧ k ≥ (resolve prog).length := by
  obtain ⟨hk, hst, hor⟩ := h
  have hnone : prog[pc]? = none := List.getElem?_eq_none hpc
  constructor
  · rcases hor with ⟨y, hy, _⟩ | h
    · rw [hnone] at hy; cases hy
    · rw [hst, bump_of_le h]
  · rw [hk, List.take_of_length_le hpc, resolve_length]; exact Nat.le_refl _

theorem run_to_runR (env : VmEnv) (prog : List Leaf) : ∀ (fuel pc : Nat) (st : VmState) (k : Nat) (st' r : VmState),
    Rel prog pc st k st' → runFlat env prog (stmtTimes prog 0) fuel pc st = some r →
    ∃ fuel', runR env (resolve prog) fuel' k st' = some r
  | 0, _, _, _, _, _, _, h => by simp [runFlat] at h
  | fuel + 1, pc, st, k, st', r, hrel, h => by
    unfold runFlat at h
    split at h
    · rename_i hpc
      cases h
      obtain ⟨e, hk⟩ := rel_end hpc hrel
      exact ⟨1, by unfold runR; rw [if_pos hk, e]⟩
    · rename_i hpc
      have hlt : pc < prog.length := by omega
      have hx : prog[pc]? = some prog[pc] := List.getElem?_eq_getElem hlt
      cases hl : isLab prog[pc] with
      | true =>
        obtain ⟨hs, hrel'⟩ := rel_lab_step hx hl hrel env
        rw [hs] at h
        exact run_to_runR env prog fuel _ _ _ _ _ hrel' h
      | false =>
        obtain ⟨e, hk, hres⟩ := rel_code_step hx hl hrel env
        cases hs : step env prog (stmtTimes prog 0) pc st with
        | stuck => rw [hs] at h; cases h
        | next pc1 st1 =>
          rw [hs] at h hres
          cases hr : stepR env (resolve prog) k st' with
          | stuck => rw [hr] at hres; exact absurd hres id
          | next k1 st1' =>
            rw [hr] at hres
            obtain ⟨f, hf⟩ := run_to_runR env prog fuel _ _ _ _ _ hres h
            exact ⟨f + 1, by unfold runR; rw [if_neg (by omega), hr]; exact hf⟩

theorem runR_to_run (env : VmEnv) (prog : List Leaf) : ∀ (fuel m pc : Nat) (st : VmState) (k : Nat) (st' r : VmState),
    prog.length - pc ≤ m → Rel prog pc st k st' → runR env (resolve prog) fuel k st' = some r →
    ∃ fuel', runFlat env prog (stmtTimes prog 0) fuel' pc st = some r
  | 0, _, _, _, _, _, _, _, _, h => by simp [runR] at h
  | fuel + 1, m, pc, st, k, st', r, hm, hrel, h => by
    by_cases hpc : pc ≥ prog.length
    · obtain ⟨e, hk⟩ := rel_end hpc hrel
      unfold runR at h
      rw [if_pos hk] at h
      cases h
      exact ⟨1, by unfold runFlat; rw [if_pos hpc, e]⟩
    · have hlt : pc < prog.length := by omega
      have hx : prog[pc]? = some prog[pc] := List.getElem?_eq_getElem hlt
      cases hl : isLab prog[pc] with
      | true =>
        obtain ⟨hs, hrel'⟩ := rel_lab_step hx hl hrel env
        cases m with
        | zero => omega
        | succ m =>
          obtain ⟨f, hf⟩ := runR_to_run env prog (fuel + 1) m (pc + 1) _ k st' r (by omega) hrel' h
          exact ⟨f + 1, by unfold runFlat; rw [if_neg hpc, hs]; exact hf⟩
      | false =>
        obtain ⟨e, hk, hres⟩ := rel_code_step hx hl hrel env
        unfold runR at h
        rw [if_neg (by omega)] at h
        cases hr : stepR env (resolve prog) k st' with
        | stuck => rw [hr] at h; cases h
        | next k1 st1' =>
          rw [hr] at h hres
          cases hs : step env prog (stmtTimes prog 0) pc st with
          | stuck => rw [hs] at hres; exact absurd hres id
          | next pc1 st1 =>
            rw [hs] at hres
            obtain ⟨f, hf⟩ := runR_to_run env prog fuel prog.length pc1 st1 k1 st1' r (by omega) hres h
            exact ⟨f + 1, by unfold runFlat; rw [if_neg hpc, hs]; exact hf⟩
termination_by fuel m => (fuel, m)

theorem rel_start (prog : List Leaf) {st : VmState} (h0 : 0 ≤ st.time) : Rel prog 0 st 0 st :=
  ⟨by simp, by simp [curAfter, bump_of_le h0], .inr (by simpa [curAfter] using h0)⟩

/-- the flat machine computes what the machine on the resolved code computes -/
theorem run_iff_runR (env : VmEnv) (prog : List Leaf) {st : VmState} (h0 : 0 ≤ st.time) (r : VmState) :
    (∃ fuel, run env prog fuel st = some r) ↔ (∃ fuel, runR env (resolve prog) fuel 0 st = some r) := by
  constructor
  · rintro ⟨fuel, h⟩
    exact run_to_runR env prog fuel 0 st 0 st r (rel_start prog h0) h
  · rintro ⟨fuel, h⟩
    exact runR_to_run env prog fuel prog.length 0 st 0 st r (by omega) (rel_start prog h0) h

/-- programs with the same resolved code run identically -/
theorem run_congr (env : VmEnv) {p q : List Leaf} (h : resolve p = resolve q) {st : VmState} (h0 : 0 ≤ st.time)
    (r : VmState) : (∃ fuel, run env p fuel st = some r) ↔ (∃ fuel, run env q fuel st = some r) := by
  rw [run_iff_runR env p h0, run_iff_runR env q h0, h]

end TruthModel.Decomp
