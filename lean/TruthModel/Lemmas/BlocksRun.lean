import TruthModel.Lemmas.BlocksSim
namespace TruthModel.Blocks

/-! ### the executable interpreter refines the relation (`Mode = none`: everything the VM does) -/

def Res.toOut : Res → Option Out
  | .done st _ => some (.done st)
  | .brk st _ => some (.brk st)
  | _ => none

theorem andThen_out {r : Res} {f : St → Nat → Res} {o : Out} (h : (r.andThen f).toOut = some o) :
    (∃ st1 it1, r = .brk st1 it1 ∧ o = .brk st1) ∨ ∃ st1 it1, r = .done st1 it1 ∧ (f st1 it1).toOut = some o := by
  cases r <;> simp [Res.andThen, Res.toOut] at h
  · exact Or.inr ⟨_, _, rfl, h⟩
  · exact Or.inl ⟨_, _, rfl, h.symm⟩

theorem loopThen_out {r : Res} {tE : Int} {f g : St → Nat → Res} {o : Out}
    (h : (r.loopThen tE f g).toOut = some o) :
    (∃ st1 it1, r = .done st1 it1 ∧ (f st1 it1).toOut = some o) ∨
    (∃ st1 it1, r = .brk st1 it1 ∧ (g (st1.setTime tE) it1).toOut = some o) := by
  cases r <;> simp [Res.loopThen, Res.toOut] at h
  · exact Or.inl ⟨_, _, rfl, h⟩
  · exact Or.inr ⟨_, _, rfl, h⟩

def SndL (m : Mode) (max fuel : Nat) : Prop := ∀ lt ss st it o, (runL m max fuel lt ss st it).toOut = some o → Big m (.seq lt ss) st o
def SndB (m : Mode) (max fuel : Nat) : Prop := ∀ lt b st it o, (runB m max fuel lt b st it).toOut = some o → Big m (.blk lt b) st o
def SndC (m : Mode) (max fuel : Nat) : Prop := ∀ lt ch st it o, (runC m max fuel lt ch st it).toOut = some o →
  match o with
  | .done st1 => ∀ ss r, Big m (.seq (endC lt ch) ss) st1 r → Big m (.chain lt ch ss) st r
  | .brk st1 => ∀ ss, Big m (.chain lt ch ss) st (.brk st1)
def SndI (m : Mode) (max fuel : Nat) : Prop := ∀ lt s k st it o, s.isLoop = true → (runIter m max fuel lt s k st it).toOut = some o →
  match o with
  | .done st1 => ∀ ss r, Big m (.seq (endL lt s.body) ss) st1 r → Big m (.iter lt s k ss) st r
  | .brk _ => False

theorem sndB_succ {m : Mode} {max fuel : Nat} (hL : SndL m max fuel) : SndB m max (fuel + 1) := by
  intro lt b st it o h
  simp only [runB] at h
  split at h
  · simp [Res.toOut] at h
  · split at h
    · simp [Res.toOut] at h
    · rename_i st0 hw
      rcases andThen_out h with ⟨st1, it1, hr, rfl⟩ | ⟨st1, it1, hr, h2⟩
      · exact Big.blkBrk lt b st st0 st1 hw (hL lt b st0 _ _ (by rw [hr]; rfl))
      · split at h2
        · simp [Res.toOut] at h2
        · split at h2
          · simp [Res.toOut] at h2
          · rename_i st2 hw2
            simp [Res.toOut] at h2
            subst h2
            exact Big.blk lt b st st0 st1 st2 hw (hL lt b st0 _ _ (by rw [hr]; rfl)) hw2

theorem sndC_succ {m : Mode} {max fuel : Nat} (hB : SndB m max fuel) (hC : SndC m max fuel) : SndC m max (fuel + 1) := by
  intro lt ch st it o h
  cases ch with
  | none =>
    simp only [runC, Res.toOut] at h
    cases h
    intro ss r hr
    exact Big.chainNone lt ss st r hr
  | els b =>
    simp only [runC] at h
    rcases andThen_out h with ⟨st1, it1, hr, rfl⟩ | ⟨st1, it1, hr, h2⟩
    · intro ss
      exact Big.chainElsBrk lt b ss st st1 (hB lt b _ _ _ (by rw [hr]; rfl))
    · simp [Res.toOut] at h2
      subst h2
      intro ss r hs
      exact Big.chainEls lt b ss st st1 r (hB lt b _ _ _ (by rw [hr]; rfl)) hs
  | elif isIf c thn rest =>
    simp only [runC] at h
    split at h
    · rename_i hc
      rcases andThen_out h with ⟨st1, it1, hr, rfl⟩ | ⟨st1, it1, hr, h2⟩
      · intro ss
        exact Big.chainTBrk lt isIf c thn rest ss st st1 hc (hB lt thn _ _ _ (by rw [hr]; rfl))
      · simp [Res.toOut] at h2
        subst h2
        intro ss r hs
        exact Big.chainT lt isIf c thn rest ss st st1 r hc (hB lt thn _ _ _ (by rw [hr]; rfl)) hs
    · rename_i hc
      have := hC (endL lt thn) rest st it o h
      cases o with
      | done st1 =>
        intro ss r hs
        exact Big.chainF lt isIf c thn rest ss st r hc (this ss r (by simpa [endC] using hs))
      | brk st1 =>
        intro ss
        exact Big.chainF lt isIf c thn rest ss st _ hc (this ss)


theorem sndI_succ {m : Mode} {max fuel : Nat} (hB : SndB m max fuel) (hI : SndI m max fuel) : SndI m max (fuel + 1) := by
  intro lt s k st it o hl h
  simp only [runIter] at h
  rcases loopThen_out h with ⟨st1, it1, hr, h2⟩ | ⟨st1, it1, hr, h2⟩
  · have hb := hB lt s.body st it _ (by rw [hr]; rfl)
    cases s <;> simp [Stmt.isLoop] at hl
    case loop b =>
      have := hI lt (.loop b) k _ _ o rfl h2
      cases o with
      | done st2 => intro ss r hs; exact Big.iter lt _ k ss st st1 r hb (Big.againLoop lt b k ss st1 r (this ss r hs))
      | brk _ => exact this
    case doWhile c b =>
      simp only [] at h2
      split at h2
      · rename_i hc
        have := hI lt (.doWhile c b) k _ _ o rfl h2
        cases o with
        | done st2 => intro ss r hs; exact Big.iter lt _ k ss st st1 r hb (Big.againDoT lt c b k ss st1 r hc (this ss r hs))
        | brk _ => exact this
      · rename_i hc
        simp [Res.toOut] at h2
        subst h2
        intro ss r hs
        exact Big.iter lt _ k ss st st1 r hb (Big.againDoF lt c b k ss st1 r (by simpa using hc) hs)
    case while_ c b =>
      simp only [] at h2
      split at h2
      · rename_i hc
        have := hI lt (.while_ c b) k _ _ o rfl h2
        cases o with
        | done st2 => intro ss r hs; exact Big.iter lt _ k ss st st1 r hb (Big.againWhT lt c b k ss st1 r hc (this ss r hs))
        | brk _ => exact this
      · rename_i hc
        simp [Res.toOut] at h2
        subst h2
        intro ss r hs
        exact Big.iter lt _ k ss st st1 r hb (Big.againWhF lt c b k ss st1 r (by simpa using hc) hs)
    case times clob count b =>
      cases clob with
      | none =>
        simp only [] at h2
        split at h2
        · rename_i hz
          simp [Res.toOut] at h2
          subst h2
          intro ss r hs
          exact Big.iter lt _ k ss st st1 r hb (Big.againTimesNEnd lt count b k ss st1 r hz hs)
        · rename_i hz
          have := hI lt (.times none count b) (k - 1) _ _ o rfl h2
          cases o with
          | done st2 => intro ss r hs; exact Big.iter lt _ k ss st st1 r hb (Big.againTimesN lt count b k ss st1 r hz (this ss r hs))
          | brk _ => exact this
      | some x =>
        simp only [] at h2
        split at h2
        · simp [Res.toOut] at h2
        · rename_i hmin
          split at h2
          · rename_i hz
            simp [Res.toOut] at h2
            subst h2
            intro ss r hs
            exact Big.iter lt _ k ss st st1 r hb (Big.againTimesSEnd lt x count b k ss st1 r hmin hz hs)
          · rename_i hz
            split at h2
            · simp [Res.toOut] at h2
            rename_i hg
            have := hI lt (.times (some x) count b) k _ _ o rfl h2
            cases o with
            | done st2 =>
              intro ss r hs
              refine Big.iter lt _ k ss st st1 r hb (Big.againTimesS lt x count b k ss st1 r hmin hz (fun hm => ?_) (this ss r hs))
              rcases Classical.em (0 < st1.regs x - 1) with h' | h'
              · exact h'
              · exact absurd ⟨hm, h'⟩ hg
            | brk _ => exact this
  · simp [Res.toOut] at h2
    subst h2
    intro ss r hs
    exact Big.iterBrk lt s k ss st st1 r (hB lt s.body st it _ (by rw [hr]; rfl)) hs


theorem int32_neg_of (n : Int32) (h1 : n ≤ 0) (h2 : n ≠ 0) : n < 0 := by
  rw [Int32.le_iff_toInt_le] at h1
  rw [Int32.lt_iff_toInt_lt]
  have : n.toInt ≠ (0 : Int32).toInt := fun e => h2 (Int32.toInt_inj.1 e)
  omega

theorem int32_pos_of (n : Int32) (h1 : ¬ n ≤ 0) : 0 < n := by
  rw [Int32.le_iff_toInt_le] at h1
  rw [Int32.lt_iff_toInt_lt]
  omega

theorem sndL_succ {m : Mode} {max fuel : Nat} (hL : SndL m max fuel) (hB : SndB m max fuel) (hC : SndC m max fuel) (hI : SndI m max fuel) :
    SndL m max (fuel + 1) := by
  intro lt ss st it o h
  cases ss with
  | nil => simp only [runL, Res.toOut] at h; cases h; exact Big.nil lt st
  | cons s ss =>
    simp only [runL] at h
    split at h
    · simp [Res.toOut] at h
    · split at h
      · simp [Res.toOut] at h
      · rename_i st0 hw
        cases s with
        | call op args => exact Big.simple lt _ ss st st0 _ o hw rfl (hL _ ss _ _ o h)
        | assign r e => exact Big.simple lt _ ss st st0 _ o hw rfl (hL _ ss _ _ o h)
        | tabs t => exact Big.simple lt _ ss st st0 _ o hw rfl (hL _ ss _ _ o h)
        | trel d => exact Big.simple lt _ ss st st0 _ o hw rfl (hL _ ss _ _ o h)
        | brk =>
          simp [Res.toOut] at h
          subst h
          exact Big.brk lt ss st st0 hw
        | cbrk isIf c =>
          simp only [] at h
          split at h
          · rename_i hc
            simp [Res.toOut] at h
            subst h
            exact Big.cbrkT lt isIf c ss st st0 hw hc
          · rename_i hc
            exact Big.cbrkF lt isIf c ss st st0 o hw hc (hL _ ss _ _ o h)
        | block b =>
          rcases andThen_out h with ⟨st1, it1, hr, rfl⟩ | ⟨st1, it1, hr, h2⟩
          · exact Big.blockBrk lt b ss st st0 st1 hw (hB lt b st0 _ _ (by rw [hr]; rfl))
          · exact Big.block lt b ss st st0 st1 o hw (hB lt b st0 _ _ (by rw [hr]; rfl)) (hL _ ss _ _ o h2)
        | cond ch =>
          rcases andThen_out h with ⟨st1, it1, hr, rfl⟩ | ⟨st1, it1, hr, h2⟩
          · have := hC lt ch st0 _ (.brk st1) (by rw [hr]; rfl)
            exact Big.cond lt ch ss st st0 _ hw (this ss)
          · have := hC lt ch st0 _ (.done st1) (by rw [hr]; rfl)
            exact Big.cond lt ch ss st st0 _ hw (this ss o (hL _ ss _ _ o h2))
        | loop b =>
          rcases andThen_out h with ⟨st1, it1, hr, rfl⟩ | ⟨st1, it1, hr, h2⟩
          · exact (hI lt (.loop b) 0 st0 _ (.brk st1) rfl (by rw [hr]; rfl)).elim
          · have := hI lt (.loop b) 0 st0 _ (.done st1) rfl (by rw [hr]; rfl)
            exact Big.loop lt b ss st st0 o hw (this ss o (hL _ ss _ _ o h2))
        | doWhile c b =>
          rcases andThen_out h with ⟨st1, it1, hr, rfl⟩ | ⟨st1, it1, hr, h2⟩
          · exact (hI lt (.doWhile c b) 0 st0 _ (.brk st1) rfl (by rw [hr]; rfl)).elim
          · have := hI lt (.doWhile c b) 0 st0 _ (.done st1) rfl (by rw [hr]; rfl)
            exact Big.doWhile lt c b ss st st0 o hw (this ss o (hL _ ss _ _ o h2))
        | while_ c b =>
          simp only [] at h
          split at h
          · rename_i hc
            rcases andThen_out h with ⟨st1, it1, hr, rfl⟩ | ⟨st1, it1, hr, h2⟩
            · exact (hI lt (.while_ c b) 0 st0 _ (.brk st1) rfl (by rw [hr]; rfl)).elim
            · have := hI lt (.while_ c b) 0 st0 _ (.done st1) rfl (by rw [hr]; rfl)
              exact Big.whileT lt c b ss st st0 o hw hc (this ss o (hL _ ss _ _ o h2))
          · rename_i hc
            exact Big.whileF lt c b ss st st0 o hw (by simpa using hc) (hL _ ss _ _ o h)
        | times clob count b =>
          cases clob with
          | none =>
            simp only [] at h
            split at h
            · simp [Res.toOut] at h
            rename_i hg
            split at h
            · rename_i hn
              by_cases hz : count.eval st0.regs = 0
              · exact Big.timesZ lt count b ss st st0 o hw hz (hL _ ss _ _ o h)
              · have hneg := int32_neg_of _ hn hz
                have hm : m = none := by
                  rcases Classical.em (m = none) with h' | h'
                  · exact h'
                  · exact absurd ⟨hneg, h'⟩ hg
                exact Big.timesNeg lt count b ss st st0 o hm hw hneg (hL _ ss _ _ o h)
            · rename_i hn
              rcases andThen_out h with ⟨st1, it1, hr, rfl⟩ | ⟨st1, it1, hr, h2⟩
              · exact (hI lt (.times none count b) _ _ _ (.brk st1) rfl (by rw [hr]; rfl)).elim
              · have := hI lt (.times none count b) _ _ _ (.done st1) rfl (by rw [hr]; rfl)
                exact Big.timesP lt count b ss st st0 o hw (int32_pos_of _ hn) (this ss o (hL _ ss _ _ o h2))
          | some x =>
            simp only [] at h
            split at h
            · rename_i hz
              exact Big.timesSZ lt x count b ss st st0 o hw hz (hL _ ss _ _ o h)
            · rename_i hz
              rcases andThen_out h with ⟨st1, it1, hr, rfl⟩ | ⟨st1, it1, hr, h2⟩
              · exact (hI lt (.times (some x) count b) _ _ _ (.brk st1) rfl (by rw [hr]; rfl)).elim
              · have := hI lt (.times (some x) count b) _ _ _ (.done st1) rfl (by rw [hr]; rfl)
                exact Big.timesSP lt x count b ss st st0 o hw hz (this ss o (hL _ ss _ _ o h2))

theorem snd_all (m : Mode) (max : Nat) : ∀ fuel, SndL m max fuel ∧ SndB m max fuel ∧ SndC m max fuel ∧ SndI m max fuel
  | 0 => by
    refine ⟨?_, ?_, ?_, ?_⟩
    · intro lt ss st it o h; simp [runL, Res.toOut] at h
    · intro lt b st it o h; simp [runB, Res.toOut] at h
    · intro lt ch st it o h; simp [runC, Res.toOut] at h
    · intro lt s k st it o _ h; simp [runIter, Res.toOut] at h
  | fuel + 1 => by
    obtain ⟨hL, hB, hC, hI⟩ := snd_all m max fuel
    exact ⟨sndL_succ hL hB hC hI, sndB_succ hL, sndC_succ hB hC, sndI_succ hB hI⟩

/-- **The executable interpreter refines the relation**: whatever `runSM m` (for `m = none` the function `runS` compared
with `AstVm` on every run) computes as a normal result is a derivation of `Big m`. -/
theorem runSM_sound (m : Mode) (max : Nat) (prog : List Stmt) (regs : Nat → Int32) (st' : St) (it' : Nat)
    (h : runSM m max prog regs = .done st' it') : Big m (.blk 0 prog) (St.init regs) (.done st') :=
  (snd_all m max _).2.1 0 prog _ _ _ (by unfold runSM at h; rw [h]; rfl)

end TruthModel.Blocks
